package main

// C04: the SQL proxy stores only protected forms and restores originals on read.
// Every scenario = one generated encryptor config + one fake database + up to three sessions through
// the REAL in-process PostgreSQL proxy (vh.PgRig).  Oracle classes: "plaintext-to-db",
// "uncovered-changed", "read-back", "non-owner-plaintext" (+ "short-values-row" for the known shape).
// Extended-protocol writes are generated over a table of placeholder numbering schemes x Bind format modes
// (see "placeholder numbering" below); statement 2 of every writer session walks that table systematically.

import (
	"bytes"
	"encoding/base64"
	"encoding/binary"
	"encoding/hex"
	"fmt"
	"os"
	"sort"
	"strconv"
	"strings"

	"acra-vh/vh"

	"github.com/cossacklabs/acra/crypto"
)

func init() { register("c04", "Model.RunProxy", runC04) }

const (
	connWriter = "client_a"
	connOwnerB = "client_b"
	connOther  = "client_x" // has keys, but other ones
	connNoKeys = "client_n" // no keys at all
)

type c04Col struct {
	name     string
	kind     string // id | plain | ab | as | search | mask
	clientID string // per-column client_id ("" = connection's)
	oid      uint32
}

func (c c04Col) protected() bool { return c.kind != "id" && c.kind != "plain" }
func (c c04Col) modelled() bool  { return c.kind != "search" && c.kind != "mask" }
func (c c04Col) env() byte {
	if c.kind == "as" {
		return crypto.AcraStructEnvelopeID
	}
	return crypto.AcraBlockEnvelopeID
}
func (c c04Col) owner(writer string) string {
	if c.clientID != "" {
		return c.clientID
	}
	return writer
}

type c04Table struct {
	name       string
	cols       []c04Col
	configured bool
}

func (t *c04Table) col(name string) *c04Col {
	for i := range t.cols {
		if t.cols[i].name == name {
			return &t.cols[i]
		}
	}
	return nil
}

type c04Cell struct {
	val    []byte
	marker []byte
	writer string
	leaked bool // already reported as stored in the clear: its later reads are consequences, not new violations
}

type c04Scenario struct {
	id     int
	tables []*c04Table
	yaml   string
	ks     *vh.MemKeystore
	ref    map[string]map[int]map[string]*c04Cell // table -> id -> column -> what the application wrote
	nextID int
	script []string // human readable replay
}

// masked columns: the rig shows owner reads of masked bytea columns coming back hex-encoded twice and
// sessions dropped with "encoding/hex: invalid byte" for binary result formats; not analysed in this
// round (C11 owns masking) - enable with VERIF_C04_MASKED=1 to reproduce.
var withMasked = os.Getenv("VERIF_C04_MASKED") != ""

// KNOWN FINDING (known_findings.json, class "placeholder-shared-by-two-columns"): one placeholder assigned to
// two DIFFERENT configured columns (`UPDATE t SET c1 = $1, c2 = $1`, `INSERT INTO t (id, c1, c2) VALUES (1, $1, $1)`).
// The encryptor documents that it cannot process it ("placeholders must map to columns uniquely"), OnBind
// answers ErrInconsistentPlaceholder and handleBindPacket forwards the Bind packet as it is (fail-open): the
// plaintext parameter reaches the database.  Generated deterministically in a few scenarios of every run
// (c04TwoColsScenario); such scenarios are oracle-only (the model has no placeholders).
const c04ClassTwoCols = "placeholder-shared-by-two-columns"

func c04TwoColsScenario(scn int) bool { return scn%20 == 14 || scn%20 == 15 }

func genTables(r *vh.Rng, rep *vh.Report, minProt int) []*c04Table {
	t := &c04Table{name: "t" + fmt.Sprint(r.Intn(3)), configured: true}
	t.cols = append(t.cols, c04Col{name: "id", kind: "id", oid: vh.OidInt4})
	n := 2 + r.Intn(3)
	hasProt := false
	for i := 0; i < n; i++ {
		c := c04Col{name: fmt.Sprintf("c%d", i), oid: vh.OidBytea}
		switch k := r.Intn(10); {
		case k < 3:
			c.kind, c.oid = "plain", vh.OidText
		case k < 6:
			c.kind = "ab"
		case k < 8:
			c.kind = "as"
		case k < 9 || !withMasked:
			c.kind = "search"
		default:
			c.kind = "mask"
		}
		if i == n-1 && !hasProt && !c.protected() {
			c.kind, c.oid = "ab", vh.OidBytea
		}
		if i >= n-minProt && !c.protected() { // the last minProt columns are protected
			c.kind, c.oid = "ab", vh.OidBytea
		}
		if c.protected() {
			hasProt = true
			if r.Intn(4) == 0 {
				c.clientID = connOwnerB
			}
		}
		rep.Count("col:" + c.kind)
		if c.clientID != "" {
			rep.Count("col:client_id-override")
		}
		t.cols = append(t.cols, c)
	}
	u := &c04Table{name: "u" + fmt.Sprint(r.Intn(3))}
	u.cols = append(u.cols, c04Col{name: "id", kind: "id", oid: vh.OidInt4})
	u.cols = append(u.cols, c04Col{name: "v", kind: "plain", oid: vh.OidText})
	u.cols = append(u.cols, c04Col{name: "w", kind: "plain", oid: vh.OidBytea})
	return []*c04Table{t, u}
}

func genYAML(tables []*c04Table) string {
	var sb strings.Builder
	sb.WriteString("schemas:\n")
	for _, t := range tables {
		if !t.configured {
			continue
		}
		sb.WriteString("  - table: " + t.name + "\n    columns:\n")
		for _, c := range t.cols {
			sb.WriteString("      - " + c.name + "\n")
		}
		sb.WriteString("    encrypted:\n")
		for _, c := range t.cols {
			if !c.protected() {
				continue
			}
			sb.WriteString("      - column: " + c.name + "\n")
			if c.clientID != "" {
				sb.WriteString("        client_id: " + c.clientID + "\n")
			}
			switch c.kind {
			case "ab":
				sb.WriteString("        crypto_envelope: acrablock\n")
			case "as":
				sb.WriteString("        crypto_envelope: acrastruct\n")
			case "search":
				sb.WriteString("        crypto_envelope: acrablock\n        searchable: true\n")
			case "mask":
				sb.WriteString("        crypto_envelope: acrablock\n        masking: \"xxxx\"\n        plaintext_length: 3\n        plaintext_side: left\n")
			}
		}
	}
	return sb.String()
}

const alnum = "abcdefghijklmnopqrstuvwxyzABCDEFGHIJKLMNOPQRSTUVWXYZ0123456789"

// c04GenValue: a value around a high-entropy marker; printable values can be written as plain literals.
func c04GenValue(r *vh.Rng, rep *vh.Report, text bool) (val, marker []byte) {
	n := 12 + r.Intn(9)
	printable := text || r.Intn(2) == 0
	if printable {
		marker = make([]byte, n)
		for i := range marker {
			marker[i] = alnum[r.Intn(len(alnum))]
		}
	} else {
		marker = r.Bytes(n)
	}
	val = append([]byte{}, marker...)
	switch r.Intn(6) {
	case 0:
		if printable {
			val = append([]byte("it's "), val...)
			rep.Count("value:quote")
		} else {
			val = append(r.Bytes(1+r.Intn(4)), val...)
		}
	case 1:
		if printable {
			val = append(val, []byte(" 100% ok")...)
		} else {
			val = append(val, r.Bytes(1+r.Intn(40))...)
		}
	case 2:
		if text {
			val = append(val, []byte(`\dir\101`)...)
			rep.Count("value:backslash")
		}
	}
	if printable {
		rep.Count("value:printable")
	} else {
		rep.Count("value:binary")
	}
	return
}

func isPlainPrintable(v []byte) bool {
	for _, b := range v {
		if b < 0x20 || b > 0x7e || b == '\\' {
			return false
		}
	}
	return true
}

func octalEscape(v []byte) string {
	var sb strings.Builder
	for _, b := range v {
		switch {
		case b == '\\':
			sb.WriteString(`\\`)
		case b < 0x20 || b > 0x7e || b == '\'':
			fmt.Fprintf(&sb, `\%03o`, b)
		default:
			sb.WriteByte(b)
		}
	}
	return sb.String()
}

// literal renders v as SQL for a column of type oid.
func literal(r *vh.Rng, rep *vh.Report, v []byte, oid uint32) string {
	if oid == vh.OidInt4 {
		return string(v)
	}
	if oid == vh.OidText {
		if bytes.ContainsRune(v, '\\') && r.Bool() {
			rep.Count("literal:E-text")
			return "E" + vh.QuoteLiteral(strings.ReplaceAll(string(v), `\`, `\\`))
		}
		rep.Count("literal:text")
		return vh.QuoteLiteral(string(v))
	}
	k := r.Intn(5)
	if k == 0 && isPlainPrintable(v) {
		rep.Count("literal:plain")
		return vh.QuoteLiteral(string(v))
	}
	switch k {
	case 1:
		rep.Count("literal:E-hex")
		return `E'\\x` + hex.EncodeToString(v) + `'`
	case 2:
		rep.Count("literal:octal")
		return vh.QuoteLiteral(octalEscape(v))
	case 3:
		rep.Count("literal:hex-cast")
		return `'\x` + hex.EncodeToString(v) + `'::bytea`
	}
	rep.Count("literal:hex")
	return `'\x` + hex.EncodeToString(v) + `'`
}

// param renders v as a bound parameter (format 0 text / 1 binary).
func param(r *vh.Rng, rep *vh.Report, v []byte, oid uint32) ([]byte, int16) {
	if oid != vh.OidBytea {
		return v, 0
	}
	switch r.Intn(3) {
	case 0:
		rep.Count("param:binary")
		return v, 1
	case 1:
		if isPlainPrintable(v) {
			rep.Count("param:text-plain")
			return v, 0
		}
	}
	rep.Count("param:text-hex")
	return []byte(`\x` + hex.EncodeToString(v)), 0
}

// encodings of a marker that must not reach the database for a protected column
func markerForms(m []byte) [][]byte {
	forms := [][]byte{m, []byte(hex.EncodeToString(m)), []byte(strings.ToUpper(hex.EncodeToString(m))), []byte(octalEscape(m))}
	for off := 0; off < 3 && off < len(m); off++ {
		e := base64.StdEncoding.EncodeToString(m[off:])
		e = strings.TrimRight(e, "=")
		if len(e) > 6 {
			e = e[:len(e)-2] // the last symbols depend on what follows
			forms = append(forms, []byte(e), []byte(strings.NewReplacer("+", "-", "/", "_").Replace(e)))
		}
	}
	return forms
}

func containsMarker(hay, m []byte) (bool, string) {
	for i, f := range markerForms(m) {
		if len(f) >= 8 && bytes.Contains(hay, f) {
			return true, []string{"raw", "hex", "HEX", "octal", "base64", "base64url", "base64", "base64url", "base64", "base64url"}[i]
		}
	}
	return false, ""
}

type c04Stmt struct {
	sql      string
	params   [][]byte
	pfmt     []int16
	rfmt     []int16
	extended bool
	kind     string // insert | update | select | other
	table    *c04Table
	// writes: (row id, column, value) in statement order (row major)
	wIDs   []int
	wCols  []string
	wVals  [][]byte
	wMarks [][]byte
	wCells []*c04Cell
	nLit   int  // literal (non-id) values; together with params: the "bind-with-literals" shape
	short  bool // schema-ordered VALUES with fewer values than the table has columns
	// extended protocol: parameter positions in order of appearance, numbered by c04Number at the end
	slots    []c04Slot
	nTargets int   // UPDATE: SET assignments
	tupleEnd []int // INSERT: values up to and including each VALUES tuple
	twoCols  bool  // one placeholder is the value of two different columns (known finding shape)
	note     string
	// result shape
	items   []string     // result column source names ("*" expanded)
	rowIDs  []int        // expected rows (select by id / returning), nil = all rows in insertion order
	expect  [][]*c04Cell // what the application had written when the statement ran (row, result column)
	whereID int
	// abstract form for the model
	coq string
}

func coqBytes(s string) string { return vh.H([]byte(s)) }

func coqItems(items []string) string {
	var parts []string
	for _, it := range items {
		if it == "*" {
			parts = append(parts, "SStar")
		} else {
			parts = append(parts, "(SCol "+coqBytes(it)+")")
		}
	}
	return "[" + strings.Join(parts, "; ") + "]"
}

func expandItems(t *c04Table, items []string) []string {
	var out []string
	for _, it := range items {
		if it == "*" {
			for _, c := range t.cols {
				out = append(out, c.name)
			}
		} else {
			out = append(out, it)
		}
	}
	return out
}

func genItems(r *vh.Rng, rep *vh.Report, t *c04Table) (sqlList string, items []string) {
	if r.Intn(3) == 0 {
		rep.Count("select:star")
		return "*", []string{"*"}
	}
	var parts []string
	order := r.Intn(2)
	names := []string{}
	for _, c := range t.cols {
		if c.name == "id" || r.Intn(4) != 0 {
			names = append(names, c.name)
		}
	}
	if order == 1 { // reversed
		for i, j := 0, len(names)-1; i < j; i, j = i+1, j-1 {
			names[i], names[j] = names[j], names[i]
		}
	}
	for _, nme := range names {
		s := nme
		switch r.Intn(4) {
		case 0:
			s = nme + " AS a_" + nme
			rep.Count("select:alias")
		case 1:
			s = t.name + "." + nme
			rep.Count("select:qualified")
		}
		parts = append(parts, s)
		items = append(items, nme)
	}
	rep.Count("select:list")
	return strings.Join(parts, ", "), items
}

// ---------- placeholder numbering of extended-protocol writes ----------
//
// The statement text is built with one token per bound-parameter position (a "slot"); when the whole
// statement (VALUES / SET, WHERE, RETURNING) exists, c04Number decides which $n every slot becomes and
// how the Bind message carries the values.  Numbering schemes (c04Numberings):
//   appearance      $1.. in order of appearance (what drivers emit by default)
//   where-first     WHERE parameter(s) numbered BEFORE the SET / VALUES ones (without a WHERE parameter: the
//                   last slot is $1): `UPDATE t SET c = $2 WHERE id = $1`
//   reversed        last slot is $1
//   shuffled        random permutation
//   gap-leading     $1 bound but not used by the statement (every placeholder number is shifted by one)
//   gap-inner       one number in the middle bound but unused (non-contiguous use)
//   extra-trailing  more bound parameters than placeholders
//   column-major    multi-row VALUES numbered column by column: ($1, $3), ($2, $4)
//   shuffled-extra  shuffled + trailing unused parameters
// independently: a multi-row INSERT may use ONE placeholder for the same column in every row (a placeholder
// used twice), the row id / WHERE id may be a parameter, parameters are mixed with literals in every
// position, RETURNING follows, and the Bind format codes are per-parameter / absent / one code for all
// (text) / one code for all (binary).

type c04Slot struct {
	val      []byte
	oid      uint32
	role     string // val | set | where
	row, col int    // VALUES position
}

var c04Numberings = []string{"appearance", "where-first", "reversed", "shuffled", "gap-leading", "gap-inner",
	"extra-trailing", "column-major", "shuffled-extra"}
var c04ParamFormats = []string{"per-param", "none", "all-text", "all-binary"}

// c04Shape: the structural choices of one write; nil = all random.
type c04Shape struct {
	kind      string // "" random | insert | update
	numbering string
	pformat   string
	allParams bool // every value is a parameter (else parameters and literals mixed at random)
	idParam   bool // the row id (VALUES) / WHERE id is a parameter too
	needProt  bool // UPDATE: at least one protected column is assigned
	multiRow  bool // INSERT: several VALUES tuples
	shareCol  bool // multi-row INSERT: one placeholder for the same column of every row
	returning bool
	twoCols   bool // one placeholder for two different protected columns (known finding shape)
}

// c04TwoColsShape: the known-finding statement of scenario scn (UPDATE on even, INSERT on odd scenarios;
// the Bind format modes alternate).
func c04TwoColsShape(scn int) *c04Shape {
	sh := &c04Shape{kind: "update", twoCols: true, allParams: true, numbering: "appearance"}
	if scn%2 == 1 {
		sh.kind = "insert"
	}
	sh.pformat = c04ParamFormats[(scn/20+scn)%len(c04ParamFormats)]
	sh.idParam = (scn/20)%2 == 1
	sh.returning = (scn/20)%3 == 2
	return sh
}

// c04ForcedShape: the structured opening of scenario scn - every numbering scheme x parameter format x
// statement kind occurs in the quick tier whatever the seed.
func c04ForcedShape(scn int) *c04Shape {
	idx := scn / 2
	sh := &c04Shape{kind: "update", needProt: true}
	if scn%2 == 1 {
		sh.kind = "insert"
	}
	sh.numbering = c04Numberings[idx%len(c04Numberings)]
	sh.pformat = c04ParamFormats[(idx+idx/len(c04Numberings))%len(c04ParamFormats)]
	sh.allParams = idx%3 != 0
	sh.idParam = idx%2 == 0
	sh.multiRow = sh.numbering == "column-major" || idx%4 == 1
	sh.shareCol = sh.multiRow && idx%8 == 5
	sh.returning = idx%5 == 2
	return sh
}

// c04TwoProtected: two different protected columns of t in schema order (genTables guarantees them for
// the scenarios of c04TwoColsScenario).
func c04TwoProtected(r *vh.Rng, t *c04Table) []c04Col {
	var prot []c04Col
	for _, c := range t.cols[1:] {
		if c.protected() {
			prot = append(prot, c)
		}
	}
	if len(prot) <= 2 {
		return prot
	}
	i := r.Intn(len(prot) - 1)
	j := i + 1 + r.Intn(len(prot)-1-i)
	return []c04Col{prot[i], prot[j]}
}

func c04Token(k int) string { return "\x00" + strconv.Itoa(k) + "\x00" }

// c04RenderParam renders the value of a slot as a bound parameter under the Bind format mode.
func c04RenderParam(r *vh.Rng, rep *vh.Report, s c04Slot, mode string) ([]byte, int16) {
	bin := mode == "all-binary"
	if mode == "per-param" {
		switch s.oid {
		case vh.OidBytea:
			return param(r, rep, s.val, s.oid)
		default:
			bin = r.Intn(4) == 0
		}
	}
	var f int16
	if bin {
		f = 1
	}
	switch s.oid {
	case vh.OidInt4:
		if bin {
			n, _ := strconv.Atoi(string(s.val))
			b := make([]byte, 4)
			binary.BigEndian.PutUint32(b, uint32(int32(n)))
			rep.Count("param:int4-binary")
			return b, f
		}
		return s.val, f
	case vh.OidBytea:
		if bin {
			rep.Count("param:binary")
			return s.val, f
		}
		if isPlainPrintable(s.val) && r.Bool() {
			rep.Count("param:text-plain")
			return s.val, f
		}
		rep.Count("param:text-hex")
		return []byte(`\x` + hex.EncodeToString(s.val)), f
	}
	return s.val, f // text: both formats carry the bytes
}

// c04Number numbers the slots of st, fills st.params / st.pfmt and returns the final statement text.
func c04Number(r *vh.Rng, rep *vh.Report, st *c04Stmt, sh *c04Shape, sql string) string {
	k := len(st.slots)
	if k == 0 {
		return sql
	}
	scheme := sh.numbering
	order := make([]int, k) // order[j]: the slot that gets the (j+1)-th number
	for i := range order {
		order[i] = i
	}
	reverse := func() {
		for i, j := 0, k-1; i < j; i, j = i+1, j-1 {
			order[i], order[j] = order[j], order[i]
		}
	}
	switch scheme {
	case "where-first":
		hasWhere := false
		for _, s := range st.slots {
			hasWhere = hasWhere || s.role == "where"
		}
		if hasWhere {
			sort.SliceStable(order, func(a, b int) bool {
				return st.slots[order[a]].role == "where" && st.slots[order[b]].role != "where"
			})
		} else {
			order = append([]int{k - 1}, order[:k-1]...)
		}
	case "reversed":
		reverse()
	case "shuffled", "shuffled-extra":
		for i := k - 1; i > 0; i-- {
			j := r.Intn(i + 1)
			order[i], order[j] = order[j], order[i]
		}
	case "column-major":
		multi := false
		for _, s := range st.slots {
			multi = multi || s.row > 0
		}
		if multi {
			sort.SliceStable(order, func(a, b int) bool {
				sa, sb := st.slots[order[a]], st.slots[order[b]]
				if sa.col != sb.col {
					return sa.col < sb.col
				}
				return sa.row < sb.row
			})
		} else {
			scheme = "reversed"
			reverse()
		}
	}
	gapAt, extra := 0, 0
	switch scheme {
	case "gap-leading":
		gapAt = 1
	case "gap-inner":
		gapAt = 1 + r.Intn(k)
		if k > 1 && gapAt == 1 {
			gapAt = 2
		}
	case "extra-trailing", "shuffled-extra":
		extra = 1 + r.Intn(2)
	}
	num := make([]int, k)
	n := 0
	for _, si := range order {
		n++
		if n == gapAt {
			n++
		}
		num[si] = n
	}
	total := n + extra
	st.params = make([][]byte, total)
	fmts := make([]int16, total)
	for j := range st.params { // bound but unused parameters
		if r.Bool() {
			st.params[j] = []byte("unused")
		}
	}
	for si, s := range st.slots {
		p, f := c04RenderParam(r, rep, s, sh.pformat)
		st.params[num[si]-1], fmts[num[si]-1] = p, f
		sql = strings.ReplaceAll(sql, c04Token(si), "$"+strconv.Itoa(num[si]))
	}
	switch sh.pformat {
	case "none":
		st.pfmt = nil
	case "all-text":
		st.pfmt = []int16{0}
	case "all-binary":
		st.pfmt = []int16{1}
	default:
		st.pfmt = fmts
	}
	rep.Count("numbering:" + scheme)
	rep.Count("param-format:" + sh.pformat)
	// the boundary the implementation validates placeholder numbers against
	if st.kind == "update" {
		for si, s := range st.slots {
			if s.role == "set" && num[si] > st.nTargets {
				rep.Count("numbering:update-set-number>set-count")
				break
			}
		}
	} else {
		for si, s := range st.slots {
			if s.role == "val" && s.col >= 0 && num[si] > st.tupleEnd[s.row] {
				rep.Count("numbering:insert-number>values-so-far")
				break
			}
		}
	}
	if total > k {
		rep.Count("numbering:unused-parameters")
	}
	return sql
}

func (sc *c04Scenario) genWrite(r *vh.Rng, rep *vh.Report, t *c04Table, writer string, sh *c04Shape) *c04Stmt {
	st := &c04Stmt{table: t}
	if sh == nil {
		sh = &c04Shape{}
		st.extended = r.Intn(3) == 0
		if st.extended {
			sh.numbering, sh.pformat = c04Numberings[0], c04ParamFormats[0]
			if r.Bool() {
				sh.numbering = c04Numberings[r.Intn(len(c04Numberings))]
			}
			if r.Bool() {
				sh.pformat = c04ParamFormats[r.Intn(len(c04ParamFormats))]
			}
			sh.allParams = r.Intn(4) == 0
			sh.idParam = r.Intn(3) == 0
		}
		sh.multiRow = r.Intn(4) == 0
		sh.shareCol = st.extended && r.Intn(3) == 0
		sh.returning = r.Intn(4) == 0
	} else {
		st.extended = true
		rep.Count("stmt:structured-numbering-opening")
	}
	shareCol := "" // multi-row INSERT: the column whose rows all use the placeholder of row 0
	shareSlot, shareIdx := -1, -1
	forceShare := false
	addVal := func(id int, c c04Col, sb *strings.Builder, role string, row, col int) (coqVal string) {
		var v, m []byte
		shared := (forceShare || (row > 0 && c.name == shareCol)) && shareSlot >= 0
		if shared {
			v, m = st.wVals[shareIdx], st.wMarks[shareIdx]
		} else if c.kind == "id" {
			v = []byte(fmt.Sprint(id))
		} else if !sh.twoCols && r.Intn(12) == 0 && c.oid == vh.OidBytea {
			v = []byte{}
			rep.Count("value:empty")
		} else {
			v, m = c04GenValue(r, rep, c.oid == vh.OidText)
		}
		if shared && forceShare {
			st.twoCols = true
			rep.Count("numbering:placeholder-for-two-columns(known finding shape)")
		}
		st.wIDs, st.wCols, st.wVals, st.wMarks = append(st.wIDs, id), append(st.wCols, c.name), append(st.wVals, v), append(st.wMarks, m)
		asParam := st.extended && (sh.allParams || r.Intn(4) != 0)
		if c.kind == "id" {
			asParam = st.extended && sh.idParam
		}
		switch {
		case shared:
			sb.WriteString(c04Token(shareSlot))
			rep.Count("numbering:placeholder-used-twice")
		case asParam:
			st.slots = append(st.slots, c04Slot{val: v, oid: c.oid, role: role, row: row, col: col})
			sb.WriteString(c04Token(len(st.slots) - 1))
			if row == 0 && c.name == shareCol {
				shareSlot, shareIdx = len(st.slots)-1, len(st.wVals)-1
			}
		default:
			st.nLit++
			sb.WriteString(literal(r, rep, v, c.oid))
		}
		return vh.H(v)
	}
	var sb strings.Builder
	update := len(sc.ref[t.name]) > 0 && r.Intn(3) == 0
	if sh.kind != "" {
		update = sh.kind == "update" && len(sc.ref[t.name]) > 0
	}
	if update {
		// UPDATE ... SET ... WHERE id = k
		st.kind = "update"
		ids := sc.ids(t.name)
		id := ids[r.Intn(len(ids))]
		st.whereID = id
		sb.WriteString("UPDATE " + t.name + " SET ")
		var sets []string
		var chosen []c04Col
		for _, c := range t.cols[1:] {
			if r.Intn(2) == 0 && !(len(chosen) == 0 && c.name == t.cols[len(t.cols)-1].name) {
				continue
			}
			chosen = append(chosen, c)
		}
		if sh.twoCols {
			chosen = c04TwoProtected(r, t)
		}
		if sh.needProt {
			has := false
			for _, c := range chosen {
				has = has || c.protected()
			}
			if !has {
				var prot []c04Col
				for _, c := range t.cols[1:] {
					if c.protected() {
						prot = append(prot, c)
					}
				}
				if len(prot) > 0 { // keep the schema order of the SET list
					p := prot[r.Intn(len(prot))]
					chosen = append(chosen, p)
					sort.SliceStable(chosen, func(a, b int) bool { return chosen[a].name < chosen[b].name })
				}
			}
		}
		st.nTargets = len(chosen)
		for i, c := range chosen {
			if i > 0 {
				sb.WriteString(", ")
			}
			sb.WriteString(c.name + " = ")
			nsl := len(st.slots)
			cv := addVal(id, c, &sb, "set", 0, -1)
			forceShare = false
			if sh.twoCols && i == 0 && len(st.slots) > nsl && len(chosen) > 1 {
				shareSlot, shareIdx, forceShare = nsl, len(st.wVals)-1, true // SET c1 = $k, c2 = $k
			}
			sets = append(sets, "("+coqBytes(c.name)+", "+cv+")")
		}
		if st.extended && (sh.idParam || sh.numbering == "where-first") {
			st.slots = append(st.slots, c04Slot{val: []byte(fmt.Sprint(id)), oid: vh.OidInt4, role: "where", col: -1})
			sb.WriteString(" WHERE id = " + c04Token(len(st.slots)-1))
			rep.Count("stmt:update-where-parameter")
		} else {
			sb.WriteString(fmt.Sprintf(" WHERE id = %d", id))
		}
		ret := sc.genReturning(r, rep, t, st, &sb, []int{id}, sh.returning)
		st.coq = fmt.Sprintf("(Update %s [%s] (Some (%s, %s)) %s)", coqBytes(t.name), strings.Join(sets, "; "), coqBytes("id"), coqBytes(fmt.Sprint(id)), ret)
		rep.Count("stmt:update")
	} else {
		st.kind = "insert"
		shape := r.Intn(10)
		cols := t.cols
		coqCols := "None"
		sb.WriteString("INSERT INTO " + t.name)
		switch {
		case sh.twoCols: // (id, c1, c2) VALUES (.., $k, $k)
			cols = append([]c04Col{t.cols[0]}, c04TwoProtected(r, t)...)
			var names, cn []string
			for _, c := range cols {
				names = append(names, c.name)
				cn = append(cn, coqBytes(c.name))
			}
			sb.WriteString(" (" + strings.Join(names, ", ") + ")")
			coqCols = "(Some [" + strings.Join(cn, "; ") + "])"
			rep.Count("stmt:insert-collist")
		case shape < 5: // explicit column list, random subset/order
			var sel []c04Col
			sel = append(sel, t.cols[0])
			for _, c := range t.cols[1:] {
				if r.Intn(5) != 0 {
					sel = append(sel, c)
				}
			}
			if r.Bool() {
				for i, j := 0, len(sel)-1; i < j; i, j = i+1, j-1 {
					sel[i], sel[j] = sel[j], sel[i]
				}
			}
			cols = sel
			var names, cn []string
			for _, c := range cols {
				names = append(names, c.name)
				cn = append(cn, coqBytes(c.name))
			}
			sb.WriteString(" (" + strings.Join(names, ", ") + ")")
			coqCols = "(Some [" + strings.Join(cn, "; ") + "])"
			rep.Count("stmt:insert-collist")
		case shape < 6 && len(t.cols) > 2: // schema-ordered, FEWER values than columns (valid PostgreSQL)
			cols = t.cols[:2+r.Intn(len(t.cols)-2)]
			st.short = true
			rep.Count("stmt:insert-schema-order-short")
		default:
			rep.Count("stmt:insert-schema-order")
		}
		nrows := 1
		if sh.multiRow && !sh.twoCols {
			nrows = 2 + r.Intn(2)
			rep.Count("stmt:insert-multirow")
			if sh.shareCol && len(cols) > 1 {
				shareCol = cols[1+r.Intn(len(cols)-1)].name
				if shareCol == "id" {
					shareCol = ""
				}
			}
		}
		sb.WriteString(" VALUES ")
		var rowsCoq []string
		var ids []int
		for i := 0; i < nrows; i++ {
			sc.nextID++
			id := sc.nextID
			ids = append(ids, id)
			if i > 0 {
				sb.WriteString(", ")
			}
			sb.WriteString("(")
			var vals []string
			for j, c := range cols {
				if j > 0 {
					sb.WriteString(", ")
				}
				nsl := len(st.slots)
				vals = append(vals, addVal(id, c, &sb, "val", i, j))
				forceShare = false
				if sh.twoCols && j == 1 && len(st.slots) > nsl && len(cols) > 2 {
					shareSlot, shareIdx, forceShare = nsl, len(st.wVals)-1, true
				}
			}
			sb.WriteString(")")
			st.tupleEnd = append(st.tupleEnd, (i+1)*len(cols))
			rowsCoq = append(rowsCoq, "["+strings.Join(vals, "; ")+"]")
		}
		ret := sc.genReturning(r, rep, t, st, &sb, ids, sh.returning)
		st.coq = fmt.Sprintf("(Insert %s %s [%s] %s)", coqBytes(t.name), coqCols, strings.Join(rowsCoq, "; "), ret)
	}
	st.sql = sb.String()
	if st.extended {
		st.sql = c04Number(r, rep, st, sh, st.sql)
		rep.Count("protocol:extended")
		if len(st.params) > 0 && len(st.items) > 0 {
			rep.Count("stmt:returning-with-parameters")
		}
		if r.Bool() {
			st.rfmt = []int16{1}
			rep.Count("result-format:binary")
		}
	} else {
		rep.Count("protocol:simple")
	}
	return st
}

func (sc *c04Scenario) genReturning(r *vh.Rng, rep *vh.Report, t *c04Table, st *c04Stmt, sb *strings.Builder, ids []int, want bool) string {
	if !want {
		return "[]"
	}
	rep.Count("stmt:returning")
	var items []string
	if r.Bool() {
		sb.WriteString(" RETURNING *")
		items = []string{"*"}
	} else {
		var names []string
		for _, c := range t.cols {
			if c.name == "id" || r.Bool() {
				names = append(names, c.name)
			}
		}
		sb.WriteString(" RETURNING " + strings.Join(names, ", "))
		items = names
	}
	st.items = items
	st.rowIDs = ids
	return coqItems(items)
}

func (sc *c04Scenario) ids(table string) []int {
	var out []int
	for id := 1; id <= sc.nextID; id++ {
		if _, ok := sc.ref[table][id]; ok {
			out = append(out, id)
		}
	}
	return out
}

func (sc *c04Scenario) genSelect(r *vh.Rng, rep *vh.Report, t *c04Table) *c04Stmt {
	st := &c04Stmt{table: t, kind: "select", extended: r.Intn(3) == 0}
	list, items := genItems(r, rep, t)
	st.items = items
	st.sql = "SELECT " + list + " FROM " + t.name
	whr := "None"
	ids := sc.ids(t.name)
	if len(ids) > 0 && r.Bool() {
		id := ids[r.Intn(len(ids))]
		st.sql += fmt.Sprintf(" WHERE id = %d", id)
		st.rowIDs = []int{id}
		whr = fmt.Sprintf("(Some (%s, %s))", coqBytes("id"), coqBytes(fmt.Sprint(id)))
		rep.Count("select:where-id")
	} else {
		st.rowIDs = ids
	}
	if st.extended {
		rep.Count("protocol:extended")
		if r.Bool() {
			st.rfmt = []int16{1}
			rep.Count("result-format:binary")
		}
	} else {
		rep.Count("protocol:simple")
	}
	st.coq = fmt.Sprintf("(Select %s %s %s)", coqItems(items), coqBytes(t.name), whr)
	rep.Count("stmt:select")
	return st
}

var otherStmts = []string{"BEGIN", "COMMIT", "SET client_encoding = 'UTF8'", "SET search_path = public"}

// ---------- Coq rendering of the scenario ----------

func (sc *c04Scenario) coqConfig() string {
	var ts []string
	for _, t := range sc.tables {
		if !t.configured {
			continue
		}
		var cs []string
		for _, c := range t.cols {
			cfg := "CPlain"
			if c.protected() {
				own := "None"
				if c.clientID != "" {
					own = "(Some " + coqBytes(c.clientID) + ")"
				}
				cfg = fmt.Sprintf("(CProt (idb %s) %s)", vh.H([]byte{c.env()}), own)
			}
			cs = append(cs, "("+coqBytes(c.name)+", "+cfg+")")
		}
		ts = append(ts, "("+coqBytes(t.name)+", ["+strings.Join(cs, "; ")+"])")
	}
	return "[" + strings.Join(ts, "; ") + "]"
}

func (sc *c04Scenario) coqDBSchema() string {
	var ts []string
	for _, t := range sc.tables {
		var cs []string
		for _, c := range t.cols {
			cs = append(cs, coqBytes(c.name))
		}
		ts = append(ts, "("+coqBytes(t.name)+", ["+strings.Join(cs, "; ")+"])")
	}
	return "[" + strings.Join(ts, "; ") + "]"
}

func (sc *c04Scenario) coqKeys() string {
	var parts []string
	for _, id := range []string{connWriter, connOwnerB, connOther} {
		parts = append(parts, "("+coqBytes(id)+", "+sc.ks.Clients[id].Coq()+")")
	}
	return "[" + strings.Join(parts, "; ") + "]"
}

func obsCell(b []byte) []byte {
	if b == nil {
		return []byte{0}
	}
	return append([]byte{1}, b...)
}

// tapeFor finds the tape chunks drawn for the stored container: the first nonce of its group occurs in it.
func tapeFor(tape [][]byte, lo, hi int, stored []byte, env byte) [][]byte {
	for j := lo; j < hi; j++ {
		if len(tape[j]) != 12 || !bytes.Contains(stored, tape[j]) {
			continue
		}
		if env == crypto.AcraBlockEnvelopeID { // [dek32; data nonce; key nonce]
			if j-1 >= lo && j+2 <= hi && len(tape[j-1]) == 32 {
				return tape[j-1 : j+2]
			}
		} else { // [seed32; key32; wrap nonce; data nonce]
			if j-2 >= lo && j+2 <= hi && len(tape[j-1]) == 32 && len(tape[j-2]) == 32 {
				return tape[j-2 : j+2]
			}
		}
	}
	return nil
}

// ---------- the domain ----------

var thoroughTier bool

func runC04(rep *vh.Report, r *vh.Rng, n int, thorough bool) {
	thoroughTier = thorough
	debug := os.Getenv("VERIF_C04_DEBUG") != ""
	sessions, hung := 0, 0
	for scn := 0; scn < n; scn++ {
		sc := &c04Scenario{id: scn, ref: map[string]map[int]map[string]*c04Cell{}}
		twoCols := c04TwoColsScenario(scn)
		minProt := 0
		if twoCols {
			minProt = 2
		}
		sc.tables = genTables(r, rep, minProt)
		sc.yaml = genYAML(sc.tables)
		sc.ks = vh.NewMemKeystore()
		for _, id := range []string{connWriter, connOwnerB, connOther} {
			sc.ks.Clients[id] = vh.NewKeySet(r, 1, 1, true)
		}
		db := vh.NewFakeDB()
		modelled := true
		for _, t := range sc.tables {
			pt := &vh.PgTable{Name: t.name}
			for _, c := range t.cols {
				pt.Cols = append(pt.Cols, vh.PgCol{Name: c.name, Oid: c.oid})
				if !c.modelled() {
					modelled = false
				}
			}
			db.Tables[t.name] = pt
			sc.ref[t.name] = map[int]map[string]*c04Cell{}
		}
		if twoCols {
			modelled = false
			rep.Count("scenario:oracle-only(known finding shape)")
		} else if modelled {
			rep.Count("scenario:modelled")
		} else {
			rep.Count("scenario:oracle-only(searchable/masked)")
		}
		rig, err := vh.NewPgRig(sc.ks, []byte(sc.yaml), db)
		if err != nil {
			rep.Violate("harness-error", "rig: "+err.Error(), sc.yaml)
			continue
		}
		replayHead := fmt.Sprintf("scenario %d (seed %d)\nencryptor config:\n%s", scn, rep.Seed, sc.yaml)

		// ---- session 1: the writer; writes and reads interleaved in ONE session ----
		nst := 4 + r.Intn(5)
		if thorough {
			nst += r.Intn(8)
		}
		var plan []func() *c04Stmt
		for i := 0; i < nst; i++ {
			t := sc.tables[0]
			if r.Intn(4) == 0 && i > 0 {
				t = sc.tables[1]
			}
			if i == 1 {
				// structured opening: the placeholder numbering / parameter format table, on the configured table
				forced := c04ForcedShape(scn)
				plan = append(plan, func() *c04Stmt { return sc.genWrite(r, rep, sc.tables[0], connWriter, forced) })
				if twoCols {
					known := c04TwoColsShape(scn)
					plan = append(plan, func() *c04Stmt { return sc.genWrite(r, rep, sc.tables[0], connWriter, known) })
				}
			}
			switch k := r.Intn(10); {
			case k < 5 || i == 0:
				tt := t
				plan = append(plan, func() *c04Stmt { return sc.genWrite(r, rep, tt, connWriter, nil) })
			case k < 9:
				tt := t
				plan = append(plan, func() *c04Stmt { return sc.genSelect(r, rep, tt) })
			default:
				plan = append(plan, func() *c04Stmt {
					s := otherStmts[r.Intn(len(otherStmts))]
					rep.Count("stmt:other")
					return &c04Stmt{kind: "other", sql: s, coq: "(Other " + coqBytes(s) + ")"}
				})
			}
		}
		sessions++
		ok := sc.runSession(rep, r, rig, connWriter, plan, replayHead, modelled, true, debug, &hung)
		if !ok {
			continue
		}
		// ---- session 2: a client without the keys reads everything ----
		reader := connOther
		if r.Bool() {
			reader = connNoKeys
		}
		rep.Count("reader:" + reader)
		var rplan []func() *c04Stmt
		for i := 0; i < 2+r.Intn(2); i++ {
			t := sc.tables[0]
			if i == 1 {
				t = sc.tables[1]
			}
			tt := t
			rplan = append(rplan, func() *c04Stmt { return sc.genSelect(r, rep, tt) })
		}
		sessions++
		sc.runSession(rep, r, rig, reader, rplan, replayHead, modelled, false, debug, &hung)
		// ---- session 3: the per-column owner ----
		hasB := false
		for _, c := range sc.tables[0].cols {
			if c.clientID == connOwnerB {
				hasB = true
			}
		}
		if hasB {
			var bplan []func() *c04Stmt
			for i := 0; i < 2; i++ {
				bplan = append(bplan, func() *c04Stmt { return sc.genSelect(r, rep, sc.tables[0]) })
			}
			sessions++
			rep.Count("reader:" + connOwnerB)
			sc.runSession(rep, r, rig, connOwnerB, bplan, replayHead, modelled, false, debug, &hung)
		}
	}
	rep.Distribution["sessions"] = sessions
	rep.Distribution["sessions-hung"] = hung
}

// runSession drives one proxied connection; returns false when the scenario cannot go on.
func (sc *c04Scenario) runSession(rep *vh.Report, r *vh.Rng, rig *vh.PgRig, conn string, plan []func() *c04Stmt,
	head string, modelled, fromEmpty, debug bool, hung *int) bool {
	tape := vh.StartTape(r)
	defer vh.StopTape()
	s, err := rig.Open([]byte(conn), tape)
	if err != nil {
		rep.Violate("harness-error", "open: "+err.Error(), head)
		return false
	}
	var script []string
	script = append(script, fmt.Sprintf("-- session as %s", conn))
	var stmts []*c04Stmt
	var results []*vh.ClientResult
	alive := true
	for _, mk := range plan {
		st := mk()
		if st.extended {
			script = append(script, fmt.Sprintf("%s   -- extended, params=%s formats=%v result=%v", st.sql, hexList(st.params), st.pfmt, st.rfmt))
		} else {
			script = append(script, st.sql)
		}
		var res *vh.ClientResult
		if st.extended {
			res = s.Extended(st.sql, st.params, st.pfmt, st.rfmt)
		} else {
			res = s.Simple(st.sql)
		}
		stmts = append(stmts, st)
		results = append(results, res)
		if debug {
			fmt.Fprintf(os.Stderr, "[%s] %s\n   -> err=%q closed=%v rows=%d\n", conn, st.sql, res.Err, res.Closed, len(res.Rows))
		}
		if res.Closed {
			alive = false
			break
		}
		// the reference state follows what the application wrote (only if the database accepted it)
		if res.Err == "" {
			for i := range st.wVals {
				row := sc.ref[st.table.name][st.wIDs[i]]
				if row == nil {
					row = map[string]*c04Cell{}
					sc.ref[st.table.name][st.wIDs[i]] = row
				}
				cell := &c04Cell{val: st.wVals[i], marker: st.wMarks[i], writer: conn}
				row[st.wCols[i]] = cell
				st.wCells = append(st.wCells, cell)
			}
		}
		if st.items != nil {
			for _, id := range st.rowIDs {
				var row []*c04Cell
				for _, it := range expandItems(st.table, st.items) {
					row = append(row, sc.ref[st.table.name][id][it])
				}
				st.expect = append(st.expect, row)
			}
		}
	}
	dbBound, clientBound, fwd, beErr := s.Close()
	replay := head + "\n" + strings.Join(script, "\n")
	if s.Panic != "" {
		rep.OracleChecks++
		class := "proxy-panic"
		if last := stmts[len(stmts)-1]; len(last.params) > 0 && last.nLit > 0 {
			class = "bind-with-literals"
		}
		rep.Violate(class, "the proxy panicked: "+s.Panic+" on "+stmts[len(stmts)-1].sql, replay)
		return false
	}
	if s.Hung {
		*hung++
		rep.Violate("harness-error", "session hung (rig timeout)", replay)
		return false
	}
	if beErr != nil {
		rep.Violate("harness-error", "fake back end: "+beErr.Error(), replay)
		return false
	}

	// ---------- oracle on the implementation ----------
	// (1) plaintext-to-db: no marker written to a protected column occurs in any database-bound byte
	for _, st := range stmts {
		for i, m := range st.wMarks {
			c := st.table.col(st.wCols[i])
			if m == nil || c == nil || !st.table.configured || !c.protected() {
				continue
			}
			rep.OracleChecks++
			if found, form := containsMarker(dbBound, m); found {
				class := st.leakClass()
				rep.Violate(class, fmt.Sprintf("value written to protected column %s.%s reached the database in the clear (%s form of the marker %q) by: %s",
					st.table.name, c.name, form, m, st.sql), replay)
			}
		}
	}
	// pair the statements the back end decoded with the script (one forwarded statement per sent statement)
	if alive && len(fwd) != len(stmts) {
		rep.Violate("harness-error", fmt.Sprintf("%d statements sent, %d reached the back end", len(stmts), len(fwd)), replay)
		return false
	}
	var obsFwd, obsRet [][]byte // observations for the model replay
	var tapes []string
	for si, st := range stmts {
		if si >= len(fwd) {
			break
		}
		f := fwd[si]
		res := results[si]
		if f.Err != "" && !res.Closed {
			// the fake database rejected what the proxy forwarded
			rep.OracleChecks++
			rep.Violate("forwarded-statement-invalid", "the forwarded statement was rejected by the database: "+f.Err+"\n forwarded: "+f.SQL, replay)
			continue
		}
		var stTapes []string
		if st.kind == "insert" || st.kind == "update" {
			if len(f.Values) != len(st.wVals) {
				rep.Violate("harness-error", fmt.Sprintf("statement has %d values, back end decoded %d: %s", len(st.wVals), len(f.Values), f.SQL), replay)
				continue
			}
			for i, fv := range f.Values {
				c := st.table.col(st.wCols[i])
				obsFwd = append(obsFwd, obsCell(fv.Stored))
				prot := st.table.configured && c.protected()
				rep.OracleChecks++
				stTapes = append(stTapes, "[]") // one tape per value, aligned
				if !prot {
					// (2) uncovered-changed: values the configuration does not cover arrive byte-identical
					if !bytes.Equal(fv.Stored, st.wVals[i]) {
						rep.Violate("uncovered-changed", fmt.Sprintf("value for uncovered column %s.%s changed on the way to the database: sent %x stored %x",
							st.table.name, c.name, st.wVals[i], fv.Stored), replay)
					}
					continue
				}
				if found, form := containsMarker(fv.Stored, st.wMarks[i]); st.wMarks[i] != nil && found {
					class := st.leakClass()
					if i < len(st.wCells) {
						st.wCells[i].leaked = true
					}
					rep.Violate(class, fmt.Sprintf("stored value of protected column %s.%s contains the marker (%s): %s", st.table.name, c.name, form, f.SQL), replay)
				}
				if c.modelled() && len(st.wVals[i]) > 0 && !bytes.Equal(fv.Stored, st.wVals[i]) {
					tp := tapeFor(tape.Chunks, res.Tape0, res.Tape1, fv.Stored, c.env())
					if tp == nil {
						rep.Violate("harness-error", "no tape chunks found for a stored container", replay)
						tp = [][]byte{}
					}
					stTapes[len(stTapes)-1] = vh.HL(tp)
				}
			}
		} else if st.kind == "other" || st.kind == "select" {
			// (2) statements the configuration does not cover reach the database identical
			rep.OracleChecks++
			if f.SQL != st.sql {
				// a SELECT may be re-serialised only if the proxy changed it; for these shapes it must not
				rep.Violate("uncovered-changed", fmt.Sprintf("statement changed on the way to the database:\n sent      %s\n forwarded %s", st.sql, f.SQL), replay)
			}
		}
		tapes = append(tapes, "["+strings.Join(stTapes, "; ")+"]")
		// results
		if st.items == nil {
			continue
		}
		items := expandItems(st.table, st.items)
		if res.Err != "" {
			rep.OracleChecks++
			rep.Violate("result-error", "the client received an error instead of rows: "+res.Err+" for "+st.sql, replay)
			continue
		}
		if len(res.Rows) != len(st.rowIDs) || (len(res.Rows) > 0 && len(res.Fields) != len(items)) {
			rep.Violate("harness-error", fmt.Sprintf("expected %d rows x %d columns, client got %d x %d: %s", len(st.rowIDs), len(items), len(res.Rows), len(res.Fields), st.sql), replay)
			continue
		}
		for ri, row := range res.Rows {
			id := st.rowIDs[ri]
			for ci, cell := range row {
				c := st.table.col(items[ci])
				got, derr := vh.ClientDecode(res.Fields[ci], cell)
				obsRet = append(obsRet, obsCell(got))
				rep.OracleChecks++
				if derr != nil {
					rep.Violate("result-undecodable", fmt.Sprintf("cell of %s.%s is not valid for its declared type: %q", st.table.name, c.name, cell), replay)
					continue
				}
				want := st.expect[ri][ci]
				if want == nil { // never written: NULL
					if cell != nil {
						rep.Violate("uncovered-changed", fmt.Sprintf("NULL cell of %s.%s came back as %x", st.table.name, c.name, cell), replay)
					}
					continue
				}
				prot := st.table.configured && c.protected()
				switch {
				case want.leaked:
				case !prot:
					if !bytes.Equal(got, want.val) {
						rep.Violate("uncovered-changed", fmt.Sprintf("uncovered column %s.%s row %d came back changed: written %x received %x", st.table.name, c.name, id, want.val, got), replay)
					}
				case c.owner(want.writer) == conn:
					// (3) read-back: the owner gets the original
					if !bytes.Equal(got, want.val) {
						class := "read-back"
						rep.Violate(class, fmt.Sprintf("owner %s read %s.%s row %d: written %x received %x (by %s)", conn, st.table.name, c.name, id, want.val, got, st.sql), replay)
					}
				default:
					// (3') a client without the keys never receives the original
					if found, form := containsMarker(got, want.marker); want.marker != nil && found {
						rep.Violate("non-owner-plaintext", fmt.Sprintf("client %s (not the owner %s) received the plaintext of %s.%s (%s)", conn, c.owner(want.writer), st.table.name, c.name, form), replay)
					}
				}
			}
		}
	}
	// a client without the keys: nothing client-bound contains a marker of a column it does not own
	for tname, rows := range sc.ref {
		t := sc.table(tname)
		for _, row := range rows {
			for cname, cell := range row {
				c := t.col(cname)
				if !t.configured || !c.protected() || cell.marker == nil || cell.leaked || c.owner(cell.writer) == conn || cell.writer == conn {
					continue
				}
				rep.OracleChecks++
				if found, form := containsMarker(clientBound, cell.marker); found {
					rep.Violate("non-owner-plaintext", fmt.Sprintf("bytes sent to client %s contain the plaintext of %s.%s (%s)", conn, tname, cname, form), replay)
				}
			}
		}
	}
	if !alive {
		// the proxy ended the session: acceptable only as a refusal to forward a write it could not protect
		last := stmts[len(stmts)-1]
		rep.OracleChecks++
		refusedWrite := (last.kind == "insert" || last.kind == "update") && conn == connNoKeys
		if !refusedWrite {
			rep.Violate("session-dropped", "the proxy closed the session ("+s.ProxyErr+") on: "+last.sql, replay)
		}
		return false
	}

	// ---------- observations for the model ----------
	// quick tier: every session goes through the oracle, the first ones are also replayed on the model
	// (a replayed session costs 1-3 s of vm_compute; shards of 32 run in parallel)
	if modelled && (thoroughTier || len(rep.Cases) < 64) {
		var coqStmts []string
		for i, st := range stmts {
			coqStmts = append(coqStmts, "("+st.coq+", "+tapes[i]+")")
		}
		if fromEmpty {
			op := fmt.Sprintf("(Sess %s %s %s %s [%s])", sc.coqConfig(), sc.coqDBSchema(), sc.coqKeys(), coqBytes(conn), strings.Join(coqStmts, ";\n    "))
			rep.Add(fmt.Sprintf("scenario %d session as %s: %s", sc.id, conn, strings.Join(script, " ;; ")), op, vh.Ok(append(obsFwd, obsRet...)...))
		} else {
			// later sessions: each SELECT is replayed on the rows the database returned for it
			k := 0
			for si, st := range stmts {
				f := fwd[si]
				if st.kind != "select" || results[si].Err != "" {
					continue
				}
				items := expandItems(st.table, st.items)
				var rows []string
				for ri := 0; ri*len(items) < len(f.Returned); ri++ {
					var cells []string
					for ci := range items {
						cells = append(cells, vh.HOpt(f.Returned[ri*len(items)+ci]))
					}
					rows = append(rows, "["+strings.Join(cells, "; ")+"]")
				}
				nobs := len(f.Returned)
				op := fmt.Sprintf("(Read %s %s %s %s [%s])", sc.coqConfig(), sc.coqKeys(), coqBytes(conn), st.coq, strings.Join(rows, "; "))
				rep.Add(fmt.Sprintf("scenario %d read as %s: %s", sc.id, conn, st.sql), op, vh.Ok(obsRet[k:k+nobs]...))
				k += nobs
			}
		}
	}
	return true
}

func (st *c04Stmt) leakClass() string {
	switch {
	case st.twoCols:
		return c04ClassTwoCols
	case st.short && len(st.params) == 0:
		return "short-values-row"
	case len(st.params) > 0 && st.nLit > 0:
		return "bind-with-literals"
	}
	return "plaintext-to-db"
}

func (sc *c04Scenario) table(name string) *c04Table {
	for _, t := range sc.tables {
		if t.name == name {
			return t
		}
	}
	return nil
}

func hexList(bs [][]byte) string {
	var p []string
	for _, b := range bs {
		if b == nil {
			p = append(p, "NULL")
			continue
		}
		p = append(p, hex.EncodeToString(b))
	}
	return "[" + strings.Join(p, ",") + "]"
}
