package main

import (
	"bytes"
	"context"
	"encoding/base64"
	"encoding/binary"
	"fmt"
	"strconv"

	"acra-vh/vh"

	"github.com/cossacklabs/acra/crypto"
	"github.com/cossacklabs/acra/decryptor/base"
	"github.com/cossacklabs/acra/decryptor/mysql"
	base_mysql "github.com/cossacklabs/acra/decryptor/mysql/base"
	encryptor "github.com/cossacklabs/acra/encryptor/base"
	"github.com/cossacklabs/acra/encryptor/base/config"
	"github.com/cossacklabs/acra/encryptor/base/config/common"
)

// c19my: the MySQL twins (DataDecoderProcessor / DataEncoderProcessor and the TypeLong, TypeLongLong, TypeString,
// TypeBlob encoders) over the same cross product, ORACLE ONLY: nothing is replayed on the Coq model.
func init() { register("c19my", "Model.RunTyped", runC19My) }

func lenEnc(b []byte) []byte { return base_mysql.PutLengthEncodedString(append([]byte{}, b...)) }

// myTyped: the value encoded as the declared MySQL type in the text / binary protocol
func myTyped(kind int, binaryFmt bool, v []byte) ([]byte, bool) {
	switch kind {
	case 1, 2:
		n, err := strconv.ParseInt(string(v), 10, intBits(kind))
		if err != nil {
			return nil, false
		}
		if !binaryFmt {
			return lenEnc(v), true
		}
		if kind == 1 {
			b := make([]byte, 4)
			binary.LittleEndian.PutUint32(b, uint32(int32(n)))
			return b, true
		}
		b := make([]byte, 8)
		binary.LittleEndian.PutUint64(b, uint64(n))
		return b, true
	}
	return lenEnc(v), true
}

func myDefault(kind int, binaryFmt bool, d string) ([]byte, bool) {
	if kind == 4 {
		raw, err := base64.StdEncoding.DecodeString(d)
		if err != nil {
			return nil, false
		}
		return lenEnc(raw), true
	}
	return myTyped(kind, binaryFmt, []byte(d))
}

func runC19My(rep *vh.Report, r *vh.Rng, n int, thorough bool) {
	r = vh.NewRng(r.U64())
	sc := 0
	one := func(kind, pol int, binaryFmt, hasKey bool, storedAs int) {
		sc++
		lab := fmt.Sprintf("my sc%d kind=%d pol=%s bin=%v key=%v stored=%d", sc, kind, policyWords[pol], binaryFmt, hasKey, storedAs)
		rep.Count(fmt.Sprintf("kind:%d", kind))
		rep.Count("policy:" + policyWords[pol])
		rep.Count(fmt.Sprintf("binary:%v", binaryFmt))
		rep.Count(fmt.Sprintf("reader-has-key:%v", hasKey))
		rep.Count(fmt.Sprintf("stored:%d", storedAs))
		var def *string
		if pol == 2 {
			d := genDefault(r, kind, true)
			def = &d
		}
		set := newSetting(dataTypeOfKind[kind], 0, policyWords[pol], def)
		if err := set.Init(true); err != nil {
			rep.Count("init-refused")
			return
		}
		typeID := common.MySQLEncryptedTypeDataTypeIDs[common.EncryptedType(kind)]
		rep.OracleChecks++
		if set.GetDBDataTypeID() != typeID {
			rep.Violate("mysql-type-id", "Init resolved another MySQL type id than the declared type", lab)
		}
		owner := vh.NewKeySet(r, 1, 1, true)
		orig := genOriginal(r, kind)
		var raw []byte
		isEnvelope := false
		switch storedAs {
		case 0:
			id := byte(crypto.AcraBlockEnvelopeID)
			if r.Intn(3) == 0 {
				id = crypto.AcraStructEnvelopeID
			}
			vh.StartTape(r)
			env, err := crypto.NewRegistryHandler(storeFor(owner)).EncryptWithHandler(handlerByID(id), []byte(clientID), append([]byte{}, orig...))
			vh.StopTape()
			if err != nil {
				rep.Count("encrypt-error")
				return
			}
			raw, isEnvelope = env, true
		case 1:
			raw = genBytes(r)
		case 2:
			raw = append([]byte{}, orig...)
		default:
			raw = []byte{}
		}
		var reader *vh.KeySet
		if hasKey {
			reader = owner
		}
		st := storeFor(reader)
		det := crypto.NewEnvelopeDetector()
		det.AddCallback(crypto.NewDecryptHandler(st, crypto.NewRegistryHandler(st)))
		t2 := &tapSub{name: "tap2"}
		rv := &revealSub{inner: det}
		obs := base.NewColumnDecryptionObserver()
		for _, s := range []base.DecryptionSubscriber{mysql.NewDataDecoderProcessor(), rv, t2, mysql.NewDataEncoderProcessor()} {
			obs.SubscribeOnAllColumnsDecryption(s)
		}
		// as mysql.Handler.onColumnDecryption builds it: field type rewritten to the declared one, origin = blob
		ac := base.NewAccessContext(base.WithClientID([]byte(clientID)))
		ac.SetColumnInfo(base.NewColumnInfo(0, "", binaryFmt, len(raw), byte(typeID), byte(base_mysql.TypeBlob)))
		ctx := encryptor.NewContextWithEncryptionSetting(base.SetAccessContextToContext(context.Background(), ac), config.ColumnEncryptionSetting(set))
		var out []byte
		var err error
		o := vh.Guard(func() vh.Outcome {
			_, out, err = obs.OnColumnDecryption(ctx, 0, append([]byte{}, raw...))
			return vh.Ok()
		})
		rep.Evaluations++
		replay := fmt.Sprintf("%s setting={type_id=%d policy=%q default=%v} original=%q stored=%s delivered=%s err=%v", lab, typeID, set.GetResponseOnFail(), optQ(def), orig, hx(raw), hx(out), err)
		if len(rep.Samples) < 5 {
			rep.Samples = append(rep.Samples, replay)
		}
		rep.OracleChecks++
		if o.Kind == "panic" {
			rep.Violate("panic", "MySQL column processing panicked: "+o.Msg, replay)
			return
		}
		if rv.err != nil {
			rep.Count("reveal-step-error")
			return
		}
		_, isEncErr := err.(*base.EncodingError)
		decrypted := t2.hit && t2.dec
		rep.Count(fmt.Sprintf("decrypted:%v", decrypted))
		switch {
		case len(raw) == 0:
			if err != nil || !bytes.Equal(out, lenEnc(raw)) {
				rep.Violate("mysql-empty-not-kept", "an empty value did not stay empty", replay)
			}
		case decrypted:
			if !isEnvelope || !hasKey || !bytes.Equal(t2.seen, orig) {
				rep.Violate("mysql-reveal-mismatch", "revealed without key / to another value", replay)
				return
			}
			want, ok := myTyped(kind, binaryFmt, orig)
			if !ok {
				// no integer of the declared width: binary protocol refuses (statement error), text protocol hands it through
				if err == nil && !bytes.Equal(out, lenEnc(orig)) {
					rep.Violate("mysql-owner-wrong-value", "a revealed non-integer was delivered changed", replay)
				} else if err == nil {
					rep.Violate("mysql-int-column-plaintext-not-integer", "a revealed value that is no integer of the declared width is delivered verbatim in a column described as integer", replay)
				}
				return
			}
			if err != nil || !bytes.Equal(out, want) {
				rep.Violate("mysql-owner-wrong-value", "owner did not receive the original encoded as the declared type", replay+" want="+hx(want))
			}
		default:
			if isEnvelope && hasKey {
				rep.Violate("mysql-owner-not-revealed", "the owning reader's envelope was not revealed", replay)
				return
			}
			if typed, ok := myTyped(kind, binaryFmt, raw); ok && kind <= 2 {
				if err != nil || !bytes.Equal(out, typed) {
					rep.Violate("mysql-plain-int-changed", "a stored plain integer literal was not delivered as the declared type", replay)
				}
				return
			}
			switch policyCode(set.GetResponseOnFail()) {
			case 0, 1:
				if err != nil || !bytes.Equal(out, lenEnc(raw)) {
					rep.Violate("mysql-ciphertext-policy-not-ciphertext", "policy ciphertext: delivered value is not the stored value", replay)
				}
			case 2:
				want, ok := myDefault(kind, binaryFmt, *def)
				if !ok || err != nil || !bytes.Equal(out, want) {
					rep.Violate("mysql-default-policy-not-default", "policy default_value: delivered value is not the configured default encoded as the declared type", replay+" want="+hx(want))
				}
			case 3:
				if !isEncErr {
					rep.Violate("mysql-error-policy-no-error", "policy error: no encoding error for an unrevealed value", replay)
				}
			}
		}
	}
	reps := 2
	if thorough {
		reps = 8
	}
	for i := 0; i < reps; i++ {
		for kind := 1; kind <= 4; kind++ {
			for pol := 0; pol < 4; pol++ {
				for _, bin := range []bool{false, true} {
					for _, key := range []bool{false, true} {
						one(kind, pol, bin, key, []int{0, 0, 1, 2, 3, 0, 1, 2}[i%8])
					}
				}
			}
		}
	}
	for i := 0; i < n; i++ {
		one(1+r.Intn(4), r.Intn(4), r.Bool(), r.Intn(3) != 0, []int{0, 0, 0, 0, 1, 2, 3}[r.Intn(7)])
	}
}
