package main

import (
	"bytes"
	"context"
	"encoding/base64"
	"encoding/binary"
	"fmt"
	"strconv"

	"acra-vh/vh"

	"github.com/cossacklabs/acra/crypto"
	"github.com/cossacklabs/acra/decryptor/base"
	"github.com/cossacklabs/acra/decryptor/base/type_awareness"
	"github.com/cossacklabs/acra/decryptor/mysql"
	base_mysql "github.com/cossacklabs/acra/decryptor/mysql/base"
	encryptor "github.com/cossacklabs/acra/encryptor/base"
	"github.com/cossacklabs/acra/encryptor/base/config"
	"github.com/cossacklabs/acra/encryptor/base/config/common"
)

// c19my: the MySQL twins of c19 — the TypeLong / TypeLongLong / TypeString / TypeBlob encoders,
// DataDecoderProcessor / DataEncoderProcessor, updateFieldEncodedType and the one-column data row of
// processTextDataRow / processBinaryDataRow — REPLAYED on Model/RunTypedMysql.v, plus the property's oracle on
// the implementation (independent reference encodings below).
func init() { register("c19my", "Model.RunTypedMysql", runC19My) }

func lenEnc(b []byte) []byte { return base_mysql.PutLengthEncodedString(append([]byte{}, b...)) }

// myTyped: the value encoded as the declared MySQL type in the text / binary protocol
func myTyped(kind int, binaryFmt bool, v []byte) ([]byte, bool) {
	switch kind {
	case 1, 2:
		n, err := strconv.ParseInt(string(v), 10, intBits(kind))
		if err != nil {
			return nil, false
		}
		if !binaryFmt {
			return lenEnc(v), true
		}
		if kind == 1 {
			b := make([]byte, 4)
			binary.LittleEndian.PutUint32(b, uint32(int32(n)))
			return b, true
		}
		b := make([]byte, 8)
		binary.LittleEndian.PutUint64(b, uint64(n))
		return b, true
	}
	return lenEnc(v), true
}

func myDefault(kind int, binaryFmt bool, d string) ([]byte, bool) {
	if kind == 4 {
		raw, err := base64.StdEncoding.DecodeString(d)
		if err != nil {
			return nil, false
		}
		return lenEnc(raw), true
	}
	return myTyped(kind, binaryFmt, []byte(d))
}

// ---------- Coq terms ----------

func c19myCoqCI(binaryFmt bool, typ, origin byte) string {
	return fmt.Sprintf("(mk_ci %s %d %d)", c19CoqBool(binaryFmt), typ, origin)
}

func c19myCoqCD(f mysql.VerifField) string {
	return fmt.Sprintf("(mk_cd %d %d %s %d %d %d %d)", f.Type, f.OriginType, c19CoqBool(f.Changed), f.Charset, f.ColumnLength, f.Flag, f.Decimal)
}

// c19myCDVals: what the client is told about the column (fixed-length tail of the dumped definition) + bookkeeping
func c19myCDVals(f mysql.VerifField, dump []byte) [][]byte {
	tail := dump
	if len(dump) >= 13 {
		tail = dump[len(dump)-13:]
	}
	ch := byte(0)
	if f.Changed {
		ch = 1
	}
	return [][]byte{append([]byte{}, tail...), {f.OriginType}, {ch}}
}

func c19myStatus(err error) vh.Outcome {
	if _, ok := err.(*base.EncodingError); ok {
		return vh.Ok([]byte{1})
	}
	if err == base_mysql.ErrConvertToDataType {
		return vh.Ok([]byte{4})
	}
	return vh.Ok([]byte{2})
}

func c19myFlag(b bool) []byte {
	if b {
		return []byte{1}
	}
	return []byte{0}
}

// ---------- schema store with one table "t" / column "c" ----------

type c19myStore struct{ set config.ColumnEncryptionSetting }
type c19mySchema struct{ set config.ColumnEncryptionSetting }

func (s *c19myStore) GetDatabaseSettings() config.DatabaseSettings { return nil }
func (s *c19myStore) GetGlobalSettingsMask() config.SettingMask    { return 0 }
func (s *c19myStore) GetTableSchema(name string) config.TableSchema {
	if name != "t" {
		return nil
	}
	return &c19mySchema{s.set}
}
func (s *c19mySchema) Name() string                 { return "t" }
func (s *c19mySchema) Columns() []string            { return []string{"c"} }
func (s *c19mySchema) NeedToEncrypt(n string) bool  { return n == "c" }
func (s *c19mySchema) GetColumnEncryptionSettings(n string) config.ColumnEncryptionSetting {
	if n != "c" {
		return nil
	}
	return s.set
}

// ---------- value tables ----------

var c19myBlobTypes = []base_mysql.Type{base_mysql.TypeBlob, base_mysql.TypeBlob, base_mysql.TypeBlob, base_mysql.TypeVarString, base_mysql.TypeString,
	base_mysql.TypeTinyBlob, base_mysql.TypeMediumBlob, base_mysql.TypeLongBlob, base_mysql.TypeVarchar}
var c19myOtherLenencTypes = []base_mysql.Type{base_mysql.TypeDecimal, base_mysql.TypeNewDecimal, base_mysql.TypeBit, base_mysql.TypeEnum, base_mysql.TypeSet,
	base_mysql.TypeGeometry, base_mysql.TypeDate, base_mysql.TypeNewDate, base_mysql.TypeTimestamp, base_mysql.TypeDatetime, base_mysql.TypeTime}
var c19myIntTypes = []base_mysql.Type{base_mysql.TypeLong, base_mysql.TypeLongLong, base_mysql.TypeTiny, base_mysql.TypeShort, base_mysql.TypeInt24, base_mysql.TypeYear}

func c19myIntWidth(t base_mysql.Type) int {
	switch t {
	case base_mysql.TypeTiny:
		return 1
	case base_mysql.TypeShort, base_mysql.TypeYear:
		return 2
	case base_mysql.TypeInt24, base_mysql.TypeLong:
		return 4
	case base_mysql.TypeLongLong:
		return 8
	}
	return 0
}

func c19myPin(b []byte) []byte { // capacity = length, so that slicing beyond the row panics as the model says
	out := make([]byte, len(b))
	copy(out, b)
	return out[:len(b):len(b)]
}

type c19myCase struct {
	kind      int // 1..4 encoder kind, 0 = no declared type
	polIdx    int // 0..3 policy words, 4 = bogus (struct literal only)
	binaryFmt bool
	hasKey    bool
	defMode   int // 0 none, 1 valid, 2 invalid (struct literal only)
	storedAs  int // 0 envelope of the original, 1 garbage, 2 plain literal, 3 empty, 4 binary integer in an integer column, 5 truncated envelope, 6 SQL NULL
	origin    base_mysql.Type
	useID     bool // data_type_db_identifier instead of data_type
	emptyOrig bool // the protected value is the empty string
}

type c19myDomain struct {
	rep *vh.Report
	r   *vh.Rng
	sc  int
}

func (c *c19myDomain) micro() {
	rep, r := c.rep, c.r
	lits := append([]string{}, intLiterals...)
	lits = append(lits, "127", "128", "-128", "-129", "32767", "32768", "-32768", "-32769", "255", "65535")
	for i := 0; i < 16; i++ {
		lits = append(lits, strconv.FormatInt(int64(r.U64())>>uint(r.Intn(64)), 10))
	}
	for li, l := range lits {
		for _, bits := range []int{8, 16, 32, 64} {
			if bits <= 16 && li%3 != 0 && li < len(intLiterals) {
				continue
			}
			o := vh.Ok([]byte{2})
			if v, err := strconv.ParseInt(l, 10, bits); err == nil {
				buf := &bytes.Buffer{}
				switch bits {
				case 8:
					binary.Write(buf, binary.LittleEndian, int8(v))
				case 16:
					binary.Write(buf, binary.LittleEndian, int16(v))
				case 32:
					binary.Write(buf, binary.LittleEndian, int32(v))
				default:
					binary.Write(buf, binary.LittleEndian, v)
				}
				o = vh.Ok([]byte{0}, buf.Bytes())
			}
			rep.Add(fmt.Sprintf("ParseInt(%q,%d) little endian", l, bits), fmt.Sprintf("MLe %d %s", bits, vh.H([]byte(l))), o)
		}
	}
	for i := 0; i < 40; i++ {
		w := r.Pick(1, 2, 4, 8)
		b := r.Bytes(w)
		if r.Intn(3) == 0 {
			for j := range b {
				b[j] = []byte{0, 0xff, 0x80, 0x7f}[r.Intn(4)]
			}
		}
		var v int64
		switch w {
		case 1:
			v = int64(int8(b[0]))
		case 2:
			v = int64(int16(binary.LittleEndian.Uint16(b)))
		case 4:
			v = int64(int32(binary.LittleEndian.Uint32(b)))
		default:
			v = int64(binary.LittleEndian.Uint64(b))
		}
		rep.Add(fmt.Sprintf("binary.Read int%d %x", 8*w, b), "MLeDec "+vh.H(b), vh.Ok(strconv.AppendInt(nil, v, 10)))
	}
}

// direct calls of the registered encoders and of the two processors
func (c *c19myDomain) direct(set config.ColumnEncryptionSetting, binaryFmt bool, typ, origin byte, data []byte, lab string) {
	rep := c.rep
	ci := base.NewColumnInfo(0, "", binaryFmt, len(data), typ, origin)
	mkctx := func(decrypted bool) context.Context {
		ac := base.NewAccessContext(base.WithClientID([]byte(clientID)))
		ac.SetColumnInfo(ci)
		ctx := encryptor.NewContextWithEncryptionSetting(base.SetAccessContextToContext(context.Background(), ac), set)
		if decrypted {
			ctx = base.MarkDecryptedContext(ctx)
		}
		return ctx
	}
	coqCI := c19myCoqCI(binaryFmt, typ, origin)
	if e := type_awareness.GetMySQLDataTypeIDEncoders()[set.GetDBDataTypeID()]; e != nil {
		format := mysql.NewDataTypeFormat(ci, set)
		for _, decrypted := range []bool{false, true} {
			in := append([]byte{}, data...)
			ctx := mkctx(decrypted)
			o := vh.Guard(func() vh.Outcome {
				_, out, err := e.Encode(ctx, in, format)
				if err != nil {
					return c19myStatus(err)
				}
				if out == nil {
					return vh.Ok([]byte{3})
				}
				return vh.Ok([]byte{0}, out)
			})
			rep.Add(lab+" Encode", fmt.Sprintf("MEnc %s %s %s %s", c19CoqSetting(set), c19CoqBool(binaryFmt), c19CoqBool(decrypted), vh.H(data)), o)
		}
		in := append([]byte{}, data...)
		o := vh.Guard(func() vh.Outcome {
			_, out, err := e.Decode(context.Background(), in, format)
			if err != nil {
				return c19myStatus(err)
			}
			if out == nil {
				return vh.Ok([]byte{0})
			}
			return vh.Ok([]byte{1}, out)
		})
		rep.Add(lab+" Decode", fmt.Sprintf("MDec %d %s", set.GetDBDataTypeID(), vh.H(data)), o)
		for _, bf := range []bool{false, true} {
			f2 := mysql.NewDataTypeFormat(base.NewColumnInfo(0, "", bf, 0, typ, origin), set)
			o = vh.Guard(func() vh.Outcome {
				_, out, err := e.EncodeOnFail(context.Background(), f2)
				if err != nil {
					return c19myStatus(err)
				}
				if out == nil {
					return vh.Ok([]byte{0}, []byte{0})
				}
				return vh.Ok([]byte{0}, []byte{1}, out)
			})
			rep.Add(lab+" EncodeOnFail", fmt.Sprintf("MFail %s %s", c19CoqSetting(set), c19CoqBool(bf)), o)
		}
		str := string(data)
		rep.Add(lab+" ValidateDefaultValue", fmt.Sprintf("MValid %d %s", set.GetDBDataTypeID(), vh.H(data)), vh.Ok(c19myFlag(e.ValidateDefaultValue(&str) == nil)))
	}
	in := append([]byte{}, data...)
	o := vh.Guard(func() vh.Outcome {
		_, out, err := mysql.NewDataDecoderProcessor().OnColumn(mkctx(false), in)
		if err != nil {
			return c19myStatus(err)
		}
		return vh.Ok([]byte{0}, out)
	})
	rep.Add(lab+" DataDecoderProcessor", fmt.Sprintf("MDecP %s %s %s", c19CoqSetting(set), coqCI, vh.H(data)), o)
	for _, decrypted := range []bool{false, true} {
		in := append([]byte{}, data...)
		o := vh.Guard(func() vh.Outcome {
			ctx, out, err := mysql.NewDataEncoderProcessor().OnColumn(mkctx(decrypted), in)
			if err != nil {
				return c19myStatus(err)
			}
			return vh.Ok([]byte{0}, c19myFlag(base.IsErrorConvertedDataTypeFromContext(ctx)), out)
		})
		rep.Add(lab+" DataEncoderProcessor", fmt.Sprintf("MEncP %s %s %s %s", c19CoqSetting(set), coqCI, c19CoqBool(decrypted), vh.H(data)), o)
	}
}

func (c *c19myDomain) scenario(cs c19myCase) {
	rep, r := c.rep, c.r
	c.sc++
	lab := fmt.Sprintf("my sc%d kind=%d pol=%s bin=%v key=%v def=%d stored=%d origin=%d", c.sc, cs.kind, policyWords[cs.polIdx], cs.binaryFmt, cs.hasKey, cs.defMode, cs.storedAs, cs.origin)
	rep.Count(fmt.Sprintf("kind:%d", cs.kind))
	rep.Count("policy:" + policyWords[cs.polIdx])
	rep.Count(fmt.Sprintf("binary:%v", cs.binaryFmt))
	rep.Count(fmt.Sprintf("reader-has-key:%v", cs.hasKey))
	rep.Count(fmt.Sprintf("stored:%d", cs.storedAs))
	rep.Count(fmt.Sprintf("origin-type:%d", cs.origin))
	var def *string
	if cs.defMode != 0 {
		d := genDefault(r, cs.kind, cs.defMode == 1)
		def = &d
	}
	// ---- the setting: through the real Init (validated) or a struct literal
	var set *config.BasicColumnEncryptionSetting
	validated := false
	if cs.polIdx < 4 && cs.defMode != 2 {
		if cs.useID && cs.kind != 0 {
			set = newSetting("", common.MySQLEncryptedTypeDataTypeIDs[common.EncryptedType(cs.kind)], policyWords[cs.polIdx], def)
		} else {
			set = newSetting(dataTypeOfKind[cs.kind], 0, policyWords[cs.polIdx], def)
		}
		if err := set.Init(true); err == nil {
			validated = true
		} else {
			set = nil
		}
	}
	rep.Count(fmt.Sprintf("init-accepted:%v", validated))
	if set == nil {
		id := uint32(0)
		if cs.kind != 0 {
			id = common.MySQLEncryptedTypeDataTypeIDs[common.EncryptedType(cs.kind)]
		}
		set = newSetting(dataTypeOfKind[cs.kind], id, policyWords[cs.polIdx], def)
	}
	typeID := uint32(0)
	if cs.kind != 0 {
		typeID = common.MySQLEncryptedTypeDataTypeIDs[common.EncryptedType(cs.kind)]
		rep.OracleChecks++
		if validated && set.GetDBDataTypeID() != typeID {
			rep.Violate("mysql-type-id", "Init resolved another MySQL type id than the declared type", lab)
		}
	}
	if validated && def != nil {
		rep.OracleChecks++
		if _, ok := myDefault(cs.kind, cs.binaryFmt, *def); !ok {
			rep.Violate("init-accepts-invalid-default", "Init accepted a default value that is not a value of the declared type", fmt.Sprintf("%s default=%q", lab, *def))
		}
	}

	// ---- the column definition the database sent, and its rewrite
	dbField := mysql.VerifField{Table: "t", Name: "c", Type: byte(cs.origin), Charset: uint16(r.Pick(63, 63, 33, 45, 8, 255)),
		ColumnLength: uint32(r.Pick(255, 65535, 16777215, 4294967295, 11, 20, 0)), Decimal: uint8(r.Pick(0, 0, 31))}
	dbField.Flag = uint16(r.Pick(0, 16, 16|128, 16|128|4096, 128, 1|16|128, 0xffff, 4096|1))
	store := &c19myStore{set}
	var field mysql.VerifField
	var dump []byte
	o := vh.Guard(func() vh.Outcome {
		field, dump = mysql.VerifUpdateFieldEncodedType(dbField, store)
		return vh.Ok(c19myCDVals(field, dump)...)
	})
	rep.Add(lab+" updateFieldEncodedType", fmt.Sprintf("MField (Some %s) %s", c19CoqSetting(set), c19myCoqCD(dbField)), o)
	if o.Kind != "ok" {
		rep.OracleChecks++
		rep.Violate("panic", "updateFieldEncodedType panicked: "+o.Msg, lab)
		return
	}
	if r.Intn(8) == 0 { // a column of another table: left alone
		other := dbField
		other.Table = "u"
		f2, d2 := mysql.VerifUpdateFieldEncodedType(other, store)
		rep.Add(lab+" updateFieldEncodedType other table", fmt.Sprintf("MField None %s", c19myCoqCD(other)), vh.Ok(c19myCDVals(f2, d2)...))
		rep.OracleChecks++
		if f2 != other {
			rep.Violate("mysql-column-definition-foreign", "a column without a setting was rewritten", lab)
		}
	}
	if validated && cs.kind != 0 {
		rep.OracleChecks++
		bad := ""
		switch {
		case uint32(field.Type) != typeID || !field.Changed || field.OriginType != byte(cs.origin):
			bad = "does not name the declared type (or lost the origin type)"
		case cs.kind != 3 && field.Charset != 63:
			bad = "an integer / blob column is not described with the binary charset"
		case cs.kind == 3 && field.Charset == 63:
			bad = "a string column is described with the binary charset"
		case cs.kind != 4 && field.Flag&mysql.BlobFlag != 0:
			bad = "an integer / string column keeps the BLOB flag"
		case field.Flag|mysql.BlobFlag != dbField.Flag|mysql.BlobFlag:
			bad = "flags other than BLOB changed"
		}
		if bad != "" {
			rep.Violate("mysql-column-definition", "rewritten column definition "+bad, fmt.Sprintf("%s db=%+v rewritten=%+v", lab, dbField, field))
		}
	}

	// ---- the stored value and the row
	owner := vh.NewKeySet(r, 1, 1, true)
	orig := genOriginal(r, cs.kind)
	if cs.emptyOrig {
		orig = []byte{}
	}
	var raw []byte
	isEnvelope := false
	originW := c19myIntWidth(cs.origin)
	switch cs.storedAs {
	case 0, 5:
		id := byte(crypto.AcraBlockEnvelopeID)
		if r.Intn(3) == 0 {
			id = crypto.AcraStructEnvelopeID
		}
		vh.StartTape(r)
		env, err := crypto.NewRegistryHandler(storeFor(owner)).EncryptWithHandler(handlerByID(id), []byte(clientID), append([]byte{}, orig...))
		vh.StopTape()
		if err != nil {
			rep.Count("encrypt-error")
			return
		}
		raw, isEnvelope = env, true
		if cs.storedAs == 5 {
			raw, isEnvelope = env[:len(env)-1-r.Intn(len(env)/2)], false
		}
	case 1:
		raw = genBytes(r)
	case 2:
		raw = append([]byte{}, orig...)
	case 4:
		raw = r.Bytes(originW)
		if r.Bool() {
			for i := range raw {
				raw[i] = []byte{0, 0xff, 0x80, 0x7f, 1}[r.Intn(5)]
			}
		}
	default:
		raw = []byte{}
	}
	// what the processors are handed for this cell (binary protocol + integer column: the decimal text)
	isNull := cs.storedAs == 6
	var row []byte
	if cs.binaryFmt {
		row = []byte{0, 0}
		if isNull {
			row[1] = 4
		} else if originW > 0 {
			if len(raw) != originW { // an integer column holds integers only
				raw = make([]byte, originW)
			}
			row = append(row, raw...)
		} else if cs.origin != base_mysql.TypeNull {
			row = append(row, lenEnc(raw)...)
		}
		if r.Intn(12) == 0 && len(row) > 2 { // malformed stream: truncated row / foreign header
			if r.Bool() {
				row = row[:2+r.Intn(len(row)-2)]
			} else {
				row[0] = byte(r.Pick(0xfe, 0xff, 1))
			}
			rep.Count("row:malformed")
		}
	} else {
		if isNull {
			row = []byte{0xfb}
		} else {
			row = lenEnc(raw)
		}
		if r.Intn(12) == 0 {
			row = row[:r.Intn(len(row))]
			rep.Count("row:malformed")
		} else if r.Intn(12) == 0 {
			row = append(row, r.Bytes(1+r.Intn(4))...)
			rep.Count("row:trailing")
		}
	}
	wellFormedRow := true
	if cs.binaryFmt {
		want := []byte{0, 0}
		if isNull {
			want[1] = 4
		} else if originW > 0 {
			want = append(want, raw...)
		} else if cs.origin != base_mysql.TypeNull {
			want = append(want, lenEnc(raw)...)
		}
		wellFormedRow = bytes.Equal(row, want)
	} else if isNull {
		wellFormedRow = bytes.Equal(row, []byte{0xfb})
	} else {
		wellFormedRow = bytes.Equal(row, lenEnc(raw))
	}
	row = c19myPin(row)

	var reader *vh.KeySet
	if cs.hasKey {
		reader = owner
	} else if r.Bool() {
		reader = vh.NewKeySet(r, 1, 1, true)
	}
	st := storeFor(reader)
	newSubs := func() ([]base.DecryptionSubscriber, *tapSub, *tapSub, *revealSub) {
		det := crypto.NewEnvelopeDetector()
		det.AddCallback(crypto.NewDecryptHandler(st, crypto.NewRegistryHandler(st)))
		t1, t2 := &tapSub{name: "tap1"}, &tapSub{name: "tap2"}
		rv := &revealSub{inner: det}
		return []base.DecryptionSubscriber{mysql.NewDataDecoderProcessor(), t1, rv, t2, mysql.NewDataEncoderProcessor()}, t1, t2, rv
	}
	newCtx := func() (context.Context, *base.AccessContext) {
		ac := base.NewAccessContext(base.WithClientID([]byte(clientID)))
		return encryptor.NewContextWithEncryptionSetting(base.SetAccessContextToContext(context.Background(), ac), config.ColumnEncryptionSetting(set)), ac
	}

	// ---- end to end: the row through process{Text,Binary}DataRow
	subs, t1, t2, rv := newSubs()
	ctx, _ := newCtx()
	var out []byte
	var after []mysql.VerifField
	var dumps [][]byte
	var err error
	ro := vh.Guard(func() vh.Outcome {
		out, after, dumps, err = mysql.VerifProcessDataRow(ctx, subs, cs.binaryFmt, row, []mysql.VerifField{field})
		if err != nil {
			return c19myStatus(err)
		}
		return vh.Ok(append([][]byte{{0}, out}, c19myCDVals(after[0], dumps[0])...)...)
	})
	if rv.err != nil {
		rep.Count("reveal-step-error")
		return
	}
	decrypted := t2.hit && t2.dec
	revealed := "None"
	if decrypted {
		revealed = "(Some " + vh.H(t2.seen) + ")"
	}
	rep.Add(lab+" row", fmt.Sprintf("MRow %s %s %s %s %s", c19CoqSetting(set), c19CoqBool(cs.binaryFmt), c19myCoqCD(dbField), revealed, vh.H(row)), ro)
	rep.Count(fmt.Sprintf("decrypted:%v", decrypted))

	// ---- the same cell through the subscriber chain alone (conversion flag visible)
	if wellFormedRow && !isNull {
		cellIn := append([]byte{}, raw...)
		subs2, s1, s2, rv2 := newSubs()
		obs := base.NewColumnDecryptionObserver()
		for _, s := range subs2 {
			obs.SubscribeOnAllColumnsDecryption(s)
		}
		ctx2, ac2 := newCtx()
		ac2.SetColumnInfo(base.NewColumnInfo(0, "", cs.binaryFmt, len(cellIn), field.Type, field.OriginType))
		co := vh.Guard(func() vh.Outcome {
			rctx, cout, cerr := obs.OnColumnDecryption(ctx2, 0, cellIn)
			if cerr != nil {
				o := c19myStatus(cerr)
				if s1.hit {
					o.Vals = append(o.Vals, s1.seen)
				}
				return o
			}
			return vh.Ok([]byte{0}, s1.seen, c19myFlag(base.IsErrorConvertedDataTypeFromContext(rctx)), cout)
		})
		if rv2.err == nil {
			rev2 := "None"
			if s2.hit && s2.dec {
				rev2 = "(Some " + vh.H(s2.seen) + ")"
			}
			rep.Add(lab+" cell", fmt.Sprintf("MCell %s %s %s %s", c19CoqSetting(set), c19myCoqCI(cs.binaryFmt, field.Type, field.OriginType), rev2, vh.H(cellIn)), co)
		}
	}
	if r.Intn(5) == 0 {
		c.direct(set, cs.binaryFmt, field.Type, field.OriginType, raw, lab)
		c.direct(set, cs.binaryFmt, field.Type, field.OriginType, orig, lab)
	}

	// ---- the property's oracle, on the implementation only ----
	replay := fmt.Sprintf("%s setting={type_id=%d policy=%q default=%v} db-column=%+v original=%q stored=%s row=%s delivered-row=%s err=%v",
		lab, set.GetDBDataTypeID(), set.GetResponseOnFail(), optQ(def), dbField, orig, hx(raw), hx(row), hx(out), err)
	if len(rep.Samples) < 5 {
		rep.Samples = append(rep.Samples, replay)
	}
	if ro.Kind == "panic" {
		rep.OracleChecks++
		if wellFormedRow {
			rep.Violate("panic", "MySQL row processing panicked: "+ro.Msg, replay)
		} else {
			rep.Count("malformed-row-panic") // C14 territory (slice of a truncated row)
		}
		return
	}
	blobOrigin := base_mysql.Type(cs.origin).IsBinaryType()
	if !validated || cs.kind == 0 || !wellFormedRow || !(blobOrigin || cs.storedAs == 4) {
		return // struct-literal settings, malformed rows, exotic column types: model comparison only
	}
	rep.OracleChecks++
	_, isEncErr := err.(*base.EncodingError)
	// split the delivered row
	var cell []byte
	if err == nil {
		if cs.binaryFmt {
			if len(out) < 2 || !bytes.Equal(out[:2], row[:2]) {
				rep.Violate("mysql-row-header", "binary row header / NULL bitmap changed", replay)
				return
			}
			cell = out[2:]
		} else {
			cell = out
		}
	}
	finalType := byte(0)
	if err == nil {
		finalType = after[0].Type
	}
	typedDef := func() bool { return uint32(finalType) == typeID }
	switch {
	case isNull:
		if err != nil || len(cell) != len(row)-map[bool]int{true: 2, false: 0}[cs.binaryFmt] || !typedDef() {
			rep.Violate("mysql-null-not-kept", "a NULL cell did not stay NULL", replay)
		}
	case len(raw) == 0:
		if err != nil || !bytes.Equal(cell, lenEnc(raw)) {
			rep.Violate("mysql-empty-not-kept", "an empty value did not stay empty", replay)
		} else if cs.binaryFmt && cs.kind <= 2 && typedDef() {
			rep.Violate("mysql-binary-empty-value-in-int-column", "binary protocol: an empty value is delivered as one byte 00 in a column described as a fixed-width integer", replay)
		}
	case decrypted:
		if !isEnvelope || !cs.hasKey || !bytes.Equal(t2.seen, orig) {
			rep.Violate("mysql-reveal-mismatch", "revealed without key / to another value", replay)
			return
		}
		if len(orig) == 0 {
			if err != nil || !bytes.Equal(cell, lenEnc(orig)) {
				rep.Violate("mysql-empty-not-kept", "an empty revealed value did not stay empty", replay)
			} else if cs.binaryFmt && cs.kind <= 2 && typedDef() {
				rep.Violate("mysql-binary-empty-value-in-int-column", "binary protocol: an empty revealed value is delivered as one byte 00 in a column described as a fixed-width integer", replay)
			}
			return
		}
		want, ok := myTyped(cs.kind, cs.binaryFmt, orig)
		if !ok {
			// no integer of the declared width: binary protocol refuses (statement error), text protocol hands it through
			if err == nil && !bytes.Equal(cell, lenEnc(orig)) {
				rep.Violate("mysql-owner-wrong-value", "a revealed non-integer was delivered changed", replay)
			} else if err == nil {
				rep.Violate("mysql-int-column-plaintext-not-integer", "a revealed value that is no integer of the declared width is delivered verbatim in a column described as integer", replay)
			}
			return
		}
		if err != nil || !bytes.Equal(cell, want) || !typedDef() {
			rep.Violate("mysql-owner-wrong-value", "owner did not receive the original encoded as the declared type in a column described as that type", replay+" want="+hx(want))
		}
	default:
		if isEnvelope && cs.hasKey {
			rep.Violate("mysql-owner-not-revealed", "the owning reader's envelope was not revealed", replay)
			return
		}
		seen := raw
		if cs.storedAs == 4 { // a binary integer of an integer column reaches the processors as its decimal text
			seen = t1.seen
			var v int64
			switch originW {
			case 1:
				v = int64(int8(raw[0]))
			case 2:
				v = int64(int16(binary.LittleEndian.Uint16(raw)))
			case 4:
				v = int64(int32(binary.LittleEndian.Uint32(raw)))
			default:
				v = int64(binary.LittleEndian.Uint64(raw))
			}
			if cs.binaryFmt && string(seen) != strconv.FormatInt(v, 10) {
				rep.Violate("mysql-binary-int-decoded-wrong", "a little-endian integer cell was not decoded to its value", replay)
				return
			}
			if !cs.binaryFmt {
				return // text protocol never carries fixed-width integers
			}
		}
		if typed, ok := myTyped(cs.kind, cs.binaryFmt, seen); ok && cs.kind <= 2 {
			if err != nil || !bytes.Equal(cell, typed) || !typedDef() {
				rep.Violate("mysql-plain-int-changed", "a stored plain integer was not delivered as the declared type", replay)
			}
			return
		}
		if cs.storedAs == 4 {
			return // an integer outside the declared width / a str, bytes setting on an integer column: model comparison only
		}
		switch policyCode(set.GetResponseOnFail()) {
		case 0, 1:
			if err != nil || !bytes.Equal(cell, lenEnc(raw)) {
				rep.Violate("mysql-ciphertext-policy-not-ciphertext", "policy ciphertext: delivered value is not the stored value", replay)
			} else if finalType != byte(cs.origin) {
				rep.Violate("mysql-ciphertext-described-as-typed", "policy ciphertext: the stored bytes are delivered in a column still described as the declared type", replay)
			}
		case 2:
			if def == nil {
				rep.Count("default-policy-without-default")
				if err != nil || !bytes.Equal(cell, lenEnc(raw)) || finalType != byte(cs.origin) {
					rep.Violate("mysql-default-policy-without-default", "policy default_value without a configured default: neither ciphertext nor error", replay)
				}
				return
			}
			want, ok := myDefault(cs.kind, cs.binaryFmt, *def)
			if !ok || err != nil || !bytes.Equal(cell, want) {
				rep.Violate("mysql-default-policy-not-default", "policy default_value: delivered value is not the configured default encoded as the declared type", replay+" want="+hx(want))
			} else if !typedDef() {
				rep.Violate("mysql-default-described-as-origin", "policy default_value: the default is delivered in a column not described as the declared type", replay)
			}
		case 3:
			if !isEncErr {
				rep.Violate("mysql-error-policy-no-error", "policy error: no encoding error for an unrevealed value", replay)
			}
		}
	}
}

// c19myTapList records every call (the value after the reveal step and whether it was revealed)
type c19myTapList struct {
	seen [][]byte
	dec  []bool
}

func (t *c19myTapList) ID() string { return "c19myTapList" }
func (t *c19myTapList) OnColumn(ctx context.Context, data []byte) (context.Context, []byte, error) {
	t.seen = append(t.seen, append([]byte{}, data...))
	t.dec = append(t.dec, base.IsDecryptedFromContext(ctx))
	return ctx, data, nil
}

// resultSet: the rows of ONE result set (one column of a binary type) through the same column definition.
// pattern: 0 = envelope of the reader (revealed), 1 = envelope of another client (stays ciphertext), 2 = garbage,
// 3 = plain literal. Oracle: every delivered cell must be framed as the FINAL column definition says.
func (c *c19myDomain) resultSet(kind, polIdx int, binaryFmt bool, pattern []int) {
	rep, r := c.rep, c.r
	c.sc++
	lab := fmt.Sprintf("my sc%d result-set kind=%d pol=%s bin=%v rows=%v", c.sc, kind, policyWords[polIdx], binaryFmt, pattern)
	rep.Count(fmt.Sprintf("result-set:rows=%d", len(pattern)))
	var def *string
	if polIdx == 2 {
		d := genDefault(r, kind, true)
		def = &d
	}
	set := newSetting(dataTypeOfKind[kind], 0, policyWords[polIdx], def)
	if err := set.Init(true); err != nil {
		rep.Count("init-refused")
		return
	}
	typeID := common.MySQLEncryptedTypeDataTypeIDs[common.EncryptedType(kind)]
	origin := c19myBlobTypes[r.Intn(len(c19myBlobTypes))]
	dbField := mysql.VerifField{Table: "t", Name: "c", Type: byte(origin), Charset: 63, ColumnLength: 65535, Flag: uint16(r.Pick(16|128, 128, 0))}
	field, _ := mysql.VerifUpdateFieldEncodedType(dbField, &c19myStore{set})
	owner, other := vh.NewKeySet(r, 1, 1, true), vh.NewKeySet(r, 1, 1, true)
	var rows [][]byte
	var raws [][]byte
	for _, p := range pattern {
		orig := genOriginal(r, kind)
		if kind <= 2 && r.Intn(4) != 0 { // mostly values of the declared type
			orig = []byte(strconv.FormatInt(int64(int32(r.U64())), 10))
		}
		var raw []byte
		switch p {
		case 0, 1:
			ks := owner
			if p == 1 {
				ks = other
			}
			vh.StartTape(r)
			env, err := crypto.NewRegistryHandler(storeFor(ks)).EncryptWithHandler(handlerByID(crypto.AcraBlockEnvelopeID), []byte(clientID), append([]byte{}, orig...))
			vh.StopTape()
			if err != nil {
				rep.Count("encrypt-error")
				return
			}
			raw = env
		case 2:
			raw = genBytes(r)
		default:
			raw = orig
		}
		row := lenEnc(raw)
		if binaryFmt {
			row = append([]byte{0, 0}, row...)
		}
		rows = append(rows, c19myPin(row))
		raws = append(raws, raw)
	}
	st := storeFor(owner)
	det := crypto.NewEnvelopeDetector()
	det.AddCallback(crypto.NewDecryptHandler(st, crypto.NewRegistryHandler(st)))
	tap := &c19myTapList{}
	rv := &revealSub{inner: det}
	subs := []base.DecryptionSubscriber{mysql.NewDataDecoderProcessor(), rv, tap, mysql.NewDataEncoderProcessor()}
	ac := base.NewAccessContext(base.WithClientID([]byte(clientID)))
	ctx := encryptor.NewContextWithEncryptionSetting(base.SetAccessContextToContext(context.Background(), ac), config.ColumnEncryptionSetting(set))
	var outs [][]byte
	var after []mysql.VerifField
	var dumps [][]byte
	var err error
	o := vh.Guard(func() vh.Outcome {
		outs, after, dumps, err = mysql.VerifProcessDataRows(ctx, subs, binaryFmt, rows, []mysql.VerifField{field})
		if err != nil {
			return c19myStatus(err)
		}
		return vh.Ok(append(append([][]byte{{0}}, outs...), c19myCDVals(after[0], dumps[0])...)...)
	})
	if rv.err != nil {
		rep.Count("reveal-step-error")
		return
	}
	term := ""
	for i := range rows {
		rev := "None"
		if i < len(tap.dec) && tap.dec[i] {
			rev = "(Some " + vh.H(tap.seen[i]) + ")"
		} else if i >= len(tap.dec) && err == nil {
			return
		}
		if i > 0 {
			term += "; "
		}
		term += fmt.Sprintf("(%s, %s)", rev, vh.H(rows[i]))
	}
	rep.Add(lab+" rows", fmt.Sprintf("MRows %s %s %s [%s]", c19CoqSetting(set), c19CoqBool(binaryFmt), c19myCoqCD(dbField), term), o)
	rep.OracleChecks++
	replay := fmt.Sprintf("%s setting={type_id=%d policy=%q default=%v} db-column=%+v stored=%s delivered-rows=%s final-column=%+v err=%v",
		lab, typeID, set.GetResponseOnFail(), optQ(def), dbField, c19myHxList(raws), c19myHxList(outs), after, err)
	if o.Kind == "panic" {
		rep.Violate("panic", "MySQL result set processing panicked: "+o.Msg, replay)
		return
	}
	if err != nil {
		return // an error fails the whole statement: single-row oracle
	}
	finalType := base_mysql.Type(after[0].Type)
	if uint32(finalType) != typeID && finalType != origin {
		rep.Violate("mysql-column-definition", "the final column definition names neither the declared nor the database's type", replay)
		return
	}
	for i, out := range outs {
		cell := out
		if binaryFmt {
			cell = out[2:]
		}
		ok := false
		if w := c19myIntWidth(finalType); binaryFmt && w > 0 {
			ok = len(cell) == w
		} else {
			_, n, lerr := base_mysql.LengthEncodedString(cell)
			ok = lerr == nil && n == len(cell)
		}
		if !ok {
			class := "mysql-binary-mixed-rows-type-rollback"
			if !binaryFmt || uint32(finalType) == typeID {
				class = "mysql-row-framing"
			}
			rep.Violate(class, fmt.Sprintf("row %d of the result set is not framed as the final column definition (type %d) says", i, finalType), replay)
			return
		}
	}
}

func c19myHxList(bs [][]byte) string {
	out := "["
	for i, b := range bs {
		if i > 0 {
			out += " "
		}
		out += hx(b)
	}
	return out + "]"
}

func runC19My(rep *vh.Report, r *vh.Rng, n int, thorough bool) {
	r = vh.NewRng(r.U64())
	c := &c19myDomain{rep: rep, r: r}
	c.micro()
	blob := func() base_mysql.Type { return c19myBlobTypes[r.Intn(len(c19myBlobTypes))] }
	// the cross product type x policy x protocol x reader, each cell of the matrix at least once
	reps := 1
	if thorough {
		reps = 8
	}
	for i := 0; i < reps; i++ {
		for kind := 1; kind <= 4; kind++ {
			for pol := 0; pol < 4; pol++ {
				for _, bin := range []bool{false, true} {
					for _, key := range []bool{false, true} {
						cs := c19myCase{kind: kind, polIdx: pol, binaryFmt: bin, hasKey: key, origin: base_mysql.TypeBlob, useID: i%2 == 1}
						if pol == 2 {
							cs.defMode = 1
						}
						if i > 0 {
							cs.storedAs = []int{0, 0, 1, 2, 3, 5, 6, 1}[i%8]
							cs.origin = blob()
						}
						c.scenario(cs)
					}
				}
			}
		}
	}
	// boundaries: int64 defaults over the whole range in both protocols; empty values; integer columns
	for _, bin := range []bool{false, true} {
		for i := 0; i < 6; i++ {
			c.scenario(c19myCase{kind: 2, polIdx: 2, binaryFmt: bin, defMode: 1, origin: base_mysql.TypeBlob, storedAs: i % 2})
		}
		for kind := 1; kind <= 4; kind++ {
			c.scenario(c19myCase{kind: kind, polIdx: 1, binaryFmt: bin, origin: base_mysql.TypeBlob, storedAs: 3})
			c.scenario(c19myCase{kind: kind, polIdx: 3, binaryFmt: bin, hasKey: true, origin: base_mysql.TypeBlob, emptyOrig: true})
		}
	}
	for _, t := range c19myIntTypes {
		for kind := 1; kind <= 2; kind++ {
			c.scenario(c19myCase{kind: kind, polIdx: r.Intn(4), binaryFmt: true, origin: t, storedAs: 4})
		}
	}
	// result sets: rows of the reader mixed with rows that stay ciphertext, same column definition
	for _, bin := range []bool{false, true} {
		for kind := 1; kind <= 4; kind++ {
			c.resultSet(kind, 1, bin, []int{0, 1})
			c.resultSet(kind, r.Intn(4), bin, []int{r.Intn(4), r.Intn(4), r.Intn(4)})
		}
		c.resultSet(1, 2, bin, []int{1, 0, 2})
		c.resultSet(2, 0, bin, []int{3, 2})
	}
	for i := 0; i < n/8; i++ {
		pat := make([]int, 1+r.Intn(4))
		for j := range pat {
			pat[j] = r.Intn(4)
		}
		c.resultSet(1+r.Intn(4), r.Intn(4), r.Bool(), pat)
	}
	// random scenarios: ~80 % well-formed, the rest malformed settings / columns
	for i := 0; i < n; i++ {
		cs := c19myCase{kind: 1 + r.Intn(4), polIdx: r.Intn(4), binaryFmt: r.Bool(), hasKey: r.Intn(3) != 0, origin: blob(), useID: r.Intn(3) == 0}
		if cs.polIdx == 2 || r.Intn(8) == 0 {
			cs.defMode = 1
		}
		cs.storedAs = []int{0, 0, 0, 0, 0, 1, 2, 3, 5, 6}[r.Intn(10)]
		if r.Intn(5) == 0 { // malformed stream
			switch r.Intn(6) {
			case 0:
				cs.kind = 0
			case 1:
				cs.polIdx = 4
			case 2:
				cs.defMode = 2
			case 3:
				cs.origin = c19myOtherLenencTypes[r.Intn(len(c19myOtherLenencTypes))]
			case 4:
				cs.origin = c19myIntTypes[r.Intn(len(c19myIntTypes))]
				cs.storedAs = 4
			default:
				cs.origin = base_mysql.TypeNull
				cs.storedAs = 3
			}
			rep.Count("stream:malformed")
		} else {
			rep.Count("stream:structured")
			if r.Intn(10) == 0 {
				cs.origin = c19myIntTypes[r.Intn(len(c19myIntTypes))]
				cs.storedAs = 4
				cs.kind = 1 + r.Intn(2)
			}
		}
		c.scenario(cs)
	}
}
