package main

// Generator `c15histstate` (Gen/PoisonDetectorState.v): the STATE a long-lived poison detector could carry.
// go/ast reading of the structs that live as long as a connection (database proxy) or the process (translator):
// crypto.PoisonRecordDetector, crypto.EnvelopeDetector, crypto.DecryptHandler, crypto.RegistryHandler,
// common.TranslatorService.  For each: the declared fields (name, type), the methods declared on it anywhere in its
// package directory with their receiver kind and the receiver fields they WRITE (assignment / ++ / address-of /
// argument of a sync/atomic call / delete / append-assignment / channel send), and the package-level variables
// of the file that declares the struct.  Properties/C15_history.v proves `detector_is_stateless` over these tables:
// a new field, a method that starts writing a field, or a new package-level variable breaks that obligation.

import (
	"fmt"
	"go/ast"
	"go/parser"
	"go/printer"
	"go/token"
	"os"
	"path/filepath"
	"sort"
	"strings"
)

func init() { generators["c15histstate"] = c15histEmitState }

type c15histStruct struct {
	coqName string // prefix of the Coq definitions
	dir     string // package directory under the repo
	file    string // file declaring the struct
	name    string // struct type name
}

var c15histStructs = []c15histStruct{
	{"poison_detector", "crypto", "poison_detector.go", "PoisonRecordDetector"},
	{"envelope_detector", "crypto", "envelope_detector.go", "EnvelopeDetector"},
	{"decrypt_handler", "crypto", "decryptor.go", "DecryptHandler"},
	{"registry_handler", "crypto", "registry_handler.go", "RegistryHandler"},
	{"translator_service", "cmd/acra-translator/common", "service.go", "TranslatorService"},
}

type c15histMethod struct {
	name   string
	ptr    bool
	writes []string
}

func c15histTypeString(fset *token.FileSet, e ast.Expr) string {
	var sb strings.Builder
	if err := printer.Fprint(&sb, fset, e); err != nil {
		return "?"
	}
	return strings.Join(strings.Fields(sb.String()), " ")
}

// c15histRootField: for an expression rooted at the receiver (recv.f, recv.f[i], *recv.f, recv.f.g …) the name of
// the receiver field it goes through
func c15histRootField(e ast.Expr, recv string) (string, bool) {
	for {
		switch x := e.(type) {
		case *ast.ParenExpr:
			e = x.X
		case *ast.StarExpr:
			e = x.X
		case *ast.IndexExpr:
			e = x.X
		case *ast.SliceExpr:
			e = x.X
		case *ast.UnaryExpr:
			e = x.X
		case *ast.SelectorExpr:
			if id, ok := x.X.(*ast.Ident); ok && id.Name == recv {
				return x.Sel.Name, true
			}
			e = x.X
		default:
			return "", false
		}
	}
}

func c15histWrites(fd *ast.FuncDecl, recv string) []string {
	set := map[string]bool{}
	note := func(e ast.Expr) {
		if f, ok := c15histRootField(e, recv); ok {
			set[f] = true
		}
	}
	if fd.Body == nil || recv == "" || recv == "_" {
		return nil
	}
	ast.Inspect(fd.Body, func(n ast.Node) bool {
		switch x := n.(type) {
		case *ast.AssignStmt:
			if x.Tok != token.DEFINE {
				for _, l := range x.Lhs {
					note(l)
				}
			}
		case *ast.IncDecStmt:
			note(x.X)
		case *ast.SendStmt:
			note(x.Chan)
		case *ast.UnaryExpr:
			if x.Op == token.AND {
				note(x.X)
			}
		case *ast.CallExpr:
			// sync/atomic.*(recv.f, …), delete(recv.f, …), and any method call ON a receiver field whose name says it
			// mutates (Store, Add, Swap, CompareAndSwap, Set, Put, Delete, Lock: sync/atomic values, sync.Map, mutexes)
			switch fn := x.Fun.(type) {
			case *ast.SelectorExpr:
				if pkg, ok := fn.X.(*ast.Ident); ok && pkg.Name == "atomic" {
					for _, a := range x.Args {
						note(a)
					}
				}
				switch fn.Sel.Name {
				case "Store", "Add", "Swap", "CompareAndSwap", "Set", "Put", "Delete", "LoadOrStore", "Lock", "Do", "PushBack", "PushFront":
					note(fn.X)
				}
			case *ast.Ident:
				if fn.Name == "delete" && len(x.Args) > 0 {
					note(x.Args[0])
				}
			}
		}
		return true
	})
	var out []string
	for f := range set {
		out = append(out, f)
	}
	sort.Strings(out)
	return out
}

func c15histCoqStrings(xs []string) string {
	q := make([]string, len(xs))
	for i, x := range xs {
		q[i] = `"` + strings.ReplaceAll(x, `"`, `""`) + `"`
	}
	return "[" + strings.Join(q, "; ") + "]"
}

func c15histAnalyse(s c15histStruct) (fields [][2]string, methods []c15histMethod, vars []string, err error) {
	dir := filepath.Join(repoDir(), s.dir)
	fset := token.NewFileSet()
	pkgs, err := parser.ParseDir(fset, dir, func(fi os.FileInfo) bool {
		return !strings.HasSuffix(fi.Name(), "_test.go") && !strings.HasPrefix(fi.Name(), "export_verif")
	}, 0)
	if err != nil {
		return nil, nil, nil, err
	}
	found := false
	var fileNames []string
	files := map[string]*ast.File{}
	for _, p := range pkgs {
		for name, f := range p.Files {
			fileNames = append(fileNames, name)
			files[name] = f
		}
	}
	sort.Strings(fileNames)
	for _, name := range fileNames {
		f := files[name]
		declaring := filepath.Base(name) == s.file
		for _, d := range f.Decls {
			switch x := d.(type) {
			case *ast.GenDecl:
				for _, sp := range x.Specs {
					switch y := sp.(type) {
					case *ast.TypeSpec:
						st, ok := y.Type.(*ast.StructType)
						if !ok || y.Name.Name != s.name {
							continue
						}
						if !declaring {
							return nil, nil, nil, fmt.Errorf("%s is declared in %s, not in %s", s.name, name, s.file)
						}
						found = true
						for _, fl := range st.Fields.List {
							ty := c15histTypeString(fset, fl.Type)
							if len(fl.Names) == 0 {
								fields = append(fields, [2]string{"(embedded)", ty})
							}
							for _, n := range fl.Names {
								fields = append(fields, [2]string{n.Name, ty})
							}
						}
					case *ast.ValueSpec:
						if declaring && x.Tok == token.VAR {
							for _, n := range y.Names {
								vars = append(vars, n.Name)
							}
						}
					}
				}
			case *ast.FuncDecl:
				if x.Recv == nil || len(x.Recv.List) != 1 {
					continue
				}
				rt := x.Recv.List[0].Type
				ptr := false
				if st, ok := rt.(*ast.StarExpr); ok {
					ptr, rt = true, st.X
				}
				id, ok := rt.(*ast.Ident)
				if !ok || id.Name != s.name {
					continue
				}
				recv := ""
				if len(x.Recv.List[0].Names) == 1 {
					recv = x.Recv.List[0].Names[0].Name
				}
				methods = append(methods, c15histMethod{x.Name.Name, ptr, c15histWrites(x, recv)})
			}
		}
	}
	if !found {
		return nil, nil, nil, fmt.Errorf("struct %s not found in %s/%s", s.name, s.dir, s.file)
	}
	sort.SliceStable(methods, func(i, j int) bool { return methods[i].name < methods[j].name })
	return fields, methods, vars, nil
}

func c15histEmitState() {
	var sb strings.Builder
	sb.WriteString("(* GENERATED by `acra-vh c15histstate` (go/ast) from crypto/{poison_detector,envelope_detector,decryptor,registry_handler}.go and\n")
	sb.WriteString("   cmd/acra-translator/common/service.go - do not edit.  For every long-lived object on the poison detection path:\n")
	sb.WriteString("   <x>_fields  = declared struct fields (name, type), in order;\n")
	sb.WriteString("   <x>_methods = methods (name, pointer receiver?, receiver fields the body writes / takes the address of / hands to sync/atomic);\n")
	sb.WriteString("   <x>_file_vars = package-level variables declared in the same file. *)\n")
	sb.WriteString("From Coq Require Import String List.\nImport ListNotations.\nLocal Open Scope string_scope.\n\n")
	for _, s := range c15histStructs {
		fields, methods, vars, err := c15histAnalyse(s)
		if err != nil {
			fmt.Fprintln(os.Stderr, "c15histstate:", err)
			os.Exit(1)
		}
		var fl []string
		for _, f := range fields {
			fl = append(fl, fmt.Sprintf("(\"%s\", \"%s\")", f[0], strings.ReplaceAll(f[1], `"`, `""`)))
		}
		fmt.Fprintf(&sb, "(* %s/%s: type %s *)\n", s.dir, s.file, s.name)
		fmt.Fprintf(&sb, "Definition %s_fields : list (string * string) :=\n  [%s].\n", s.coqName, strings.Join(fl, ";\n   "))
		var ml []string
		for _, m := range methods {
			b := "false"
			if m.ptr {
				b = "true"
			}
			ml = append(ml, fmt.Sprintf("(\"%s\", %s, %s)", m.name, b, c15histCoqStrings(m.writes)))
		}
		fmt.Fprintf(&sb, "Definition %s_methods : list (string * bool * list string) :=\n  [%s].\n", s.coqName, strings.Join(ml, ";\n   "))
		fmt.Fprintf(&sb, "Definition %s_file_vars : list string := %s.\n\n", s.coqName, c15histCoqStrings(vars))
	}
	fmt.Print(sb.String())
}
