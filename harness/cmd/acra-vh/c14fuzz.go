package main

import (
	"bytes"
	"encoding/asn1"
	"encoding/hex"
	"fmt"
	"os"
	"strings"
	"time"

	"acra-vh/vh"

	acracensor "github.com/cossacklabs/acra/acra-censor"
	// the per-database type encoders register themselves in init(); acra-server always links them
	_ "github.com/cossacklabs/acra/decryptor/mysql/types"
	_ "github.com/cossacklabs/acra/decryptor/postgresql/types"
	"github.com/cossacklabs/acra/encryptor/base/config"
	kasn1 "github.com/cossacklabs/acra/keystore/v2/keystore/asn1"
	"github.com/cossacklabs/acra/logging"
	"github.com/cossacklabs/acra/sqlparser"
	"github.com/cossacklabs/acra/sqlparser/dialect"
	mysqlDialect "github.com/cossacklabs/acra/sqlparser/dialect/mysql"
	pgDialect "github.com/cossacklabs/acra/sqlparser/dialect/postgresql"
)

// c14fuzz: SUPPORTING evidence for C14 on the input-facing decoders that are NOT modelled in Coq
// (yacc SQL parser + printer + normalizer, firewall, ASN.1 key-ring reader, YAML configuration, audit-log
// line parsers): mutated and random inputs, each call under recover() and a timeout. Not a proof.
func init() { register("c14fuzz", "", runC14Fuzz) }

var sqlSeeds = []string{
	"SELECT a, b FROM t WHERE a = 1 AND b = 'x'",
	"select * from t1 join t2 on t1.id = t2.id where t1.x in (1,2,3) order by 1 desc limit 10 offset 2",
	"INSERT INTO secrets (a, b) VALUES (1, 'two'), (3, 'four')",
	"insert into t values (x'DEADBEEF', 0x1f, b'0101', -1.5e10, null, true)",
	"UPDATE t SET a = a + 1, b = concat(b, 'z') WHERE id between 1 and 5",
	"DELETE FROM t WHERE name like 'a%' or not (x is null)",
	"select (select max(x) from u where u.id = t.id) from t group by y having count(*) > 1",
	"select 1 union all select 2 union select 3",
	"select case when a > 1 then 'x' else 'y' end, cast(a as char), convert(b, signed) from t",
	"select `col`, \"quoted\" from `db`.`tbl` as x /* comment */ -- tail",
	"insert into t (a) values (?) on duplicate key update a = values(a)",
	"select $1, :v1, E'esc\\'aped', 'it''s' from t where a = any($2)",
	"prepare s from 'select 1'; execute s; deallocate prepare s",
	"begin; commit; rollback; set names utf8; show tables; use db",
	"create table t (id int primary key, v varchar(10) default 'x')",
}

func mutate(r *vh.Rng, s []byte, dict [][]byte) []byte {
	out := append([]byte{}, s...)
	for k := 0; k < 1+r.Intn(4); k++ {
		switch r.Intn(8) {
		case 0:
			if len(out) > 0 {
				out[r.Intn(len(out))] ^= 1 << r.Intn(8)
			}
		case 1:
			if len(out) > 0 {
				out = out[:r.Intn(len(out))]
			}
		case 2:
			if len(out) > 1 {
				i := r.Intn(len(out))
				j := i + r.Intn(len(out)-i)
				out = append(out[:j], append(append([]byte{}, out[i:j]...), out[j:]...)...)
			}
		case 3:
			i := r.Intn(len(out) + 1)
			ins := dict[r.Intn(len(dict))]
			out = append(out[:i], append(append([]byte{}, ins...), out[i:]...)...)
		case 4:
			i := r.Intn(len(out) + 1)
			out = append(out[:i], append(r.Bytes(1+r.Intn(6)), out[i:]...)...)
		case 5:
			if len(out) > 2 {
				i := r.Intn(len(out) - 1)
				out = append(out[:i], out[i+1+r.Intn(len(out)-i-1):]...)
			}
		case 6:
			n := 1 + r.Intn(60)
			i := r.Intn(len(out) + 1)
			out = append(out[:i], append(bytes.Repeat([]byte("("), n), out[i:]...)...)
		case 7:
			if len(out) > 0 {
				out[r.Intn(len(out))] = []byte{0, '\'', '"', '`', '\\', '%', 0xff, '\n', ';', '-', '/', '*'}[r.Intn(12)]
			}
		}
	}
	return out
}

var sqlDict = [][]byte{[]byte("'"), []byte("\""), []byte("`"), []byte("/*"), []byte("*/"), []byte("--"), []byte("\\"), []byte("0x"), []byte("x'"), []byte("E'"), []byte("$1"), []byte(":a"), []byte("?"), []byte(" union select "), []byte(" or "), []byte("(("), []byte("))"), []byte("9999999999999999999999"), []byte("1e999"), []byte("\x00"), []byte(";")}

// timed runs f under recover and a timeout; returns outcome kind: ok|err|panic|hang
func timed(f func() error, d time.Duration) (kind, msg string) {
	ch := make(chan [2]string, 1)
	go func() {
		defer func() {
			if rec := recover(); rec != nil {
				ch <- [2]string{"panic", fmt.Sprint(rec)}
			}
		}()
		if err := f(); err != nil {
			ch <- [2]string{"err", ""}
			return
		}
		ch <- [2]string{"ok", ""}
	}()
	select {
	case r := <-ch:
		return r[0], r[1]
	case <-time.After(d):
		return "hang", "no result after " + d.String()
	}
}

const censorCfg = `ignore_parse_error: false
version: 0.85.0
handlers:
  - handler: deny
    queries:
      - select * from forbidden
    tables:
      - secrets
    patterns:
      - select %%COLUMN%% from t where a = %%VALUE%%
      - insert into t (a) values (%%VALUE%%)
  - handler: allow
    patterns:
      - select a from t %%WHERE%%
      - "%%SELECT%%"
  - handler: allowall
`

const encryptorCfg = `schemas:
  - table: t
    columns: [id, a, b]
    encrypted:
      - column: a
        data_type: str
        default_data_value: d
        response_on_fail: default_value
      - column: b
        crypto_envelope: acrablock
        searchable: true
        masking: "xxxx"
        plaintext_length: 2
        plaintext_side: left
`

func runC14Fuzz(rep *vh.Report, r *vh.Rng, n int, thorough bool) {
	out := os.Getenv("VERIF_LAST_INPUT")
	note := func(kind, target string, in []byte) {
		if out != "" {
			os.WriteFile(out, []byte(kind+" "+target+" "+hex.EncodeToString(in)), 0o644)
		}
	}
	verdict := func(target string, in []byte, kind, msg string) {
		rep.OracleChecks++
		rep.Evaluations++
		rep.Count("target:" + target)
		rep.Count("outcome:" + kind)
		rep.Distinct[target+hex.EncodeToString(in)] = true
		if len(rep.Samples) < 6 && r.Intn(50) == 0 {
			rep.Samples = append(rep.Samples, fmt.Sprintf("%s <- %q => %s", target, string(in[:min(len(in), 120)]), kind))
		}
		switch kind {
		case "panic":
			rep.Violate("panic:"+target, target+" panicked: "+msg, "input(hex)="+hex.EncodeToString(in))
		case "hang":
			rep.Violate("hang:"+target, target+" did not return: "+msg, "input(hex)="+hex.EncodeToString(in))
		}
	}
	dialects := map[string]dialect.Dialect{"mysql": mysqlDialect.NewMySQLDialect(), "mysql-ansi": mysqlDialect.NewMySQLDialect(mysqlDialect.SetANSIMode(true)), "postgresql": pgDialect.NewPostgreSQLDialect()}
	censor := acracensor.NewAcraCensor()
	if err := censor.LoadConfiguration([]byte(censorCfg)); err != nil {
		panic(err)
	}
	parser := sqlparser.New(sqlparser.ModeDefault)
	// valid DER samples for the ASN.1 readers
	ring := kasn1.KeyRing{Purpose: kasn1.LikelyUTF8String("client/a/storage"), Current: 1, Keys: []kasn1.Key{{Seqnum: 1, State: 1, ValidSince: time.Unix(1, 0).UTC(), ValidUntil: time.Unix(2, 0).UTC(), Data: []kasn1.KeyData{{Format: 1, PublicKey: []byte{1, 2, 3}}}}}}
	ringDER, err := asn1.Marshal(ring)
	if err != nil {
		panic(err)
	}
	logParsers := map[string]logging.LogParser{}
	for _, f := range []string{logging.PlaintextFormatString, logging.JSONFormatString, logging.CefFormatString} {
		p, err := logging.NewLogParser(f)
		if err != nil {
			panic(err)
		}
		logParsers[f] = p
	}
	logSeeds := []string{
		`time="2020-01-01T00:00:00Z" level=info msg="hello" product=acra-server integrity=00aa chain=new`,
		`{"level":"info","msg":"m","product":"acra-server","timestamp":"2020-01-01T00:00:00Z","unixTime":"1.0","version":"0.1","integrity":"00aa","chain":"new"}`,
		`CEF:0|cossacklabs|acra-server|0.1|100|msg|1|unixTime=1.0 integrity=00aa chain=new`,
	}
	for i := 0; i < n; i++ {
		// --- SQL: tokenizer/parser/printer/normalizer in each dialect, and the firewall ---
		var sql []byte
		if r.Intn(6) == 0 {
			sql = r.Bytes(r.Intn(200))
		} else {
			sql = mutate(r, []byte(sqlSeeds[r.Intn(len(sqlSeeds))]), sqlDict)
		}
		for name, d := range dialects {
			d := d
			k, m := timed(func() error {
				st, err := sqlparser.ParseWithDialect(d, string(sql))
				if err != nil {
					return err
				}
				_ = sqlparser.StringWithDialect(d, st)
				return nil
			}, 10*time.Second)
			verdict("sqlparser.Parse+String/"+name, sql, k, m)
		}
		k, m := timed(func() error { _, _, _, err := parser.HandleRawSQLQuery(string(sql)); return err }, 10*time.Second)
		verdict("HandleRawSQLQuery", sql, k, m)
		k, m = timed(func() error { return censor.HandleQuery(string(sql)) }, 10*time.Second)
		verdict("AcraCensor.HandleQuery", sql, k, m)
		// --- ASN.1 key ring reader ---
		der := mutate(r, ringDER, [][]byte{{0x30, 0x84, 0xff, 0xff, 0xff, 0xff}, {0x02, 0x09, 0xff}, {0x04, 0x80}, {0x31, 0x00}})
		if r.Intn(5) == 0 {
			der = r.Bytes(r.Intn(64))
		}
		k, m = timed(func() error { _, err := kasn1.UnmarshalKeyRing(der); return err }, 5*time.Second)
		verdict("asn1.UnmarshalKeyRing", der, k, m)
		k, m = timed(func() error { _, err := kasn1.UnmarshalVerifiedContainer(der); return err }, 5*time.Second)
		verdict("asn1.UnmarshalVerifiedContainer", der, k, m)
		k, m = timed(func() error { _, err := kasn1.UnmarshalKeyDirectory(der); return err }, 5*time.Second)
		verdict("asn1.UnmarshalKeyDirectory", der, k, m)
		k, m = timed(func() error { _, err := kasn1.UnmarshalEncryptedKeys(der); return err }, 5*time.Second)
		verdict("asn1.UnmarshalEncryptedKeys", der, k, m)
		// --- YAML configuration (every 4th iteration: slower) ---
		if i%4 == 0 {
			ydict := [][]byte{[]byte("\n  - "), []byte(": "), []byte("&a "), []byte("*a"), []byte("!!binary "), []byte("[["), []byte("{"), []byte("\t"), []byte("-1"), []byte("99999999999999999999")}
			y := mutate(r, []byte(encryptorCfg), ydict)
			for _, my := range []bool{false, true} {
				my := my
				k, m = timed(func() error { _, err := config.MapTableSchemaStoreFromConfig(y, my); return err }, 10*time.Second)
				verdict(fmt.Sprintf("MapTableSchemaStoreFromConfig/mysql=%v", my), y, k, m)
			}
			yc := mutate(r, []byte(censorCfg), ydict)
			k, m = timed(func() error { return acracensor.NewAcraCensor().LoadConfiguration(yc) }, 10*time.Second)
			verdict("AcraCensor.LoadConfiguration", yc, k, m)
		}
		// --- audit-log line parsers ---
		line := mutate(r, []byte(logSeeds[r.Intn(len(logSeeds))]), [][]byte{[]byte(" integrity="), []byte(" chain="), []byte("\""), []byte("\\"), []byte("|"), []byte("="), []byte("}"), []byte("\n")})
		for f, p := range logParsers {
			p := p
			k, m = timed(func() error { _, err := p.ParseEntry(string(line)); return err }, 5*time.Second)
			verdict("logging.ParseEntry/"+f, line, k, m)
		}
	}
	// deep nesting (thorough only): a client-supplied statement with very deep parentheses must not kill the process
	if thorough {
		for _, depth := range []int{1000, 20000} {
			sql := []byte("select " + strings.Repeat("(", depth) + "1" + strings.Repeat(")", depth))
			note("deep", "sqlparser", sql[:64])
			k, m := timed(func() error { _, err := sqlparser.ParseWithDialect(dialects["mysql"], string(sql)); return err }, 30*time.Second)
			verdict(fmt.Sprintf("sqlparser.Parse/deep-%d", depth), sql[:64], k, m)
		}
	}
}
