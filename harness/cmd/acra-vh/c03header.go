package main

import (
	"bytes"
	"encoding/binary"
	"encoding/hex"
	"fmt"

	"acra-vh/vh"

	"github.com/cossacklabs/acra/crypto"
)

// C03, header fields of the serialized container ("structural validation of tags, lengths, envelope ids
// before use"): an altered value that still carries the container tag and a known envelope id but whose
// DECLARED length does not describe it (below/equal the 12-byte header, or pointing past the value) is not a
// container. Every entry point that parses the header has to refuse it -- accepting it means the modification
// went undetected (the declared length is what frames the internal container):
//   DeserializeEncryptedData                    error unless  12 <= declared <= len
//   Process / DecryptWithHandler / translator   error unless  12 <  declared <= len
//   MatchDataSignature                          false unless  12 <  declared <= len
//   EncryptWithHandler                          never hands such a value back as "already protected"
// The rule is evaluated on the bytes alone (independently of the model) for EVERY edit of every class.

// c03HeaderDeclared: (declared length, true) when v looks like a new-format container (tag + known envelope id).
func c03HeaderDeclared(v []byte) (uint64, bool) {
	min := crypto.SerializedContainerMinSize
	if len(v) <= min || !bytes.Equal(v[:len(crypto.TagBegin)], crypto.TagBegin) {
		return 0, false
	}
	id := v[min-1]
	if id != crypto.AcraStructEnvelopeID && id != crypto.AcraBlockEnvelopeID {
		return 0, false
	}
	return binary.LittleEndian.Uint64(v[len(crypto.TagBegin) : min-1]), true
}

// c03HeaderMatch runs the real RegistryHandler.MatchDataSignature.
func c03HeaderMatch(ks *vh.KeySet, v []byte) vh.Outcome {
	rh := crypto.NewRegistryHandler(storeFor(ks))
	return vh.Guard(func() vh.Outcome {
		if rh.MatchDataSignature(append([]byte{}, v...)) {
			return vh.Ok([]byte{1})
		}
		return vh.Ok([]byte{0})
	})
}

// c03HeaderLengths: the boundary table of the container length field for a value of length n:
// every value up to one past the header, around the real length, and the overflowing ones.
func c03HeaderLengths(n int) []uint64 {
	var t []uint64
	for d := uint64(0); d <= 14; d++ {
		t = append(t, d)
	}
	N := uint64(n)
	t = append(t, N/2, N-2, N-1, N, N+1, N+2, N+12, N+13,
		1<<16, 1<<31-1, 1<<31, 1<<32, 1<<32+N, 1<<63-1, 1<<63, 1<<63+1, 1<<63+N,
		1<<64-13, 1<<64-12, 1<<64-11, 1<<64-1, ^uint64(0)-N+1, ^uint64(0)-N+13)
	return t
}

// c03HeaderCheck evaluates the rule on one altered value at all the entry points that parse the header.
func c03HeaderCheck(e *EnvOps, elab string, id byte, ks *vh.KeySet, val []byte) {
	rep := e.rep
	d, isContainer := c03HeaderDeclared(val)
	if !isContainer {
		return
	}
	min := uint64(crypto.SerializedContainerMinSize)
	bad := d <= min || d > uint64(len(val))
	cls := "good"
	switch {
	case d < min:
		cls = "below-header"
	case d == min:
		cls = "header-only"
	case d > uint64(len(val)):
		cls = "past-end"
	}
	rep.Count("declared-length:" + cls)
	rp := fmt.Sprintf("%s declared=%d len=%d v'=%s", elab, d, len(val), hex.EncodeToString(val))
	flag := func(what string, accepted bool, got string) {
		rep.OracleChecks++
		if accepted {
			rep.Violate("container-length-accepted:"+what,
				fmt.Sprintf("%s accepted an altered container whose declared length %d is not in (%d, len=%d]: %s", what, d, min, len(val), got), rp)
		}
	}
	// DeserializeEncryptedData itself (replayed)
	ds := e.ScDeserialize(elab+" DeserializeEncryptedData", val)
	if ds.Kind == "panic" {
		rep.OracleChecks++
		rep.Violate("panic:DeserializeEncryptedData", "DeserializeEncryptedData panicked on a modified value: "+ds.Msg, rp)
	}
	if d < min || d > uint64(len(val)) {
		flag("DeserializeEncryptedData", ds.Kind == "ok", ds.String())
	} else if ds.Kind == "ok" {
		// accepted: the internal container is exactly the declared frame
		rep.OracleChecks++
		if !bytes.Equal(ds.Vals[0], val[min:d]) {
			rep.Violate("container-frame", "DeserializeEncryptedData returned something else than the declared frame", rp+" got="+hex.EncodeToString(ds.Vals[0]))
		}
	}
	if !bad {
		return
	}
	o := e.DecHandler(elab+" DecryptWithHandler", id, ks, val)
	flag("DecryptWithHandler", o.Kind == "ok", o.String())
	o = e.Process(elab+" Process", ks, val)
	flag("Process", o.Kind == "ok", o.String())
	o = e.TrDecrypt(elab+" translator.Decrypt", id, ks, val)
	flag("translator.Decrypt", o.Kind == "ok", o.String())
	m := c03HeaderMatch(ks, val)
	flag("MatchDataSignature", m.Kind != "ok" || m.Vals[0][0] != 0, m.String())
	// EncryptWithHandler must not treat it as an already protected value (observable form of
	// MatchDataSignature, replayed on the model)
	en := e.EncHandler(elab+" EncryptWithHandler", id, ks, val)
	flag("EncryptWithHandler", en.Kind == "ok" && bytes.Equal(en.Vals[0], val), "value handed back unchanged (re-encryption skipped)")
}
