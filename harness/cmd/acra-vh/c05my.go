package main

// C05, domain c05my: the REAL MySQL proxy of acra in-process (harness/myrig: C05myRig = decryptor/mysql
// NewProxyFactory(...).New with a configured AcraCensor, both proxy goroutines, packet-level scripted client,
// recording fake back end) against Model/MysqlSession.v.
//
// Statement identifiers are seq*8+class (class 0: table q0 without settings; 1..5: int32 column n<c> of q<c> with
// response_on_fail: default_value, default 40+class; 6..7: int32 column with response_on_fail: error).  The
// database stores n<c> as a blob; a "bad" cell carries the text `xyz` (not an int32): the value the client
// receives shows which settings the proxy applied (4c = class c, xyz = none, ERR naming the column = strict).
// Statement kinds: COM_QUERY select / update / unparseable, COM_STMT_PREPARE select with and without a
// placeholder, insert; COM_STMT_EXECUTE by id and by the MariaDB id -1, COM_STMT_CLOSE / RESET /
// SEND_LONG_DATA, COM_INIT_DB, COM_PING, COM_QUIT, a COM_STMT_EXECUTE too short for a statement id.
//
// Own oracle (independent of the model), classes:
//   denied-forwarded        a statement the configuration rejects (generator's own reading of the rules) is in the
//                           record of the back end
//   allowed-rejected        a statement the configuration admits was answered by the proxy itself
//   censor-answer           the answer to a rejected statement is not exactly one ERR 1317 / 70100 / message
//   censor-answer-seq       ... or does not carry the sequence id of the command's last packet + 1
//   client-seq / client-malformed / client-extra-packet   client-visible packets are not a well-formed answer
//   session-dropped / proxy-panic / proxy-hung            the session did not stay usable
//   row-wrong-settings      a row was decoded with the settings of another statement (or none)
//   row-corrupt             a decodable value was changed
//   registry-mismatch       the proxy's statement registry differs from the statements the back end holds
//   rejected-registered     a rejected statement is in the registry / is the pending statement
//   rejected-changed-handler   the response handler installed after a rejected statement is not the one installed before it
//   direct-execute-not-refused   COM_STMT_EXECUTE -1 without an accepted COM_STMT_PREPARE reached the back end
//   backend-record          the back end's command record differs from the accepted commands (order, ids, sequence ids)
//   mysql-direct-execute-detached   (known finding) rows of a COM_STMT_EXECUTE -1 that does not follow its
//                           COM_STMT_PREPARE immediately reach the client unprocessed

import (
	"encoding/binary"
	"fmt"
	"sort"
	"strconv"
	"strings"
	"time"

	acracensor "github.com/cossacklabs/acra/acra-censor"
	"github.com/sirupsen/logrus"

	"acra-vh/myrig"
	"acra-vh/vh"
)

func init() { register("c05my", "Model.RunMysqlSession", runC05my) }

const c05myDirect = 0xffffffff

func c05myEncryptorYAML() []byte {
	var b strings.Builder
	b.WriteString("schemas:\n")
	for c := 0; c < 8; c++ {
		fmt.Fprintf(&b, "  - table: q%d\n    columns: [id, n%d]\n", c, c)
		if c == 0 {
			continue
		}
		fmt.Fprintf(&b, "    encrypted:\n      - column: n%d\n        data_type: int32\n", c)
		if c <= 5 {
			fmt.Fprintf(&b, "        response_on_fail: default_value\n        default_data_value: \"%d\"\n", 40+c)
		} else {
			b.WriteString("        response_on_fail: error\n")
		}
	}
	return []byte(b.String())
}

type c05myStmt struct {
	n      int    // seq*8+class
	kind   string // qsel qupd bad psel1 psel0 pins
	sql    string
	np, nc int
	rows   [][]byte
	dbErr  bool
	exErr  bool
	denied bool // the generator's reading of the censor configuration
	huge   bool
}

func (s *c05myStmt) class() int     { return s.n & 7 }
func (s *c05myStmt) prepared() bool { return s.kind[0] == 'p' }

// c05mySpell: spelling variants the censor has to see through (keyword case, blanks, trailing semicolon, margin comment)
func c05mySpell(r *vh.Rng, sql string) string {
	switch r.Intn(6) {
	case 0:
		for _, kw := range []string{"SELECT", "FROM", "WHERE", "UPDATE", "SET", "INSERT", "INTO", "VALUES", "AND"} {
			sql = strings.ReplaceAll(sql, kw+" ", strings.ToLower(kw)+" ")
		}
	case 1:
		sql = strings.ReplaceAll(sql, " FROM ", "  FROM\t")
	case 2:
		sql += ";"
	case 3:
		sql = "/* c */ " + sql
	}
	return sql
}

func c05myGenStmt(r *vh.Rng, rep *vh.Report, seq int, kind string, class int) *c05myStmt {
	st := &c05myStmt{n: seq*8 + class, kind: kind}
	c := class
	rowsFor := func() {
		nr := r.Intn(4)
		for i := 0; i < nr; i++ {
			bad := r.Intn(2) == 0
			if c >= 6 {
				bad = r.Intn(4) == 0
			}
			if bad {
				st.rows = append(st.rows, []byte("xyz"))
			} else {
				st.rows = append(st.rows, []byte(strconv.Itoa(1+r.Intn(9))))
			}
		}
		if nr == 0 && r.Intn(2) == 0 {
			st.rows = [][]byte{[]byte("xyz")}
		}
	}
	switch kind {
	case "qsel":
		st.sql = c05mySpell(r, fmt.Sprintf("SELECT n%d FROM q%d WHERE id = %d", c, c, seq))
		st.nc = 1
		rowsFor()
	case "qupd":
		st.sql = c05mySpell(r, fmt.Sprintf("UPDATE q%d SET tag = %d WHERE id = 1", c, seq))
	case "bad":
		st.sql = fmt.Sprintf("SELEC n%d FRM q%d WHER id = %d", c, c, seq)
		st.dbErr = true
	case "psel1":
		st.sql = c05mySpell(r, fmt.Sprintf("SELECT n%d FROM q%d WHERE id = ? AND tag <> %d", c, c, seq))
		st.np, st.nc = 1, 1
		rowsFor()
	case "psel0":
		st.sql = c05mySpell(r, fmt.Sprintf("SELECT n%d FROM q%d WHERE tag = %d", c, c, seq))
		st.nc = 1
		rowsFor()
	case "pins":
		st.sql = c05mySpell(r, fmt.Sprintf("INSERT INTO q%d (id, tag) VALUES (?, %d)", c, seq))
		st.np = 1
	}
	if kind != "bad" && r.Intn(9) == 0 {
		if st.prepared() && r.Bool() {
			st.exErr = true
		} else {
			st.dbErr = true
		}
	}
	rep.Count("stmt:" + kind)
	return st
}

type c05myScenario struct {
	mode    int
	ipe     bool
	classes map[int]bool // mode 0/2: denied classes, mode 1: allowed classes
	picked  map[int]bool // mode 3: denied statements, mode 4: ignored statements
	yaml    string
}

func (sc *c05myScenario) intent(st *c05myStmt) bool {
	sel := st.kind == "qsel" || st.kind == "psel1" || st.kind == "psel0"
	if st.kind == "bad" {
		if sc.mode == 6 {
			return false // no handlers: AcraCensor does not look at the statement at all
		}
		if !sc.ipe {
			return true
		}
		return sc.mode == 1 || sc.mode == 4 // only a denyall handler decides about a statement that was not parsed
	}
	switch sc.mode {
	case 0:
		return sc.classes[st.class()] && (sel || st.kind == "pins")
	case 1:
		return !(sc.classes[st.class()] && (sel || st.kind == "pins"))
	case 2:
		return sc.classes[st.class()] && (sel || st.kind == "qupd")
	case 3:
		return sc.picked[st.n]
	case 4:
		return !sc.picked[st.n]
	}
	return false
}

func c05myConfigure(r *vh.Rng, rep *vh.Report, pool []*c05myStmt) *c05myScenario {
	sc := &c05myScenario{mode: r.Intn(7), ipe: r.Intn(3) == 0, classes: map[int]bool{}, picked: map[int]bool{}}
	var hs []c5handler
	for c := 0; c < 8; c++ {
		if r.Intn(3) == 0 {
			sc.classes[c] = true
		}
	}
	if len(sc.classes) == 0 {
		sc.classes[1+r.Intn(7)] = true
	}
	var tables, patterns []string
	for c := 0; c < 8; c++ {
		if sc.classes[c] {
			tables = append(tables, fmt.Sprintf("q%d", c))
			patterns = append(patterns, fmt.Sprintf("SELECT n%d FROM q%d %%%%WHERE%%%%", c, c), fmt.Sprintf("UPDATE q%d SET tag = %%%%VALUE%%%% %%%%WHERE%%%%", c))
		}
	}
	for _, st := range pool {
		if st.kind != "bad" && !st.huge && r.Intn(3) == 0 {
			sc.picked[st.n] = true
		}
	}
	var texts []string
	for _, st := range pool {
		if sc.picked[st.n] {
			texts = append(texts, strings.TrimSuffix(strings.ToLower(st.sql), ";")) // another spelling of the same statement
		}
	}
	quiet := []c5handler{{kind: "deny", tables: []string{"nowhere"}}, {kind: "allow", queries: []string{"select 1 from nowhere"}}}
	switch sc.mode {
	case 0:
		hs = []c5handler{{kind: "deny", tables: tables}}
	case 1:
		hs = []c5handler{{kind: "allow", tables: tables}, {kind: "denyall"}}
	case 2:
		hs = []c5handler{{kind: "deny", patterns: patterns}}
	case 3:
		if len(texts) == 0 {
			sc.mode = 5
			hs = []c5handler{{kind: "allowall"}}
		} else {
			hs = []c5handler{{kind: "deny", queries: texts}}
		}
	case 4:
		var raw []string
		for _, st := range pool {
			if sc.picked[st.n] {
				raw = append(raw, st.sql)
			}
		}
		hs = []c5handler{{kind: "query_ignore", queries: raw}, {kind: "denyall"}}
	case 5:
		hs = []c5handler{{kind: "allowall"}}
	case 6:
		hs = nil
	}
	if sc.mode != 6 && r.Intn(3) == 0 { // handlers without an opinion in front
		hs = append(append([]c5handler{}, quiet[r.Intn(2)]), hs...)
		rep.Count("censor:silent-handler-in-front")
	}
	sc.yaml = c5yaml(sc.ipe, hs)
	rep.Count(fmt.Sprintf("censor-mode:%d", sc.mode))
	if sc.ipe {
		rep.Count("censor:ignore_parse_error")
	}
	return sc
}

// one scripted client step
type c05myStep struct {
	op   string // query prepare execute close reset longdata other ping short
	st   *c05myStmt
	slot int // prepared statement slot (index into the session's PREPARE history), -1 = raw id
	id   uint32
	seq  byte
}

type c05mySlot struct {
	st *c05myStmt
	id uint32 // 0 = PREPARE not answered with an id
}

func c05myN8(n uint64) []byte {
	var b [8]byte
	binary.LittleEndian.PutUint64(b[:], n)
	return b[:]
}

func c05myB(b bool) string {
	if b {
		return "T"
	}
	return "F"
}

var c05myHandlerCode = map[string]byte{"default": 0, "QueryResponseHandler": 1, "PreparedStatementResponseHandler": 2,
	"ParamsTrackHandler": 3, "ColumnsTrackHandler": 4, "ResetStatementResponseHandler": 5}

func runC05my(rep *vh.Report, r *vh.Rng, n int, thorough bool) {
	logrus.SetLevel(logrus.PanicLevel)
	enc := c05myEncryptorYAML()
	ks := vh.NewMemKeystore()
	ks.Clients["client_a"] = vh.NewKeySet(r, 1, 1, true)
	errOps := map[string]bool{}
	hugeDone := 0
	for sc := 0; sc < n; sc++ {
		// ---- statement pool ----
		var pool []*c05myStmt
		seq := 0
		kinds := []string{"qsel", "qsel", "qsel", "qupd", "psel1", "psel1", "psel0", "pins", "bad", "qsel", "psel1", "pins"}
		for _, k := range kinds {
			seq++
			pool = append(pool, c05myGenStmt(r, rep, seq, k, r.Intn(8)))
		}
		opening := sc % 10
		wantHuge := opening == 6 && (thorough || hugeDone < 1)
		if wantHuge {
			hugeDone++
			for i := 0; i < 2; i++ {
				seq++
				st := &c05myStmt{n: seq*8 + 1 + r.Intn(5), kind: "qsel", nc: 1, rows: [][]byte{[]byte("xyz")}, huge: true}
				st.sql = fmt.Sprintf("SELECT n%d FROM q%d WHERE id = %d AND tag <> '%s'", st.class(), st.class(), seq, strings.Repeat("a", 1<<24+r.Intn(64)-48))
				pool = append(pool, st)
			}
			rep.Count("opening:huge-packets")
		}
		cfg := c05myConfigure(r, rep, pool)
		if wantHuge { // one of the two huge statements is rejected, the other admitted
			a, b := pool[len(pool)-2], pool[len(pool)-1]
			switch cfg.mode {
			case 0, 2:
				cfg.classes[a.class()] = true
				if b.class() == a.class() {
					b.n = b.n&^7 | (a.class()%5 + 1)
					b.sql = fmt.Sprintf("SELECT n%d FROM q%d WHERE id = %d AND tag <> '%s'", b.class(), b.class(), b.n>>3, strings.Repeat("b", 1<<24))
				}
				delete(cfg.classes, b.class())
			}
			// rebuild the configuration with the adjusted classes (modes 0 and 2 only; other modes keep their rules)
			if cfg.mode == 0 || cfg.mode == 2 {
				var tables, patterns []string
				for c := 0; c < 8; c++ {
					if cfg.classes[c] {
						tables = append(tables, fmt.Sprintf("q%d", c))
						patterns = append(patterns, fmt.Sprintf("SELECT n%d FROM q%d %%%%WHERE%%%%", c, c), fmt.Sprintf("UPDATE q%d SET tag = %%%%VALUE%%%% %%%%WHERE%%%%", c))
					}
				}
				if cfg.mode == 0 {
					cfg.yaml = c5yaml(cfg.ipe, []c5handler{{kind: "deny", tables: tables}})
				} else {
					cfg.yaml = c5yaml(cfg.ipe, []c5handler{{kind: "deny", patterns: patterns}})
				}
			}
		}
		byText := map[string]*c05myStmt{}
		for _, st := range pool {
			st.denied = cfg.intent(st)
			byText[st.sql] = st
		}
		censor := acracensor.NewAcraCensor()
		if err := censor.LoadConfiguration([]byte(cfg.yaml)); err != nil {
			rep.Violate("harness-error", "censor configuration refused: "+err.Error(), cfg.yaml)
			continue
		}
		rig, err := myrig.C05myNew(ks, enc, censor)
		if err != nil {
			rep.Violate("harness-error", "rig: "+err.Error(), cfg.yaml)
			continue
		}
		plan := func(sql string) myrig.C05myStmtPlan {
			st := byText[sql]
			if st == nil {
				return myrig.C05myStmtPlan{}
			}
			pl := myrig.C05myStmtPlan{Known: true, Err: st.dbErr, ExecErr: st.exErr, NParams: st.np, Rows: st.rows}
			if st.nc > 0 {
				pl.Table, pl.Col = fmt.Sprintf("q%d", st.class()), fmt.Sprintf("n%d", st.class())
			}
			return pl
		}
		// ---- script ----
		pick := func(kind string, denied int) *c05myStmt { // denied: 0 no, 1 yes, 2 any
			var cands []*c05myStmt
			for _, st := range pool {
				if st.huge || !strings.Contains(kind, st.kind) {
					continue
				}
				if denied == 2 || (denied == 1) == st.denied {
					cands = append(cands, st)
				}
			}
			if len(cands) == 0 {
				for _, st := range pool {
					if !st.huge && strings.Contains(kind, st.kind) {
						cands = append(cands, st)
					}
				}
			}
			return cands[r.Intn(len(cands))]
		}
		var steps []c05myStep
		nprep := 0 // PREPAREs scripted so far (slot numbers)
		Q := func(st *c05myStmt) { steps = append(steps, c05myStep{op: "query", st: st, slot: -1}) }
		P := func(st *c05myStmt) int {
			steps = append(steps, c05myStep{op: "prepare", st: st, slot: -1})
			nprep++
			return nprep - 1
		}
		E := func(slot int) { steps = append(steps, c05myStep{op: "execute", slot: slot}) }
		ERaw := func(id uint32) { steps = append(steps, c05myStep{op: "execute", slot: -1, id: id}) }
		X := func(op string, slot int) { steps = append(steps, c05myStep{op: op, slot: slot}) }
		XRaw := func(op string, id uint32) { steps = append(steps, c05myStep{op: op, slot: -1, id: id}) }
		switch opening {
		case 0: // accepted -> rejected -> accepted
			Q(pick("qsel", 0))
			Q(pick("qsel qupd", 1))
			Q(pick("qsel", 0))
		case 1: // rejected first
			Q(pick("qsel qupd bad", 1))
			Q(pick("qsel", 0))
			P(pick("psel1 psel0", 1))
			Q(pick("qsel", 0))
		case 2: // rejected PREPARE, then EXECUTE attempts
			P(pick("psel1 psel0 pins", 1))
			X("ping", -1) // its OK packet must not meet a handler installed for the rejected PREPARE
			ERaw(c05myDirect)
			ERaw(1)
			s := P(pick("psel1", 0))
			E(s)
			P(pick("psel1 pins", 1))
			ERaw(c05myDirect)
			E(s)
		case 3: // interleaved statement ids
			a := P(pick("psel1 psel0", 0))
			b := P(pick("psel1", 0))
			P(pick("psel1 psel0", 1))
			E(a)
			E(b)
			E(a)
			X("close", a)
			E(a)
			X("reset", b)
			E(b)
		case 4: // an accepted PREPARE survives a rejected one
			a := P(pick("psel1", 0))
			P(pick("psel1 psel0 pins", 1))
			E(a)
			Q(pick("qsel qupd", 1))
			E(a)
		case 5: // COM_QUERY after a failed one
			f := pick("qsel", 0)
			f.dbErr = true
			Q(f)
			Q(pick("qsel", 1))
			Q(pick("qsel", 0))
			Q(pick("bad", 2))
			Q(pick("qsel", 0))
		case 6: // huge packets (when built), else direct execution
			if wantHuge {
				Q(pool[len(pool)-2])
				Q(pool[len(pool)-1])
				Q(pick("qsel", 0))
			} else {
				s := P(pick("psel1", 0))
				ERaw(c05myDirect)
				E(s)
				// known finding mysql-direct-execute-detached: -1 after another answered command
				X("ping", -1)
				ERaw(c05myDirect)
				E(s)
			}
		case 7: // commands without a handler of their own around PREPARE
			ERaw(c05myDirect)
			X("other", -1)
			s := P(pick("psel1 pins", 0))
			X("ping", -1)
			Q(pick("qsel", 1))
			X("other", -1)
			X("longdata", s)
			E(s)
			XRaw("reset", 77)
			XRaw("close", 78)
		case 8: // unparseable statements
			Q(pick("bad", 2))
			P(pick("bad", 2))
			Q(pick("qsel", 0))
			Q(pick("bad", 2))
		case 9: // rejected statements between every two accepted ones
			a := P(pick("psel1 psel0", 0))
			Q(pick("qsel qupd", 1))
			E(a)
			P(pick("psel1", 1))
			b := P(pick("pins psel1", 0))
			Q(pick("qsel", 1))
			E(b)
			E(a)
		}
		rep.Count(fmt.Sprintf("opening:%d", opening))
		tail := 3 + r.Intn(8)
		if thorough {
			tail += r.Intn(12)
		}
		for i := 0; i < tail; i++ {
			switch k := r.Intn(20); {
			case k < 5:
				Q(pick("qsel qupd bad", 2))
			case k < 9:
				P(pick("psel1 psel0 pins", 2))
			case k < 14:
				if nprep > 0 {
					E(r.Intn(nprep))
				} else {
					ERaw(uint32(1 + r.Intn(3)))
				}
			case k == 14:
				if nprep > 0 {
					X("close", r.Intn(nprep))
				}
			case k == 15:
				if nprep > 0 {
					X("reset", r.Intn(nprep))
				} else {
					XRaw("reset", 5)
				}
			case k == 16:
				if nprep > 0 {
					X("longdata", r.Intn(nprep))
				}
			case k == 17:
				X([]string{"other", "ping"}[r.Intn(2)], -1)
			case k == 18:
				ERaw(uint32(1 + r.Intn(6)))
			default:
				if steps[len(steps)-1].op == "prepare" {
					ERaw(c05myDirect)
				} else {
					Q(pick("qsel", 2))
				}
			}
		}
		if r.Intn(8) == 0 {
			steps = append(steps, c05myStep{op: "short", slot: -1})
			rep.Count("ending:short-execute")
		}
		for i := range steps {
			if r.Intn(10) == 0 {
				steps[i].seq = byte(r.Pick(255, 254, 7, 100))
				rep.Count("client-seq:nonzero")
			}
		}
		depEOF := r.Bool()
		rep.Count(fmt.Sprintf("deprecate-eof:%v", depEOF))

		// ---- run ----
		s, err := rig.Open([]byte("client_a"), depEOF, plan)
		if s != nil && wantHuge {
			s.Timeout = 40 * time.Second
		}
		var trace []string
		replay := func() string {
			return fmt.Sprintf("scenario %d (seed %d), CLIENT_DEPRECATE_EOF=%v\n--- censor configuration ---\n%s--- session ---\n%s", sc, rep.Seed, depEOF, cfg.yaml, strings.Join(trace, "\n"))
		}
		violate := func(class, what string) { rep.Violate(class, what, replay()) }
		if err != nil {
			violate("harness-error", "connection phase: "+err.Error())
			if s != nil {
				s.Shutdown()
			}
			continue
		}
		var evs []string
		var exp [][]byte
		var slots []c05mySlot
		type fwdExp struct {
			cmd   byte
			sql   string
			id    uint32
			seq   byte
			parts int
		}
		var expectFwd []fwdExp
		deniedTexts := map[string]bool{}
		sincePrepare := 0 // answered commands since the last accepted COM_STMT_PREPARE
		prevHandler := "default"
		beDone := 0
		alive := true
		for _, stp := range steps {
			if !alive {
				break
			}
			if left := s.Pending(); len(left) > 0 {
				rep.OracleChecks++
				violate("client-extra-packet", fmt.Sprintf("%d packet(s) arrived outside an answer, first: seq %d payload % x", len(left), left[0].Seq, c05myHead(left[0].Payload)))
			}
			// --- build the command ---
			var payload []byte
			var term string
			var st *c05myStmt
			id := stp.id
			if stp.slot >= 0 {
				id = slots[stp.slot].id
				if id == 0 { // its PREPARE was not answered with an id: the client has nothing to name; use an id nobody has
					id = 1000 + uint32(stp.slot)
				}
			}
			binaryRows := false
			switch stp.op {
			case "query":
				st = stp.st
				payload = append([]byte{0x03}, st.sql...)
			case "prepare":
				st = stp.st
				payload = append([]byte{0x16}, st.sql...)
			case "execute":
				var params [][]byte
				np := 0
				if id == c05myDirect {
					if len(slots) > 0 {
						np = slots[len(slots)-1].st.np
					}
				} else {
					for _, sl := range slots {
						if sl.id == id {
							np = sl.st.np
						}
					}
				}
				for i := 0; i < np; i++ {
					params = append(params, []byte("1"))
				}
				payload = myrig.C05myExecutePacket(id, params)
				binaryRows = true
			case "close":
				payload = myrig.C05myIDPacket(0x19, id)
			case "reset":
				payload = myrig.C05myIDPacket(0x1a, id)
			case "longdata":
				payload = myrig.C05myLongDataPacket(id, 0, []byte("more"))
			case "other":
				payload = append([]byte{0x02}, "d"...)
			case "ping":
				payload = []byte{0x0e}
			case "short":
				payload = []byte{0x17, 0x01, 0x00}
			}
			label := stp.op
			if st != nil {
				label += fmt.Sprintf(" #%d %q", st.n, c05myHeadS(st.sql))
				if st.denied {
					label += " [config rejects]"
				}
			} else if stp.op != "other" && stp.op != "ping" && stp.op != "short" {
				label += fmt.Sprintf(" id=%d", id)
			}
			trace = append(trace, fmt.Sprintf("C seq=%d %s", stp.seq, label))
			rep.Count("cmd:" + stp.op)
			parts := s.Send(stp.seq, payload)
			first := stp.seq + byte(parts)

			// --- read the answer the protocol prescribes ---
			var resp *myrig.C05myResp
			noAnswer := stp.op == "close" || stp.op == "longdata"
			switch stp.op {
			case "query":
				resp = s.ReadResult(false)
			case "prepare":
				resp = s.ReadPrepare()
			case "execute":
				resp = s.ReadResult(binaryRows)
			case "reset", "other", "ping":
				resp = s.ReadSimple()
			case "short":
				resp = s.ReadSimple()
			default:
				resp = &myrig.C05myResp{}
			}
			censored := resp.IsErr && resp.ErrCode == 1317 && resp.ErrMsg == "Query execution was interrupted"
			forwarded := false
			if !censored && !(stp.op == "short") {
				forwarded = s.WaitBackend(beDone + 1)
			} else if s.Backend().Done() > beDone {
				forwarded = true
			}
			if stp.op == "short" {
				rep.OracleChecks++
				if !resp.Closed || s.Backend().Done() > beDone {
					violate("short-execute", "a COM_STMT_EXECUTE of 3 bytes was answered / forwarded")
				}
				trace = append(trace, "  => connection closed by the proxy")
				evs = append(evs, fmt.Sprintf("Ex EShort %d %d []", stp.seq, parts))
				exp = append(exp, []byte{0x0c})
				alive = false
				break
			}
			if resp.Closed || s.Hung() || s.Panic() != "" {
				rep.OracleChecks++
				switch {
				case s.Panic() != "":
					violate("proxy-panic", "panic in a proxy goroutine: "+s.Panic())
				case s.Hung():
					violate("proxy-hung", "no answer to "+label)
				default:
					violate("session-dropped", "the proxy closed the session at "+label+": "+s.ProxyErr())
				}
				alive = false
				break
			}
			// --- oracle: verdict ---
			if st != nil {
				rep.OracleChecks++
				if st.denied {
					deniedTexts[st.sql] = true
					rep.Count("verdict:rejected")
					if forwarded {
						violate("denied-forwarded", fmt.Sprintf("%s reached the back end", label))
					}
					if !censored || len(resp.Pkts) != 1 || resp.ErrState != "70100" {
						violate("censor-answer", fmt.Sprintf("%s: expected exactly one ERR 1317/70100, got %d packet(s), err=%v code=%d state=%q msg=%q", label, len(resp.Pkts), resp.IsErr, resp.ErrCode, resp.ErrState, resp.ErrMsg))
					}
				} else {
					rep.Count("verdict:accepted")
					if censored || !forwarded {
						violate("allowed-rejected", fmt.Sprintf("%s was answered by the proxy itself (censored=%v forwarded=%v)", label, censored, forwarded))
					}
				}
			}
			directRefusable := stp.op == "execute" && id == c05myDirect
			if directRefusable {
				// -1 stands for the statement of the last COM_STMT_PREPARE the CLIENT sent, if it did not fail
				rep.OracleChecks++
				lastOK := len(slots) > 0 && !slots[len(slots)-1].st.denied
				if !lastOK && forwarded {
					violate("direct-execute-not-refused", "COM_STMT_EXECUTE -1 without an accepted COM_STMT_PREPARE before it reached the back end")
				}
				if lastOK && censored {
					violate("allowed-rejected", "COM_STMT_EXECUTE -1 after an accepted COM_STMT_PREPARE was refused")
				}
			}
			if censored {
				rep.OracleChecks++
				if len(resp.Pkts) == 1 && resp.Pkts[0].Seq != first {
					violate("censor-answer-seq", fmt.Sprintf("%s (sequence id %d, %d wire packet(s)): ERR carries sequence id %d, the protocol prescribes %d", label, stp.seq, parts, resp.Pkts[0].Seq, first))
				}
				if len(resp.Pkts) == 1 {
					p := resp.Pkts[0]
					raw := append([]byte{byte(len(p.Payload)), byte(len(p.Payload) >> 8), byte(len(p.Payload) >> 16), p.Seq}, p.Payload...)
					op := fmt.Sprintf("OpErrPacket T %d %d", stp.seq, len(payload))
					if !errOps[op] {
						errOps[op] = true
						rep.Add("answer to a censored command", op, vh.Ok(raw))
					}
				}
			}
			// --- oracle: client-visible packets ---
			rep.OracleChecks++
			if resp.Malform != "" {
				violate("client-malformed", label+": "+resp.Malform)
			}
			if !noAnswer && !resp.SeqFrom(first) {
				var seqs []string
				for _, p := range resp.Pkts {
					seqs = append(seqs, strconv.Itoa(int(p.Seq)))
				}
				if !censored { // the censored case is reported above with its own class
					violate("client-seq", fmt.Sprintf("%s: answer packets carry sequence ids [%s], expected to start at %d", label, strings.Join(seqs, " "), first))
				}
			}
			// --- what the back end did ---
			var ds []string
			var ans myrig.C05myAnswered
			if forwarded {
				log := s.Backend().Answered()
				cmds := s.Backend().Commands()
				if len(log) <= beDone || len(cmds) <= beDone {
					violate("harness-error", "back end log shorter than its counter")
					alive = false
					break
				}
				ans = log[beDone]
				beDone++
				expectFwd = append(expectFwd, fwdExp{cmd: payload[0], sql: ans.SQL, id: id, seq: stp.seq, parts: parts})
				switch ans.Kind {
				case "ok":
					ds = []string{"OKp"}
				case "err":
					ds = []string{"ERp"}
				case "prepok":
					ds = []string{fmt.Sprintf("PO %d %d %d", ans.ID, ans.NParams, ans.NCols)}
					for _, k := range []int{ans.NParams, ans.NCols} {
						for i := 0; i < k; i++ {
							ds = append(ds, "DF")
						}
						if k > 0 && !depEOF {
							ds = append(ds, "EFp")
						}
					}
				case "rows":
					var bs []string
					for _, v := range ans.Rows {
						bs = append(bs, c05myB(string(v) == "xyz"))
					}
					ds = []string{"RSet [" + strings.Join(bs, "; ") + "]"}
				}
			}
			// --- the exchange as a model event + what was observed of it ---
			var cterm string
			switch stp.op {
			case "query":
				cterm = fmt.Sprintf("(Q %d %s)", st.n, c05myB(censored))
			case "prepare":
				cterm = fmt.Sprintf("(P %d %s)", st.n, c05myB(censored))
			case "execute":
				cterm = fmt.Sprintf("(E %d)", id)
			case "close":
				cterm = fmt.Sprintf("(CL %d)", id)
			case "reset":
				cterm = fmt.Sprintf("(RS %d)", id)
			case "longdata":
				cterm = fmt.Sprintf("(LD %d)", id)
			default:
				cterm = "OT"
			}
			term = fmt.Sprintf("Ex %s %d %d [%s]", cterm, stp.seq, parts, strings.Join(ds, "; "))
			evs = append(evs, term)
			if censored {
				sq := byte(0)
				if len(resp.Pkts) > 0 {
					sq = resp.Pkts[0].Seq
				}
				exp = append(exp, []byte{0x02, sq})
			}
			if forwarded {
				c := s.Backend().Commands()[beDone-1]
				e := []byte{0x01, c.Payload[0]}
				arg := uint64(0)
				switch c.Payload[0] {
				case 0x03, 0x16:
					if t := byText[string(c.Payload[1:])]; t != nil {
						arg = uint64(t.n)
					} else {
						arg = 1 << 40 // a text the client never sent (the proxy re-wrote the statement)
					}
				case 0x17, 0x19, 0x1a, 0x18:
					if len(c.Payload) >= 5 {
						arg = uint64(binary.LittleEndian.Uint32(c.Payload[1:]))
					}
				case 0x0e:
					e[1] = 0x02 // COM_PING stands with COM_INIT_DB for "no case in the switch"
				}
				e = append(e, c05myN8(arg)...)
				e = append(e, c.Seq, byte(c.Parts))
				exp = append(exp, e)
			}
			// answer as the client saw it
			producer := byText[ans.SQL]
			switch {
			case censored:
			case !forwarded:
			case ans.Kind == "rows":
				if resp.IsErr { // EncodingError instead of the result set
					cls := c05myColumnClass(resp.ErrMsg)
					exp = append(exp, []byte{0x04, byte(cls)})
					rep.OracleChecks++
					rep.Count("rows:encoding-error")
					anyBad := false
					for _, v := range ans.Rows {
						anyBad = anyBad || string(v) == "xyz"
					}
					if producer == nil || cls != producer.class() || producer.class() < 6 || !anyBad {
						violate("row-wrong-settings", fmt.Sprintf("%s: rows of statement #%d (class %d) were refused with %q", label, c05myN(producer), c05myClass(producer), resp.ErrMsg))
					}
				} else {
					exp = append(exp, []byte{0x05})
					if len(resp.Rows) != len(ans.Rows) {
						rep.OracleChecks++
						violate("client-malformed", fmt.Sprintf("%s: %d rows sent by the database, %d received", label, len(ans.Rows), len(resp.Rows)))
					}
					for i, row := range resp.Rows {
						if i >= len(ans.Rows) || len(row) != 1 {
							break
						}
						rep.OracleChecks++
						got := string(row[0])
						bin := byte(0)
						if binaryRows {
							bin = 1
						}
						if string(ans.Rows[i]) != "xyz" {
							rep.Count("rows:decodable")
							exp = append(exp, []byte{0x03, 0xee, bin})
							if got != string(ans.Rows[i]) {
								violate("row-corrupt", fmt.Sprintf("%s: value %q arrived as %q", label, ans.Rows[i], got))
							}
							continue
						}
						rep.Count("rows:undecodable")
						cls := -1
						if got == "xyz" {
							cls = 0
						} else if len(got) == 2 && got[0] == '4' && got[1] >= '1' && got[1] <= '5' {
							cls = int(got[1] - '0')
						}
						if cls < 0 {
							exp = append(exp, []byte{0x03, 0xfd, bin})
							violate("row-corrupt", fmt.Sprintf("%s: undecodable value arrived as %q", label, got))
							continue
						}
						exp = append(exp, []byte{0x03, byte(cls), bin})
						if producer != nil && cls != producer.class() && cls == 0 && id == c05myDirect && sincePrepare > 0 {
							rep.Count("known:direct-execute-detached")
							violate("mysql-direct-execute-detached", fmt.Sprintf("%s, not directly after its COM_STMT_PREPARE: a row of statement #%d (class %d) reached the client unprocessed (%q)", label, producer.n, producer.class(), got))
						} else if producer == nil || cls != producer.class() {
							violate("row-wrong-settings", fmt.Sprintf("%s: a row of statement #%d (class %d, %q) was decoded with the settings of class %d (client got %q)", label, c05myN(producer), c05myClass(producer), c05myHeadS(ans.SQL), cls, got))
						}
					}
				}
			default:
				for range resp.Pkts {
					exp = append(exp, []byte{0x05})
				}
			}
			if forwarded && ans.Kind != "none" {
				sincePrepare++
			}
			if stp.op == "prepare" && forwarded {
				sincePrepare = 0
			}
			// prepared statement bookkeeping of the scripted client
			if stp.op == "prepare" {
				sl := c05mySlot{st: st}
				if !censored && resp.IsOK {
					sl.id = resp.StmtID
					rep.OracleChecks++
					if resp.NParams != st.np || resp.NCols != st.nc {
						violate("client-malformed", fmt.Sprintf("%s: COM_STMT_PREPARE_OK announces %d parameters / %d columns, the statement has %d / %d", label, resp.NParams, resp.NCols, st.np, st.nc))
					}
				}
				slots = append(slots, sl)
			}
			what := "forwarded"
			if censored {
				what = "refused by the proxy (ERR 1317)"
			} else if !forwarded {
				what = "NOT forwarded"
			}
			trace = append(trace, fmt.Sprintf("  => %s; back end answered %s; client read %d packet(s), err=%v rows=%q", what, ans.Kind, len(resp.Pkts), resp.IsErr, resp.Rows))

			// --- the proxy's own bookkeeping ---
			state := s.State()
			be := s.Backend().Statements()
			rep.OracleChecks++
			var regIDs []int
			mism := len(state.Registry) != len(be)
			for k, text := range state.Registry {
				idn, _ := strconv.Atoi(k)
				regIDs = append(regIDs, idn)
				if be[uint32(idn)] != text {
					mism = true
				}
				if deniedTexts[text] {
					violate("rejected-registered", fmt.Sprintf("after %s: rejected statement %q is registered under id %s", label, c05myHeadS(text), k))
				}
			}
			if mism {
				violate("registry-mismatch", fmt.Sprintf("after %s: registry of the proxy %v, statements held by the back end %v", label, c05myRegS(state.Registry), c05myBeS(be)))
			}
			if state.HasPendingParse && deniedTexts[state.PendingParse] {
				violate("rejected-registered", fmt.Sprintf("after %s: rejected statement %q is the pending statement of the proxy", label, c05myHeadS(state.PendingParse)))
			}
			if st != nil && st.denied {
				rep.OracleChecks++
				if state.ResponseHandler != prevHandler {
					violate("rejected-changed-handler", fmt.Sprintf("after the rejected %s the proxy has %s installed, before it had %s", label, state.ResponseHandler, prevHandler))
				}
			}
			prevHandler = state.ResponseHandler
			sort.Sort(sort.Reverse(sort.IntSlice(regIDs)))
			e := []byte{0x10, c05myHandlerCode[state.ResponseHandler], state.CurrentCommand, 0x00}
			if state.CurrentCommand == 0x0e {
				e[2] = 0x02
			}
			if state.HasPendingParse {
				e = append(e, 0x01)
				if t := byText[state.PendingParse]; t != nil {
					e = append(e, c05myN8(uint64(t.n))...)
				} else {
					e = append(e, c05myN8(1<<40)...)
				}
			} else {
				e = append(e, 0x00)
			}
			for _, idn := range regIDs {
				e = append(e, c05myN8(uint64(idn))...)
				if t := byText[state.Registry[strconv.Itoa(idn)]]; t != nil {
					e = append(e, c05myN8(uint64(t.n))...)
				} else {
					e = append(e, c05myN8(1<<40)...)
				}
			}
			evs = append(evs, "Sample")
			exp = append(exp, e)
		}
		// ---- end of the session ----
		if alive {
			left := s.Quit()
			rep.OracleChecks++
			if len(left) > 0 {
				violate("client-extra-packet", fmt.Sprintf("%d packet(s) arrived after the last answer, first: seq %d payload % x", len(left), left[0].Seq, c05myHead(left[0].Payload)))
			}
			if s.Panic() != "" {
				violate("proxy-panic", "panic in a proxy goroutine: "+s.Panic())
			}
		} else {
			s.Shutdown()
		}
		// the back end's record = the accepted commands, in order, with their sequence ids (+ COM_QUIT)
		cmds := s.Backend().Commands()
		rep.OracleChecks++
		for _, c := range cmds {
			if len(c.Payload) > 1 && (c.Payload[0] == 0x03 || c.Payload[0] == 0x16) {
				if t := byText[string(c.Payload[1:])]; t != nil && t.denied {
					violate("denied-forwarded", fmt.Sprintf("rejected statement #%d %q is in the record of the back end", t.n, c05myHeadS(t.sql)))
				}
			}
		}
		if unk := s.Backend().Unknown(); len(unk) > 0 {
			violate("backend-record", fmt.Sprintf("the back end received a statement the client never sent: %q", c05myHeadS(unk[0])))
		}
		nexp := len(expectFwd)
		if alive {
			nexp++
		}
		if len(cmds) != nexp {
			violate("backend-record", fmt.Sprintf("the back end received %d commands, %d were accepted", len(cmds), nexp))
		}
		for i, f := range expectFwd {
			if i >= len(cmds) {
				break
			}
			c := cmds[i]
			ok := c.Payload[0] == f.cmd && c.Seq == f.seq && c.Parts == f.parts && c.SeqCont
			if ok && (f.cmd == 0x17 || f.cmd == 0x19 || f.cmd == 0x1a || f.cmd == 0x18) {
				ok = len(c.Payload) >= 5 && binary.LittleEndian.Uint32(c.Payload[1:]) == f.id
			}
			if !ok {
				violate("backend-record", fmt.Sprintf("command %d at the back end: cmd 0x%02x seq %d parts %d, the client sent cmd 0x%02x seq %d parts %d id %d", i, c.Payload[0], c.Seq, c.Parts, f.cmd, f.seq, f.parts, f.id))
			}
		}
		rep.Add(fmt.Sprintf("session %d mode=%d opening=%d depEOF=%v", sc, cfg.mode, opening, depEOF),
			fmt.Sprintf("OpSession %s [%s]", c05myB(depEOF), strings.Join(evs, "; ")), vh.Ok(exp...))
	}
}

func c05myHead(b []byte) []byte {
	if len(b) > 24 {
		return b[:24]
	}
	return b
}

func c05myHeadS(s string) string {
	if len(s) > 90 {
		return s[:90] + fmt.Sprintf("…(%d bytes)", len(s))
	}
	return s
}

func c05myN(st *c05myStmt) int {
	if st == nil {
		return -1
	}
	return st.n
}

func c05myClass(st *c05myStmt) int {
	if st == nil {
		return -1
	}
	return st.class()
}

// c05myColumnClass: the class named in `encoding error in column "n6"`
func c05myColumnClass(msg string) int {
	i := strings.LastIndex(msg, "n")
	if i >= 0 && i+1 < len(msg) && msg[i+1] >= '0' && msg[i+1] <= '9' {
		return int(msg[i+1] - '0')
	}
	return -1
}

func c05myRegS(m map[string]string) string {
	var ks []string
	for k, v := range m {
		ks = append(ks, k+":"+c05myHeadS(v))
	}
	sort.Strings(ks)
	return "[" + strings.Join(ks, ", ") + "]"
}

func c05myBeS(m map[uint32]string) string {
	var ks []string
	for k, v := range m {
		ks = append(ks, fmt.Sprintf("%d:%s", k, c05myHeadS(v)))
	}
	sort.Strings(ks)
	return "[" + strings.Join(ks, ", ") + "]"
}
