package main

// Translator for C16/C13: reads the sqlparser sources that were compiled into this binary
// (go/parser + go/ast) and prints coq/Gen/SqlSchema.v:
//   * every sqlparser node type (a type with a walkSubtree method), its SQLNode-typed fields and the
//     fields its walkSubtree hands to Walk (in call order, duplicates kept);
//   * the SQLVal ValType enumeration;
//   * what normalizer.sqlToBindvar does for each ValType (converted? as a quoted or a validated numeric
//     bind value?) and whether a validation error leaves the literal in place;
//   * HandleRawSQLQuery's treatment of a statement that did not parse;
//   * the normalizer's visit functions (WalkStatement, WalkSelect): for every case of their type switch what is
//     done with the node and what the function returns to Walk ("continue into the children?"), read from the
//     return statements; what convertComparison reports to its caller; the visit function Redact starts with;
//   * a run-time probe of the compiled package (VISIT_PROBE): small trees with a sentinel literal below each
//     specially handled node kind are redacted and it is observed whether the walk went below that node.
// The same tables drive the reflection-based AST -> generic tree conversion of the c16 domain, so the
// Coq model and the harness speak about one schema.

import (
	"fmt"
	"go/ast"
	"go/parser"
	"go/token"
	"os"
	"path/filepath"
	"reflect"
	"runtime"
	"sort"
	"strings"

	"github.com/cossacklabs/acra/sqlparser"
)

func init() { generators["sqlschema"] = emitSQLSchema }

type sField struct {
	Name  string
	Slice bool // []T / []*T of nodes where the slice type itself is not a node
}

type sType struct {
	ID     int
	Name   string
	Kind   string   // struct | slice | other
	Fields []sField // SQLNode-typed fields (for a slice node type: one pseudo field "[]")
	Walk   []int    // indices into Fields, in the order walkSubtree passes them to Walk
	Texts  []string // string / []byte fields (reported only)
}

type sConv struct {
	ValType string
	SQLType string // sqltypes identifier used to build the bind value
}

type sqlSchema struct {
	Dir        string
	Types      []*sType
	ByName     map[string]*sType
	ValTypes   []string // index = numeric value
	Conv       []sConv
	RedactMode bool // HandleRawSQLQuery walks with normalizer.redact = true
	ErrLeaves  bool // sqlToBindvar: `if err != nil { return nil }` (the literal stays)
	// HandleRawSQLQuery: the redacted text of a NotParsedStatement is dropped (returned empty)
	NotParsedRedactedEmpty bool
	DDLLogArgs             []string // identifiers passed to the "ignoring error parsing DDL" log call
	// the normalizer's visit functions, by name (WalkStatement, WalkSelect)
	Visits      map[string]*sVisitFunc
	RedactEntry string // the visit function sqlparser.Redact hands to Walk
	// convertComparison: has a bool result? its value after node.Right was replaced / on the paths that change nothing
	CmpHasResult, CmpReplaced, CmpUnchanged, CmpUnderstood bool
}

// sVisitClause: one case of a visit function's type switch (Type "" = a node type without a case).
type sVisitClause struct {
	Type   string // Go type named by the case, without the star
	Action string // none | convert_val | convert_val_dedup | convert_comparison | walk_select | unknown
	// the first result of the visit function ("kontinue") when the comparison handler reported true / false
	// (the same value twice when nothing depends on a handler's answer)
	KHandled, KUnhandled bool
	Understood           bool
}

type sVisitFunc struct {
	Name    string
	Found   bool
	Clauses []sVisitClause
	Default sVisitClause
}

func sqlparserDir() string {
	f, _ := runtime.FuncForPC(reflect.ValueOf(sqlparser.String).Pointer()).FileLine(0)
	if f != "" {
		if _, err := os.Stat(f); err == nil {
			return filepath.Dir(f)
		}
	}
	repo := os.Getenv("VERIF_REPO")
	if repo == "" {
		repo = "/repo"
	}
	return filepath.Join(repo, "sqlparser")
}

var schemaCache *sqlSchema

func loadSQLSchema() *sqlSchema {
	if schemaCache != nil {
		return schemaCache
	}
	dir := sqlparserDir()
	fset := token.NewFileSet()
	pkgs, err := parser.ParseDir(fset, dir, func(fi os.FileInfo) bool {
		return !strings.HasSuffix(fi.Name(), "_test.go") && fi.Name() != "sql.go"
	}, 0)
	if err != nil {
		panic(err)
	}
	pkg := pkgs["sqlparser"]
	if pkg == nil {
		panic("package sqlparser not found in " + dir)
	}
	typeSpecs := map[string]*ast.TypeSpec{}
	walkFns := map[string]*ast.FuncDecl{}
	funcs := map[string]*ast.FuncDecl{}
	var valTypes []string
	fnames := make([]string, 0)
	for n := range pkg.Files {
		fnames = append(fnames, n)
	}
	sort.Strings(fnames)
	for _, fn := range fnames {
		for _, d := range pkg.Files[fn].Decls {
			switch d := d.(type) {
			case *ast.GenDecl:
				for _, s := range d.Specs {
					switch s := s.(type) {
					case *ast.TypeSpec:
						typeSpecs[s.Name.Name] = s
					case *ast.ValueSpec:
						// const ( StrVal = ValType(iota) ; IntVal ; ... )
						if d.Tok == token.CONST && len(s.Values) == 1 {
							if c, ok := s.Values[0].(*ast.CallExpr); ok {
								if id, ok := c.Fun.(*ast.Ident); ok && id.Name == "ValType" {
									for _, s2 := range d.Specs {
										valTypes = append(valTypes, s2.(*ast.ValueSpec).Names[0].Name)
									}
								}
							}
						}
					}
				}
			case *ast.FuncDecl:
				if d.Recv == nil {
					funcs[d.Name.Name] = d
					continue
				}
				rt := recvTypeName(d)
				funcs[rt+"."+d.Name.Name] = d
				if d.Name.Name == "walkSubtree" {
					walkFns[rt] = d
				}
			}
		}
	}
	// node types: concrete (walkSubtree method) and interfaces embedding SQLNode
	isNode := map[string]bool{"SQLNode": true}
	for n := range walkFns {
		isNode[n] = true
	}
	for changed := true; changed; {
		changed = false
		for n, ts := range typeSpecs {
			it, ok := ts.Type.(*ast.InterfaceType)
			if !ok || isNode[n] {
				continue
			}
			for _, m := range it.Methods.List {
				if id, ok := m.Type.(*ast.Ident); ok && len(m.Names) == 0 && isNode[id.Name] {
					isNode[n] = true
					changed = true
				}
			}
		}
	}
	nodeKind := func(e ast.Expr) (node, slice bool) {
		switch t := e.(type) {
		case *ast.Ident:
			return isNode[t.Name], false
		case *ast.StarExpr:
			if id, ok := t.X.(*ast.Ident); ok {
				return isNode[id.Name], false
			}
		case *ast.ArrayType:
			if t.Len == nil {
				n, s := false, false
				switch el := t.Elt.(type) {
				case *ast.Ident:
					n = isNode[el.Name]
				case *ast.StarExpr:
					if id, ok := el.X.(*ast.Ident); ok {
						n = isNode[id.Name]
					}
				}
				_ = s
				return n, n
			}
		}
		return false, false
	}
	isText := func(e ast.Expr) bool {
		switch t := e.(type) {
		case *ast.Ident:
			return t.Name == "string"
		case *ast.ArrayType:
			if id, ok := t.Elt.(*ast.Ident); ok && t.Len == nil {
				return id.Name == "byte"
			}
		}
		return false
	}
	sc := &sqlSchema{Dir: dir, ByName: map[string]*sType{}, ValTypes: valTypes}
	names := make([]string, 0, len(walkFns))
	for n := range walkFns {
		names = append(names, n)
	}
	sort.Strings(names)
	for i, n := range names {
		st := &sType{ID: i, Name: n, Kind: "other"}
		ts := typeSpecs[n]
		if ts != nil {
			switch t := ts.Type.(type) {
			case *ast.StructType:
				st.Kind = "struct"
				for _, f := range t.Fields.List {
					nd, sl := nodeKind(f.Type)
					for _, fnm := range f.Names {
						if nd {
							st.Fields = append(st.Fields, sField{fnm.Name, sl})
						} else if isText(f.Type) {
							st.Texts = append(st.Texts, fnm.Name)
						}
					}
				}
			case *ast.ArrayType:
				if nd, _ := nodeKind(t); nd {
					st.Kind = "slice"
					st.Fields = []sField{{"[]", true}}
				}
			case *ast.Ident:
				// type Partitions Columns ; type OnDup UpdateExprs ...
				if base, ok := typeSpecs[t.Name]; ok {
					if at, ok := base.Type.(*ast.ArrayType); ok {
						if nd, _ := nodeKind(at); nd {
							st.Kind = "slice"
							st.Fields = []sField{{"[]", true}}
						}
					}
				}
			}
		}
		// walked fields: selectors recv.Field (struct) / `range recv` (slice) in the walkSubtree body
		fd := walkFns[n]
		recv := ""
		if len(fd.Recv.List[0].Names) > 0 {
			recv = fd.Recv.List[0].Names[0].Name
		}
		if fd.Body != nil && recv != "" {
			var inspect func(x ast.Node) bool
			inspect = func(x ast.Node) bool {
				switch x := x.(type) {
				case *ast.IfStmt:
					// a nil test of a field (`if idx.Info != nil`) hands nothing to Walk
					if x.Init != nil {
						ast.Inspect(x.Init, inspect)
					}
					ast.Inspect(x.Body, inspect)
					if x.Else != nil {
						ast.Inspect(x.Else, inspect)
					}
					return false
				case *ast.SelectorExpr:
					if id, ok := x.X.(*ast.Ident); ok && id.Name == recv {
						for fi, f := range st.Fields {
							if f.Name == x.Sel.Name {
								st.Walk = append(st.Walk, fi)
							}
						}
					}
				case *ast.RangeStmt:
					if id, ok := x.X.(*ast.Ident); ok && id.Name == recv && st.Kind == "slice" {
						st.Walk = append(st.Walk, 0)
					}
				case *ast.CallExpr:
					// Walk(visit, Exprs(node)): the receiver converted to another slice node type
					if fid, ok := x.Fun.(*ast.Ident); ok && len(x.Args) == 1 && st.Kind == "slice" && fid.Name != "len" {
						if id, ok := x.Args[0].(*ast.Ident); ok && id.Name == recv {
							if walkFns[fid.Name] != nil {
								st.Walk = append(st.Walk, 0)
							}
						}
					}
				}
				return true
			}
			ast.Inspect(fd.Body, inspect)
		}
		sc.Types = append(sc.Types, st)
		sc.ByName[n] = st
	}
	// which walk does HandleRawSQLQuery run: Redact (normalizer.redact = true) or Normalize?
	if fd := funcs["Parser.HandleRawSQLQuery"]; fd != nil {
		ast.Inspect(fd.Body, func(x ast.Node) bool {
			if c, ok := x.(*ast.CallExpr); ok {
				if id, ok := c.Fun.(*ast.Ident); ok && id.Name == "Redact" {
					sc.RedactMode = true
				}
			}
			return true
		})
	}
	if fd := funcs["Redact"]; fd == nil || !setsRedactFlag(fd) {
		sc.RedactMode = false
	}
	// `if !nz.redact { return nil }`: dead in redact mode, a plain `return nil` otherwise
	guardReturns := func(stmts []ast.Stmt) bool {
		for _, s := range stmts {
			if is, ok := s.(*ast.IfStmt); ok && isNotRedact(is.Cond) && !sc.RedactMode {
				for _, b := range is.Body.List {
					if _, ok := b.(*ast.ReturnStmt); ok {
						return true
					}
				}
			}
			if _, ok := s.(*ast.ReturnStmt); ok {
				return true
			}
		}
		return false
	}
	// normalizer.sqlToBindvar
	if fd := funcs["normalizer.sqlToBindvar"]; fd != nil {
		ast.Inspect(fd.Body, func(x ast.Node) bool {
			switch x := x.(type) {
			case *ast.CaseClause:
				sqlType := ""
				for _, s := range x.Body {
					ast.Inspect(s, func(y ast.Node) bool {
						if as, ok := y.(*ast.AssignStmt); ok && len(as.Lhs) >= 1 {
							if id, ok := as.Lhs[0].(*ast.Ident); ok && id.Name == "v" {
								ast.Inspect(as, func(z ast.Node) bool {
									if se, ok := z.(*ast.SelectorExpr); ok {
										if p, ok := se.X.(*ast.Ident); ok && p.Name == "sqltypes" && se.Sel.Name != "NewValue" && se.Sel.Name != "MakeTrusted" {
											sqlType = se.Sel.Name
										}
									}
									return true
								})
							}
						}
						return true
					})
				}
				if sqlType != "" && !guardReturns(x.Body) {
					for _, e := range x.List {
						if id, ok := e.(*ast.Ident); ok {
							sc.Conv = append(sc.Conv, sConv{id.Name, sqlType})
						}
					}
				}
			case *ast.IfStmt:
				// if err != nil { return nil }
				if be, ok := x.Cond.(*ast.BinaryExpr); ok {
					if id, ok := be.X.(*ast.Ident); ok && id.Name == "err" && be.Op == token.NEQ {
						if guardReturns(x.Body.List) {
							sc.ErrLeaves = true
						}
					}
				}
			}
			return true
		})
	}
	// Parser.HandleRawSQLQuery: is there a NotParsedStatement type test whose branch returns?
	if fd := funcs["Parser.HandleRawSQLQuery"]; fd != nil {
		ast.Inspect(fd.Body, func(x ast.Node) bool {
			if is, ok := x.(*ast.IfStmt); ok {
				mentions := false
				ast.Inspect(is, func(y ast.Node) bool {
					if id, ok := y.(*ast.Ident); ok && id.Name == "NotParsedStatement" {
						mentions = true
					}
					return true
				})
				if mentions {
					for _, s := range is.Body.List {
						if r, ok := s.(*ast.ReturnStmt); ok && len(r.Results) == 4 {
							if bl, ok := r.Results[1].(*ast.BasicLit); ok && bl.Value == `""` {
								sc.NotParsedRedactedEmpty = true
							}
						}
					}
				}
			}
			return true
		})
	}
	// ParseWithDialect: arguments of the log call in the partial-DDL branch
	if fd := funcs["ParseWithDialect"]; fd != nil {
		ast.Inspect(fd.Body, func(x ast.Node) bool {
			if c, ok := x.(*ast.CallExpr); ok {
				if se, ok := c.Fun.(*ast.SelectorExpr); ok {
					if p, ok := se.X.(*ast.Ident); ok && p.Name == "log" {
						for _, a := range c.Args[0:] {
							ast.Inspect(a, func(y ast.Node) bool {
								if id, ok := y.(*ast.Ident); ok && id.Obj != nil {
									sc.DDLLogArgs = append(sc.DDLLogArgs, id.Name)
								}
								return true
							})
						}
					}
				}
			}
			return true
		})
	}
	sqlschemaReadVisits(sc, funcs)
	schemaCache = sc
	return sc
}

func isNotRedact(e ast.Expr) bool {
	u, ok := e.(*ast.UnaryExpr)
	if !ok || u.Op != token.NOT {
		return false
	}
	se, ok := u.X.(*ast.SelectorExpr)
	return ok && se.Sel.Name == "redact"
}

// setsRedactFlag: the body of Redact contains `<x>.redact = true`
func setsRedactFlag(fd *ast.FuncDecl) bool {
	found := false
	ast.Inspect(fd.Body, func(x ast.Node) bool {
		if as, ok := x.(*ast.AssignStmt); ok && len(as.Lhs) == 1 && len(as.Rhs) == 1 {
			if se, ok := as.Lhs[0].(*ast.SelectorExpr); ok && se.Sel.Name == "redact" {
				if id, ok := as.Rhs[0].(*ast.Ident); ok && id.Name == "true" {
					found = true
				}
			}
		}
		return true
	})
	return found
}

func recvTypeName(d *ast.FuncDecl) string {
	t := d.Recv.List[0].Type
	if s, ok := t.(*ast.StarExpr); ok {
		t = s.X
	}
	if id, ok := t.(*ast.Ident); ok {
		return id.Name
	}
	return ""
}

func (sc *sqlSchema) valTypeID(name string) int {
	for i, n := range sc.ValTypes {
		if n == name {
			return i
		}
	}
	return -1
}

func emitSQLSchema() {
	sc := loadSQLSchema()
	p := fmt.Println
	pf := fmt.Printf
	p("(* GENERATED by `acra-vh sqlschema` from sqlparser/{ast.go,ast_methods.go,normalizer.go} of /repo on every run. Do not edit. *)")
	p("From Coq Require Import List NArith String.")
	p("Import ListNotations.")
	p("Local Open Scope N_scope.")
	p("Local Open Scope string_scope.")
	p("")
	p("(** one sqlparser node type: id, Go name, SQLNode-typed fields (index, name), and the field indices its")
	p("    walkSubtree passes to Walk, in call order.  A slice node type has the single pseudo field \"[]\". *)")
	p("Record ntype := mkT { t_id : N; t_name : string; t_fields : list (N * string); t_walk : list N }.")
	p("")
	p("Definition SCHEMA : list ntype := [")
	for i, t := range sc.Types {
		fs := []string{}
		for fi, f := range t.Fields {
			fs = append(fs, fmt.Sprintf("(%d, \"%s\")", fi, f.Name))
		}
		ws := []string{}
		for _, w := range t.Walk {
			ws = append(ws, fmt.Sprint(w))
		}
		sep := ";"
		if i == len(sc.Types)-1 {
			sep = ""
		}
		pf("  mkT %d \"%s\" [%s] [%s]%s\n", t.ID, t.Name, strings.Join(fs, "; "), strings.Join(ws, "; "), sep)
	}
	p("].")
	p("")
	p("(** ids of the node types the normalizer's visit functions switch on *)")
	for _, n := range []string{"Select", "SQLVal", "ComparisonExpr", "ValTuple", "ListArg", "NotParsedStatement"} {
		id := -1
		if t := sc.ByName[n]; t != nil {
			id = t.ID
		}
		if id < 0 {
			pf("(* node type %s not found *)\nDefinition T_%s : N := 1000000.\n", n, n)
		} else {
			pf("Definition T_%s : N := %d.\n", n, id)
		}
	}
	// ComparisonExpr.Right field index
	ri := -1
	if t := sc.ByName["ComparisonExpr"]; t != nil {
		for fi, f := range t.Fields {
			if f.Name == "Right" {
				ri = fi
			}
		}
	}
	pf("Definition F_ComparisonExpr_Right : N := %d.\n", ri)
	p("")
	p("(** SQLVal.Type enumeration *)")
	p("Definition VALTYPES : list (N * string) := [")
	for i, n := range sc.ValTypes {
		sep := ";"
		if i == len(sc.ValTypes)-1 {
			sep = ""
		}
		pf("  (%d, \"%s\")%s\n", i, n, sep)
	}
	p("].")
	for i, n := range sc.ValTypes {
		pf("Definition VT_%s : N := %d.\n", n, i)
	}
	p("")
	p("(** normalizer.sqlToBindvar: ValType -> kind of bind value built for it.")
	p("    true  = quoted (sqltypes.VarBinary: construction cannot fail);")
	p("    false = validated numeric (sqltypes.NewValue may return an error). *)")
	p("Definition CONVERTED : list (N * bool) := [")
	for i, c := range sc.Conv {
		sep := ";"
		if i == len(sc.Conv)-1 {
			sep = ""
		}
		pf("  (%d, %v)%s  (* %s as sqltypes.%s *)\n", sc.valTypeID(c.ValType), c.SQLType == "VarBinary", sep, c.ValType, c.SQLType)
	}
	p("].")
	p("(** does HandleRawSQLQuery run the walk in redact mode (sqlparser.Redact)?  The two tables around this line are")
	p("    the ones that apply to the walk HandleRawSQLQuery runs. *)")
	pf("Definition REDACT_MODE : bool := %v.\n", sc.RedactMode)
	p("(** sqlToBindvar: does a validation error leave the literal in place (`if err != nil { return nil }`)? *)")
	pf("Definition ERR_LEAVES_LITERAL : bool := %v.\n", sc.ErrLeaves)
	p("(** HandleRawSQLQuery: is the text of a NotParsedStatement withheld from the redacted result? *)")
	pf("Definition NOTPARSED_REDACTED_EMPTY : bool := %v.\n", sc.NotParsedRedactedEmpty)
	p("(** ParseWithDialect: does the partial-DDL log call mention the statement text (`sql`) or the tokenizer error? *)")
	hasSQL := false
	for _, a := range sc.DDLLogArgs {
		if a == "sql" {
			hasSQL = true
		}
	}
	pf("Definition DDL_LOG_HAS_STATEMENT : bool := %v.\n", hasSQL)
	p("")
	p("(** string / []byte fields of node types (not reachable by Walk; listed for the report) *)")
	p("Definition TEXT_FIELDS : list (string * list string) := [")
	var rows []string
	for _, t := range sc.Types {
		if len(t.Texts) > 0 {
			q := []string{}
			for _, x := range t.Texts {
				q = append(q, "\""+x+"\"")
			}
			rows = append(rows, fmt.Sprintf("  (\"%s\", [%s])", t.Name, strings.Join(q, "; ")))
		}
	}
	p(strings.Join(rows, ";\n"))
	p("].")
	emitSQLVisits(sc)
}
