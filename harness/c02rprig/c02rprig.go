// Package c02rprig builds the REAL PostgreSQL and MySQL proxies of acra the way cmd/acra-server does
// (postgresql.NewProxyFactory / mysql.NewProxyFactory (...).New) over one keystore, one encryptor config and ONE
// token store shared by all connections: the real pseudoanonymizer over the real MemoryTokenStorage wrapped by the
// real SCellEncryptor (acra-server wraps every token storage with storage.WrapStorageWithEncryption).
// It drives, without the wire, for a connection of a given identity:
//
//	write : QueryDataEncryptor.encryptWithColumnSettings of the query encryptor the factory built (hook
//	        export_verif_s65.go): selection of the identity a value is protected for + the whole DataEncryptor chain
//	read  : PgProxy.onColumnDecryption (hook export_verif_x11old.go) and the column subscribers in their real order
//
// (harness/x11rig does the same with tokenizer = nil; that package belongs to other domains.)
package c02rprig

import (
	"context"
	"fmt"
	"net"
	"sync"

	"github.com/sirupsen/logrus"

	"acra-vh/vh"

	acracensor "github.com/cossacklabs/acra/acra-censor"
	"github.com/cossacklabs/acra/decryptor/base"
	"github.com/cossacklabs/acra/decryptor/mysql"
	"github.com/cossacklabs/acra/decryptor/postgresql"
	encryptor "github.com/cossacklabs/acra/encryptor/base"
	"github.com/cossacklabs/acra/encryptor/base/config"
	"github.com/cossacklabs/acra/logging"
	"github.com/cossacklabs/acra/pseudonymization"
	"github.com/cossacklabs/acra/pseudonymization/storage"
	"github.com/cossacklabs/acra/sqlparser"
)

// session is a base.ClientSession whose connections are never used (no packet is read or written).
type session struct {
	ctx    context.Context
	client net.Conn
	db     net.Conn
	state  interface{}
	mu     sync.RWMutex
	data   map[string]interface{}
}

func (s *session) Context() context.Context        { return s.ctx }
func (s *session) ClientConnection() net.Conn      { return s.client }
func (s *session) DatabaseConnection() net.Conn    { return s.db }
func (s *session) ProtocolState() interface{}      { return s.state }
func (s *session) SetProtocolState(st interface{}) { s.state = st }
func (s *session) GetData(k string) (interface{}, bool) {
	s.mu.RLock()
	defer s.mu.RUnlock()
	v, ok := s.data[k]
	return v, ok
}
func (s *session) SetData(k string, v interface{}) { s.mu.Lock(); s.data[k] = v; s.mu.Unlock() }
func (s *session) DeleteData(k string)             { s.mu.Lock(); delete(s.data, k); s.mu.Unlock() }
func (s *session) HasData(k string) bool {
	s.mu.RLock()
	defer s.mu.RUnlock()
	_, ok := s.data[k]
	return ok
}

// Rig = proxy factories over one keystore, one encryptor config, one token store.
type Rig struct {
	Keys   *vh.MemKeystore
	Schema config.TableSchemaStore
	pg     base.ProxyFactory
	my     base.ProxyFactory
}

// New wires the factories the way cmd/acra-server does (no censor rules, no TLS, no poison callbacks).
func New(ks *vh.MemKeystore, encryptorConfigYAML []byte) (*Rig, error) {
	rks := vh.RigKeystore{MemKeystore: ks}
	schema, err := config.MapTableSchemaStoreFromConfig(encryptorConfigYAML, false)
	if err != nil {
		return nil, fmt.Errorf("encryptor config: %w", err)
	}
	mem, err := storage.NewMemoryTokenStorage()
	if err != nil {
		return nil, err
	}
	tokenEncryptor, err := storage.NewSCellEncryptor(rks)
	if err != nil {
		return nil, err
	}
	tokenizer, err := pseudonymization.NewPseudoanonymizer(storage.WrapStorageWithEncryption(mem, tokenEncryptor))
	if err != nil {
		return nil, err
	}
	parser := sqlparser.New(sqlparser.ModeStrict)
	setting := base.NewProxySetting(parser, schema, rks, nil, acracensor.NewAcraCensor(), nil)
	pg, err := postgresql.NewProxyFactory(setting, rks, tokenizer)
	if err != nil {
		return nil, err
	}
	my, err := mysql.NewProxyFactory(setting, rks, tokenizer)
	if err != nil {
		return nil, err
	}
	return &Rig{Keys: ks, Schema: schema, pg: pg, my: my}, nil
}

// Conn is one proxied connection of an identity (never started): the object proxyFactory.New returns and the
// session context the proxy goroutines would run with (logger, client session, access context of the connection).
type Conn struct {
	P     base.Proxy
	Ctx   context.Context
	MySQL bool
	c     [4]net.Conn
}

func (r *Rig) open(fac base.ProxyFactory, clientID []byte, my bool) (*Conn, error) {
	c1, c2 := net.Pipe()
	d1, d2 := net.Pipe()
	ctx := logging.SetLoggerToContext(context.Background(), logrus.NewEntry(logrus.StandardLogger()))
	sess := &session{client: c2, db: d1, data: map[string]interface{}{}}
	ctx = base.SetClientSessionToContext(ctx, sess)
	sess.ctx = ctx
	p, err := fac.New(clientID, sess)
	if err != nil {
		return nil, err
	}
	ac := base.NewAccessContext(base.WithClientID(clientID))
	p.AddClientIDObserver(ac)
	sess.ctx = base.SetAccessContextToContext(sess.ctx, ac)
	return &Conn{P: p, Ctx: sess.ctx, MySQL: my, c: [4]net.Conn{c1, c2, d1, d2}}, nil
}

// OpenPg / OpenMy = proxyFactory.New for a connection of clientID.
func (r *Rig) OpenPg(clientID []byte) (*Conn, error) { return r.open(r.pg, clientID, false) }
func (r *Rig) OpenMy(clientID []byte) (*Conn, error) { return r.open(r.my, clientID, true) }

func (c *Conn) Close() {
	for _, x := range c.c {
		x.Close()
	}
}

// Write = QueryDataEncryptor.encryptWithColumnSettings(ctx of the connection, setting, data) of the query encryptor
// the factory built for this connection.
func (c *Conn) Write(setting config.ColumnEncryptionSetting, data []byte) ([]byte, error) {
	if c.MySQL {
		qs := mysql.VerifS65QueryEncryptors(c.P)
		if len(qs) != 1 {
			return nil, fmt.Errorf("c02rprig: %d mysql query encryptors with a data encryptor", len(qs))
		}
		return qs[0].VerifS65EncryptWithColumnSettings(c.Ctx, setting, data)
	}
	qs := postgresql.VerifS65QueryEncryptors(c.P)
	if len(qs) != 1 {
		return nil, fmt.Errorf("c02rprig: %d postgresql query encryptors", len(qs))
	}
	return qs[0].VerifS65EncryptWithColumnSettings(c.Ctx, setting, data)
}

// Column = PgProxy.onColumnDecryption(ctx, i, data, binary, setting): what handleDataRow does per column.
func (c *Conn) Column(i int, data []byte, binary bool, setting config.ColumnEncryptionSetting) ([]byte, error) {
	return postgresql.VerifX11OnColumnDecryption(c.P, c.Ctx, i, data, binary, setting)
}

// Subscribers: the column subscribers of the connection in notification order.
func (c *Conn) Subscribers() []base.DecryptionSubscriber {
	if c.MySQL {
		return mysql.VerifX11Subscribers(c.P)
	}
	return postgresql.VerifX11Subscribers(c.P)
}

// ColumnCtx = the context the proxies hand to the subscribers for a column with this setting.
func (c *Conn) ColumnCtx(setting config.ColumnEncryptionSetting) context.Context {
	return encryptor.NewContextWithEncryptionSetting(c.Ctx, setting)
}
