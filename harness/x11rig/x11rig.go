// Package x11rig builds the REAL PostgreSQL proxy of acra (postgresql.NewProxyFactory(...).New) with an
// encryptor config and a poison-record callback storage, and drives its column path without the wire:
// PgProxy.onColumnDecryption (hook export_verif_x11old.go) and the subscribers / detector callbacks the
// factory installed, in their real order.
package x11rig

import (
	"context"
	"fmt"
	"net"
	"sync"

	"github.com/sirupsen/logrus"

	"acra-vh/vh"

	acracensor "github.com/cossacklabs/acra/acra-censor"
	"github.com/cossacklabs/acra/crypto"
	"github.com/cossacklabs/acra/decryptor/base"
	"github.com/cossacklabs/acra/decryptor/mysql"
	"github.com/cossacklabs/acra/decryptor/postgresql"
	encryptor "github.com/cossacklabs/acra/encryptor/base"
	"github.com/cossacklabs/acra/encryptor/base/config"
	"github.com/cossacklabs/acra/logging"
	"github.com/cossacklabs/acra/sqlparser"
)

// session is a base.ClientSession whose connections are never used (no packet is read or written).
type session struct {
	ctx    context.Context
	client net.Conn
	db     net.Conn
	state  interface{}
	mu     sync.RWMutex
	data   map[string]interface{}
}

func (s *session) Context() context.Context        { return s.ctx }
func (s *session) ClientConnection() net.Conn      { return s.client }
func (s *session) DatabaseConnection() net.Conn    { return s.db }
func (s *session) ProtocolState() interface{}      { return s.state }
func (s *session) SetProtocolState(st interface{}) { s.state = st }
func (s *session) GetData(k string) (interface{}, bool) {
	s.mu.RLock()
	defer s.mu.RUnlock()
	v, ok := s.data[k]
	return v, ok
}
func (s *session) SetData(k string, v interface{}) { s.mu.Lock(); s.data[k] = v; s.mu.Unlock() }
func (s *session) DeleteData(k string)             { s.mu.Lock(); delete(s.data, k); s.mu.Unlock() }
func (s *session) HasData(k string) bool {
	s.mu.RLock()
	defer s.mu.RUnlock()
	_, ok := s.data[k]
	return ok
}

// Rig = proxy factories over one keystore, one encryptor config and one callback storage.
type Rig struct {
	Keys   *vh.MemKeystore
	Schema config.TableSchemaStore
	pg     base.ProxyFactory
	my     base.ProxyFactory
}

// New wires the factories the way cmd/acra-server does (no censor rules, no TLS).
// callbacks may be nil (no storage configured).
func New(ks *vh.MemKeystore, encryptorConfigYAML []byte, callbacks base.PoisonRecordCallbackStorage) (*Rig, error) {
	rks := vh.RigKeystore{MemKeystore: ks}
	schema, err := config.MapTableSchemaStoreFromConfig(encryptorConfigYAML, false)
	if err != nil {
		return nil, fmt.Errorf("encryptor config: %w", err)
	}
	parser := sqlparser.New(sqlparser.ModeStrict)
	setting := base.NewProxySetting(parser, schema, rks, nil, acracensor.NewAcraCensor(), callbacks)
	pg, err := postgresql.NewProxyFactory(setting, rks, nil)
	if err != nil {
		return nil, err
	}
	my, err := mysql.NewProxyFactory(setting, rks, nil)
	if err != nil {
		return nil, err
	}
	return &Rig{Keys: ks, Schema: schema, pg: pg, my: my}, nil
}

// Proxy is one proxied connection of clientID (never started): the object proxyFactory.New returns and the
// session context the proxy goroutines would run with (logger, client session, access context).
type Proxy struct {
	P   base.Proxy
	Ctx context.Context
	c   [4]net.Conn
}

func (r *Rig) open(fac base.ProxyFactory, clientID []byte) (*Proxy, error) {
	c1, c2 := net.Pipe()
	d1, d2 := net.Pipe()
	ctx := logging.SetLoggerToContext(context.Background(), logrus.NewEntry(logrus.StandardLogger()))
	sess := &session{client: c2, db: d1, data: map[string]interface{}{}}
	ctx = base.SetClientSessionToContext(ctx, sess)
	sess.ctx = ctx
	p, err := fac.New(clientID, sess)
	if err != nil {
		return nil, err
	}
	ac := base.NewAccessContext(base.WithClientID(clientID))
	p.AddClientIDObserver(ac)
	sess.ctx = base.SetAccessContextToContext(sess.ctx, ac)
	return &Proxy{P: p, Ctx: sess.ctx, c: [4]net.Conn{c1, c2, d1, d2}}, nil
}

// OpenPg = postgresql proxyFactory.New for clientID.
func (r *Rig) OpenPg(clientID []byte) (*Proxy, error) { return r.open(r.pg, clientID) }

// OpenMy = mysql proxyFactory.New for clientID.
func (r *Rig) OpenMy(clientID []byte) (*Proxy, error) { return r.open(r.my, clientID) }

func (p *Proxy) Close() {
	for _, c := range p.c {
		c.Close()
	}
}

// Column = PgProxy.onColumnDecryption(ctx, i, data, binary, setting): what handleDataRow does per column.
func (p *Proxy) Column(i int, data []byte, binary bool, setting config.ColumnEncryptionSetting) ([]byte, error) {
	return postgresql.VerifX11OnColumnDecryption(p.P, p.Ctx, i, data, binary, setting)
}

// PgSubscribers / MySubscribers: the column subscribers in notification order.
func (p *Proxy) PgSubscribers() []base.DecryptionSubscriber {
	return postgresql.VerifX11Subscribers(p.P)
}
func (p *Proxy) MySubscribers() []base.DecryptionSubscriber { return mysql.VerifX11Subscribers(p.P) }

// IDs of subscribers in order.
func IDs(subs []base.DecryptionSubscriber) []string {
	var ids []string
	for _, s := range subs {
		ids = append(ids, s.ID())
	}
	return ids
}

// Wrapper finds the container detector among the subscribers (the factory subscribes exactly one).
func Wrapper(subs []base.DecryptionSubscriber) *crypto.OldContainerDetectorWrapper {
	for _, s := range subs {
		if w, ok := s.(*crypto.OldContainerDetectorWrapper); ok {
			return w
		}
	}
	return nil
}

// ColumnCtx = the context onColumnDecryption hands to the subscribers for a column with this setting
// (setting == nil: column without setting).
func (p *Proxy) ColumnCtx(setting config.ColumnEncryptionSetting) context.Context {
	return encryptor.NewContextWithEncryptionSetting(p.Ctx, setting)
}
