package x11rig

import "github.com/cossacklabs/acra/decryptor/base"

// OpenWith (add-only, s67) = factory.New for clientID over a session whose connections are never used: the proxy
// object of a GIVEN factory (the one a wire rig runs its sessions with) for inspection of what the factory installed.
func OpenWith(fac base.ProxyFactory, clientID []byte) (*Proxy, error) {
	return (&Rig{}).open(fac, clientID)
}
