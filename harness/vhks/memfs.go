package vhks

// In-memory implementation of acra's keystore/filesystem.Storage (v1) that records every path it
// is handed and every byte string written, and a recording wrapper around the v2 backend API.
// Paths are resolved lexically (filepath.Clean), like an OS without symlinks would.

import (
	"crypto/hmac"
	"crypto/sha256"
	"fmt"
	"os"
	"path/filepath"
	"sort"
	"strings"
	"time"

	backendAPI "github.com/cossacklabs/acra/keystore/v2/keystore/filesystem/backend/api"
)

type FsEvent struct {
	Op    string // stat exists readdir mkdirall rename tempfile link copy read write remove removeall / get put rename renamenx
	Path  string // raw path as given by acra
	Path2 string // second raw path (rename/link/copy)
	Data  []byte // bytes written
}

type memNode struct {
	data  []byte
	mode  os.FileMode
	isDir bool
}

type MemFS struct {
	nodes  map[string]*memNode
	Events []FsEvent
	tmpN   int
	clock  int64
}

func NewMemFS() *MemFS {
	return &MemFS{nodes: map[string]*memNode{"/": {isDir: true, mode: 0o700}}}
}

type memInfo struct {
	name string
	n    *memNode
}

func (i memInfo) Name() string { return i.name }
func (i memInfo) Size() int64  { return int64(len(i.n.data)) }
func (i memInfo) Mode() os.FileMode {
	if i.n.isDir {
		return i.n.mode | os.ModeDir
	}
	return i.n.mode
}
func (i memInfo) ModTime() time.Time { return time.Unix(0, 0) }
func (i memInfo) IsDir() bool        { return i.n.isDir }
func (i memInfo) Sys() interface{}   { return nil }

func (m *MemFS) ev(op, p, p2 string, data []byte) {
	m.Events = append(m.Events, FsEvent{op, p, p2, append([]byte{}, data...)})
}
func norm(p string) string {
	p = filepath.Clean(p)
	if !strings.HasPrefix(p, "/") {
		p = "/cwd/" + p
	}
	return filepath.Clean(p)
}
func notExist(op, p string) error { return &os.PathError{Op: op, Path: p, Err: os.ErrNotExist} }

func (m *MemFS) Stat(path string) (os.FileInfo, error) {
	m.ev("stat", path, "", nil)
	n, ok := m.nodes[norm(path)]
	if !ok {
		return nil, notExist("stat", path)
	}
	return memInfo{filepath.Base(norm(path)), n}, nil
}
func (m *MemFS) Exists(path string) (bool, error) {
	m.ev("exists", path, "", nil)
	_, ok := m.nodes[norm(path)]
	return ok, nil
}
func (m *MemFS) ReadDir(path string) ([]os.FileInfo, error) {
	m.ev("readdir", path, "", nil)
	d := norm(path)
	n, ok := m.nodes[d]
	if !ok || !n.isDir {
		return nil, notExist("readdir", path)
	}
	var names []string
	for p := range m.nodes {
		if p != d && filepath.Dir(p) == d {
			names = append(names, p)
		}
	}
	sort.Strings(names)
	out := make([]os.FileInfo, 0, len(names))
	for _, p := range names {
		out = append(out, memInfo{filepath.Base(p), m.nodes[p]})
	}
	return out, nil
}
func (m *MemFS) mkdirAll(d string, perm os.FileMode) {
	for d != "/" {
		if _, ok := m.nodes[d]; !ok {
			m.nodes[d] = &memNode{isDir: true, mode: perm}
		}
		d = filepath.Dir(d)
	}
}
func (m *MemFS) MkdirAll(path string, perm os.FileMode) error {
	m.ev("mkdirall", path, "", nil)
	m.mkdirAll(norm(path), perm)
	return nil
}
func (m *MemFS) Rename(oldpath, newpath string) error {
	m.ev("rename", oldpath, newpath, nil)
	o, n := norm(oldpath), norm(newpath)
	node, ok := m.nodes[o]
	if !ok {
		return notExist("rename", oldpath)
	}
	if _, ok := m.nodes[filepath.Dir(n)]; !ok {
		return notExist("rename", newpath)
	}
	delete(m.nodes, o)
	m.nodes[n] = node
	return nil
}
func (m *MemFS) TempFile(pattern string, perm os.FileMode) (string, error) {
	m.ev("tempfile", pattern, "", nil)
	if _, ok := m.nodes[filepath.Dir(norm(pattern))]; !ok {
		return "", notExist("tempfile", pattern)
	}
	m.tmpN++
	name := fmt.Sprintf("%s.tmp%d", pattern, m.tmpN)
	m.nodes[norm(name)] = &memNode{mode: perm}
	return name, nil
}
func (m *MemFS) TempDir(pattern string, perm os.FileMode) (string, error) {
	m.ev("tempdir", pattern, "", nil)
	m.tmpN++
	name := fmt.Sprintf("%s.tmp%d", pattern, m.tmpN)
	m.mkdirAll(norm(name), perm)
	return name, nil
}
func (m *MemFS) Link(oldpath, newpath string) error {
	m.ev("link", oldpath, newpath, nil)
	return m.copy(oldpath, newpath)
}
func (m *MemFS) Copy(src, dst string) error {
	m.ev("copy", src, dst, nil)
	return m.copy(src, dst)
}
func (m *MemFS) copy(src, dst string) error {
	node, ok := m.nodes[norm(src)]
	if !ok || node.isDir {
		return notExist("copy", src)
	}
	if _, ok := m.nodes[filepath.Dir(norm(dst))]; !ok {
		return notExist("copy", dst)
	}
	m.nodes[norm(dst)] = &memNode{data: append([]byte{}, node.data...), mode: node.mode}
	return nil
}
func (m *MemFS) ReadFile(path string) ([]byte, error) {
	m.ev("read", path, "", nil)
	node, ok := m.nodes[norm(path)]
	if !ok || node.isDir {
		return nil, notExist("open", path)
	}
	return append([]byte{}, node.data...), nil
}
func (m *MemFS) WriteFile(path string, data []byte, perm os.FileMode) error {
	m.ev("write", path, "", data)
	p := norm(path)
	if _, ok := m.nodes[filepath.Dir(p)]; !ok {
		return notExist("open", path)
	}
	if node, ok := m.nodes[p]; ok && !node.isDir {
		node.data = append([]byte{}, data...)
		return nil
	}
	m.nodes[p] = &memNode{data: append([]byte{}, data...), mode: perm}
	return nil
}
func (m *MemFS) Remove(path string) error {
	m.ev("remove", path, "", nil)
	p := norm(path)
	if _, ok := m.nodes[p]; !ok {
		return notExist("remove", path)
	}
	delete(m.nodes, p)
	return nil
}
func (m *MemFS) RemoveAll(path string) error {
	m.ev("removeall", path, "", nil)
	p := norm(path)
	for k := range m.nodes {
		if k == p || strings.HasPrefix(k, p+"/") {
			delete(m.nodes, k)
		}
	}
	return nil
}

// ---- direct (attacker / test) access, not recorded ----

// Files lists regular files (cleaned absolute paths), sorted.
func (m *MemFS) Files() []string {
	var out []string
	for p, n := range m.nodes {
		if !n.isDir {
			out = append(out, p)
		}
	}
	sort.Strings(out)
	return out
}
func (m *MemFS) Peek(path string) []byte {
	if n, ok := m.nodes[norm(path)]; ok {
		return append([]byte{}, n.data...)
	}
	return nil
}
func (m *MemFS) Poke(path string, data []byte) {
	p := norm(path)
	m.mkdirAll(filepath.Dir(p), 0o700)
	m.nodes[p] = &memNode{data: append([]byte{}, data...), mode: 0o600}
}
func (m *MemFS) Drop(path string) { delete(m.nodes, norm(path)) }

// Clone copies the file tree (without events).
func (m *MemFS) Clone() *MemFS {
	c := &MemFS{nodes: map[string]*memNode{}, tmpN: m.tmpN}
	for p, n := range m.nodes {
		c.nodes[p] = &memNode{data: append([]byte{}, n.data...), mode: n.mode, isDir: n.isDir}
	}
	return c
}

// ---------- recording wrapper around a v2 backend ----------

type RecBackend struct {
	backendAPI.Backend
	Events []FsEvent
}

func (b *RecBackend) Get(path string) ([]byte, error) {
	b.Events = append(b.Events, FsEvent{"get", path, "", nil})
	return b.Backend.Get(path)
}
func (b *RecBackend) Put(path string, data []byte) error {
	b.Events = append(b.Events, FsEvent{"put", path, "", append([]byte{}, data...)})
	return b.Backend.Put(path, data)
}
func (b *RecBackend) Rename(o, n string) error {
	b.Events = append(b.Events, FsEvent{"rename", o, n, nil})
	return b.Backend.Rename(o, n)
}
func (b *RecBackend) RenameNX(o, n string) error {
	b.Events = append(b.Events, FsEvent{"renamenx", o, n, nil})
	return b.Backend.RenameNX(o, n)
}

// HmacSha256 with Go's standard library (reference for the signature model).
func HmacSha256(key, msg []byte) []byte {
	h := hmac.New(sha256.New, key)
	h.Write(msg)
	return h.Sum(nil)
}
