package vhks

// Shared helpers of the keystore domains (c07, c18): recording cache, Coq rendering of events.

import (
	"acra-vh/vh"
	"fmt"
	"regexp"
	"strings"

	"github.com/cossacklabs/acra/keystore"
)

type CacheEvent struct {
	Name string
	Data []byte
}

// RecCache wraps a keystore.Cache and records every Add.
type RecCache struct {
	Inner keystore.Cache
	Adds  []CacheEvent
}

func (c *RecCache) Add(id string, v []byte) {
	// Add(id, nil) is the keystore's way of PURGING an entry (it carries no key material,
	// and lru.Cache.Get reports it as absent): not a write of a key into the cache.
	if v != nil {
		c.Adds = append(c.Adds, CacheEvent{id, append([]byte{}, v...)})
	}
	c.Inner.Add(id, v)
}
func (c *RecCache) Get(id string) ([]byte, bool) { return c.Inner.Get(id) }
func (c *RecCache) Clear()                       { c.Inner.Clear() }

var tmpSuffix = regexp.MustCompile(`\.tmp[0-9]+$`)

// FinalPath strips the temp-file suffix MemFS appends (acra writes to a temp file and renames).
func FinalPath(p string) string { return tmpSuffix.ReplaceAllString(p, "") }

func CoqBool(b bool) string {
	if b {
		return "true"
	}
	return "false"
}
func CoqPairs(ps [][2][]byte) string {
	parts := make([]string, len(ps))
	for i, p := range ps {
		parts[i] = fmt.Sprintf("(%s, %s)", vh.H(p[0]), vh.H(p[1]))
	}
	return "[" + strings.Join(parts, "; ") + "]"
}
func U64(n int) []byte {
	b := make([]byte, 8)
	for i := 0; i < 8; i++ {
		b[i] = byte(n >> (8 * i))
	}
	return b
}
