// pgportal.go: message-level scripted client + portal-capable fake back end for the in-process PostgreSQL
// proxy rig (pgrig.go).  Added for the C04 portal domain (cmd/acra-vh/c04portal.go):
//
//   - the client sends ANY sequence of extended-protocol messages (Parse/Bind/Describe/Execute with a row
//     limit/Close/Sync/Flush, named statements and portals, several batches without waiting) and simple queries;
//   - the back end keeps portals like PostgreSQL: the statement runs at the first Execute, every Execute sends at
//     most max_rows rows and ends with PortalSuspended (limit reached), CommandComplete, EmptyQueryResponse or
//     ErrorResponse; after an error everything up to the next Sync is discarded; portals die at Sync outside a
//     transaction block; Close, Describe statement/portal, NoData are answered;
//   - the back end is in lock step with the client END of the proxy only at response terminators: after
//     CommandComplete / PortalSuspended / EmptyQueryResponse / ErrorResponse it waits until the scripted client
//     has received that message (so the proxy has handled it), and before it answers an Execute it samples the
//     proxy's pendingQueryPackets (hook VerifPendingEntries): the head of that sample is the entry the rows of
//     this Execute are processed with.  The client side of the proxy is never slowed down (pipelining is real).
package vh

import (
	"context"
	"errors"
	"fmt"
	"io"
	"net"
	"regexp"
	"strconv"
	"strings"
	"sync"
	"sync/atomic"
	"time"

	pg_query "github.com/cossacklabs/pg_query_go/v5"
	"github.com/jackc/pgx/v5/pgproto3"
	"github.com/sirupsen/logrus"

	"github.com/cossacklabs/acra/decryptor/base"
	"github.com/cossacklabs/acra/decryptor/postgresql"
	"github.com/cossacklabs/acra/logging"
)

// PortalMsg is one back-end message as the scripted client received it.
type PortalMsg struct {
	Type   byte // '1' '2' '3' 'n' 't' 'T' 'D' 'C' 's' 'I' 'E' 'Z', '?' anything else
	Row    [][]byte
	Fields []pgproto3.FieldDescription
	Text   string // command tag / error message
}

// PxExec is what the fake back end did for one Execute (or simple Query) message it received.
type PxExec struct {
	Simple   bool
	Portal   string
	Stmt     string
	SQL      string
	MaxRows  uint32
	Skipped  bool       // discarded: the back end was skipping to Sync after an error
	Ran      bool       // the statement was executed by this message (first Execute of the portal)
	Table    string     // source table of the result ("" = no row data)
	Src      []string   // source column per result column
	Cols     []PgCol    // result columns as described
	Rfmt     []int16    // result format codes of the portal
	RowIdx   []int      // for every row sent: its index in the portal's result set
	Stored   [][][]byte // stored cells sent by this message (row major)
	Sent     [][][]byte // the same cells as encoded on the wire
	Term     byte       // 'C' 's' 'I' 'E'
	Head     string     // head of the proxy's pending queue when the answer started ("" = empty queue)
	QueueLen int
	Fwd      *FwdStmt // decoded statement (set when Ran)
}

type pxPrepared struct {
	name  string
	sql   string
	tree  *pg_query.ParseResult
	nPar  int
	empty bool
}

type pxPortal struct {
	name    string
	st      *pxPrepared
	params  [][]byte
	pfmt    []int16
	rfmt    []int16
	started bool
	rs      *resultSet
	fw      *FwdStmt
	pos     int
}

// PxTerm: one rendezvous message of the back end (C s I E Z), with the Execute / Query it ended (nil for the
// ErrorResponse of another message and for ReadyForQuery).
type PxTerm struct {
	Type byte
	Exec *PxExec
}

type pxFault struct{ skip, after int }

type pxBackend struct {
	*backendConn
	s       *PortalSession
	stmts   map[string]*pxPrepared
	portals map[string]*pxPortal
	Execs   []*PxExec
	Terms   []PxTerm
	inTxn   bool
	failed  bool
	mu      sync.Mutex
	faults  map[string]*pxFault
}

var pxParamRe = regexp.MustCompile(`\$(\d+)`)

func pxTypeOut(oid uint32, stored []byte, binary bool) []byte {
	if stored == nil {
		return nil
	}
	if oid == OidInt4 && binary {
		n, _ := strconv.Atoi(string(stored))
		return []byte{byte(uint32(int32(n)) >> 24), byte(uint32(int32(n)) >> 16), byte(uint32(int32(n)) >> 8), byte(uint32(int32(n)))}
	}
	return typeOut(oid, stored, binary)
}

func (b *pxBackend) terminator(m pgproto3.BackendMessage, x *PxExec) {
	typ := byte('?')
	switch m.(type) {
	case *pgproto3.CommandComplete:
		typ = 'C'
	case *pgproto3.PortalSuspended:
		typ = 's'
	case *pgproto3.EmptyQueryResponse:
		typ = 'I'
	case *pgproto3.ErrorResponse:
		typ = 'E'
	case *pgproto3.ReadyForQuery:
		typ = 'Z'
	}
	b.Terms = append(b.Terms, PxTerm{typ, x})
	b.be.Send(m)
	b.be.Flush()
	b.s.termSent++
	deadline := time.Now().Add(b.s.Timeout)
	for b.s.termSeen.Load() < b.s.termSent {
		if time.Now().After(deadline) {
			b.s.Desync = true
			return
		}
		select {
		case <-b.s.quit:
			return
		case <-time.After(200 * time.Microsecond):
		}
	}
}

func (b *pxBackend) fail(msg string, x *PxExec) {
	b.failed = true
	b.terminator(&pgproto3.ErrorResponse{Severity: "ERROR", Code: "42601", Message: msg}, x)
}

func (b *pxBackend) sample(x *PxExec) {
	q := b.s.Pending()
	x.QueueLen = len(q)
	if len(q) > 0 {
		x.Head = q[0]
	}
}

func pxTxn(sql string, in bool) bool {
	u := strings.ToUpper(strings.TrimSpace(sql))
	switch {
	case strings.HasPrefix(u, "BEGIN"), strings.HasPrefix(u, "START TRANSACTION"):
		return true
	case strings.HasPrefix(u, "COMMIT"), strings.HasPrefix(u, "ROLLBACK"), strings.HasPrefix(u, "END"):
		return false
	}
	return in
}

// run executes the statement of a portal / simple query; the result set is kept in po.
func (b *pxBackend) run(po *pxPortal) error {
	po.started = true
	rs, fw, err := b.exec(po.st.sql, po.st.tree, &portal{params: po.params, pfmt: po.pfmt, rfmt: po.rfmt})
	po.fw = fw
	b.Stmts = append(b.Stmts, fw)
	if err != nil {
		fw.Err = err.Error()
		return err
	}
	po.rs = rs
	b.inTxn = pxTxn(po.st.sql, b.inTxn)
	return nil
}

// answer sends up to max rows of po and the terminator.
func (b *pxBackend) answer(x *PxExec, po *pxPortal, max uint32, describe bool) {
	if !po.started {
		x.Ran = true
		if err := b.run(po); err != nil {
			x.Fwd = po.fw
			x.Term = 'E'
			b.fail(err.Error(), x)
			return
		}
		x.Fwd = po.fw
	}
	rs := po.rs
	if po.st.empty {
		x.Term = 'I'
		b.terminator(&pgproto3.EmptyQueryResponse{}, x)
		return
	}
	b.mu.Lock()
	faultAfter, faulty := 0, false
	if f := b.faults[po.name]; f != nil && po.name != "" {
		if f.skip > 0 {
			f.skip--
		} else {
			faultAfter, faulty = f.after, true
			delete(b.faults, po.name)
		}
	}
	b.mu.Unlock()
	sent := 0
	if rs.cols != nil {
		x.Src, x.Cols = rs.src, rs.cols
		if po.fw != nil && len(rs.src) > 0 {
			x.Table = pxTableOf(po.st.tree)
		}
		if describe {
			b.sendRowDescription(rs.cols, po.rfmt)
		}
		for po.pos < len(rs.rows) && (max == 0 || uint32(sent) < max) {
			if faulty && sent == faultAfter {
				break
			}
			r := rs.rows[po.pos]
			dr := &pgproto3.DataRow{}
			for i, cell := range r {
				dr.Values = append(dr.Values, pxTypeOut(rs.cols[i].Oid, cell, fmtAt(po.rfmt, i) == 1))
			}
			x.RowIdx = append(x.RowIdx, po.pos)
			x.Stored = append(x.Stored, r)
			x.Sent = append(x.Sent, dr.Values)
			if po.fw != nil {
				for i, cell := range r {
					po.fw.Returned = append(po.fw.Returned, cell)
					po.fw.ReturnedCol = append(po.fw.ReturnedCol, rs.src[i])
				}
			}
			b.be.Send(dr)
			po.pos++
			sent++
		}
	}
	switch {
	case faulty && (sent == faultAfter):
		x.Term = 'E'
		b.fail("division by zero", x)
	case rs.cols != nil && max != 0 && uint32(sent) == max:
		x.Term = 's'
		b.terminator(&pgproto3.PortalSuspended{}, x)
	default:
		x.Term = 'C'
		tag := rs.tag
		if po.pos > 0 && sent != len(rs.rows) && strings.HasPrefix(tag, "SELECT") {
			tag = fmt.Sprintf("SELECT %d", sent)
		}
		b.terminator(&pgproto3.CommandComplete{CommandTag: []byte(tag)}, x)
	}
}

func pxTableOf(tree *pg_query.ParseResult) string {
	if len(tree.Stmts) == 0 {
		return ""
	}
	st := tree.Stmts[0].Stmt
	switch {
	case st.GetInsertStmt() != nil:
		return st.GetInsertStmt().GetRelation().GetRelname()
	case st.GetUpdateStmt() != nil:
		return st.GetUpdateStmt().GetRelation().GetRelname()
	case st.GetSelectStmt() != nil && len(st.GetSelectStmt().GetFromClause()) == 1 && st.GetSelectStmt().GetFromClause()[0].GetRangeVar() != nil:
		return st.GetSelectStmt().GetFromClause()[0].GetRangeVar().GetRelname()
	}
	return ""
}

func (b *pxBackend) prepare(name, sql string) (*pxPrepared, error) {
	tree, err := pg_query.Parse(sql)
	if err != nil {
		return nil, fmt.Errorf("syntax: %v", err)
	}
	p := &pxPrepared{name: name, sql: sql, tree: tree, empty: len(tree.Stmts) == 0}
	for _, m := range pxParamRe.FindAllStringSubmatch(sql, -1) {
		if n, _ := strconv.Atoi(m[1]); n > p.nPar {
			p.nPar = n
		}
	}
	if _, err := b.resultCols(tree); err != nil { // unknown relation / column: rejected at Parse like PostgreSQL
		return nil, err
	}
	return p, nil
}

func (b *pxBackend) serve() {
	be := b.be
	if _, err := be.ReceiveStartupMessage(); err != nil {
		b.Err = err
		return
	}
	be.Send(&pgproto3.AuthenticationOk{})
	be.Send(&pgproto3.ParameterStatus{Name: "server_version", Value: "14.0"})
	b.terminator(&pgproto3.ReadyForQuery{TxStatus: 'I'}, nil)
	ready := func() {
		st := byte('I')
		if b.inTxn {
			st = 'T'
		}
		b.terminator(&pgproto3.ReadyForQuery{TxStatus: st}, nil)
	}
	for {
		msg, err := be.Receive()
		if err != nil {
			if err != io.EOF && !errors.Is(err, io.ErrClosedPipe) && !errors.Is(err, io.ErrUnexpectedEOF) {
				b.Err = err
			}
			return
		}
		switch m := msg.(type) {
		case *pgproto3.Query:
			x := &PxExec{Simple: true, SQL: m.String}
			b.Execs = append(b.Execs, x)
			if b.failed { // PostgreSQL ignores everything but Sync while it skips after an extended-protocol error
				x.Skipped = true
				continue
			}
			delete(b.stmts, "")
			delete(b.portals, "")
			b.sample(x)
			p, err := b.prepare("", m.String)
			if err != nil {
				b.Stmts = append(b.Stmts, &FwdStmt{SQL: m.String, Kind: "other", Err: err.Error()})
				x.Term = 'E'
				b.fail(err.Error(), x)
			} else {
				b.answer(x, &pxPortal{st: p}, 0, true)
			}
			b.failed = false
			if !b.inTxn {
				b.portals = map[string]*pxPortal{}
			}
			ready()
		case *pgproto3.Parse:
			if b.failed {
				continue
			}
			if _, dup := b.stmts[m.Name]; dup && m.Name != "" {
				b.fail(fmt.Sprintf("prepared statement %q already exists", m.Name), nil)
				continue
			}
			p, err := b.prepare(m.Name, m.Query)
			if err != nil {
				b.Stmts = append(b.Stmts, &FwdStmt{SQL: m.Query, Kind: "other", Err: err.Error()})
				b.fail(err.Error(), nil)
				continue
			}
			b.stmts[m.Name] = p
			be.Send(&pgproto3.ParseComplete{})
		case *pgproto3.Bind:
			if b.failed {
				continue
			}
			p := b.stmts[m.PreparedStatement]
			if p == nil {
				b.fail(fmt.Sprintf("prepared statement %q does not exist", m.PreparedStatement), nil)
				continue
			}
			if _, dup := b.portals[m.DestinationPortal]; dup && m.DestinationPortal != "" {
				b.fail(fmt.Sprintf("cursor %q already exists", m.DestinationPortal), nil)
				continue
			}
			if len(m.Parameters) < p.nPar {
				b.fail(fmt.Sprintf("bind message supplies %d parameters, but prepared statement requires %d", len(m.Parameters), p.nPar), nil)
				continue
			}
			po := &pxPortal{name: m.DestinationPortal, st: p, pfmt: append([]int16{}, m.ParameterFormatCodes...), rfmt: append([]int16{}, m.ResultFormatCodes...)}
			for _, v := range m.Parameters {
				if v == nil {
					po.params = append(po.params, nil)
				} else {
					po.params = append(po.params, append([]byte{}, v...))
				}
			}
			b.portals[m.DestinationPortal] = po
			be.Send(&pgproto3.BindComplete{})
		case *pgproto3.Describe:
			if b.failed {
				continue
			}
			var p *pxPrepared
			var rfmt []int16
			if m.ObjectType == 'S' {
				if p = b.stmts[m.Name]; p == nil {
					b.fail(fmt.Sprintf("prepared statement %q does not exist", m.Name), nil)
					continue
				}
				be.Send(&pgproto3.ParameterDescription{ParameterOIDs: make([]uint32, p.nPar)})
			} else {
				po := b.portals[m.Name]
				if po == nil {
					b.fail(fmt.Sprintf("portal %q does not exist", m.Name), nil)
					continue
				}
				p, rfmt = po.st, po.rfmt
			}
			cols, _ := b.resultCols(p.tree)
			if cols == nil {
				be.Send(&pgproto3.NoData{})
			} else {
				b.sendRowDescription(cols, rfmt)
			}
		case *pgproto3.Execute:
			x := &PxExec{Portal: m.Portal, MaxRows: m.MaxRows}
			b.Execs = append(b.Execs, x)
			if b.failed {
				x.Skipped = true
				continue
			}
			b.sample(x)
			po := b.portals[m.Portal]
			if po == nil {
				x.Term = 'E'
				b.fail(fmt.Sprintf("portal %q does not exist", m.Portal), x)
				continue
			}
			x.Stmt, x.SQL, x.Rfmt = po.st.name, po.st.sql, po.rfmt
			b.answer(x, po, m.MaxRows, false)
		case *pgproto3.Close:
			if b.failed {
				continue
			}
			if m.ObjectType == 'S' {
				if p := b.stmts[m.Name]; p != nil {
					for n, po := range b.portals {
						if po.st == p {
							delete(b.portals, n)
						}
					}
				}
				delete(b.stmts, m.Name)
			} else {
				delete(b.portals, m.Name)
			}
			be.Send(&pgproto3.CloseComplete{})
		case *pgproto3.Sync:
			b.failed = false
			if !b.inTxn {
				b.portals = map[string]*pxPortal{}
			}
			ready()
		case *pgproto3.Flush:
			be.Flush()
		case *pgproto3.Terminate:
			return
		default:
			b.Err = fmt.Errorf("fake back end: unexpected message %T", msg)
			return
		}
	}
}

// ---------- session ----------

type PortalSession struct {
	rig      *PgRig
	fe       *pgproto3.Frontend
	cconn    *asyncConn
	dconn    *asyncConn
	be       *pxBackend
	sess     *rigSession
	errCh    chan base.ProxyError
	beDone   chan struct{}
	quit     chan struct{}
	msgs     chan PortalMsg
	termSeen atomic.Int64
	termSent int64
	tape     *Tape
	Timeout  time.Duration
	Hung     bool
	Desync   bool // a response terminator sent by the back end never reached the client
	ProxyErr string
	Panic    string
}

// OpenPortal starts one proxied connection (like PgRig.Open) with the portal-capable back end.
func (r *PgRig) OpenPortal(clientID []byte, tape *Tape) (*PortalSession, error) {
	c1, c2 := net.Pipe()
	d1, d2 := net.Pipe()
	logger := logrus.NewEntry(logrus.StandardLogger())
	ctx := logging.SetLoggerToContext(context.Background(), logger)
	sess := &rigSession{client: c2, db: d1, data: map[string]interface{}{}}
	ctx = base.SetClientSessionToContext(ctx, sess)
	sess.ctx = ctx
	proxy, err := r.fac.New(clientID, sess)
	if err != nil {
		return nil, err
	}
	ac := base.NewAccessContext(base.WithClientID(clientID))
	proxy.AddClientIDObserver(ac)
	sess.ctx = base.SetAccessContextToContext(sess.ctx, ac)

	s := &PortalSession{rig: r, sess: sess, errCh: make(chan base.ProxyError, 4), beDone: make(chan struct{}), quit: make(chan struct{}),
		msgs: make(chan PortalMsg, 4096), Timeout: 10 * time.Second, tape: tape}
	s.cconn = newAsyncConn(c1, true)
	s.dconn = newAsyncConn(d2, true)
	s.fe = pgproto3.NewFrontend(s.cconn, s.cconn)
	s.be = &pxBackend{backendConn: &backendConn{db: r.DB, be: pgproto3.NewBackend(s.dconn, s.dconn), prepared: map[string]*prepared{}, portals: map[string]*portal{}},
		s: s, stmts: map[string]*pxPrepared{}, portals: map[string]*pxPortal{}, faults: map[string]*pxFault{}}
	go func() { defer close(s.beDone); s.be.serve() }()
	guard := func(f func()) {
		defer func() {
			if r := recover(); r != nil {
				s.Panic = fmt.Sprint(r)
				s.errCh <- base.NewClientProxyError(errors.New("panic"))
			}
		}()
		f()
	}
	go guard(func() { proxy.ProxyClientConnection(sess.ctx, s.errCh) })
	go guard(func() { proxy.ProxyDatabaseConnection(sess.ctx, s.errCh) })
	go func() {
		pe := <-s.errCh
		if pe.Unwrap() != nil {
			s.ProxyErr = pe.InterruptSide() + ": " + pe.Unwrap().Error()
		}
		c2.Close()
		d1.Close()
	}()
	go func() {
		defer close(s.msgs)
		for {
			m, err := s.fe.Receive()
			if err != nil {
				return
			}
			pm := PortalMsg{Type: '?'}
			switch v := m.(type) {
			case *pgproto3.ParseComplete:
				pm.Type = '1'
			case *pgproto3.BindComplete:
				pm.Type = '2'
			case *pgproto3.CloseComplete:
				pm.Type = '3'
			case *pgproto3.NoData:
				pm.Type = 'n'
			case *pgproto3.ParameterDescription:
				pm.Type = 't'
			case *pgproto3.RowDescription:
				pm.Type = 'T'
				for _, f := range v.Fields {
					f.Name = append([]byte{}, f.Name...)
					pm.Fields = append(pm.Fields, f)
				}
			case *pgproto3.DataRow:
				pm.Type = 'D'
				for _, c := range v.Values {
					if c == nil {
						pm.Row = append(pm.Row, nil)
					} else {
						pm.Row = append(pm.Row, append([]byte{}, c...))
					}
				}
			case *pgproto3.CommandComplete:
				pm.Type, pm.Text = 'C', string(v.CommandTag)
			case *pgproto3.PortalSuspended:
				pm.Type = 's'
			case *pgproto3.EmptyQueryResponse:
				pm.Type = 'I'
			case *pgproto3.ErrorResponse:
				pm.Type, pm.Text = 'E', v.Message
			case *pgproto3.ReadyForQuery:
				pm.Type = 'Z'
			}
			switch pm.Type {
			case 'C', 's', 'I', 'E', 'Z':
				s.termSeen.Add(1)
			}
			s.msgs <- pm
		}
	}()
	s.fe.Send(&pgproto3.StartupMessage{ProtocolVersion: pgproto3.ProtocolVersionNumber, Parameters: map[string]string{"user": "u", "database": "d"}})
	if err := s.fe.Flush(); err != nil {
		return nil, err
	}
	if ms, closed := s.Collect(1); closed {
		return s, fmt.Errorf("start-up failed: %d messages, hung=%v", len(ms), s.Hung)
	}
	return s, nil
}

// Pending: the proxy's pendingQueryPackets, head first (hook VerifPendingEntries).
func (s *PortalSession) Pending() []string {
	st, ok := s.sess.ProtocolState().(*postgresql.PgProtocolState)
	if !ok || st == nil {
		return nil
	}
	return st.VerifPendingEntries()
}

// Fault: the (skip+1)-th Execute of that (named) portal from now on fails with an ErrorResponse after sending
// afterRows rows.
func (s *PortalSession) Fault(portal string, skip, afterRows int) {
	s.be.mu.Lock()
	s.be.faults[portal] = &pxFault{skip, afterRows}
	s.be.mu.Unlock()
}

// Terms: the rendezvous messages the back end has sent so far (call when nothing is in flight).
func (s *PortalSession) Terms() []PxTerm { return s.be.Terms }

// TapeLen: chunks drawn so far.
func (s *PortalSession) TapeLen() int {
	if s.tape == nil {
		return 0
	}
	return len(s.tape.Chunks)
}

// Send writes the messages in one flush (they reach the proxy back to back).
func (s *PortalSession) Send(msgs ...pgproto3.FrontendMessage) {
	for _, m := range msgs {
		s.fe.Send(m)
	}
	s.fe.Flush()
}

// Collect reads until nReady ReadyForQuery messages have arrived (or close / timeout).
func (s *PortalSession) Collect(nReady int) (out []PortalMsg, closed bool) {
	timer := time.NewTimer(s.Timeout)
	defer timer.Stop()
	for nReady > 0 {
		select {
		case m, ok := <-s.msgs:
			if !ok {
				return out, true
			}
			out = append(out, m)
			if m.Type == 'Z' {
				nReady--
			}
		case <-timer.C:
			s.Hung = true
			return out, true
		}
	}
	return out, false
}

// Close ends the session: (database-bound bytes, client-bound bytes, what the back end did per Execute/Query,
// the statements it decoded, its error).
func (s *PortalSession) Close() (dbBound, clientBound []byte, execs []*PxExec, stmts []*FwdStmt, backendErr error) {
	s.fe.Send(&pgproto3.Terminate{})
	s.fe.Flush()
	select {
	case <-s.beDone:
	case <-time.After(s.Timeout):
		s.Hung = true
	}
	close(s.quit)
	s.cconn.shutdown()
	s.dconn.shutdown()
	s.cconn.Conn.Close()
	s.dconn.Conn.Close()
	select {
	case <-s.beDone:
	case <-time.After(s.Timeout):
		s.Hung = true
	}
	return s.dconn.Recorded(), s.cconn.Recorded(), s.be.Execs, s.be.Stmts, s.be.Err
}
