package vh

// MemFS: an in-memory implementation of acra's keystore/filesystem.Storage (the keystore v1 seam).
// Semantics follow os/ioutil as far as keystore v1 relies on them: ReadDir sorted by name, hard links
// share the node, Rename replaces the directory entry, Copy refuses to overwrite, missing paths give
// errors satisfying os.IsNotExist.  Nothing ever touches the real file system.

import (
	"fmt"
	"os"
	"path/filepath"
	"sort"
	"strings"
	"syscall"
	"time"
)

type memNode struct {
	dir  bool
	mode os.FileMode
	data []byte
}

type MemFS struct {
	nodes map[string]*memNode
	tmpN  int
	// Ops counts the mutating calls (diagnostics only)
	Ops int
}

func NewMemFS(root string) *MemFS {
	m := &MemFS{nodes: map[string]*memNode{}}
	m.nodes["/"] = &memNode{dir: true, mode: 0o755}
	m.MkdirAll(root, 0o700)
	return m
}

type memInfo struct {
	name string
	n    *memNode
}

func (i memInfo) Name() string { return i.name }
func (i memInfo) Size() int64  { return int64(len(i.n.data)) }
func (i memInfo) Mode() os.FileMode {
	if i.n.dir {
		return i.n.mode | os.ModeDir
	}
	return i.n.mode
}
func (i memInfo) ModTime() time.Time { return time.Time{} }
func (i memInfo) IsDir() bool        { return i.n.dir }
func (i memInfo) Sys() interface{}   { return nil }

func notExist(op, path string) error { return &os.PathError{Op: op, Path: path, Err: syscall.ENOENT} }
func exist(op, path string) error    { return &os.PathError{Op: op, Path: path, Err: syscall.EEXIST} }

func cl(p string) string { return filepath.Clean("/" + p) }

func (m *MemFS) parentOK(op, p string) error {
	d, ok := m.nodes[filepath.Dir(p)]
	if !ok {
		return notExist(op, p)
	}
	if !d.dir {
		return &os.PathError{Op: op, Path: p, Err: syscall.ENOTDIR}
	}
	return nil
}

func (m *MemFS) Stat(path string) (os.FileInfo, error) {
	p := cl(path)
	n, ok := m.nodes[p]
	if !ok {
		return nil, notExist("stat", path)
	}
	return memInfo{filepath.Base(p), n}, nil
}

func (m *MemFS) Exists(path string) (bool, error) {
	_, ok := m.nodes[cl(path)]
	return ok, nil
}

func (m *MemFS) ReadDir(path string) ([]os.FileInfo, error) {
	p := cl(path)
	n, ok := m.nodes[p]
	if !ok {
		return nil, notExist("open", path)
	}
	if !n.dir {
		return nil, &os.PathError{Op: "readdir", Path: path, Err: syscall.ENOTDIR}
	}
	var names []string
	for q := range m.nodes {
		if q != p && filepath.Dir(q) == p {
			names = append(names, q)
		}
	}
	sort.Strings(names)
	out := make([]os.FileInfo, 0, len(names))
	for _, q := range names {
		out = append(out, memInfo{filepath.Base(q), m.nodes[q]})
	}
	return out, nil
}

func (m *MemFS) MkdirAll(path string, perm os.FileMode) error {
	p := cl(path)
	var todo []string
	for q := p; ; q = filepath.Dir(q) {
		if n, ok := m.nodes[q]; ok {
			if !n.dir {
				return &os.PathError{Op: "mkdir", Path: q, Err: syscall.ENOTDIR}
			}
			break
		}
		todo = append(todo, q)
		if q == "/" {
			break
		}
	}
	for _, q := range todo {
		m.nodes[q] = &memNode{dir: true, mode: perm}
	}
	m.Ops++
	return nil
}

func (m *MemFS) Rename(oldpath, newpath string) error {
	o, n := cl(oldpath), cl(newpath)
	node, ok := m.nodes[o]
	if !ok {
		return notExist("rename", oldpath)
	}
	if err := m.parentOK("rename", n); err != nil {
		return err
	}
	if node.dir {
		return fmt.Errorf("memfs: directory rename not supported")
	}
	if t, ok := m.nodes[n]; ok && t.dir {
		return exist("rename", newpath)
	}
	delete(m.nodes, o)
	m.nodes[n] = node
	m.Ops++
	return nil
}

func (m *MemFS) TempFile(pattern string, perm os.FileMode) (string, error) {
	p := cl(pattern)
	if err := m.parentOK("open", p); err != nil {
		return "", err
	}
	m.tmpN++
	name := fmt.Sprintf("%s.%06d.tmp", p, m.tmpN)
	m.nodes[name] = &memNode{mode: perm}
	m.Ops++
	return name, nil
}

func (m *MemFS) TempDir(pattern string, perm os.FileMode) (string, error) {
	p := cl(pattern)
	if err := m.parentOK("mkdir", p); err != nil {
		return "", err
	}
	m.tmpN++
	name := fmt.Sprintf("%s.%06d.tmpd", p, m.tmpN)
	m.nodes[name] = &memNode{dir: true, mode: perm}
	m.Ops++
	return name, nil
}

func (m *MemFS) Link(oldpath, newpath string) error {
	o, n := cl(oldpath), cl(newpath)
	node, ok := m.nodes[o]
	if !ok {
		return notExist("link", oldpath)
	}
	if err := m.parentOK("link", n); err != nil {
		return err
	}
	if _, ok := m.nodes[n]; ok {
		return exist("link", newpath)
	}
	m.nodes[n] = node // same node: a hard link
	m.Ops++
	return nil
}

func (m *MemFS) Copy(src, dst string) error {
	s, d := cl(src), cl(dst)
	node, ok := m.nodes[s]
	if !ok {
		return notExist("open", src)
	}
	if err := m.parentOK("open", d); err != nil {
		return err
	}
	if _, ok := m.nodes[d]; ok {
		return exist("open", dst)
	}
	m.nodes[d] = &memNode{mode: node.mode, data: append([]byte{}, node.data...)}
	m.Ops++
	return nil
}

func (m *MemFS) ReadFile(path string) ([]byte, error) {
	n, ok := m.nodes[cl(path)]
	if !ok {
		return nil, notExist("open", path)
	}
	if n.dir {
		return nil, &os.PathError{Op: "read", Path: path, Err: syscall.EISDIR}
	}
	return append([]byte{}, n.data...), nil
}

func (m *MemFS) WriteFile(path string, data []byte, perm os.FileMode) error {
	p := cl(path)
	if n, ok := m.nodes[p]; ok {
		if n.dir {
			return &os.PathError{Op: "open", Path: path, Err: syscall.EISDIR}
		}
		n.data = append([]byte{}, data...)
		m.Ops++
		return nil
	}
	if err := m.parentOK("open", p); err != nil {
		return err
	}
	m.nodes[p] = &memNode{mode: perm, data: append([]byte{}, data...)}
	m.Ops++
	return nil
}

func (m *MemFS) Remove(path string) error {
	p := cl(path)
	n, ok := m.nodes[p]
	if !ok {
		return notExist("remove", path)
	}
	if n.dir {
		for q := range m.nodes {
			if q != p && filepath.Dir(q) == p {
				return &os.PathError{Op: "remove", Path: path, Err: syscall.ENOTEMPTY}
			}
		}
	}
	delete(m.nodes, p)
	m.Ops++
	return nil
}

func (m *MemFS) RemoveAll(path string) error {
	p := cl(path)
	for q := range m.nodes {
		if q == p || strings.HasPrefix(q, p+"/") {
			delete(m.nodes, q)
		}
	}
	m.Ops++
	return nil
}

// Names lists the entries of a directory (sorted), nil if it does not exist.
func (m *MemFS) Names(dir string) []string {
	fis, err := m.ReadDir(dir)
	if err != nil {
		return nil
	}
	var out []string
	for _, fi := range fis {
		out = append(out, fi.Name())
	}
	return out
}

// Dump renders the whole tree (for replays).
func (m *MemFS) Dump() string {
	var names []string
	for q, n := range m.nodes {
		if !n.dir {
			names = append(names, q)
		}
	}
	sort.Strings(names)
	return strings.Join(names, " ")
}
