package vh

import "crypto/rand"

// PoisonStore adds the generator half of keystore.PoisonKeyStorageAndGenerator to MemKeystore
// (poison.CreatePoisonRecord generates keys when none exist).
type PoisonStore struct{ *MemKeystore }

func (p PoisonStore) GeneratePoisonKeyPair() error {
	seed := make([]byte, 32)
	if _, err := rand.Read(seed); err != nil {
		return err
	}
	p.PoisonSeeds = append([][]byte{seed}, p.PoisonSeeds...)
	return nil
}

func (p PoisonStore) GeneratePoisonSymmetricKey() error {
	key := make([]byte, 32)
	if _, err := rand.Read(key); err != nil {
		return err
	}
	p.PoisonSyms = append([][]byte{key}, p.PoisonSyms...)
	return nil
}
