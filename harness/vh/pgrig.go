// pgrig.go: the REAL acra PostgreSQL proxy in-process.  A harness ClientSession over two net.Pipe
// pairs, postgresql.NewProxyFactory(...).New, both proxy goroutines, a scripted client and a
// recording fake back end (a tiny typed table store that understands exactly the statement shapes
// the C04 generator produces, decoded with the real PostgreSQL parser pg_query).
package vh

import (
	"bytes"
	"context"
	"encoding/hex"
	"errors"
	"fmt"
	"io"
	"io/fs"
	"net"
	"strconv"
	"strings"
	"sync"
	"time"

	pg_query "github.com/cossacklabs/pg_query_go/v5"
	"github.com/jackc/pgx/v5/pgproto3"
	"github.com/sirupsen/logrus"

	acracensor "github.com/cossacklabs/acra/acra-censor"
	"github.com/cossacklabs/acra/crypto"
	"github.com/cossacklabs/acra/decryptor/base"
	"github.com/cossacklabs/acra/decryptor/postgresql"
	"github.com/cossacklabs/acra/encryptor/base/config"
	"github.com/cossacklabs/acra/logging"
	"github.com/cossacklabs/acra/sqlparser"
	"github.com/cossacklabs/themis/gothemis/keys"
)

// ---------- keystore: MemKeystore with the file-system keystore's "missing key" error ----------

// RigKeystore answers like keystore/filesystem for identities without keys: an fs.ErrNotExist
// compatible error (the proxy then ends the session instead of going on).
type RigKeystore struct{ *MemKeystore }

var errNoKeyFile = fmt.Errorf("rig keystore: %w", fs.ErrNotExist)

func (k RigKeystore) GetClientIDEncryptionPublicKey(id []byte) (*keys.PublicKey, error) {
	p, err := k.MemKeystore.GetClientIDEncryptionPublicKey(id)
	if err != nil {
		return nil, errNoKeyFile
	}
	return p, nil
}
func (k RigKeystore) GetClientIDSymmetricKey(id []byte) ([]byte, error) {
	p, err := k.MemKeystore.GetClientIDSymmetricKey(id)
	if err != nil {
		return nil, errNoKeyFile
	}
	return p, nil
}
func (k RigKeystore) GetClientIDSymmetricKeys(id []byte) ([][]byte, error) {
	p, err := k.MemKeystore.GetClientIDSymmetricKeys(id)
	if err != nil {
		return nil, errNoKeyFile
	}
	return p, nil
}
func (k RigKeystore) GetServerDecryptionPrivateKeys(id []byte) ([]*keys.PrivateKey, error) {
	p, err := k.MemKeystore.GetServerDecryptionPrivateKeys(id)
	if err != nil {
		return nil, errNoKeyFile
	}
	return p, nil
}
func (k RigKeystore) GetServerDecryptionPrivateKey(id []byte) (*keys.PrivateKey, error) {
	p, err := k.MemKeystore.GetServerDecryptionPrivateKey(id)
	if err != nil {
		return nil, errNoKeyFile
	}
	return p, nil
}
func (k RigKeystore) GetHMACSecretKey(id []byte) ([]byte, error) {
	p, err := k.MemKeystore.GetHMACSecretKey(id)
	if err != nil {
		return nil, errNoKeyFile
	}
	return p, nil
}

// ---------- session ----------

type rigSession struct {
	ctx    context.Context
	client net.Conn
	db     net.Conn
	state  interface{}
	mu     sync.RWMutex
	data   map[string]interface{}
}

func (s *rigSession) Context() context.Context        { return s.ctx }
func (s *rigSession) ClientConnection() net.Conn      { return s.client }
func (s *rigSession) DatabaseConnection() net.Conn    { return s.db }
func (s *rigSession) ProtocolState() interface{}      { return s.state }
func (s *rigSession) SetProtocolState(st interface{}) { s.state = st }
func (s *rigSession) GetData(k string) (interface{}, bool) {
	s.mu.RLock()
	defer s.mu.RUnlock()
	v, ok := s.data[k]
	return v, ok
}
func (s *rigSession) SetData(k string, v interface{}) { s.mu.Lock(); s.data[k] = v; s.mu.Unlock() }
func (s *rigSession) DeleteData(k string)             { s.mu.Lock(); delete(s.data, k); s.mu.Unlock() }
func (s *rigSession) HasData(k string) bool {
	s.mu.RLock()
	defer s.mu.RUnlock()
	_, ok := s.data[k]
	return ok
}

// asyncConn decouples our writes from the peer's reads (net.Pipe is synchronous): a scripted end
// never blocks the proxy and is never blocked by it, so protocol order cannot deadlock the rig.
type asyncConn struct {
	net.Conn
	q      chan []byte
	done   chan struct{}
	record *bytes.Buffer // everything READ from the conn
	rmu    sync.Mutex
}

func newAsyncConn(c net.Conn, record bool) *asyncConn {
	a := &asyncConn{Conn: c, q: make(chan []byte, 4096), done: make(chan struct{})}
	if record {
		a.record = &bytes.Buffer{}
	}
	go func() {
		defer close(a.done)
		for b := range a.q {
			if _, err := c.Write(b); err != nil {
				for range a.q {
				}
				return
			}
		}
	}()
	return a
}
func (a *asyncConn) Write(p []byte) (int, error) {
	defer func() { recover() }()
	a.q <- append([]byte{}, p...)
	return len(p), nil
}
func (a *asyncConn) Read(p []byte) (int, error) {
	n, err := a.Conn.Read(p)
	if a.record != nil && n > 0 {
		a.rmu.Lock()
		a.record.Write(p[:n])
		a.rmu.Unlock()
	}
	return n, err
}
func (a *asyncConn) Recorded() []byte {
	a.rmu.Lock()
	defer a.rmu.Unlock()
	return append([]byte{}, a.record.Bytes()...)
}
func (a *asyncConn) shutdown() {
	defer func() { recover() }()
	close(a.q)
}

// ---------- fake back end ----------

const (
	OidBytea = 17
	OidInt4  = 23
	OidText  = 25
)

type PgCol struct {
	Name string
	Oid  uint32
}
type PgTable struct {
	Name string
	Cols []PgCol
	Rows [][][]byte // nil cell = NULL
}

func (t *PgTable) colIndex(name string) int {
	for i, c := range t.Cols {
		if c.Name == name {
			return i
		}
	}
	return -1
}

// FwdValue is one literal / bound parameter of a forwarded INSERT/UPDATE as the database decodes it.
type FwdValue struct {
	Table, Column string
	Raw           []byte // the literal text after SQL string processing / the parameter bytes
	Stored        []byte // after the column type's input conversion (bytea: hex/escape decoded)
	Param         bool
	Binary        bool
}
type FwdStmt struct {
	SQL    string
	Kind   string // insert | update | select | other
	Values []FwdValue
	// for selects: the stored cells that were sent back (row major) and the column they came from
	Returned    [][]byte
	ReturnedCol []string
	Err         string
}

type FakeDB struct {
	Tables map[string]*PgTable
}

func NewFakeDB() *FakeDB { return &FakeDB{Tables: map[string]*PgTable{}} }

type prepared struct {
	sql  string
	tree *pg_query.ParseResult
}
type portal struct {
	p      *prepared
	params [][]byte
	pfmt   []int16
	rfmt   []int16
}

type backendConn struct {
	db       *FakeDB
	be       *pgproto3.Backend
	Stmts    []*FwdStmt
	prepared map[string]*prepared
	portals  map[string]*portal
	Err      error
}

func byteaIn(s []byte) ([]byte, error) {
	if len(s) >= 2 && s[0] == '\\' && s[1] == 'x' {
		return hex.DecodeString(string(s[2:]))
	}
	out := make([]byte, 0, len(s))
	for i := 0; i < len(s); i++ {
		if s[i] != '\\' {
			out = append(out, s[i])
			continue
		}
		if i+1 < len(s) && s[i+1] == '\\' {
			out = append(out, '\\')
			i++
			continue
		}
		if i+3 < len(s) {
			v, err := strconv.ParseUint(string(s[i+1:i+4]), 8, 9)
			if err == nil && v < 256 {
				out = append(out, byte(v))
				i += 3
				continue
			}
		}
		return nil, errors.New("invalid input syntax for type bytea")
	}
	return out, nil
}

func byteaOut(b []byte) []byte { return []byte(`\x` + hex.EncodeToString(b)) }

func typeIn(oid uint32, raw []byte, binary bool) ([]byte, error) {
	if oid == OidBytea && !binary {
		return byteaIn(raw)
	}
	if oid == OidInt4 && binary { // int4 binary input: 4 bytes big endian; the store keeps the decimal text
		if len(raw) != 4 {
			return nil, errors.New("incorrect binary data format for type integer")
		}
		return []byte(strconv.Itoa(int(int32(uint32(raw[0])<<24 | uint32(raw[1])<<16 | uint32(raw[2])<<8 | uint32(raw[3]))))), nil
	}
	return append([]byte{}, raw...), nil
}
func typeOut(oid uint32, stored []byte, binary bool) []byte {
	if stored == nil {
		return nil
	}
	if oid == OidBytea && !binary {
		return byteaOut(stored)
	}
	return stored
}

// constant of a VALUES / SET expression: (text, isNull, paramNumber)
func exprValue(n *pg_query.Node) (string, bool, int, error) {
	if tc := n.GetTypeCast(); tc != nil {
		return exprValue(tc.GetArg())
	}
	if p := n.GetParamRef(); p != nil {
		return "", false, int(p.GetNumber()), nil
	}
	c := n.GetAConst()
	if c == nil {
		return "", false, 0, fmt.Errorf("unsupported expression %v", n)
	}
	switch {
	case c.GetIsnull():
		return "", true, 0, nil
	case c.GetSval() != nil:
		return c.GetSval().GetSval(), false, 0, nil
	case c.GetIval() != nil:
		return strconv.Itoa(int(c.GetIval().GetIval())), false, 0, nil
	case c.GetFval() != nil:
		return c.GetFval().GetFval(), false, 0, nil
	case c.GetBsval() != nil:
		return c.GetBsval().GetBsval(), false, 0, nil
	}
	// Ival 0 is encoded as an empty A_Const_Ival
	return "0", false, 0, nil
}

type rowFilter func(row [][]byte) bool

func (bc *backendConn) where(t *PgTable, w *pg_query.Node, po *portal) (rowFilter, error) {
	if w == nil {
		return func([][]byte) bool { return true }, nil
	}
	e := w.GetAExpr()
	if e == nil || len(e.GetName()) != 1 || e.GetName()[0].GetString_().GetSval() != "=" {
		return nil, fmt.Errorf("unsupported WHERE")
	}
	cr := e.GetLexpr().GetColumnRef()
	if cr == nil {
		return nil, fmt.Errorf("unsupported WHERE lhs")
	}
	f := cr.GetFields()
	ci := t.colIndex(f[len(f)-1].GetString_().GetSval())
	if ci < 0 {
		return nil, fmt.Errorf("WHERE: no such column")
	}
	txt, null, pn, err := exprValue(e.GetRexpr())
	if err != nil {
		return nil, err
	}
	var want []byte
	if pn > 0 {
		if po == nil || pn > len(po.params) {
			return nil, fmt.Errorf("WHERE: parameter out of range")
		}
		want, err = typeIn(t.Cols[ci].Oid, po.params[pn-1], fmtAt(po.pfmt, pn-1) == 1)
	} else if !null {
		want, err = typeIn(t.Cols[ci].Oid, []byte(txt), false)
	}
	if err != nil {
		return nil, err
	}
	return func(row [][]byte) bool { return row[ci] != nil && bytes.Equal(row[ci], want) }, nil
}

func fmtAt(f []int16, i int) int16 {
	switch len(f) {
	case 0:
		return 0
	case 1:
		return f[0]
	}
	if i < len(f) {
		return f[i]
	}
	return 0
}

type resultSet struct {
	cols []PgCol
	src  []string // source column name per result column
	rows [][][]byte
	tag  string
}

func (bc *backendConn) targets(t *PgTable, list []*pg_query.Node) ([]int, []PgCol, error) {
	var idx []int
	var cols []PgCol
	for _, it := range list {
		rt := it.GetResTarget()
		if rt == nil || rt.GetVal().GetColumnRef() == nil {
			return nil, nil, fmt.Errorf("unsupported select item")
		}
		f := rt.GetVal().GetColumnRef().GetFields()
		last := f[len(f)-1]
		if last.GetAStar() != nil {
			for i, c := range t.Cols {
				idx = append(idx, i)
				cols = append(cols, c)
			}
			continue
		}
		ci := t.colIndex(last.GetString_().GetSval())
		if ci < 0 {
			return nil, nil, fmt.Errorf("no such column %s", last.GetString_().GetSval())
		}
		c := t.Cols[ci]
		if rt.GetName() != "" {
			c.Name = rt.GetName()
		}
		idx = append(idx, ci)
		cols = append(cols, c)
	}
	return idx, cols, nil
}

func project(t *PgTable, rows [][][]byte, idx []int, cols []PgCol) *resultSet {
	rs := &resultSet{cols: cols}
	for _, i := range idx {
		rs.src = append(rs.src, t.Cols[i].Name)
	}
	for _, r := range rows {
		out := make([][]byte, len(idx))
		for j, i := range idx {
			out[j] = r[i]
		}
		rs.rows = append(rs.rows, out)
	}
	return rs
}

// exec runs one parsed statement against the table store.
func (bc *backendConn) exec(sql string, tree *pg_query.ParseResult, po *portal) (*resultSet, *FwdStmt, error) {
	fw := &FwdStmt{SQL: sql, Kind: "other"}
	if len(tree.Stmts) == 0 {
		return &resultSet{tag: "EMPTY"}, fw, nil
	}
	st := tree.Stmts[0].Stmt
	value := func(t *PgTable, ci int, n *pg_query.Node) ([]byte, error) {
		txt, null, pn, err := exprValue(n)
		if err != nil {
			return nil, err
		}
		if null {
			return nil, nil
		}
		fv := FwdValue{Table: t.Name, Column: t.Cols[ci].Name}
		if pn > 0 {
			if po == nil || pn > len(po.params) {
				return nil, fmt.Errorf("parameter $%d out of range", pn)
			}
			fv.Param = true
			fv.Binary = fmtAt(po.pfmt, pn-1) == 1
			if po.params[pn-1] == nil {
				return nil, nil
			}
			fv.Raw = append([]byte{}, po.params[pn-1]...)
		} else {
			fv.Raw = []byte(txt)
		}
		stored, err := typeIn(t.Cols[ci].Oid, fv.Raw, fv.Binary)
		if err != nil {
			return nil, fmt.Errorf("column %s: %v (literal %q)", fv.Column, err, fv.Raw)
		}
		fv.Stored = stored
		fw.Values = append(fw.Values, fv)
		return stored, nil
	}
	switch {
	case st.GetInsertStmt() != nil:
		ins := st.GetInsertStmt()
		fw.Kind = "insert"
		t := bc.db.Tables[ins.GetRelation().GetRelname()]
		if t == nil {
			return nil, fw, fmt.Errorf("relation %q does not exist", ins.GetRelation().GetRelname())
		}
		var cis []int
		if len(ins.GetCols()) > 0 {
			for _, c := range ins.GetCols() {
				ci := t.colIndex(c.GetResTarget().GetName())
				if ci < 0 {
					return nil, fw, fmt.Errorf("no such column")
				}
				cis = append(cis, ci)
			}
		} else {
			for i := range t.Cols {
				cis = append(cis, i)
			}
		}
		var newRows [][][]byte
		for _, l := range ins.GetSelectStmt().GetSelectStmt().GetValuesLists() {
			items := l.GetList().GetItems()
			if len(items) > len(cis) {
				return nil, fw, fmt.Errorf("INSERT has more expressions than target columns")
			}
			row := make([][]byte, len(t.Cols))
			for j, it := range items {
				v, err := value(t, cis[j], it)
				if err != nil {
					return nil, fw, err
				}
				row[cis[j]] = v
			}
			newRows = append(newRows, row)
		}
		t.Rows = append(t.Rows, newRows...)
		tag := fmt.Sprintf("INSERT 0 %d", len(newRows))
		if len(ins.GetReturningList()) > 0 {
			idx, cols, err := bc.targets(t, ins.GetReturningList())
			if err != nil {
				return nil, fw, err
			}
			rs := project(t, newRows, idx, cols)
			rs.tag = tag
			return rs, fw, nil
		}
		return &resultSet{tag: tag}, fw, nil
	case st.GetUpdateStmt() != nil:
		up := st.GetUpdateStmt()
		fw.Kind = "update"
		t := bc.db.Tables[up.GetRelation().GetRelname()]
		if t == nil {
			return nil, fw, fmt.Errorf("relation does not exist")
		}
		flt, err := bc.where(t, up.GetWhereClause(), po)
		if err != nil {
			return nil, fw, err
		}
		type set struct {
			ci int
			v  []byte
		}
		var sets []set
		for _, tg := range up.GetTargetList() {
			ci := t.colIndex(tg.GetResTarget().GetName())
			if ci < 0 {
				return nil, fw, fmt.Errorf("no such column")
			}
			v, err := value(t, ci, tg.GetResTarget().GetVal())
			if err != nil {
				return nil, fw, err
			}
			sets = append(sets, set{ci, v})
		}
		var touched [][][]byte
		for _, r := range t.Rows {
			if flt(r) {
				for _, s := range sets {
					r[s.ci] = s.v
				}
				touched = append(touched, r)
			}
		}
		tag := fmt.Sprintf("UPDATE %d", len(touched))
		if len(up.GetReturningList()) > 0 {
			idx, cols, err := bc.targets(t, up.GetReturningList())
			if err != nil {
				return nil, fw, err
			}
			rs := project(t, touched, idx, cols)
			rs.tag = tag
			return rs, fw, nil
		}
		return &resultSet{tag: tag}, fw, nil
	case st.GetSelectStmt() != nil:
		sel := st.GetSelectStmt()
		fw.Kind = "select"
		if len(sel.GetFromClause()) != 1 || sel.GetFromClause()[0].GetRangeVar() == nil {
			return nil, fw, fmt.Errorf("unsupported FROM")
		}
		t := bc.db.Tables[sel.GetFromClause()[0].GetRangeVar().GetRelname()]
		if t == nil {
			return nil, fw, fmt.Errorf("relation does not exist")
		}
		flt, err := bc.where(t, sel.GetWhereClause(), po)
		if err != nil {
			return nil, fw, err
		}
		idx, cols, err := bc.targets(t, sel.GetTargetList())
		if err != nil {
			return nil, fw, err
		}
		var rows [][][]byte
		for _, r := range t.Rows {
			if flt(r) {
				rows = append(rows, r)
			}
		}
		rs := project(t, rows, idx, cols)
		rs.tag = fmt.Sprintf("SELECT %d", len(rows))
		return rs, fw, nil
	}
	return &resultSet{tag: "OK"}, fw, nil
}

func (bc *backendConn) sendRowDescription(cols []PgCol, rfmt []int16) {
	rd := &pgproto3.RowDescription{}
	for i, c := range cols {
		rd.Fields = append(rd.Fields, pgproto3.FieldDescription{Name: []byte(c.Name), DataTypeOID: c.Oid,
			DataTypeSize: -1, TypeModifier: -1, Format: fmtAt(rfmt, i), TableAttributeNumber: uint16(i + 1)})
	}
	bc.be.Send(rd)
}

// resultCols: the columns a statement returns (nil = no row data), without executing it.
func (bc *backendConn) resultCols(tree *pg_query.ParseResult) ([]PgCol, error) {
	if len(tree.Stmts) == 0 {
		return nil, nil
	}
	st := tree.Stmts[0].Stmt
	var rel string
	var list []*pg_query.Node
	switch {
	case st.GetInsertStmt() != nil:
		rel, list = st.GetInsertStmt().GetRelation().GetRelname(), st.GetInsertStmt().GetReturningList()
	case st.GetUpdateStmt() != nil:
		rel, list = st.GetUpdateStmt().GetRelation().GetRelname(), st.GetUpdateStmt().GetReturningList()
	case st.GetSelectStmt() != nil:
		sel := st.GetSelectStmt()
		if len(sel.GetFromClause()) != 1 || sel.GetFromClause()[0].GetRangeVar() == nil {
			return nil, fmt.Errorf("unsupported FROM")
		}
		rel, list = sel.GetFromClause()[0].GetRangeVar().GetRelname(), sel.GetTargetList()
	}
	if len(list) == 0 {
		return nil, nil
	}
	t := bc.db.Tables[rel]
	if t == nil {
		return nil, fmt.Errorf("relation does not exist")
	}
	_, cols, err := bc.targets(t, list)
	return cols, err
}

func (bc *backendConn) sendRows(rs *resultSet, rfmt []int16, describe bool, fw *FwdStmt) {
	if rs.cols != nil {
		if describe {
			bc.sendRowDescription(rs.cols, rfmt)
		}
		for _, r := range rs.rows {
			dr := &pgproto3.DataRow{}
			for i, cell := range r {
				dr.Values = append(dr.Values, typeOut(rs.cols[i].Oid, cell, fmtAt(rfmt, i) == 1))
				if fw != nil {
					fw.Returned = append(fw.Returned, cell)
					fw.ReturnedCol = append(fw.ReturnedCol, rs.src[i])
				}
			}
			bc.be.Send(dr)
		}
	}
	bc.be.Send(&pgproto3.CommandComplete{CommandTag: []byte(rs.tag)})
}

func (bc *backendConn) sendErr(msg string) {
	bc.be.Send(&pgproto3.ErrorResponse{Severity: "ERROR", Code: "42601", Message: msg})
}

// serve answers one connection until Terminate / EOF.
func (bc *backendConn) serve() {
	if _, err := bc.be.ReceiveStartupMessage(); err != nil {
		bc.Err = err
		return
	}
	bc.be.Send(&pgproto3.AuthenticationOk{})
	bc.be.Send(&pgproto3.ParameterStatus{Name: "server_version", Value: "14.0"})
	bc.be.Send(&pgproto3.ReadyForQuery{TxStatus: 'I'})
	bc.be.Flush()
	failed := false // extended protocol: skip until Sync after an error
	for {
		msg, err := bc.be.Receive()
		if err != nil {
			if err != io.EOF && !errors.Is(err, io.ErrClosedPipe) && !errors.Is(err, io.ErrUnexpectedEOF) {
				bc.Err = err
			}
			return
		}
		switch m := msg.(type) {
		case *pgproto3.Query:
			tree, err := pg_query.Parse(m.String)
			var fw *FwdStmt
			if err != nil {
				fw = &FwdStmt{SQL: m.String, Kind: "other", Err: "syntax: " + err.Error()}
				bc.sendErr(fw.Err)
			} else {
				var rs *resultSet
				rs, fw, err = bc.exec(m.String, tree, nil)
				if err != nil {
					fw.Err = err.Error()
					bc.sendErr(fw.Err)
				} else {
					bc.sendRows(rs, nil, true, fw)
				}
			}
			bc.Stmts = append(bc.Stmts, fw)
			bc.be.Send(&pgproto3.ReadyForQuery{TxStatus: 'I'})
			bc.be.Flush()
		case *pgproto3.Parse:
			if failed {
				continue
			}
			tree, err := pg_query.Parse(m.Query)
			if err != nil {
				bc.Stmts = append(bc.Stmts, &FwdStmt{SQL: m.Query, Kind: "other", Err: "syntax: " + err.Error()})
				bc.sendErr(err.Error())
				failed = true
				continue
			}
			bc.prepared[m.Name] = &prepared{sql: m.Query, tree: tree}
			bc.be.Send(&pgproto3.ParseComplete{})
		case *pgproto3.Bind:
			if failed {
				continue
			}
			p := bc.prepared[m.PreparedStatement]
			if p == nil {
				bc.sendErr("unknown prepared statement")
				failed = true
				continue
			}
			po := &portal{p: p, pfmt: append([]int16{}, m.ParameterFormatCodes...), rfmt: append([]int16{}, m.ResultFormatCodes...)}
			for _, v := range m.Parameters {
				if v == nil {
					po.params = append(po.params, nil)
				} else {
					po.params = append(po.params, append([]byte{}, v...))
				}
			}
			bc.portals[m.DestinationPortal] = po
			bc.be.Send(&pgproto3.BindComplete{})
		case *pgproto3.Describe:
			if failed {
				continue
			}
			po := bc.portals[m.Name]
			if m.ObjectType != 'P' || po == nil {
				bc.sendErr("unsupported Describe")
				failed = true
				continue
			}
			cols, err := bc.resultCols(po.p.tree)
			if err != nil {
				bc.sendErr(err.Error())
				failed = true
				continue
			}
			if cols == nil {
				bc.be.Send(&pgproto3.NoData{})
			} else {
				bc.sendRowDescription(cols, po.rfmt)
			}
		case *pgproto3.Execute:
			if failed {
				continue
			}
			po := bc.portals[m.Portal]
			if po == nil {
				bc.sendErr("unknown portal")
				failed = true
				continue
			}
			rs, fw, err := bc.exec(po.p.sql, po.p.tree, po)
			bc.Stmts = append(bc.Stmts, fw)
			if err != nil {
				fw.Err = err.Error()
				bc.sendErr(fw.Err)
				failed = true
				continue
			}
			bc.sendRows(rs, po.rfmt, false, fw)
		case *pgproto3.Sync:
			failed = false
			bc.be.Send(&pgproto3.ReadyForQuery{TxStatus: 'I'})
			bc.be.Flush()
		case *pgproto3.Flush:
			bc.be.Flush()
		case *pgproto3.Terminate:
			return
		default:
			bc.Err = fmt.Errorf("fake back end: unexpected message %T", msg)
			return
		}
	}
}

// ---------- rig ----------

type PgRig struct {
	Keys   *MemKeystore
	Schema config.TableSchemaStore
	DB     *FakeDB
	fac    base.ProxyFactory
}

var registryOnce sync.Once

// NewPgRig wires the proxy factory the way cmd/acra-server does (no censor rules, no TLS, no poison callbacks).
func NewPgRig(ks *MemKeystore, encryptorConfigYAML []byte, db *FakeDB) (*PgRig, error) {
	rks := RigKeystore{ks}
	var regErr error
	registryOnce.Do(func() { regErr = crypto.InitRegistry(rks) })
	if regErr != nil {
		return nil, regErr
	}
	schema, err := config.MapTableSchemaStoreFromConfig(encryptorConfigYAML, false)
	if err != nil {
		return nil, fmt.Errorf("encryptor config: %w", err)
	}
	parser := sqlparser.New(sqlparser.ModeStrict)
	setting := base.NewProxySetting(parser, schema, rks, nil, acracensor.NewAcraCensor(), nil)
	fac, err := postgresql.NewProxyFactory(setting, rks, nil)
	if err != nil {
		return nil, err
	}
	return &PgRig{Keys: ks, Schema: schema, DB: db, fac: fac}, nil
}

// Result of one scripted statement as the client saw it.
type ClientResult struct {
	Fields []pgproto3.FieldDescription
	Rows   [][][]byte // raw cells as received (nil = NULL)
	Err    string     // ErrorResponse message, if any
	Closed bool       // the proxy closed the connection instead of answering
	Tape0  int        // tape chunk index range drawn while this statement was in flight
	Tape1  int
}

type PgSession struct {
	rig      *PgRig
	fe       *pgproto3.Frontend
	cconn    *asyncConn // our end of the client pipe (records what the client received)
	dconn    *asyncConn // our end of the database pipe (records what the database received)
	bc       *backendConn
	errCh    chan base.ProxyError
	beDone   chan struct{}
	msgs     chan pgproto3.BackendMessage
	Timeout  time.Duration
	tape     *Tape
	Hung     bool
	ProxyErr string
	Panic    string // a proxy goroutine panicked (the real listener recovers and closes the session)
}

// Open starts one proxied connection for clientID and performs the start-up exchange.
func (r *PgRig) Open(clientID []byte, tape *Tape) (*PgSession, error) {
	c1, c2 := net.Pipe() // client <-> proxy
	d1, d2 := net.Pipe() // proxy <-> database
	logger := logrus.NewEntry(logrus.StandardLogger())
	ctx := logging.SetLoggerToContext(context.Background(), logger)
	sess := &rigSession{client: c2, db: d1, data: map[string]interface{}{}}
	ctx = base.SetClientSessionToContext(ctx, sess)
	sess.ctx = ctx
	proxy, err := r.fac.New(clientID, sess)
	if err != nil {
		return nil, err
	}
	ac := base.NewAccessContext(base.WithClientID(clientID))
	proxy.AddClientIDObserver(ac)
	sess.ctx = base.SetAccessContextToContext(sess.ctx, ac)

	s := &PgSession{rig: r, errCh: make(chan base.ProxyError, 4), beDone: make(chan struct{}),
		msgs: make(chan pgproto3.BackendMessage, 1024), Timeout: 5 * time.Second, tape: tape}
	s.cconn = newAsyncConn(c1, true)
	s.dconn = newAsyncConn(d2, true)
	s.fe = pgproto3.NewFrontend(s.cconn, s.cconn)
	s.bc = &backendConn{db: r.DB, be: pgproto3.NewBackend(s.dconn, s.dconn), prepared: map[string]*prepared{}, portals: map[string]*portal{}}
	go func() { defer close(s.beDone); s.bc.serve() }()
	guard := func(f func()) {
		defer func() {
			if r := recover(); r != nil {
				s.Panic = fmt.Sprint(r)
				s.errCh <- base.NewClientProxyError(errors.New("panic"))
			}
		}()
		f()
	}
	go guard(func() { proxy.ProxyClientConnection(sess.ctx, s.errCh) })
	go guard(func() { proxy.ProxyDatabaseConnection(sess.ctx, s.errCh) })
	go func() { // proxy end of the pipes is closed when either proxy goroutine stops (as the listener does)
		pe := <-s.errCh
		if pe.Unwrap() != nil {
			s.ProxyErr = pe.InterruptSide() + ": " + pe.Unwrap().Error()
		}
		c2.Close()
		d1.Close()
	}()
	go func() {
		defer close(s.msgs)
		for {
			m, err := s.fe.Receive()
			if err != nil {
				return
			}
			s.msgs <- cloneMsg(m)
		}
	}()
	s.fe.Send(&pgproto3.StartupMessage{ProtocolVersion: pgproto3.ProtocolVersionNumber, Parameters: map[string]string{"user": "u", "database": "d"}})
	if err := s.fe.Flush(); err != nil {
		return nil, err
	}
	if res := s.collect(); res.Closed || res.Err != "" {
		return s, fmt.Errorf("start-up failed: closed=%v err=%s hung=%v", res.Closed, res.Err, s.Hung)
	}
	return s, nil
}

func cloneMsg(m pgproto3.BackendMessage) pgproto3.BackendMessage {
	switch v := m.(type) {
	case *pgproto3.DataRow:
		d := &pgproto3.DataRow{}
		for _, c := range v.Values {
			if c == nil {
				d.Values = append(d.Values, nil)
			} else {
				d.Values = append(d.Values, append([]byte{}, c...))
			}
		}
		return d
	case *pgproto3.RowDescription:
		d := &pgproto3.RowDescription{}
		for _, f := range v.Fields {
			f.Name = append([]byte{}, f.Name...)
			d.Fields = append(d.Fields, f)
		}
		return d
	case *pgproto3.ErrorResponse:
		c := *v
		return &c
	case *pgproto3.ReadyForQuery:
		c := *v
		return &c
	case *pgproto3.CommandComplete:
		return &pgproto3.CommandComplete{CommandTag: append([]byte{}, v.CommandTag...)}
	}
	return &pgproto3.NoData{} // uninteresting for the script
}

// collect reads until ReadyForQuery (or close / timeout).
func (s *PgSession) collect() *ClientResult {
	res := &ClientResult{}
	timer := time.NewTimer(s.Timeout)
	defer timer.Stop()
	for {
		select {
		case m, ok := <-s.msgs:
			if !ok {
				res.Closed = true
				return res
			}
			switch v := m.(type) {
			case *pgproto3.RowDescription:
				res.Fields = v.Fields
			case *pgproto3.DataRow:
				res.Rows = append(res.Rows, v.Values)
			case *pgproto3.ErrorResponse:
				res.Err = v.Message
				if res.Err == "" {
					res.Err = "error"
				}
			case *pgproto3.ReadyForQuery:
				return res
			}
		case <-timer.C:
			s.Hung = true
			res.Closed = true
			return res
		}
	}
}

func (s *PgSession) tapeLen() int {
	if s.tape == nil {
		return 0
	}
	return len(s.tape.Chunks)
}

// Simple sends one simple-protocol query and waits for its answer.
func (s *PgSession) Simple(sql string) *ClientResult {
	t0 := s.tapeLen()
	s.fe.Send(&pgproto3.Query{String: sql})
	s.fe.Flush()
	res := s.collect()
	res.Tape0, res.Tape1 = t0, s.tapeLen()
	return res
}

// Extended sends Parse/Bind/Describe/Execute/Sync for one statement.
func (s *PgSession) Extended(sql string, params [][]byte, pfmt, rfmt []int16) *ClientResult {
	t0 := s.tapeLen()
	s.fe.Send(&pgproto3.Parse{Name: "", Query: sql})
	s.fe.Send(&pgproto3.Bind{ParameterFormatCodes: pfmt, Parameters: params, ResultFormatCodes: rfmt})
	s.fe.Send(&pgproto3.Describe{ObjectType: 'P'})
	s.fe.Send(&pgproto3.Execute{})
	s.fe.Send(&pgproto3.Sync{})
	s.fe.Flush()
	res := s.collect()
	res.Tape0, res.Tape1 = t0, s.tapeLen()
	return res
}

// Close ends the session; returns (everything the database end received, everything the client end
// received, the statements the back end decoded).
func (s *PgSession) Close() (dbBound, clientBound []byte, stmts []*FwdStmt, backendErr error) {
	s.fe.Send(&pgproto3.Terminate{})
	s.fe.Flush()
	select {
	case <-s.beDone:
	case <-time.After(s.Timeout):
		s.Hung = true
	}
	s.cconn.shutdown()
	s.dconn.shutdown()
	s.cconn.Conn.Close()
	s.dconn.Conn.Close()
	select {
	case <-s.beDone:
	case <-time.After(s.Timeout):
		s.Hung = true
	}
	return s.dconn.Recorded(), s.cconn.Recorded(), s.bc.Stmts, s.bc.Err
}

// ClientDecode turns a received cell into the value a driver hands to the application.
func ClientDecode(f pgproto3.FieldDescription, cell []byte) ([]byte, error) {
	if cell == nil {
		return nil, nil
	}
	if f.DataTypeOID == OidBytea && f.Format == 0 {
		return byteaIn(cell)
	}
	return cell, nil
}

// QuoteLiteral renders a standard-conforming string literal.
func QuoteLiteral(s string) string { return "'" + strings.ReplaceAll(s, "'", "''") + "'" }
