// pgrig_s67.go (add-only): the PostgreSQL rig with a tokenizer, and access to its proxy factory.
// NewPgRig hands postgresql.NewProxyFactory a nil tokenizer (no scenario of the older domains has a tokenized
// column); the stage-selection domain (c04stages) drives tokenized columns through the wire, so its rig is wired
// with a pseudonymization.Pseudoanonymizer over an in-memory token storage wrapped with the SecureCell token
// encryptor, as cmd/acra-server/acra-server.go does.
package vh

import (
	"fmt"

	acracensor "github.com/cossacklabs/acra/acra-censor"
	"github.com/cossacklabs/acra/crypto"
	"github.com/cossacklabs/acra/decryptor/base"
	"github.com/cossacklabs/acra/decryptor/postgresql"
	"github.com/cossacklabs/acra/encryptor/base/config"
	"github.com/cossacklabs/acra/pseudonymization"
	"github.com/cossacklabs/acra/pseudonymization/common"
	"github.com/cossacklabs/acra/pseudonymization/storage"
	"github.com/cossacklabs/acra/sqlparser"
)

// NewRigTokenizer = the tokenizer cmd/acra-server builds when no redis is configured.
func NewRigTokenizer(ks *MemKeystore) (common.Pseudoanonymizer, error) {
	mem, err := storage.NewMemoryTokenStorage()
	if err != nil {
		return nil, err
	}
	enc, err := storage.NewSCellEncryptor(RigKeystore{ks})
	if err != nil {
		return nil, err
	}
	return pseudonymization.NewPseudoanonymizer(storage.WrapStorageWithEncryption(mem, enc))
}

// NewPgRigTok = NewPgRig with a tokenizer.
func NewPgRigTok(ks *MemKeystore, encryptorConfigYAML []byte, db *FakeDB) (*PgRig, error) {
	rks := RigKeystore{ks}
	var regErr error
	registryOnce.Do(func() { regErr = crypto.InitRegistry(rks) })
	if regErr != nil {
		return nil, regErr
	}
	schema, err := config.MapTableSchemaStoreFromConfig(encryptorConfigYAML, false)
	if err != nil {
		return nil, fmt.Errorf("encryptor config: %w", err)
	}
	tokenizer, err := NewRigTokenizer(ks)
	if err != nil {
		return nil, err
	}
	parser := sqlparser.New(sqlparser.ModeStrict)
	setting := base.NewProxySetting(parser, schema, rks, nil, acracensor.NewAcraCensor(), nil)
	fac, err := postgresql.NewProxyFactory(setting, rks, tokenizer)
	if err != nil {
		return nil, err
	}
	return &PgRig{Keys: ks, Schema: schema, DB: db, fac: fac}, nil
}

// Factory: the proxy factory every session of the rig is built by.
func (r *PgRig) Factory() base.ProxyFactory { return r.fac }
