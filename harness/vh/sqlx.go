package vh

import (
	"fmt"
	"reflect"
	"strings"
)

// AstCmp is a read-only reflective structural comparison of two parse trees (exported AND
// unexported fields, through pointers / interfaces / slices / arrays). Lazily computed caches
// and blank fields are ignored by name (SkipFields); nil and empty slices are the same list.
type AstCmp struct {
	SkipFields map[string]bool // field names ignored in every struct (e.g. "lowered")
	NodePkg    string          // suffix of the package path whose named types count as "nodes"
	IgnorePtr  uintptr         // pointer (left side) of ONE struct whose field IgnoreName is not compared
	IgnoreName string
	// SkipField, when set, is asked for every field of every struct (left side value, field name)
	SkipField func(st reflect.Value, field string) bool

	Path string // first differing path ("" when equal)
	Node string // name of the innermost node type enclosing the first difference
	Why  string
}

func (c *AstCmp) fail(path, node, why string) bool {
	if c.Path == "" && c.Why == "" {
		c.Path, c.Node, c.Why = path, node, why
		if c.Path == "" {
			c.Path = "."
		}
	}
	return false
}

func (c *AstCmp) isNode(t reflect.Type) bool {
	return t.Name() != "" && strings.HasSuffix(t.PkgPath(), c.NodePkg)
}

func tname(t reflect.Type) string {
	for t.Kind() == reflect.Ptr {
		t = t.Elem()
	}
	if t.Name() != "" {
		return t.Name()
	}
	return t.String()
}

// Equal compares a and b; on false, c.Path / c.Node / c.Why describe the first difference.
func (c *AstCmp) Equal(a, b interface{}) bool {
	c.Path, c.Node, c.Why = "", "", ""
	va, vb := reflect.ValueOf(a), reflect.ValueOf(b)
	root := "root"
	if va.IsValid() {
		root = tname(va.Type())
	}
	return c.eq(va, vb, "", root, false)
}

func (c *AstCmp) eq(a, b reflect.Value, path, node string, ign bool) bool {
	if a.IsValid() != b.IsValid() {
		return c.fail(path, node, "one side missing")
	}
	if !a.IsValid() {
		return true
	}
	if a.Type() != b.Type() {
		return c.fail(path, tname(a.Type()), fmt.Sprintf("type %s vs %s", a.Type(), b.Type()))
	}
	switch a.Kind() {
	case reflect.Interface:
		if a.IsNil() || b.IsNil() {
			if a.IsNil() != b.IsNil() {
				n := node
				if !a.IsNil() {
					n = tname(a.Elem().Type())
				} else {
					n = tname(b.Elem().Type())
				}
				return c.fail(path, n, "nil vs non-nil")
			}
			return true
		}
		ae, be := a.Elem(), b.Elem()
		if ae.Type() != be.Type() {
			return c.fail(path, tname(ae.Type()), fmt.Sprintf("type %s vs %s", ae.Type(), be.Type()))
		}
		return c.eq(ae, be, path, node, false)
	case reflect.Ptr:
		if a.IsNil() || b.IsNil() {
			if a.IsNil() != b.IsNil() {
				return c.fail(path, tname(a.Type()), "nil vs non-nil")
			}
			return true
		}
		ig := c.IgnorePtr != 0 && a.Pointer() == c.IgnorePtr
		return c.eq(a.Elem(), b.Elem(), path, node, ig)
	case reflect.Struct:
		n := node
		if c.isNode(a.Type()) {
			n = a.Type().Name()
			path = path + "/" + n
		}
		t := a.Type()
		for i := 0; i < t.NumField(); i++ {
			f := t.Field(i)
			if f.Name == "_" || c.SkipFields[f.Name] || (ign && f.Name == c.IgnoreName) {
				continue
			}
			if c.SkipField != nil && c.SkipField(a, f.Name) {
				continue
			}
			if !c.eq(a.Field(i), b.Field(i), path+"."+f.Name, n, false) {
				return false
			}
		}
		return true
	case reflect.Slice, reflect.Array:
		n := node
		if c.isNode(a.Type()) {
			n = a.Type().Name()
			path = path + "/" + n
		}
		if a.Len() != b.Len() {
			return c.fail(path, n, fmt.Sprintf("length %d vs %d", a.Len(), b.Len()))
		}
		if a.Type().Elem().Kind() == reflect.Uint8 {
			for i := 0; i < a.Len(); i++ {
				if a.Index(i).Uint() != b.Index(i).Uint() {
					return c.fail(path, n, fmt.Sprintf("bytes %q vs %q", bytesOf(a), bytesOf(b)))
				}
			}
			return true
		}
		for i := 0; i < a.Len(); i++ {
			if !c.eq(a.Index(i), b.Index(i), fmt.Sprintf("%s[%d]", path, i), n, false) {
				return false
			}
		}
		return true
	case reflect.String:
		if a.String() != b.String() {
			return c.fail(path, node, fmt.Sprintf("%q vs %q", a.String(), b.String()))
		}
		return true
	case reflect.Bool:
		if a.Bool() != b.Bool() {
			return c.fail(path, node, fmt.Sprintf("%v vs %v", a.Bool(), b.Bool()))
		}
		return true
	case reflect.Int, reflect.Int8, reflect.Int16, reflect.Int32, reflect.Int64:
		if a.Int() != b.Int() {
			return c.fail(path, node, fmt.Sprintf("%d vs %d", a.Int(), b.Int()))
		}
		return true
	case reflect.Uint, reflect.Uint8, reflect.Uint16, reflect.Uint32, reflect.Uint64, reflect.Uintptr:
		if a.Uint() != b.Uint() {
			return c.fail(path, node, fmt.Sprintf("%d vs %d", a.Uint(), b.Uint()))
		}
		return true
	case reflect.Float32, reflect.Float64:
		if a.Float() != b.Float() {
			return c.fail(path, node, "float differs")
		}
		return true
	case reflect.Map:
		if a.Len() != b.Len() {
			return c.fail(path, node, "map length differs")
		}
		it := a.MapRange()
		for it.Next() {
			bv := b.MapIndex(it.Key())
			if !bv.IsValid() {
				return c.fail(path, node, "map key missing")
			}
			if !c.eq(it.Value(), bv, path+"[k]", node, false) {
				return false
			}
		}
		return true
	case reflect.Func, reflect.Chan, reflect.UnsafePointer:
		if a.IsNil() != b.IsNil() {
			return c.fail(path, node, "nil vs non-nil")
		}
		return true
	}
	return c.fail(path, node, "unsupported kind "+a.Kind().String())
}

func bytesOf(v reflect.Value) []byte {
	out := make([]byte, v.Len())
	for i := range out {
		out[i] = byte(v.Index(i).Uint())
	}
	return out
}
