// Shared helpers for the token-store domains (C10): a scriptable random tape, a token-storage wrapper
// that logs successful saves and can hand control to a cooperative scheduler after every storage
// operation, and the scheduler itself.
package vh

import (
	"crypto/rand"
	"fmt"
	"io"
	"time"

	"github.com/cossacklabs/acra/pseudonymization/common"
)

// ScriptTape is a crypto/rand.Reader replacement: draws are pseudo-random (from one seed) unless the
// next forced chunk has exactly the requested size; every draw is recorded.
type ScriptTape struct {
	rng    *Rng
	Chunks [][]byte
	Forced [][]byte
}

func (t *ScriptTape) Read(p []byte) (int, error) {
	var c []byte
	if len(t.Forced) > 0 && len(t.Forced[0]) == len(p) {
		c = append([]byte{}, t.Forced[0]...)
		t.Forced = t.Forced[1:]
	} else {
		c = t.rng.Bytes(len(p))
	}
	copy(p, c)
	t.Chunks = append(t.Chunks, c)
	return len(p), nil
}

// StartScriptTape installs the tape as crypto/rand.Reader (undo with StopTape).
func StartScriptTape(r *Rng, forced [][]byte) *ScriptTape {
	t := &ScriptTape{rng: NewRng(r.U64()), Forced: forced}
	rand.Reader = t
	return t
}

type quietReader struct{ rng *Rng }

func (q quietReader) Read(p []byte) (int, error) { copy(p, q.rng.Bytes(len(p))); return len(p), nil }

// TokRec is one successful Save seen by TokStore.
type TokRec struct {
	ID, Data []byte
	Ctx      common.TokenContext
}

// TokStore wraps a real token storage. Random draws made *inside* the wrapped storage (the encrypting
// wrapper creates AcraBlocks) are served by a separate unrecorded deterministic reader, so that the
// recorded tape holds exactly the draws of the tokenizer.
type TokStore struct {
	Inner common.TokenStorage
	quiet io.Reader
	Log   []TokRec
	sched *Sched
}

func NewTokStore(inner common.TokenStorage, r *Rng) *TokStore {
	return &TokStore{Inner: inner, quiet: quietReader{NewRng(r.U64())}}
}

func (s *TokStore) inner(f func()) {
	saved := rand.Reader
	rand.Reader = s.quiet
	defer func() { rand.Reader = saved }()
	f()
}

// For returns the storage facade of process pid (pid < 0: never scheduled).
func (s *TokStore) For(pid int) common.TokenStorage { return &procStore{s, pid} }

type procStore struct {
	s   *TokStore
	pid int
}

func cpb(b []byte) []byte { return append([]byte{}, b...) }

func (p *procStore) yield() {
	if sc := p.s.sched; sc != nil && p.pid >= 0 {
		sc.ev <- p.pid
		<-sc.grant[p.pid]
	}
}
func (p *procStore) Save(id []byte, ctx common.TokenContext, data []byte) error {
	var err error
	p.s.inner(func() { err = p.s.Inner.Save(id, ctx, data) })
	if err == nil {
		p.s.Log = append(p.s.Log, TokRec{cpb(id), cpb(data), common.TokenContext{ClientID: cpb(ctx.ClientID), AdditionalContext: cpb(ctx.AdditionalContext)}})
	}
	p.yield()
	return err
}
func (p *procStore) Get(id []byte, ctx common.TokenContext) ([]byte, error) {
	var d []byte
	var err error
	p.s.inner(func() { d, err = p.s.Inner.Get(id, ctx) })
	p.yield()
	return d, err
}
func (p *procStore) Stat(id []byte, ctx common.TokenContext) (common.TokenMetadata, error) {
	return p.s.Inner.Stat(id, ctx)
}
func (p *procStore) VisitMetadata(cb func(int, common.TokenMetadata) (common.TokenAction, error)) error {
	return p.s.Inner.VisitMetadata(cb)
}
func (p *procStore) SetAccessTimeGranularity(g time.Duration) error {
	return p.s.Inner.SetAccessTimeGranularity(g)
}

// Sched runs calls as processes whose atomic steps are "local code up to and including the next
// storage operation"; exactly one process runs at any time, chosen by the schedule.
type Sched struct {
	grant []chan struct{}
	ev    chan int
}

// RunConcurrent executes calls[i] (which must use store.For(i)) under the given schedule of process
// ids; afterwards every unfinished process runs to completion in order. A slot of a finished or
// unknown process is a no-op. Returns the outcomes and "" or a hang description.
func (s *TokStore) RunConcurrent(calls []func() Outcome, schedule []int) ([]Outcome, string) {
	n := len(calls)
	sc := &Sched{grant: make([]chan struct{}, n), ev: make(chan int)}
	for i := range sc.grant {
		sc.grant[i] = make(chan struct{})
	}
	s.sched = sc
	defer func() { s.sched = nil }()
	out := make([]Outcome, n)
	finished := make([]bool, n)
	for i := range calls {
		i := i
		go func() {
			<-sc.grant[i]
			out[i] = Guard(calls[i])
			sc.ev <- -(i + 1)
		}()
	}
	hang := ""
	step := func(pid int) bool {
		sc.grant[pid] <- struct{}{}
		select {
		case e := <-sc.ev:
			if e < 0 {
				finished[-e-1] = true
			}
			return true
		case <-time.After(20 * time.Second):
			hang = fmt.Sprintf("process %d did not reach its next storage operation within 20s", pid)
			return false
		}
	}
	for _, pid := range schedule {
		if pid < 0 || pid >= n || finished[pid] {
			continue
		}
		if !step(pid) {
			return out, hang
		}
	}
	for pid := 0; pid < n; pid++ {
		for !finished[pid] {
			if !step(pid) {
				return out, hang
			}
		}
	}
	return out, ""
}
