// Package vh: shared pieces of the correspondence harness (deterministic randomness with a
// recorded tape, a minimal in-memory keystore, Coq term emission, result canonicalisation).
package vh

import (
	"crypto/rand"
	"encoding/hex"
	"encoding/json"
	"fmt"
	"io"
	"os"
	"sort"
	"strings"

	"github.com/cossacklabs/acra/keystore"
	"github.com/cossacklabs/themis/gothemis/core"
	"github.com/cossacklabs/themis/gothemis/keys"
)

// ---------- PRNG (splitmix64): every random choice of a run derives from one seed ----------

type Rng struct{ s uint64 }

// NewRng hashes the seed into the initial state (consecutive seeds must not give shifted copies of
// one splitmix stream).
func NewRng(seed uint64) *Rng {
	z := seed + 0x1234567
	z = (z ^ (z >> 30)) * 0xBF58476D1CE4E5B9
	z = (z ^ (z >> 27)) * 0x94D049BB133111EB
	z ^= z >> 31
	z = (z ^ (z >> 33)) * 0xFF51AFD7ED558CCD
	return &Rng{s: z ^ (z >> 29)}
}
func (r *Rng) U64() uint64 {
	r.s += 0x9E3779B97F4A7C15
	z := r.s
	z = (z ^ (z >> 30)) * 0xBF58476D1CE4E5B9
	z = (z ^ (z >> 27)) * 0x94D049BB133111EB
	return z ^ (z >> 31)
}
func (r *Rng) Intn(n int) int {
	if n <= 0 {
		return 0
	}
	return int(r.U64() % uint64(n))
}
func (r *Rng) Bool() bool { return r.U64()&1 == 1 }
func (r *Rng) Bytes(n int) []byte {
	b := make([]byte, n)
	for i := range b {
		b[i] = byte(r.U64())
	}
	return b
}
func (r *Rng) Pick(xs ...int) int { return xs[r.Intn(len(xs))] }

// ---------- tape: crypto/rand.Reader replacement that records every draw ----------

type Tape struct {
	rng    *Rng
	Chunks [][]byte
}

func (t *Tape) Read(p []byte) (int, error) {
	c := t.rng.Bytes(len(p))
	copy(p, c)
	t.Chunks = append(t.Chunks, c)
	return len(p), nil
}

var origReader io.Reader = rand.Reader

// StartTape installs a recording reader; the returned tape holds the chunks drawn so far.
func StartTape(r *Rng) *Tape {
	t := &Tape{rng: NewRng(r.U64())}
	rand.Reader = t
	return t
}

// StopTape restores the OS reader.
func StopTape() { rand.Reader = origReader }

// ---------- key material ----------

// KeySet is what one client identity resolves to (newest first).
type KeySet struct {
	Seeds [][]byte // storage key pair seeds, newest first
	Syms  [][]byte // symmetric storage keys, newest first
	Hmac  []byte
}

func (k *KeySet) Priv(i int) []byte { p, _ := core.KeyPair(k.Seeds[i]); return p }
func (k *KeySet) Pub(i int) []byte  { _, p := core.KeyPair(k.Seeds[i]); return p }

func NewKeySet(r *Rng, nAsym, nSym int, hmac bool) *KeySet {
	ks := &KeySet{}
	for i := 0; i < nAsym; i++ {
		ks.Seeds = append(ks.Seeds, r.Bytes(32))
	}
	for i := 0; i < nSym; i++ {
		ks.Syms = append(ks.Syms, r.Bytes(32))
	}
	if hmac {
		ks.Hmac = r.Bytes(32)
	}
	return ks
}

// MemKeystore is a minimal keystore over explicit key sets. Unimplemented methods of the
// embedded interface panic (nil interface) – the harness only reaches the ones below.
type MemKeystore struct {
	keystore.ServerKeyStore
	Clients     map[string]*KeySet
	PoisonSeeds [][]byte
	PoisonSyms  [][]byte
	LogKey      []byte
}

func NewMemKeystore() *MemKeystore { return &MemKeystore{Clients: map[string]*KeySet{}} }

func cp(b []byte) []byte { return append([]byte{}, b...) }

func (m *MemKeystore) get(id []byte) (*KeySet, error) {
	ks, ok := m.Clients[string(id)]
	if !ok {
		return nil, keystore.ErrKeysNotFound
	}
	return ks, nil
}
func (m *MemKeystore) GetClientIDEncryptionPublicKey(id []byte) (*keys.PublicKey, error) {
	ks, err := m.get(id)
	if err != nil || len(ks.Seeds) == 0 {
		return nil, keystore.ErrKeysNotFound
	}
	return &keys.PublicKey{Value: ks.Pub(0)}, nil
}
func (m *MemKeystore) GetServerDecryptionPrivateKey(id []byte) (*keys.PrivateKey, error) {
	ks, err := m.get(id)
	if err != nil || len(ks.Seeds) == 0 {
		return nil, keystore.ErrKeysNotFound
	}
	return &keys.PrivateKey{Value: ks.Priv(0)}, nil
}
func (m *MemKeystore) GetServerDecryptionPrivateKeys(id []byte) ([]*keys.PrivateKey, error) {
	ks, err := m.get(id)
	if err != nil || len(ks.Seeds) == 0 {
		return nil, keystore.ErrKeysNotFound
	}
	var out []*keys.PrivateKey
	for i := range ks.Seeds {
		out = append(out, &keys.PrivateKey{Value: ks.Priv(i)})
	}
	return out, nil
}
func (m *MemKeystore) GetClientIDSymmetricKeys(id []byte) ([][]byte, error) {
	ks, err := m.get(id)
	if err != nil || len(ks.Syms) == 0 {
		return nil, keystore.ErrKeysNotFound
	}
	var out [][]byte
	for _, k := range ks.Syms {
		out = append(out, cp(k))
	}
	return out, nil
}
func (m *MemKeystore) GetClientIDSymmetricKey(id []byte) ([]byte, error) {
	ks, err := m.get(id)
	if err != nil || len(ks.Syms) == 0 {
		return nil, keystore.ErrKeysNotFound
	}
	return cp(ks.Syms[0]), nil
}
func (m *MemKeystore) GetHMACSecretKey(id []byte) ([]byte, error) {
	ks, err := m.get(id)
	if err != nil || ks.Hmac == nil {
		return nil, keystore.ErrKeysNotFound
	}
	return cp(ks.Hmac), nil
}
func (m *MemKeystore) GetPoisonKeyPair() (*keys.Keypair, error) {
	if len(m.PoisonSeeds) == 0 {
		return nil, keystore.ErrKeysNotFound
	}
	priv, pub := core.KeyPair(m.PoisonSeeds[0])
	return &keys.Keypair{Private: &keys.PrivateKey{Value: priv}, Public: &keys.PublicKey{Value: pub}}, nil
}
func (m *MemKeystore) GetPoisonPrivateKeys() ([]*keys.PrivateKey, error) {
	if len(m.PoisonSeeds) == 0 {
		return nil, keystore.ErrKeysNotFound
	}
	var out []*keys.PrivateKey
	for _, s := range m.PoisonSeeds {
		priv, _ := core.KeyPair(s)
		out = append(out, &keys.PrivateKey{Value: priv})
	}
	return out, nil
}
func (m *MemKeystore) GetPoisonSymmetricKeys() ([][]byte, error) {
	if len(m.PoisonSyms) == 0 {
		return nil, keystore.ErrKeysNotFound
	}
	var out [][]byte
	for _, k := range m.PoisonSyms {
		out = append(out, cp(k))
	}
	return out, nil
}
func (m *MemKeystore) GetPoisonSymmetricKey() ([]byte, error) {
	if len(m.PoisonSyms) == 0 {
		return nil, keystore.ErrKeysNotFound
	}
	return cp(m.PoisonSyms[0]), nil
}
func (m *MemKeystore) GetLogSecretKey() ([]byte, error) { return cp(m.LogKey), nil }
func (m *MemKeystore) CacheOnStart() error              { return nil }
func (m *MemKeystore) Reset()                           {}

// ---------- Coq emission ----------

func H(b []byte) string { return "(hb 0x1" + hex.EncodeToString(b) + ")" }
func HL(bs [][]byte) string {
	parts := make([]string, len(bs))
	for i, b := range bs {
		parts[i] = H(b)
	}
	return "[" + strings.Join(parts, "; ") + "]"
}
func HOpt(b []byte) string {
	if b == nil {
		return "None"
	}
	return "(Some " + H(b) + ")"
}
func N(n int) string { return fmt.Sprintf("%d", n) }

// CoqKeySet renders a model keyset record.
func (k *KeySet) Coq() string {
	if k == nil {
		return "(mk_ks None [] [] None)"
	}
	var privs [][]byte
	var pub []byte
	for i := range k.Seeds {
		privs = append(privs, k.Priv(i))
	}
	if len(k.Seeds) > 0 {
		pub = k.Pub(0)
	}
	return fmt.Sprintf("(mk_ks %s %s %s %s)", HOpt(pub), HL(privs), HL(k.Syms), HOpt(k.Hmac))
}

// Outcome of one implementation call in canonical form.
type Outcome struct {
	Kind string   // ok | err | panic
	Vals [][]byte // for ok
	Msg  string   // diagnostic only, never compared
}

func Ok(vals ...[]byte) Outcome { return Outcome{Kind: "ok", Vals: vals} }
func ErrO(err error) Outcome    { return Outcome{Kind: "err", Msg: err.Error()} }
func (o Outcome) Coq() string {
	switch o.Kind {
	case "ok":
		return "(XOk " + HL(o.Vals) + ")"
	case "err":
		return "XErr"
	}
	return "XPanic"
}
func (o Outcome) String() string {
	s := o.Kind
	for _, v := range o.Vals {
		s += " " + hex.EncodeToString(v)
	}
	if o.Msg != "" {
		s += " (" + o.Msg + ")"
	}
	return s
}

// Guard runs f, turning a panic into an outcome.
func Guard(f func() Outcome) (o Outcome) {
	defer func() {
		if r := recover(); r != nil {
			o = Outcome{Kind: "panic", Msg: fmt.Sprint(r)}
		}
	}()
	return f()
}

// ---------- case file + oracle report ----------

type Case struct {
	Label string // free text for humans / replays
	Op    string // Coq term of the op
	Exp   Outcome
}

type Violation struct {
	What   string `json:"what"`
	Replay string `json:"replay"`
	Class  string `json:"class"` // identifies the failing input class (for known findings)
}

type Report struct {
	Property     string          `json:"property"`
	Seed         uint64          `json:"seed"`
	Cases        []Case          `json:"-"`
	Evaluations  int             `json:"evaluations"`
	Distribution map[string]int  `json:"distribution"`
	OracleChecks int             `json:"oracle_checks"`
	Violations   []Violation     `json:"violations"`
	Samples      []string        `json:"samples"`
	Distinct     map[string]bool `json:"-"`
	DistinctN    int             `json:"distinct_nontrivial"`
	Labels       []string        `json:"labels"`
}

func NewReport(prop string, seed uint64) *Report {
	return &Report{Property: prop, Seed: seed, Distribution: map[string]int{}, Distinct: map[string]bool{}}
}
func (r *Report) Count(k string) { r.Distribution[k]++ }
func (r *Report) Add(label, op string, exp Outcome) {
	r.Cases = append(r.Cases, Case{label, op, exp})
	r.Evaluations++
	r.Count("op:" + strings.SplitN(strings.TrimLeft(op, "("), " ", 2)[0])
	r.Count("outcome:" + exp.Kind)
	if exp.Kind != "err" || true {
		r.Distinct[op] = true
	}
	if len(r.Samples) < 5 {
		s := label + " :: " + op + " => " + exp.String()
		if len(s) > 600 {
			s = s[:600] + "…"
		}
		r.Samples = append(r.Samples, s)
	}
}
func (r *Report) Violate(class, what, replay string) {
	r.Violations = append(r.Violations, Violation{What: what, Replay: replay, Class: class})
}

// Write emits <dir>/cases.v and <dir>/report.json. header names the Coq module with run/mismatches.
func (r *Report) Write(dir, runModule string) error {
	if err := os.MkdirAll(dir, 0o755); err != nil {
		return err
	}
	const shard = 32
	old, _ := os.ReadDir(dir)
	for _, f := range old {
		if strings.HasPrefix(f.Name(), "cases_") {
			os.Remove(dir + "/" + f.Name())
		}
	}
	for s0 := 0; s0 < len(r.Cases) || s0 == 0; s0 += shard {
		end := s0 + shard
		if end > len(r.Cases) {
			end = len(r.Cases)
		}
		var sb strings.Builder
		sb.WriteString("(* GENERATED by acra-vh: implementation observations to be replayed on the model *)\n")
		sb.WriteString("From Acra Require Import Lib.Bytes Lib.Outcome " + runModule + ".\nLocal Open Scope N_scope.\n")
		sb.WriteString("Definition cases : list (op * expected) := [\n")
		for i := s0; i < end; i++ {
			c := r.Cases[i]
			sep := ";"
			if i == end-1 {
				sep = ""
			}
			sb.WriteString("  (" + c.Op + ", " + c.Exp.Coq() + ")" + sep + "\n")
		}
		sb.WriteString(fmt.Sprintf("].\nDefinition M := Eval vm_compute in mismatches_from %d cases.\nPrint M.\n", s0))
		if err := os.WriteFile(fmt.Sprintf("%s/cases_%03d.v", dir, s0/shard), []byte(sb.String()), 0o644); err != nil {
			return err
		}
		if len(r.Cases) == 0 {
			break
		}
	}
	r.DistinctN = len(r.Distinct)
	for _, c := range r.Cases {
		r.Labels = append(r.Labels, c.Label+" :: "+c.Exp.String())
	}
	keys := make([]string, 0, len(r.Distribution))
	for k := range r.Distribution {
		keys = append(keys, k)
	}
	sort.Strings(keys)
	js, _ := json.MarshalIndent(r, "", " ")
	return os.WriteFile(dir+"/report.json", js, 0o644)
}
