package vh

// A tiny evaluator for exactly the condition shapes that appear in searchable-encryption queries
// before and after acra's rewrite (PostgreSQL parse tree of pg_query):
//   <operand> (=|<>) <operand>, combined with AND / OR / NOT
//   operand ::= column | 'literal' | 'literal'::type | $n | substr(operand, from, len)
// Values are byte strings; a literal starting with \x is a bytea hex literal. Anything else is
// reported as an error (the caller turns that into a violation: "shape outside the evaluator").

import (
	"bytes"
	"encoding/hex"
	"fmt"
	"strconv"
	"strings"

	pg_query "github.com/cossacklabs/pg_query_go/v5"
)

// PgRow maps "col" and "tbl.col" to the stored bytes.
type PgRow map[string][]byte

// PgDecodeLiteral interprets a text value the way PostgreSQL's bytea input does for the forms used here.
func PgDecodeLiteral(s []byte) ([]byte, error) {
	if len(s) >= 2 && s[0] == '\\' && s[1] == 'x' {
		out := make([]byte, hex.DecodedLen(len(s)-2))
		if _, err := hex.Decode(out, s[2:]); err != nil {
			return nil, err
		}
		return out, nil
	}
	if bytes.IndexByte(s, '\\') >= 0 {
		return nil, fmt.Errorf("escape sequences are outside the evaluator")
	}
	return s, nil
}

func pgValue(n *pg_query.Node, row PgRow, binds [][]byte) ([]byte, error) {
	switch {
	case n.GetColumnRef() != nil:
		var parts []string
		for _, f := range n.GetColumnRef().GetFields() {
			if f.GetString_() == nil {
				return nil, fmt.Errorf("column reference shape")
			}
			parts = append(parts, f.GetString_().GetSval())
		}
		if v, ok := row[strings.Join(parts, ".")]; ok {
			return v, nil
		}
		if v, ok := row[parts[len(parts)-1]]; ok && len(parts) == 1 {
			return v, nil
		}
		return nil, fmt.Errorf("unknown column %v", parts)
	case n.GetAConst() != nil:
		c := n.GetAConst()
		switch {
		case c.GetSval() != nil:
			return PgDecodeLiteral([]byte(c.GetSval().GetSval()))
		case c.GetIval() != nil:
			return []byte(strconv.Itoa(int(c.GetIval().GetIval()))), nil
		}
		return nil, fmt.Errorf("constant shape")
	case n.GetTypeCast() != nil:
		return pgValue(n.GetTypeCast().GetArg(), row, binds)
	case n.GetParamRef() != nil:
		i := int(n.GetParamRef().GetNumber()) - 1
		if i < 0 || i >= len(binds) {
			return nil, fmt.Errorf("placeholder $%d without value", i+1)
		}
		return binds[i], nil
	case n.GetFuncCall() != nil:
		fc := n.GetFuncCall()
		if len(fc.GetFuncname()) != 1 || fc.GetFuncname()[0].GetString_().GetSval() != "substr" || len(fc.GetArgs()) != 3 {
			return nil, fmt.Errorf("function outside the evaluator")
		}
		v, err := pgValue(fc.GetArgs()[0], row, binds)
		if err != nil {
			return nil, err
		}
		a, b := fc.GetArgs()[1].GetAConst(), fc.GetArgs()[2].GetAConst()
		if a == nil || b == nil || b.GetIval() == nil {
			return nil, fmt.Errorf("substr arguments")
		}
		from, ln := int(a.GetIval().GetIval()), int(b.GetIval().GetIval())
		if from < 1 || ln < 0 {
			return nil, fmt.Errorf("substr range")
		}
		lo := from - 1
		if lo > len(v) {
			lo = len(v)
		}
		hi := lo + ln
		if hi > len(v) {
			hi = len(v)
		}
		return v[lo:hi], nil
	}
	return nil, fmt.Errorf("operand outside the evaluator")
}

// PgEvalCond evaluates a boolean condition node on one row.
func PgEvalCond(n *pg_query.Node, row PgRow, binds [][]byte) (bool, error) {
	switch {
	case n.GetBoolExpr() != nil:
		be := n.GetBoolExpr()
		switch be.GetBoolop() {
		case pg_query.BoolExprType_AND_EXPR:
			for _, a := range be.GetArgs() {
				v, err := PgEvalCond(a, row, binds)
				if err != nil {
					return false, err
				}
				if !v {
					return false, nil
				}
			}
			return true, nil
		case pg_query.BoolExprType_OR_EXPR:
			for _, a := range be.GetArgs() {
				v, err := PgEvalCond(a, row, binds)
				if err != nil {
					return false, err
				}
				if v {
					return true, nil
				}
			}
			return false, nil
		case pg_query.BoolExprType_NOT_EXPR:
			v, err := PgEvalCond(be.GetArgs()[0], row, binds)
			return !v, err
		}
	case n.GetAExpr() != nil:
		e := n.GetAExpr()
		if e.GetKind() != pg_query.A_Expr_Kind_AEXPR_OP || len(e.GetName()) != 1 {
			return false, fmt.Errorf("expression kind outside the evaluator")
		}
		op := e.GetName()[0].GetString_().GetSval()
		if op != "=" && op != "<>" {
			return false, fmt.Errorf("operator %q outside the evaluator", op)
		}
		l, err := pgValue(e.GetLexpr(), row, binds)
		if err != nil {
			return false, err
		}
		r, err := pgValue(e.GetRexpr(), row, binds)
		if err != nil {
			return false, err
		}
		return bytes.Equal(l, r) == (op == "="), nil
	}
	return false, fmt.Errorf("condition outside the evaluator")
}

// PgWhere returns the WHERE node and (for one explicit JOIN … ON) the join condition of a SELECT.
func PgWhere(res *pg_query.ParseResult) (where *pg_query.Node, joinOn *pg_query.Node, err error) {
	if len(res.GetStmts()) != 1 || res.GetStmts()[0].GetStmt().GetSelectStmt() == nil {
		return nil, nil, fmt.Errorf("not a single SELECT")
	}
	sel := res.GetStmts()[0].GetStmt().GetSelectStmt()
	for _, f := range sel.GetFromClause() {
		if j := f.GetJoinExpr(); j != nil {
			joinOn = j.GetQuals()
		}
	}
	return sel.GetWhereClause(), joinOn, nil
}
