// Keystore-write helpers shared by the c08 (fault injection) and c17 (scheduling) domains:
// a wrapper around the REAL v2 in-memory backend that counts back-end calls, injects a fault at call k
// or hands every call to a scheduler; the abstraction of stored key ring files to the terms of
// coq/Model/KeystoreWrite.v; the canonical number encoding of observations.
package vh

import (
	"encoding/binary"
	"errors"
	"fmt"
	"sort"
	"strings"
	"time"

	keystoreV2 "github.com/cossacklabs/acra/keystore/v2/keystore"
	"github.com/cossacklabs/acra/keystore/v2/keystore/api"
	"github.com/cossacklabs/acra/keystore/v2/keystore/crypto"
	fsV2 "github.com/cossacklabs/acra/keystore/v2/keystore/filesystem"
	"github.com/cossacklabs/acra/keystore/v2/keystore/filesystem/backend"
	backendAPI "github.com/cossacklabs/acra/keystore/v2/keystore/filesystem/backend/api"
)

// Fault kinds (same order as Model.KeystoreWrite.fkind).
const (
	KNone = iota
	KErr
	KCrashBefore
	KCrashAfter
	KTorn
	KErrTorn
)

var KswKindNames = []string{"none", "KErr", "KCrashBefore", "KCrashAfter", "KTorn", "KErrTorn"}

// ErrKswInjected is the injected I/O error.
var ErrKswInjected = errors.New("injected I/O error")

// KswCrash is the panic value standing for the death of the process.
type KswCrash struct{}

// KswBackend wraps the real in-memory backend.
type KswBackend struct {
	Inner  *backend.InMemory
	Calls  int    // back-end calls made through this wrapper
	At     int    // index of the call to fault (-1: none)
	Kind   int    // fault kind
	Trace  []string
	held   int // 0 none, 1 exclusive, 2 shared
	dead   bool // the process has crashed: deferred calls of the unwinding code do nothing
	Before func(call string) // scheduler hook: called before every back-end call (may block)
}

func NewKswBackend(inner *backend.InMemory) *KswBackend { return &KswBackend{Inner: inner, At: -1} }

// ReleaseLocks releases what the dead "process" held (flock dies with the process).
func (b *KswBackend) ReleaseLocks() {
	switch b.held {
	case 1:
		b.Inner.Unlock()
	case 2:
		b.Inner.RUnlock()
	}
	b.held = 0
}

// gate returns the fault kind to apply to this call (KNone if it is not the faulted one).
func (b *KswBackend) gate(name string) int {
	if b.Before != nil {
		b.Before(name)
	}
	i := b.Calls
	b.Calls++
	b.Trace = append(b.Trace, name)
	if i == b.At {
		return b.Kind
	}
	return KNone
}

func (b *KswBackend) crash() { b.ReleaseLocks(); b.dead = true; panic(KswCrash{}) }

var errKswDead = errors.New("process is dead")

// simple: a call without a "new file": torn = crash before / plain error.
func (b *KswBackend) simple(name string, act func() error) error {
	if b.dead {
		return errKswDead
	}
	switch b.gate(name) {
	case KErr, KErrTorn:
		return ErrKswInjected
	case KCrashBefore, KTorn:
		b.crash()
	case KCrashAfter:
		act()
		b.crash()
	}
	return act()
}

func (b *KswBackend) Lock() error {
	if b.dead {
		return errKswDead
	}
	switch b.gate("Lock") {
	case KErr, KErrTorn:
		return ErrKswInjected
	case KCrashBefore, KTorn:
		b.crash()
	case KCrashAfter:
		b.Inner.Lock()
		b.held = 1
		b.crash()
	}
	err := b.Inner.Lock()
	b.held = 1
	return err
}
func (b *KswBackend) RLock() error {
	if b.dead {
		return errKswDead
	}
	switch b.gate("RLock") {
	case KErr, KErrTorn:
		return ErrKswInjected
	case KCrashBefore, KTorn:
		b.crash()
	case KCrashAfter:
		b.Inner.RLock()
		b.held = 2
		b.crash()
	}
	err := b.Inner.RLock()
	b.held = 2
	return err
}

// An unlock that "fails" still releases the underlying lock (otherwise the harness would deadlock;
// the model treats lock calls as having no effect on the files).
func (b *KswBackend) Unlock() error {
	if b.dead {
		return errKswDead
	}
	k := b.gate("Unlock")
	if k == KCrashBefore || k == KTorn || k == KCrashAfter {
		b.crash()
	}
	b.held = 0
	err := b.Inner.Unlock()
	if k == KErr || k == KErrTorn {
		return ErrKswInjected
	}
	return err
}
func (b *KswBackend) RUnlock() error {
	if b.dead {
		return errKswDead
	}
	k := b.gate("RUnlock")
	if k == KCrashBefore || k == KTorn || k == KCrashAfter {
		b.crash()
	}
	b.held = 0
	err := b.Inner.RUnlock()
	if k == KErr || k == KErrTorn {
		return ErrKswInjected
	}
	return err
}
func (b *KswBackend) Close() error { return nil }

func (b *KswBackend) Get(path string) (data []byte, err error) {
	err = b.simple("Get "+path, func() error { data, err = b.Inner.Get(path); return err })
	return data, err
}
func (b *KswBackend) ListAll() (l []string, err error) {
	err = b.simple("ListAll", func() error { l, err = b.Inner.ListAll(); return err })
	return l, err
}
func (b *KswBackend) Remove(path string) error {
	return b.simple("Remove "+path, func() error { return b.Inner.Remove(path) })
}
func (b *KswBackend) Rename(o, n string) error {
	return b.simple("Rename "+o+" "+n, func() error { return b.Inner.Rename(o, n) })
}
func (b *KswBackend) RenameNX(o, n string) error {
	return b.simple("RenameNX "+o+" "+n, func() error { return b.Inner.RenameNX(o, n) })
}

// Put is the only call that creates a new file: a torn write leaves a strict prefix in it.
func (b *KswBackend) Put(path string, data []byte) error {
	if b.dead {
		return errKswDead
	}
	torn := func() {
		if _, err := b.Inner.Get(path); err == backendAPI.ErrNotExist {
			b.Inner.Put(path, append([]byte{}, data[:len(data)/2]...))
		}
	}
	switch b.gate("Put " + path) {
	case KErr:
		return ErrKswInjected
	case KCrashBefore:
		b.crash()
	case KCrashAfter:
		b.Inner.Put(path, data)
		b.crash()
	case KTorn:
		torn()
		b.crash()
	case KErrTorn:
		torn()
		return ErrKswInjected
	}
	return b.Inner.Put(path, data)
}

// ---------- keystore handles ----------

var kswEncKey = []byte("0123456789abcdef0123456789abcdef")
var kswSigKey = []byte("fedcba9876543210fedcba9876543210")

// KswHandle = one "process": a v2 keystore (ring level + server level) over a wrapper.
type KswHandle struct {
	B  *KswBackend
	FS api.MutableKeyStore
	SK *keystoreV2.ServerKeyStore
}

func NewKswHandle(inner *backend.InMemory) *KswHandle {
	suite, err := crypto.NewSCellSuite(kswEncKey, kswSigKey)
	if err != nil {
		panic(err)
	}
	b := NewKswBackend(inner)
	ks, err := fsV2.CustomKeyStore(b, suite)
	if err != nil {
		panic(err)
	}
	return &KswHandle{B: b, FS: ks, SK: keystoreV2.NewServerKeyStore(ks)}
}

// ring ids <-> paths
func KswClient(rid int) []byte { return []byte(fmt.Sprintf("c%03d", rid)) }
func KswRingPath(rid int) string {
	return "client/" + string(KswClient(rid)) + "/storage-sym"
}

// key material carries its ordinal
func KswKeyBytes(ord int) []byte {
	b := make([]byte, 32)
	binary.LittleEndian.PutUint64(b, uint64(ord))
	for i := 8; i < 32; i++ {
		b[i] = byte(ord*7 + i)
	}
	return b
}
func KswOrd(key []byte) int {
	if len(key) != 32 {
		return -1
	}
	ord := int(binary.LittleEndian.Uint64(key))
	if string(KswKeyBytes(ord)) != string(key) {
		return -1
	}
	return ord
}
func KswKeyDescription(ord int) api.KeyDescription {
	return api.KeyDescription{
		ValidSince: time.Unix(1600000000, 0),
		ValidUntil: time.Unix(1900000000, 0),
		Data:       []api.KeyData{{Format: api.ThemisSymmetricKeyFormat, SymmetricKey: KswKeyBytes(ord)}},
	}
}

// ---------- abstraction of the storage ----------

type KswKey struct {
	Seq   int
	State int
	Ord   int
}
type KswFile struct {
	Kind  int // 0 "<ring>.keyring", 1 "<ring>.keyring.new"
	Rid   int
	Valid bool
	Cur   int
	Keys  []KswKey
	Name  string
}

// KswAbstract reads every file of the in-memory backend (directly, not through a wrapper) and maps it
// to the model's (name, content). Unknown names are reported as an error.
func KswAbstract(inner *backend.InMemory, clean *KswHandle) ([]KswFile, error) {
	names, _ := inner.ListAll()
	var out []KswFile
	for _, n := range names {
		f := KswFile{Name: n}
		p := n
		switch {
		case strings.HasSuffix(p, fsV2.VerifKeyringSuffixC+fsV2.VerifNewSuffix):
			f.Kind = 1
			p = strings.TrimSuffix(p, fsV2.VerifKeyringSuffixC+fsV2.VerifNewSuffix)
		case strings.HasSuffix(p, fsV2.VerifKeyringSuffixC):
			p = strings.TrimSuffix(p, fsV2.VerifKeyringSuffixC)
		default:
			return nil, fmt.Errorf("unexpected file %q", n)
		}
		if _, err := fmt.Sscanf(p, "client/c%03d/storage-sym", &f.Rid); err != nil {
			return nil, fmt.Errorf("unexpected ring path %q", n)
		}
		data, _ := inner.Get(n)
		ring, err := fsV2.VerifVerifyKeyRing(clean.FS, data, p)
		if err == nil && ring != nil {
			f.Valid = true
			f.Cur = ring.Current
			for _, k := range ring.Keys {
				kk := KswKey{Seq: k.Seqnum, State: int(k.State)}
				if len(k.Data) > 0 {
					plain, err := fsV2.VerifDecryptSymmetricKey(clean.FS, p, k.Seqnum, k.Data[0].SymmetricKey)
					if err != nil {
						return nil, fmt.Errorf("%s: key %d does not decrypt: %v", n, k.Seqnum, err)
					}
					kk.Ord = KswOrd(plain)
				}
				f.Keys = append(f.Keys, kk)
			}
		}
		out = append(out, f)
	}
	sort.Slice(out, func(i, j int) bool {
		return out[i].Kind+2*out[i].Rid < out[j].Kind+2*out[j].Rid
	})
	return out, nil
}

// ---------- canonical encoding: sequences of 64-bit little-endian numbers ----------

type KswEnc struct{ b []byte }

func (e *KswEnc) N(v int) *KswEnc {
	var x [8]byte
	binary.LittleEndian.PutUint64(x[:], uint64(int64(v)))
	e.b = append(e.b, x[:]...)
	return e
}
func (e *KswEnc) Bytes() []byte { return append([]byte{}, e.b...) }

func (e *KswEnc) Ring(cur int, keys []KswKey) *KswEnc {
	e.N(cur).N(len(keys))
	for _, k := range keys {
		e.N(k.Seq).N(k.State).N(k.Ord)
	}
	return e
}

// KswEncodeFiles = Model.RunKeystoreWrite.enc_storage
func KswEncodeFiles(fs []KswFile) []byte {
	e := &KswEnc{}
	for _, f := range fs {
		e.N(f.Kind).N(f.Rid)
		if !f.Valid {
			e.N(0)
			continue
		}
		e.N(1).Ring(f.Cur, f.Keys)
	}
	return e.Bytes()
}

// KswCoqStorage renders files as a Coq storage term.
func KswCoqRing(cur int, keys []KswKey) string {
	var ks []string
	for _, k := range keys {
		ks = append(ks, fmt.Sprintf("mk_kent (%d) %d %d", k.Seq, k.State, k.Ord))
	}
	return fmt.Sprintf("(mk_ring [%s] (%d))", strings.Join(ks, "; "), cur)
}

// KswView reads the in-memory state of a key ring object without any back-end call.
func KswView(r api.KeyRing) (cur int, keys []KswKey) {
	data := fsV2.VerifRingData(r)
	cur = data.Current
	for _, k := range data.Keys {
		kk := KswKey{Seq: k.Seqnum, State: int(k.State)}
		if len(k.Data) > 0 {
			kk.Ord = -1
			if key, err := kswViewStore.decrypt(string(data.Purpose), k.Seqnum, k.Data[0].SymmetricKey); err == nil {
				kk.Ord = KswOrd(key)
			}
		}
		keys = append(keys, kk)
	}
	return cur, keys
}

type kswDecryptor struct{ h *KswHandle }

func (d *kswDecryptor) decrypt(path string, seq int, data []byte) ([]byte, error) {
	if d.h == nil {
		d.h = NewKswHandle(backend.NewInMemory())
	}
	return fsV2.VerifDecryptSymmetricKey(d.h.FS, path, seq, data)
}

var kswViewStore = &kswDecryptor{}
