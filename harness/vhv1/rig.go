package vhv1

// The rig of the C08_v1 domain: a REAL keystore v1 (keystore/filesystem.KeyStore) on a FaultFS,
// the universe of key files, the write operations, the abstraction of what is stored to the terms
// of coq/Model/KeystoreWriteV1.v, and the probe run by a fresh keystore object after a fault.

import (
	"context"
	"encoding/binary"
	"fmt"
	"path/filepath"
	"sort"
	"strconv"
	"strings"

	"acra-vh/vh"

	"github.com/cossacklabs/acra/keystore"
	"github.com/cossacklabs/acra/keystore/filesystem"
	"github.com/cossacklabs/themis/gothemis/keys"
)

const Root = "/ks"

var Clients = []string{"v1cla", "v1clb"}

// Kinds of key files; key number k = kind + 8*client (client 0 for the keystore-wide keys).
// The same numbering is used by Model.KeystoreWriteV1.kind_of.
const (
	KStoragePriv = iota
	KStoragePub
	KStorageSym
	KHmac
	KLog
	KPoisonPriv
	KPoisonPub
	KPoisonSym
)

// Universe lists every key file of the domain.
var Universe = []int{0, 1, 2, 3, 4, 5, 6, 7, 8, 9, 10, 11}

func KindOf(k int) int   { return k % 8 }
func ClientOf(k int) int { return k / 8 }
func ID(k int) []byte    { return []byte(Clients[ClientOf(k)]) }

// KeyFile is the path of key file k relative to the keystore directory.
func KeyFile(k int) string {
	id := Clients[ClientOf(k)]
	switch KindOf(k) {
	case KStoragePriv:
		return id + "_storage"
	case KStoragePub:
		return id + "_storage.pub"
	case KStorageSym:
		return id + "_storage_sym"
	case KHmac:
		return id + "_hmac"
	case KLog:
		return "secure_log_key"
	case KPoisonPriv:
		return ".poison_key/poison_key"
	case KPoisonPub:
		return ".poison_key/poison_key.pub"
	}
	return ".poison_key/poison_key_sym"
}

func keyContext(k int) (keystore.KeyContext, bool) {
	switch KindOf(k) {
	case KStoragePriv:
		return keystore.NewClientIDKeyContext(keystore.PurposeStorageClientPrivateKey, ID(k)), true
	case KStorageSym:
		return keystore.NewClientIDKeyContext(keystore.PurposeStorageClientSymmetricKey, ID(k)), true
	case KHmac:
		return keystore.NewClientIDKeyContext(keystore.PurposeSearchHMAC, ID(k)), true
	case KLog:
		return keystore.NewKeyContext(keystore.PurposeAuditLog, []byte(filesystem.SecureLogKeyFilename)), true
	case KPoisonPriv:
		return keystore.NewKeyContext(keystore.PurposePoisonRecordKeyPair, []byte(filesystem.PoisonKeyFilename)), true
	case KPoisonSym:
		return keystore.NewKeyContext(keystore.PurposePoisonRecordSymmetricKey, []byte(filesystem.PoisonKeyFilename+"_sym")), true
	}
	return keystore.KeyContext{}, false // public keys are stored in the clear
}

// Content of a file as the model sees it: the ordinal of the key material and whether all bytes are there.
type Content struct {
	Ord   int // 0: empty file; -1: bytes the harness never wrote
	Whole bool
}

type TmpFile struct {
	Rnd int
	C   Content
}

// KeyState is everything stored about one key file.
type KeyState struct {
	K   int
	Cur *Content
	Old []Content // oldest first (ReadDir order of "<name>.old")
	Tmp []TmpFile // by suffix
}

type Rig struct {
	Mem *vh.MemFS
	FS  *FaultFS
	Enc keystore.KeyEncryptor
	KS  *filesystem.KeyStore

	ordOf   map[string]int // whole file content -> ordinal
	tornOf  map[string]int // strict prefix left by a cut write -> ordinal
	plainOf map[string]int // what a read of the key returns -> ordinal
	pending map[int]int    // key file -> ordinal of the content the running operation is going to write to it
	tmpNext int
	Stray   []string // files that are none of key file / rotated version / temporary file
}

func NewRig(master []byte, noLinks bool) (*Rig, error) {
	enc, err := keystore.NewSCellKeyEncryptor(master)
	if err != nil {
		return nil, err
	}
	mem := vh.NewMemFS(Root)
	r := &Rig{Mem: mem, FS: New(mem), Enc: enc, ordOf: map[string]int{}, tornOf: map[string]int{}, plainOf: map[string]int{}}
	r.FS.NoLinks = noLinks
	r.FS.OnData = r.onData
	r.FS.OnTorn = func(p, whole []byte) {
		if o, ok := r.ordOf[string(whole)]; ok && len(p) > 0 {
			r.tornOf[string(p)] = o
		}
	}
	r.FS.NextTmp = func() string { r.tmpNext++; return strconv.Itoa(r.tmpNext - 1) }
	return r, r.Reopen()
}

// Reopen = a new process: a fresh keystore object (empty cache) on the same storage.
func (r *Rig) Reopen() (err error) {
	r.FS.Revive()
	r.KS, err = filesystem.NewCustomFilesystemKeyStore().KeyDirectory(Root).Encryptor(r.Enc).Storage(r.FS).Build()
	r.FS.Revive()
	return err
}

// fileKey maps a path under Root to (class, key, sub): class 0 key file, 1 rotated version, 2 temporary.
func fileKey(rel string) (class, k int, sub string, ok bool) {
	for _, k := range Universe {
		f := KeyFile(k)
		if rel == f {
			return 0, k, "", true
		}
		if strings.HasPrefix(rel, f+".old/") {
			return 1, k, rel[len(f)+5:], true
		}
	}
	// "<key file><digits>": longest key file name first ("x_storage" is a prefix of "x_storage_sym")
	best, bestK := -1, 0
	for _, k := range Universe {
		f := KeyFile(k)
		if strings.HasPrefix(rel, f) && len(rel) > len(f) && strings.Trim(rel[len(f):], "0123456789") == "" && len(f) > best {
			best, bestK = len(f), k
		}
	}
	if best >= 0 {
		return 2, bestK, rel[best:], true
	}
	return 0, 0, "", false
}

func (r *Rig) onData(path string, data []byte) {
	rel := strings.TrimPrefix(filepath.Clean(path), Root+"/")
	_, k, _, ok := fileKey(rel)
	if !ok {
		return
	}
	ord, ok := r.pending[k]
	if !ok {
		return
	}
	delete(r.pending, k)
	r.ordOf[string(data)] = ord
	if ctx, private := keyContext(k); private {
		if plain, err := r.Enc.Decrypt(context.Background(), data, ctx); err == nil {
			r.plainOf[string(plain)] = ord
		}
	} else {
		r.plainOf[string(data)] = ord
	}
}

func (r *Rig) classify(b []byte) Content {
	if len(b) == 0 {
		return Content{0, true}
	}
	if o, ok := r.ordOf[string(b)]; ok {
		return Content{o, true}
	}
	if o, ok := r.tornOf[string(b)]; ok {
		return Content{o, false}
	}
	return Content{-1, false}
}

func (r *Rig) walk(dir string, visit func(rel string, data []byte)) {
	fis, err := r.Mem.ReadDir(dir)
	if err != nil {
		return
	}
	for _, fi := range fis {
		p := dir + "/" + fi.Name()
		if fi.IsDir() {
			r.walk(p, visit)
			continue
		}
		b, _ := r.Mem.ReadFile(p)
		visit(strings.TrimPrefix(p, Root+"/"), b)
	}
}

// Abstract reads the storage directly (no keystore code involved).
func (r *Rig) Abstract() []KeyState {
	st := map[int]*KeyState{}
	r.Stray = nil
	r.walk(Root, func(rel string, data []byte) {
		class, k, sub, ok := fileKey(rel)
		if !ok {
			r.Stray = append(r.Stray, rel)
			return
		}
		s := st[k]
		if s == nil {
			s = &KeyState{K: k}
			st[k] = s
		}
		c := r.classify(data)
		switch class {
		case 0:
			s.Cur = &c
		case 1:
			s.Old = append(s.Old, c) // walk follows ReadDir: sorted by name = by time
		case 2:
			n, _ := strconv.Atoi(sub)
			s.Tmp = append(s.Tmp, TmpFile{n, c})
		}
	})
	out := []KeyState{}
	for _, k := range Universe {
		if s := st[k]; s != nil {
			sort.Slice(s.Tmp, func(i, j int) bool { return s.Tmp[i].Rnd < s.Tmp[j].Rnd })
			out = append(out, *s)
		} else {
			out = append(out, KeyState{K: k})
		}
	}
	return out
}

// ---------- canonical encoding (= Model.RunKeystoreWriteV1) ----------

type Enc struct{ b []byte }

// N appends a number as 16 bits little-endian (every number of a scenario is small; -1 = 65535).
func (e *Enc) N(v int) *Enc {
	if v < -1 || v > 65535 {
		panic(fmt.Sprintf("vhv1: number %d does not fit the observation encoding", v))
	}
	var x [2]byte
	binary.LittleEndian.PutUint16(x[:], uint16(v))
	e.b = append(e.b, x[:]...)
	return e
}
func (e *Enc) Bytes() []byte { return append([]byte{}, e.b...) }

func b2i(b bool) int {
	if b {
		return 1
	}
	return 0
}

func (e *Enc) content(c Content) *Enc {
	if c.Ord == 0 {
		return e.N(0).N(0)
	}
	return e.N(c.Ord).N(b2i(c.Whole))
}

// EncodeStorage = enc_storage universe st.
func EncodeStorage(ks []KeyState) []byte {
	e := &Enc{}
	for _, s := range ks {
		e.N(s.K)
		if s.Cur == nil {
			e.N(0)
		} else {
			e.N(1).content(*s.Cur)
		}
		e.N(len(s.Old))
		for _, c := range s.Old {
			e.content(c)
		}
		e.N(len(s.Tmp))
		for _, t := range s.Tmp {
			e.N(t.Rnd).content(t.C)
		}
	}
	return e.Bytes()
}

// ---------- operations ----------

const (
	OpWrite       = iota // one WriteKeyFile: generateAndSaveSymmetricKey / GenerateHmacKey / GenerateLogKey
	OpSavePair           // SaveKeyPairWithFilename: private key file, then public key file
	OpDestroyPair        // destroyKeyWithFilename
	OpDestroySym         // destroySymmetricKeyWithFilename
	OpDestroyRot         // destroyRotatedKeyByIndex
	OpDestroyRotPair
)

type Op struct {
	Kind         int
	K, K2        int // key file(s); K2 = public half (100+K if the code removes a file that never exists)
	Ord, Ord2    int
	Rnd, Rnd2    int
	Ts, Ts2      int
	Idx          int
	ImportedPair bool // OpSavePair of a storage pair through SaveDataEncryptionKeys instead of Generate...
}

func (o Op) Coq() string {
	switch o.Kind {
	case OpWrite:
		return fmt.Sprintf("V1Write %d %d %d %d", o.K, o.Ord, o.Rnd, o.Ts)
	case OpSavePair:
		return fmt.Sprintf("V1SavePair %d %d %d %d %d %d %d %d", o.K, o.K2, o.Ord, o.Ord2, o.Rnd, o.Rnd2, o.Ts, o.Ts2)
	case OpDestroyPair:
		return fmt.Sprintf("V1DestroyPair %d %d", o.K, o.K2)
	case OpDestroySym:
		return fmt.Sprintf("V1DestroySym %d", o.K)
	case OpDestroyRot:
		return fmt.Sprintf("V1DestroyRotated %d (%d)", o.K, o.Idx)
	}
	return fmt.Sprintf("V1DestroyRotatedPair %d %d (%d)", o.K, o.K2, o.Idx)
}

// Keys lists the key files an operation may write.
func (o Op) Keys() []int {
	switch o.Kind {
	case OpWrite, OpDestroySym, OpDestroyRot:
		return []int{o.K}
	}
	return []int{o.K, o.K2}
}

// do calls the REAL keystore.
func (r *Rig) do(o Op) error {
	ks := r.KS
	id := ID(o.K)
	switch o.Kind {
	case OpWrite:
		r.pending = map[int]int{o.K: o.Ord}
		switch KindOf(o.K) {
		case KStorageSym:
			return ks.GenerateClientIDSymmetricKey(id)
		case KHmac:
			return ks.GenerateHmacKey(id)
		case KLog:
			return ks.GenerateLogKey()
		case KPoisonSym:
			return ks.GeneratePoisonSymmetricKey()
		}
	case OpSavePair:
		r.pending = map[int]int{o.K: o.Ord, o.K2: o.Ord2}
		switch KindOf(o.K) {
		case KStoragePriv:
			if o.ImportedPair {
				kp, err := keys.New(keys.TypeEC)
				if err != nil {
					return err
				}
				return ks.SaveDataEncryptionKeys(id, kp)
			}
			return ks.GenerateDataEncryptionKeys(id)
		case KPoisonPriv:
			return ks.GeneratePoisonKeyPair()
		}
	case OpDestroyPair:
		switch KindOf(o.K) {
		case KStoragePriv:
			return ks.DestroyClientIDEncryptionKeyPair(id)
		case KPoisonPriv:
			return ks.DestroyPoisonKeyPair()
		case KHmac:
			return ks.DestroyHmacSecretKey(id)
		}
	case OpDestroySym:
		switch KindOf(o.K) {
		case KStorageSym:
			return ks.DestroyClientIDSymmetricKey(id)
		case KPoisonSym:
			return ks.DestroyPoisonSymmetricKey()
		}
	case OpDestroyRot:
		switch KindOf(o.K) {
		case KStorageSym:
			return ks.DestroyRotatedClientIDSymmetricKey(id, o.Idx)
		case KHmac:
			return ks.DestroyRotatedHmacSecretKey(id, o.Idx)
		case KPoisonSym:
			return ks.DestroyRotatedPoisonSymmetricKey(o.Idx)
		}
	case OpDestroyRotPair:
		switch KindOf(o.K) {
		case KStoragePriv:
			return ks.DestroyRotatedClientIDEncryptionKeyPair(id, o.Idx)
		case KPoisonPriv:
			return ks.DestroyRotatedPoisonKeyPair(o.Idx)
		}
	}
	panic(fmt.Sprintf("vhv1: operation %+v has no keystore API", o))
}

// Run performs one operation with a fault armed: res 0 ok | 1 error; crashed = the process died
// (a new process = Reopen is needed before anything else is done).
func (r *Rig) Run(o Op, at, kind int) (res, calls int, crashed bool) {
	r.tmpNext = o.Rnd
	r.FS.Arm(at, kind)
	defer func() {
		calls = r.FS.Calls
		r.pending = nil
		r.FS.At, r.FS.Kind = -1, KNone
		if p := recover(); p != nil {
			if _, ok := p.(Crash); !ok {
				panic(p)
			}
			crashed = true
		}
	}()
	if err := r.do(o); err != nil {
		res = 1
	}
	return
}

// ---------- probe: what a fresh keystore object reads ----------

func (r *Rig) ordOfPlain(b []byte) int {
	if o, ok := r.plainOf[string(b)]; ok {
		return o
	}
	return -1
}

// ReadCur: (0, ordinal) | (1, 0) error | (2, 0) bytes that are no key the harness wrote.
func (r *Rig) ReadCur(k int) (int, int) {
	ks := r.KS
	var b []byte
	var err error
	switch KindOf(k) {
	case KStoragePriv:
		var p *keys.PrivateKey
		if p, err = ks.GetServerDecryptionPrivateKey(ID(k)); err == nil {
			b = p.Value
		}
	case KStoragePub:
		var p *keys.PublicKey
		if p, err = ks.GetClientIDEncryptionPublicKey(ID(k)); err == nil {
			b = p.Value
		}
	case KStorageSym:
		b, err = ks.GetClientIDSymmetricKey(ID(k))
	case KHmac:
		b, err = ks.GetHMACSecretKey(ID(k))
	case KLog:
		b, err = ks.GetLogSecretKey()
	case KPoisonPriv, KPoisonPub:
		var kp *keys.Keypair
		if kp, err = ks.GetPoisonKeyPair(); err == nil {
			if KindOf(k) == KPoisonPriv {
				b = kp.Private.Value
			} else {
				b = kp.Public.Value
			}
		}
	case KPoisonSym:
		b, err = ks.GetPoisonSymmetricKey()
	}
	if err != nil {
		return 1, 0
	}
	if o := r.ordOfPlain(b); o > 0 {
		return 0, o
	}
	return 2, 0
}

// HasAll tells whether the keystore has an "all versions" reader for this kind of key.
func HasAll(k int) bool {
	switch KindOf(k) {
	case KStoragePriv, KStorageSym, KPoisonPriv, KPoisonSym:
		return true
	}
	return false
}

// ReadAll: newest first; code 0 ok | 1 error | 2 unknown bytes.
func (r *Rig) ReadAll(k int) (int, []int) {
	ks := r.KS
	var bs [][]byte
	var err error
	priv := func(ps []*keys.PrivateKey, e error) {
		err = e
		for _, p := range ps {
			bs = append(bs, p.Value)
		}
	}
	switch KindOf(k) {
	case KStoragePriv:
		priv(ks.GetServerDecryptionPrivateKeys(ID(k)))
	case KStorageSym:
		bs, err = ks.GetClientIDSymmetricKeys(ID(k))
	case KPoisonPriv:
		priv(ks.GetPoisonPrivateKeys())
	case KPoisonSym:
		bs, err = ks.GetPoisonSymmetricKeys()
	}
	if err != nil {
		return 1, nil
	}
	var ords []int
	for _, b := range bs {
		o := r.ordOfPlain(b)
		if o <= 0 {
			return 2, nil
		}
		ords = append(ords, o)
	}
	return 0, ords
}

// keyOfDescription maps a ListKeys entry back to a key number (-1: none of the universe).
func keyOfDescription(d keystore.KeyDescription) int {
	for _, k := range Universe {
		if filepath.Base(KeyFile(k)) == d.KeyID {
			return k
		}
	}
	return -1
}

type ProbeResult struct {
	Cur      map[int][2]int
	All      map[int][]int // nil entry with AllCode
	AllCode  map[int]int
	ListErr  error
	Listed   []int
	RotErr   error
	Rotated  int
	CacheErr error
}

// Probe runs on a FRESH keystore object (call Reopen first); no fault is armed.
func (r *Rig) Probe() *ProbeResult {
	p := &ProbeResult{Cur: map[int][2]int{}, All: map[int][]int{}, AllCode: map[int]int{}}
	for _, k := range Universe {
		c, o := r.ReadCur(k)
		p.Cur[k] = [2]int{c, o}
		if HasAll(k) {
			p.AllCode[k], p.All[k] = r.ReadAll(k)
		} else {
			p.AllCode[k] = 9
		}
		r.KS.Reset()
	}
	descs, err := r.KS.ListKeys()
	p.ListErr = err
	for _, d := range descs {
		p.Listed = append(p.Listed, keyOfDescription(d))
	}
	sort.Ints(p.Listed)
	rot, err := r.KS.ListRotatedKeys()
	p.RotErr, p.Rotated = err, len(rot)
	r.KS.Reset()
	p.CacheErr = r.KS.CacheOnStart()
	r.KS.Reset()
	return p
}

// Encode = Model.RunKeystoreWriteV1.enc_probe.
func (p *ProbeResult) Encode() []byte {
	e := &Enc{}
	for _, k := range Universe {
		c := p.Cur[k]
		e.N(c[0])
		if c[0] == 0 {
			e.N(c[1])
		}
		e.N(p.AllCode[k])
		if p.AllCode[k] == 0 {
			e.N(len(p.All[k]))
			for _, o := range p.All[k] {
				e.N(o)
			}
		}
	}
	if p.ListErr != nil {
		e.N(1)
	} else {
		e.N(0).N(len(p.Listed))
		for _, k := range p.Listed {
			e.N(k)
		}
	}
	if p.RotErr != nil {
		e.N(1)
	} else {
		e.N(0).N(p.Rotated)
	}
	e.N(b2i(p.CacheErr != nil))
	return e.Bytes()
}
