// Package vhv1: helpers of the C08_v1 domain (keystore v1 crash/fault safety).
//
// FaultFS wraps an in-memory implementation of acra's keystore/filesystem.Storage (vh.MemFS) and
// injects ONE fault at the Storage call with a given index: the call returns an I/O error without
// being performed, the process dies just before / just after it, or a write (WriteFile, Copy,
// TempFile: the calls which create NEW file content) is cut, leaving a strict prefix, with the
// process dying or the call reporting an error.  Nothing ever touches the real file system.
package vhv1

import (
	"errors"
	"fmt"
	"os"
	"path/filepath"

	"acra-vh/vh"
)

// Fault kinds (same order as Model.KeystoreWrite.fkind).
const (
	KNone = iota
	KErr
	KCrashBefore
	KCrashAfter
	KTorn
	KErrTorn
)

var KindNames = []string{"none", "KErr", "KCrashBefore", "KCrashAfter", "KTorn", "KErrTorn"}

// ErrInjected is the injected I/O error (it is NOT an os.IsNotExist error).
var ErrInjected = errors.New("injected I/O error")

// ErrNoLinks is what Link returns on a storage without hard links (as acra's Redis storage does).
var ErrNoLinks = errors.New("operation not supported")

// Crash is the panic value standing for the death of the process.
type Crash struct{}

var errDead = errors.New("process is dead")

type FaultFS struct {
	Inner   *vh.MemFS
	NoLinks bool // the storage does not support hard links: Link always fails, Copy is used
	Calls   int  // Storage calls made through this wrapper since Arm/Disarm
	At      int  // index of the call to fault (-1: none)
	Kind    int
	Trace   []string
	dead    bool
	tmpSeq  int
	// OnData is told every content handed to WriteFile (before any fault), with the path.
	OnData func(path string, data []byte)
	// OnTorn is told every strict prefix left by a cut write, with the content it was cut from.
	OnTorn func(prefix, whole []byte)
	// NextTmp (optional) chooses the decimal suffix of the next temporary file.
	NextTmp func() string
}

func New(inner *vh.MemFS) *FaultFS { return &FaultFS{Inner: inner, At: -1} }

// Arm resets the call counter and arms a fault (kind KNone: none).
func (f *FaultFS) Arm(at, kind int) {
	f.Calls, f.Trace, f.dead = 0, nil, false
	f.At, f.Kind = -1, KNone
	if kind != KNone {
		f.At, f.Kind = at, kind
	}
}

// Revive stands for the start of a new process on the same storage.
func (f *FaultFS) Revive() { f.Arm(0, KNone) }

func (f *FaultFS) gate(name string) int {
	i := f.Calls
	f.Calls++
	f.Trace = append(f.Trace, name)
	if i == f.At {
		return f.Kind
	}
	return KNone
}

func (f *FaultFS) crash() { f.dead = true; panic(Crash{}) }

// simple: a call which creates no new file content: torn = crash before / plain error.
func (f *FaultFS) simple(name string, act func() error) error {
	if f.dead {
		return errDead
	}
	switch f.gate(name) {
	case KErr, KErrTorn:
		return ErrInjected
	case KCrashBefore, KTorn:
		f.crash()
	case KCrashAfter:
		act()
		f.crash()
	}
	return act()
}

func (f *FaultFS) Stat(path string) (fi os.FileInfo, err error) {
	err = f.simple("Stat", func() (e error) { fi, e = f.Inner.Stat(path); return })
	if err != nil {
		fi = nil
	}
	return
}

func (f *FaultFS) Exists(path string) (ok bool, err error) {
	err = f.simple("Exists", func() (e error) { ok, e = f.Inner.Exists(path); return })
	return ok && err == nil, err
}

func (f *FaultFS) ReadDir(path string) (fis []os.FileInfo, err error) {
	err = f.simple("ReadDir", func() (e error) { fis, e = f.Inner.ReadDir(path); return })
	if err != nil {
		fis = nil
	}
	return
}

func (f *FaultFS) MkdirAll(path string, perm os.FileMode) error {
	return f.simple("MkdirAll", func() error { return f.Inner.MkdirAll(path, perm) })
}

func (f *FaultFS) Rename(oldpath, newpath string) error {
	return f.simple("Rename", func() error { return f.Inner.Rename(oldpath, newpath) })
}

func (f *FaultFS) Link(oldpath, newpath string) error {
	return f.simple("Link", func() error {
		if f.NoLinks {
			return ErrNoLinks
		}
		return f.Inner.Link(oldpath, newpath)
	})
}

func (f *FaultFS) Remove(path string) error {
	return f.simple("Remove", func() error { return f.Inner.Remove(path) })
}

func (f *FaultFS) RemoveAll(path string) error {
	return f.simple("RemoveAll", func() error { return f.Inner.RemoveAll(path) })
}

func (f *FaultFS) ReadFile(path string) (b []byte, err error) {
	err = f.simple("ReadFile", func() (e error) { b, e = f.Inner.ReadFile(path); return })
	if err != nil {
		b = nil
	}
	return
}

// TempFile names the file "<pattern><decimal digits>" as ioutil.TempFile and acra's Redis storage do.
// A cut TempFile leaves the (empty) file behind.
func (f *FaultFS) TempFile(pattern string, perm os.FileMode) (string, error) {
	if f.dead {
		return "", errDead
	}
	create := func() (string, error) {
		if _, err := f.Inner.Stat(filepath.Dir(pattern)); err != nil {
			return "", err
		}
		for i := 0; i < 10000; i++ {
			var sfx string
			if f.NextTmp != nil {
				sfx = f.NextTmp()
			} else {
				f.tmpSeq++
				sfx = fmt.Sprintf("%09d", 100000000+f.tmpSeq)
			}
			name := pattern + sfx
			if ok, _ := f.Inner.Exists(name); ok {
				continue
			}
			if err := f.Inner.WriteFile(name, nil, perm); err != nil {
				return "", err
			}
			return name, nil
		}
		return "", errors.New("failed to create temporary file")
	}
	switch f.gate("TempFile") {
	case KErr:
		return "", ErrInjected
	case KCrashBefore:
		f.crash()
	case KCrashAfter, KTorn:
		create()
		f.crash()
	case KErrTorn:
		create()
		return "", ErrInjected
	}
	return create()
}

func (f *FaultFS) TempDir(pattern string, perm os.FileMode) (string, error) {
	return "", errors.New("vhv1: TempDir is not used by the keystore")
}

func cut(data []byte) []byte {
	if len(data) < 2 {
		return []byte{}
	}
	return append([]byte{}, data[:len(data)/2]...)
}

// WriteFile: a cut write leaves a strict prefix of the data in the file.
func (f *FaultFS) WriteFile(path string, data []byte, perm os.FileMode) error {
	if f.dead {
		return errDead
	}
	if f.OnData != nil {
		f.OnData(path, data)
	}
	torn := func() {
		p := cut(data)
		if f.OnTorn != nil {
			f.OnTorn(p, data)
		}
		f.Inner.WriteFile(path, p, perm)
	}
	switch f.gate("WriteFile") {
	case KErr:
		return ErrInjected
	case KCrashBefore:
		f.crash()
	case KCrashAfter:
		f.Inner.WriteFile(path, data, perm)
		f.crash()
	case KTorn:
		torn()
		f.crash()
	case KErrTorn:
		torn()
		return ErrInjected
	}
	return f.Inner.WriteFile(path, data, perm)
}

// Copy: a cut copy leaves a strict prefix of the source in the NEW destination file (nothing if the
// copy could not have started: no source, or the destination exists).
func (f *FaultFS) Copy(src, dst string) error {
	if f.dead {
		return errDead
	}
	torn := func() {
		data, err := f.Inner.ReadFile(src)
		if err != nil {
			return
		}
		if ok, _ := f.Inner.Exists(dst); ok {
			return
		}
		p := cut(data)
		if f.OnTorn != nil {
			f.OnTorn(p, data)
		}
		f.Inner.WriteFile(dst, p, 0o600)
	}
	switch f.gate("Copy") {
	case KErr:
		return ErrInjected
	case KCrashBefore:
		f.crash()
	case KCrashAfter:
		f.Inner.Copy(src, dst)
		f.crash()
	case KTorn:
		torn()
		f.crash()
	case KErrTorn:
		torn()
		return ErrInjected
	}
	return f.Inner.Copy(src, dst)
}
