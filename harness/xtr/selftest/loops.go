// Package selftest: NOT acra code.  Three small functions that exercise the loop forms of the translator
// (harness/xtr/ext.go) for which acra has no free-standing pure target yet (its counted and scanner loops
// live in methods with callbacks / structs / runes).  The same source is compiled into acra-vh (domain
// c14trans runs it) and translated into Gen/Trans.v (embedded in package xtr), so the `T` replay checks the
// translation of counted loops, fuelled scanner loops, break / continue and make + copy against the Go compiler.
package selftest

import "errors"

// ErrSelftestBad is returned for a malformed record list
var ErrSelftestBad = errors.New("selftest: bad record")

// SumWindow adds the bytes data[from:to] (counted loop, index expression that can panic)
func SumWindow(data []byte, from int, to int) uint32 {
	var sum uint32
	for i := from; i < to; i++ {
		sum += uint32(data[i])
	}
	return sum
}

// ScanRecords walks records <len byte><len bytes> and returns their number and the total payload length;
// a zero length byte ends the list (break), 0xff is a padding byte (continue)
func ScanRecords(data []byte) (int, int, error) {
	index := 0
	count := 0
	total := 0
	for {
		if index >= len(data) {
			break
		}
		l := int(data[index])
		if l == 0 {
			break
		}
		if l == 255 {
			index++
			continue
		}
		if index+1+l > len(data) {
			return 0, 0, ErrSelftestBad
		}
		count++
		total += l
		index += 1 + l
	}
	return count, total, nil
}

// PadCopy returns n bytes: src (truncated) followed by zeros (make + copy)
func PadCopy(src []byte, n int) []byte {
	out := make([]byte, n)
	copy(out, src)
	return out
}
