package xtr

import (
	_ "embed"
	"os"
	"path/filepath"
)

// the source of harness/xtr/selftest (translator self-test, not acra code), as compiled into this binary
//
//go:embed selftest/loops.go
var selftestSrc []byte

// SelftestPkg is the Target.Pkg value that names the embedded self-test package
const SelftestPkg = "@selftest"

func selftestDir() (string, error) {
	d, err := os.MkdirTemp("", "xtr-selftest")
	if err != nil {
		return "", err
	}
	return d, os.WriteFile(filepath.Join(d, "loops.go"), selftestSrc, 0o644)
}
