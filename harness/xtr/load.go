// Package xtr: a small Go -> Gallina translator for pure, attacker-facing functions of acra.
// load.go: parse + type-check the acra packages that contain the targets (go/parser, go/types).
package xtr

import (
	"fmt"
	"go/ast"
	"go/build"
	"go/importer"
	"go/parser"
	"go/token"
	"go/types"
	"os"
	"path/filepath"
	"strings"
)

const acraPrefix = "github.com/cossacklabs/acra/"

// imports that are type-checked for real (from source); every other import is replaced by an
// empty package.  Type errors that this causes OUTSIDE the translated bodies are ignored, a type
// error INSIDE a translated body is fatal (see Translate), so a too short list is detected.
var realImports = map[string]bool{
	"bytes": true, "encoding/binary": true, "errors": true, "io": true, "encoding/asn1": true,
	acraPrefix + "acrastruct":     true,
	acraPrefix + "decryptor/base": true,
	acraPrefix + "keystore/v2/keystore/asn1": true,
}

type typeErr struct {
	pos token.Pos
	msg string
}

type pkgInfo struct {
	path  string
	dir   string
	pkg   *types.Package
	files []*ast.File
	info  *types.Info
	errs  []typeErr
}

type loader struct {
	fset *token.FileSet
	std  types.Importer
	repo string
	pk   map[string]*types.Package
	pi   map[string]*pkgInfo
}

func newLoader(repo string) *loader {
	fset := token.NewFileSet()
	return &loader{fset: fset, std: importer.ForCompiler(fset, "source", nil), repo: repo,
		pk: map[string]*types.Package{}, pi: map[string]*pkgInfo{}}
}

func (l *loader) Import(path string) (*types.Package, error) {
	if p, ok := l.pk[path]; ok {
		return p, nil
	}
	if realImports[path] {
		if strings.HasPrefix(path, acraPrefix) {
			pi, err := l.load(path[len(acraPrefix):])
			if err != nil {
				return nil, err
			}
			return pi.pkg, nil
		}
		p, err := l.std.Import(path)
		if err != nil {
			return nil, fmt.Errorf("xtr: cannot import %s from source: %v", path, err)
		}
		l.pk[path] = p
		return p, nil
	}
	p := types.NewPackage(path, filepath.Base(path))
	p.MarkComplete()
	l.pk[path] = p
	return p, nil
}

// load parses and type-checks the package in <repo>/<rel> (build tag verif off: hooks are not part of the code)
func (l *loader) load(rel string) (*pkgInfo, error) {
	path := acraPrefix + rel
	if pi, ok := l.pi[path]; ok {
		return pi, nil
	}
	dir := filepath.Join(l.repo, rel)
	if rel == SelftestPkg { // the translator's own self-test package (harness/xtr/selftest), not acra code
		d, err := selftestDir()
		if err != nil {
			return nil, err
		}
		defer os.RemoveAll(d)
		dir = d
		path = "acra-vh/xtr/selftest"
		if pi, ok := l.pi[path]; ok {
			return pi, nil
		}
	}
	ctx := build.Default
	bp, err := ctx.ImportDir(dir, 0)
	if err != nil {
		return nil, fmt.Errorf("xtr: %s: %v", dir, err)
	}
	pi := &pkgInfo{path: path, dir: dir}
	for _, f := range bp.GoFiles {
		af, err := parser.ParseFile(l.fset, filepath.Join(dir, f), nil, parser.ParseComments)
		if err != nil {
			return nil, fmt.Errorf("xtr: %v", err)
		}
		pi.files = append(pi.files, af)
	}
	pi.info = &types.Info{
		Types:      map[ast.Expr]types.TypeAndValue{},
		Defs:       map[*ast.Ident]types.Object{},
		Uses:       map[*ast.Ident]types.Object{},
		Selections: map[*ast.SelectorExpr]*types.Selection{},
	}
	cfg := types.Config{Importer: l, FakeImportC: true, Error: func(err error) {
		if te, ok := err.(types.Error); ok {
			pi.errs = append(pi.errs, typeErr{te.Pos, te.Msg})
		}
	}}
	pi.pkg, _ = cfg.Check(path, l.fset, pi.files, pi.info)
	if pi.pkg == nil {
		return nil, fmt.Errorf("xtr: type check of %s produced no package", path)
	}
	l.pk[path] = pi.pkg
	l.pi[path] = pi
	return pi, nil
}

// findFunc: "Name" or "Recv.Name"
func (pi *pkgInfo) findFunc(name string) *ast.FuncDecl {
	recv, fn := "", name
	if i := strings.Index(name, "."); i >= 0 {
		recv, fn = name[:i], name[i+1:]
	}
	for _, f := range pi.files {
		for _, d := range f.Decls {
			fd, ok := d.(*ast.FuncDecl)
			if !ok || fd.Name.Name != fn {
				continue
			}
			r := ""
			if fd.Recv != nil && len(fd.Recv.List) == 1 {
				switch t := fd.Recv.List[0].Type.(type) {
				case *ast.Ident:
					r = t.Name
				case *ast.StarExpr:
					if id, ok := t.X.(*ast.Ident); ok {
						r = "*" + id.Name
					}
				}
			}
			if r == recv {
				return fd
			}
		}
	}
	return nil
}

// findVarSpec returns the declaration `var name = <expr>` of a package-level variable
func (pi *pkgInfo) findVarInit(name string) ast.Expr {
	for _, f := range pi.files {
		for _, d := range f.Decls {
			gd, ok := d.(*ast.GenDecl)
			if !ok || gd.Tok != token.VAR {
				continue
			}
			for _, s := range gd.Specs {
				vs := s.(*ast.ValueSpec)
				for i, n := range vs.Names {
					if n.Name == name && len(vs.Values) == len(vs.Names) {
						return vs.Values[i]
					}
				}
			}
		}
	}
	return nil
}

// mutated reports whether the package-level variable obj is written anywhere in its package
// (assignment to it or to an element, ++/--, delete, address taken, append to itself, copy into it)
func (pi *pkgInfo) mutated(obj types.Object) (bool, string) {
	root := func(e ast.Expr) types.Object {
		for {
			switch x := e.(type) {
			case *ast.IndexExpr:
				e = x.X
			case *ast.SliceExpr:
				e = x.X
			case *ast.ParenExpr:
				e = x.X
			case *ast.Ident:
				return pi.info.Uses[x]
			default:
				return nil
			}
		}
	}
	found, where := false, ""
	hit := func(n ast.Node) { found = true; where = pi.infoPos(n) }
	for _, f := range pi.files {
		ast.Inspect(f, func(n ast.Node) bool {
			switch s := n.(type) {
			case *ast.AssignStmt:
				for _, lh := range s.Lhs {
					if root(lh) == obj {
						hit(s)
					}
				}
			case *ast.IncDecStmt:
				if root(s.X) == obj {
					hit(s)
				}
			case *ast.UnaryExpr:
				if s.Op == token.AND && root(s.X) == obj {
					hit(s)
				}
			case *ast.CallExpr:
				if id, ok := s.Fun.(*ast.Ident); ok && (id.Name == "delete" || id.Name == "copy" || id.Name == "clear") && len(s.Args) > 0 && root(s.Args[0]) == obj {
					if _, isB := pi.info.Uses[id].(*types.Builtin); isB {
						hit(s)
					}
				}
			}
			return true
		})
	}
	return found, where
}

func (pi *pkgInfo) infoPos(n ast.Node) string { return fmt.Sprint(n.Pos()) }
