// ext.go (work package xtr2): append / make / copy, `x == nil` on slice parameters, and loops.
//
//	append   `v = append(v, e..)`, `v = append(v, s...)`, `return append(v, ..)` where the first argument is
//	         OWNED: a composite literal, or a local variable whose every assignment in the function is from
//	         make / nil / a literal / append(v, ..) of itself (so nothing else can share its backing array and
//	         the functional reading `v ++ ..` is exact).  Anything else: error.
//	make     make([]byte, n) / make([]byte, n, c): Lib/GoSlice.gmake (Panic for a negative or absurd size,
//	         Panic for n > c), value = n zero bytes.
//	copy     copy(v, src) as a statement, v owned and made by make, v used nowhere except in len(v), copy(v, ..)
//	         and return: v := gcopy v src.
//	nil      `p == nil` / `p != nil` for a []byte PARAMETER that is never assigned: the definition gets an extra
//	         bool parameter `v_p__nil` in front of `v_p` (Go invariant: nil implies length 0).  Other nil
//	         comparisons on slices: error (a nil and an empty slice are the same value in the model).
//	loops    `for _, x := range s` / `for i, x := range s` over a []byte: structural recursion over the list;
//	         `for i := a; i < b; i++` with i and b not assigned in the body: structural recursion over
//	         Z.to_nat (b - a); every other `for cond { }` / `for { }`: recursion on fuel with
//	         Err E_OUT_OF_FUEL.  break / continue (unlabelled), return inside the body are supported; the
//	         loop state is the tuple of outer variables assigned in the body.
package xtr

import (
	"fmt"
	"go/ast"
	"go/token"
	"go/types"
	"strings"
)

func (f *fn) resCoq() string {
	var rts []string
	for _, r := range f.resT {
		rts = append(rts, r.coq())
	}
	if len(rts) == 0 {
		return "res (unit)"
	}
	return "res (" + strings.Join(rts, " * ") + ")"
}

// ---------- nil ----------
func (f *fn) nilTest(x *ast.BinaryExpr) (string, bool) {
	if x.Op != token.EQL && x.Op != token.NEQ {
		return "", false
	}
	var other ast.Expr
	switch {
	case isNilIdent(f, x.Y):
		other = x.X
	case isNilIdent(f, x.X):
		other = x.Y
	default:
		return "", false
	}
	id, ok := other.(*ast.Ident)
	if !ok {
		f.fail(x, "comparison of a slice expression with nil (only a parameter can be compared)")
	}
	o := f.pi.info.Uses[id]
	if o == nil || f.gtypeOf(id, o.Type()).k != gBytes {
		return "", false // error variables are handled by the call patterns
	}
	if !f.paramSet[o] {
		f.fail(x, "comparison of the local slice %s with nil (nil and empty are the same value in the model)", id.Name)
	}
	for _, v := range f.assignedOuter([]ast.Node{f.fd.Body}) {
		if v == o {
			f.fail(x, "parameter %s is compared with nil and assigned in the body", id.Name)
		}
	}
	g, ok := f.ghostNil[o]
	if !ok {
		g = f.nameOf(o) + "__nil"
		f.used[g] = true
		f.ghostNil[o] = g
	}
	if x.Op == token.NEQ {
		return "(negb " + g + ")", true
	}
	return g, true
}

// ---------- ownership ----------
func (f *fn) isBuiltin(e ast.Expr, name string) bool {
	id, ok := e.(*ast.Ident)
	if !ok || id.Name != name {
		return false
	}
	_, isB := f.pi.info.Uses[id].(*types.Builtin)
	return isB
}

// freshRhs: an expression whose value shares no backing array with anything else (self = the variable assigned)
func (f *fn) freshRhs(e ast.Expr, self types.Object) bool {
	switch x := e.(type) {
	case *ast.ParenExpr:
		return f.freshRhs(x.X, self)
	case *ast.CompositeLit:
		return true
	case *ast.Ident:
		return isNilIdent(f, x)
	case *ast.CallExpr:
		if f.isBuiltin(x.Fun, "make") {
			return true
		}
		if f.isBuiltin(x.Fun, "append") && len(x.Args) > 0 {
			if id, ok := x.Args[0].(*ast.Ident); ok && f.pi.info.Uses[id] == self {
				return true
			}
			if _, ok := x.Args[0].(*ast.CompositeLit); ok {
				return true
			}
		}
	}
	return false
}

// owned: local variable (not a parameter) all of whose assignments are fresh
func (f *fn) owned(o types.Object) bool {
	if o == nil || f.paramSet[o] {
		return false
	}
	ok := true
	ast.Inspect(f.fd.Body, func(n ast.Node) bool {
		switch s := n.(type) {
		case *ast.AssignStmt:
			for i, l := range s.Lhs {
				id, isId := l.(*ast.Ident)
				if !isId {
					continue
				}
				lo := f.pi.info.Defs[id]
				if lo == nil {
					lo = f.pi.info.Uses[id]
				}
				if lo != o {
					continue
				}
				if len(s.Lhs) != len(s.Rhs) || !f.freshRhs(s.Rhs[i], o) {
					ok = false
				}
			}
		case *ast.ValueSpec:
			for i, id := range s.Names {
				if f.pi.info.Defs[id] == o && len(s.Values) > 0 {
					if len(s.Values) != len(s.Names) || !f.freshRhs(s.Values[i], o) {
						ok = false
					}
				}
			}
		case *ast.RangeStmt:
			for _, e := range []ast.Expr{s.Key, s.Value} {
				if id, isId := e.(*ast.Ident); isId && (f.pi.info.Defs[id] == o || f.pi.info.Uses[id] == o) {
					ok = false
				}
			}
		case *ast.UnaryExpr:
			if id, isId := s.X.(*ast.Ident); isId && s.Op == token.AND && f.pi.info.Uses[id] == o {
				ok = false
			}
		}
		return true
	})
	return ok
}

// ---------- append / make / copy ----------
func (f *fn) appendCall(c *ast.CallExpr) ex {
	if len(c.Args) < 1 {
		f.fail(c, "append arity")
	}
	switch a0 := c.Args[0].(type) {
	case *ast.CompositeLit:
	case *ast.Ident:
		if !f.owned(f.pi.info.Uses[a0]) {
			f.fail(c, "append to %s, which is not a local variable assigned only from make / nil / literals / append of itself (the backing array could be shared)", a0.Name)
		}
	default:
		f.fail(c, "append to an expression that is not a local variable or a literal")
	}
	base := f.expr(c.Args[0])
	if base.ty.k != gBytes {
		f.fail(c, "append to %v", base.ty)
	}
	bs := base.binds
	if c.Ellipsis.IsValid() {
		if len(c.Args) != 2 {
			f.fail(c, "append arity")
		}
		r := f.expr(c.Args[1])
		if r.ty.k != gBytes {
			f.fail(c, "append of %v...", r.ty)
		}
		return ex{append(bs, r.binds...), "(" + base.term + " ++ " + r.term + ")", base.ty}
	}
	var els []string
	for _, a := range c.Args[1:] {
		r := f.expr(a)
		if r.ty.k != gByte {
			f.fail(a, "append of an element of type %v", r.ty)
		}
		bs = append(bs, r.binds...)
		els = append(els, r.term)
	}
	return ex{bs, "(" + base.term + " ++ [" + strings.Join(els, "; ") + "])", base.ty}
}

func (f *fn) makeCall(c *ast.CallExpr) ex {
	if len(c.Args) < 2 || len(c.Args) > 3 {
		f.fail(c, "make arity (a length is required)")
	}
	ty := f.gtypeOf(c, f.typeOf(c))
	if ty.k != gBytes {
		f.fail(c, "make of %s", f.typeOf(c))
	}
	n := f.expr(c.Args[1])
	bs := n.binds
	nz := f.asZ(c.Args[1], n)
	t := f.fresh()
	bs = append(bs, bind{t, "gmake " + nz})
	if len(c.Args) == 3 {
		cp := f.expr(c.Args[2])
		bs = append(bs, cp.binds...)
		cz := f.asZ(c.Args[2], cp)
		bs = append(bs, bind{"_", "gmake " + cz})
		bs = append(bs, bind{"_", "(if (" + nz + " <=? " + cz + ")%Z then Ok tt else Panic)"})
	}
	return ex{bs, "(repeat x00 " + t + ")", ty}
}

// copy(v, src): v owned, made by make, and used only in len(v), copy(v, ..) and return statements
func (f *fn) copyStmt(c *ast.CallExpr) string {
	if len(c.Args) != 2 {
		f.fail(c, "copy arity")
	}
	id, ok := c.Args[0].(*ast.Ident)
	if !ok {
		f.fail(c, "copy into an expression that is not a local variable")
	}
	o := f.pi.info.Uses[id]
	if !f.owned(o) {
		f.fail(c, "copy into %s, which is not a local variable assigned only from make / nil / literals", id.Name)
	}
	// every use of v: len(v), copy(v, ..), return v, assignment target
	okUse := map[*ast.Ident]bool{}
	ast.Inspect(f.fd.Body, func(n ast.Node) bool {
		switch s := n.(type) {
		case *ast.CallExpr:
			if (f.isBuiltin(s.Fun, "len") || f.isBuiltin(s.Fun, "copy")) && len(s.Args) > 0 {
				if a, isId := s.Args[0].(*ast.Ident); isId {
					okUse[a] = true
				}
			}
		case *ast.ReturnStmt:
			for _, r := range s.Results {
				if a, isId := r.(*ast.Ident); isId {
					okUse[a] = true
				}
			}
		case *ast.AssignStmt:
			for _, l := range s.Lhs {
				if a, isId := l.(*ast.Ident); isId {
					okUse[a] = true
				}
			}
		}
		return true
	})
	bad := false
	ast.Inspect(f.fd.Body, func(n ast.Node) bool {
		if a, isId := n.(*ast.Ident); isId && f.pi.info.Uses[a] == o && !okUse[a] {
			bad = true
		}
		return true
	})
	if bad {
		f.fail(c, "copy into %s, which is also sliced / appended / passed on (an alias could observe the copy)", id.Name)
	}
	src := f.expr(c.Args[1])
	if src.ty.k != gBytes {
		f.fail(c, "copy from %v", src.ty)
	}
	return f.seq2(src.binds, fmt.Sprintf("let %s := gcopy %s %s in\n", f.nameOf(o), f.nameOf(o), src.term))
}

// ---------- loops ----------
func (f *fn) stateOf(nodes []ast.Node, at ast.Node) ([]types.Object, string, string) {
	vars := f.assignedOuter(nodes)
	var params, args []string
	for _, v := range vars {
		ty := f.gtypeOf(at, v.Type())
		if ty.k == gErr {
			f.fail(at, "error variable %s assigned inside a loop", v.Name())
		}
		params = append(params, fmt.Sprintf("(%s : %s)", f.nameOf(v), ty.coq()))
		args = append(args, f.nameOf(v))
	}
	return vars, strings.Join(params, " "), strings.Join(args, " ")
}

func sp(s string) string {
	if s == "" {
		return ""
	}
	return " " + s
}

func containsObjUse(f *fn, n ast.Node, objs map[types.Object]bool) bool {
	hit := false
	ast.Inspect(n, func(m ast.Node) bool {
		if id, ok := m.(*ast.Ident); ok && objs[f.pi.info.Uses[id]] {
			hit = true
		}
		return true
	})
	return hit
}

// exitOf: the statements after the loop (inlined at the normal exit and at every break); an infinite loop
// without break at the end of the function has no exit
func (f *fn) exitOf(x *ast.ForStmt, rest []ast.Stmt, k kont) string {
	if x.Cond == nil && len(rest) == 0 && k.term == "" {
		return "Panic (* unreachable: for { } without break *)"
	}
	return f.block(rest, k)
}

func (f *fn) forStmt(x *ast.ForStmt, rest []ast.Stmt, k kont) string {
	pre := ""
	if x.Init != nil {
		as, ok := x.Init.(*ast.AssignStmt)
		if !ok {
			f.fail(x, "for with init statement %T", x.Init)
		}
		pre = f.assign(as)
	}
	var post []ast.Stmt
	nodes := []ast.Node{x.Body}
	if x.Post != nil {
		post = []ast.Stmt{x.Post}
		nodes = append(nodes, x.Post)
	}
	f.tmp++
	ln := f.tmp
	loop := fmt.Sprintf("loop__%d", ln)
	vars, params, args := f.stateOf(nodes, x)
	// counted loop: for i := a; i < B; i++ with i and the variables of B not assigned in the body
	counted, bound := false, ""
	var iObj types.Object
	if x.Cond != nil && x.Post != nil {
		if inc, ok := x.Post.(*ast.IncDecStmt); ok && inc.Tok == token.INC {
			if be, ok := x.Cond.(*ast.BinaryExpr); ok && be.Op == token.LSS {
				li, ok1 := be.X.(*ast.Ident)
				pi, ok2 := inc.X.(*ast.Ident)
				if ok1 && ok2 && f.pi.info.Uses[li] == f.pi.info.Uses[pi] {
					iObj = f.pi.info.Uses[li]
					inBody := map[types.Object]bool{}
					for _, v := range f.assignedOuter([]ast.Node{x.Body}) {
						inBody[v] = true
					}
					b := f.expr(be.Y)
					if !inBody[iObj] && f.gtypeOf(li, iObj.Type()) == (gtype{gInt, 64}) && b.ty == (gtype{gInt, 64}) &&
						len(b.binds) == 0 && !containsObjUse(f, be.Y, inBody) {
						counted, bound = true, b.term
					}
				}
			}
		}
	}
	callArgs := func(first string) string { return loop + " " + first + sp(args) }
	_ = vars
	var sb strings.Builder
	sb.WriteString(pre)
	if counted {
		cnt := fmt.Sprintf("n__%d", ln)
		contT := f.block(post, kont{callArgs(cnt + "'")})
		exitT := f.exitOf(x, rest, k)
		f.loops = append(f.loops, loopCtx{cont: contT, brk: exitT})
		bodyT := f.block(x.Body.List, kont{contT})
		f.loops = f.loops[:len(f.loops)-1]
		fmt.Fprintf(&sb, "(* counted loop: %s iterations *)\n(fix %s (%s : nat)%s {struct %s} : %s :=\n  match %s with\n  | O =>\n%s\n  | S %s' =>\n%s\n  end) (Z.to_nat (%s - %s))%s",
			"max 0 (bound - start)", loop, cnt, sp(params), cnt, f.resCoq(), cnt, indent(indent(exitT)), cnt, indent(indent(bodyT)), bound, f.nameOf(iObj), sp(args))
		return sb.String()
	}
	// general loop: fuel
	fuel := fmt.Sprintf("fuel__%d", ln)
	contT := f.block(post, kont{callArgs(fuel + "'")})
	exitT := f.exitOf(x, rest, k)
	f.loops = append(f.loops, loopCtx{cont: contT, brk: exitT})
	bodyT := f.block(x.Body.List, kont{contT})
	f.loops = f.loops[:len(f.loops)-1]
	step := bodyT
	if x.Cond != nil {
		c := f.expr(x.Cond)
		if c.ty.k != gBool {
			f.fail(x.Cond, "condition type")
		}
		step = f.seq2(c.binds, "if "+c.term+" then\n"+indent(bodyT)+"\nelse\n"+indent(exitT))
	}
	fuel0 := f.tg.Fuel
	if fuel0 == "" {
		fuel0 = "S (" + strings.Join(append([]string{"0"}, lenTerms(f.lenParams)...), " + ") + ")%nat"
	}
	fmt.Fprintf(&sb, "(* general loop: fuel, Err 99 = E_OUT_OF_FUEL is a model artefact *)\n(fix %s (%s : nat)%s {struct %s} : %s :=\n  match %s with\n  | O => Err 99%%N\n  | S %s' =>\n%s\n  end) (%s)%s",
		loop, fuel, sp(params), fuel, f.resCoq(), fuel, fuel, indent(indent(step)), fuel0, sp(args))
	return sb.String()
}

func lenTerms(ps []string) []string {
	var r []string
	for _, p := range ps {
		r = append(r, "length "+p)
	}
	return r
}

func (f *fn) rangeStmt(x *ast.RangeStmt, rest []ast.Stmt, k kont) string {
	if x.Tok != token.DEFINE && !(x.Key == nil && x.Value == nil) {
		f.fail(x, "range that assigns to existing variables")
	}
	s := f.expr(x.X)
	if s.ty.k != gBytes {
		f.fail(x, "range over %v", s.ty)
	}
	f.tmp++
	ln := f.tmp
	loop := fmt.Sprintf("loop__%d", ln)
	l := fmt.Sprintf("l__%d", ln)
	_, params, args := f.stateOf([]ast.Node{x.Body}, x)
	// key / value variables
	keyN, valN := "", "_"
	if id, ok := x.Key.(*ast.Ident); ok && id.Name != "_" {
		keyN = f.nameOf(f.pi.info.Defs[id])
	}
	if x.Value != nil {
		if id, ok := x.Value.(*ast.Ident); ok && id.Name != "_" {
			valN = f.nameOf(f.pi.info.Defs[id])
		}
	}
	// the key and value variables are per-iteration copies: assigning them in the body does not change the iteration
	idx := fmt.Sprintf("i__%d", ln)
	call := loop + " " + l + "'"
	keyParam, keyArg0 := "", ""
	if keyN != "" {
		call += " (" + idx + " + 1)%Z"
		keyParam = fmt.Sprintf(" (%s : Z)", idx)
		keyArg0 = " 0%Z"
	}
	contT := call + sp(args)
	exitT := f.block(rest, k)
	f.loops = append(f.loops, loopCtx{cont: contT, brk: exitT})
	bodyT := f.block(x.Body.List, kont{contT})
	f.loops = f.loops[:len(f.loops)-1]
	if keyN != "" {
		bodyT = fmt.Sprintf("let %s := %s in\n", keyN, idx) + bodyT
	}
	return f.seq2(s.binds, fmt.Sprintf("(* range loop: structural recursion over the slice *)\n(fix %s (%s : bytes)%s%s {struct %s} : %s :=\n  match %s with\n  | [] =>\n%s\n  | %s :: %s' =>\n%s\n  end) %s%s%s",
		loop, l, keyParam, sp(params), l, f.resCoq(), l, indent(indent(exitT)), valN, l, indent(indent(bodyT)), s.term, keyArg0, sp(args)))
}
