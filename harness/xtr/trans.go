// trans.go: the translation proper.  See the comment of Translate for the supported subset; anything
// else is an error (never an approximation).
package xtr

import (
	"fmt"
	"go/ast"
	"go/constant"
	"go/token"
	"go/types"
	"path/filepath"
	"sort"
	"strings"
)

// Target names one Go function to translate.
type Target struct {
	Fuel string            // optional: Gallina nat term over the parameter names (v_<param>) = fuel of general loops; default S (sum of the lengths of the []byte parameters)
	Pkg  string            // directory under the acra root, e.g. "decryptor/mysql/base"
	Func string            // "LengthEncodedInt" or "AcraBlock.getKeyEncryptionKeyID" (method: receiver type first)
	Name string            // name of the Gallina definition
	Errs map[string]uint64 // error variable ("ErrMalformPacket", "io.EOF") -> error class of Lib/Outcome.res
}

// ---------- Gallina types ----------
type gkind int

const (
	gInt   gkind = iota // signed, width bits: Z
	gUint               // unsigned, width bits (16/32/64): N
	gByte               // uint8: Coq byte
	gBool               //
	gBytes              // []byte: bytes
	gListN              // []uintN: list N
	gErr                // error
	gUnit
)

type gtype struct {
	k gkind
	w int
}

func (g gtype) coq() string {
	switch g.k {
	case gInt:
		return "Z"
	case gUint:
		return "N"
	case gByte:
		return "byte"
	case gBool:
		return "bool"
	case gBytes:
		return "bytes"
	case gListN:
		return "(list N)"
	case gUnit:
		return "unit"
	}
	return "?"
}

type fatal struct{ msg string }

type trans struct {
	l       *loader
	targets []Target
	done    map[string]*doneFn // key: pkgpath + "." + Func
	globals map[string]string  // key: pkgpath.Var -> Gallina name (already emitted)
	out     strings.Builder
}

type doneFn struct {
	name   string
	res    []gtype // results without the error
	hasErr bool
	ghost  bool // has a nil-sensitive slice parameter (extra bool argument): not callable from translated code
}

// per function
type fn struct {
	t       *trans
	pi      *pkgInfo
	tg      Target
	fd      *ast.FuncDecl
	names   map[types.Object]string
	used    map[string]bool
	tmp     int
	results []types.Object // named results (nil if unnamed)
	resT    []gtype        // without error
	hasErr  bool
	errNil  map[types.Object]bool   // error variables known to be nil
	errTerm map[types.Object]string // error variables bound to a Gallina error class
	joinVars map[string][]types.Object
	// xtr2 extensions
	ghostNil  map[types.Object]string // slice parameters compared with nil -> ghost bool parameter
	paramSet  map[types.Object]bool
	loops     []loopCtx
	lenParams []string // Gallina names of the []byte parameters (default fuel of a general loop)
}

// loopCtx: the Gallina terms `continue` and `break` stand for inside the innermost loop
type loopCtx struct{ cont, brk string }

func (f *fn) fail(n ast.Node, format string, a ...interface{}) {
	pos := f.t.l.fset.Position(n.Pos())
	panic(fatal{fmt.Sprintf("%s:%d:%d: %s.%s: unsupported: %s", filepath.Base(pos.Filename), pos.Line, pos.Column, f.tg.Pkg, f.tg.Func, fmt.Sprintf(format, a...))})
}

func (f *fn) gtypeOf(n ast.Node, t types.Type) gtype {
	switch u := t.Underlying().(type) {
	case *types.Basic:
		switch u.Kind() {
		case types.Int, types.Int64:
			return gtype{gInt, 64}
		case types.Int32:
			return gtype{gInt, 32}
		case types.Int16:
			return gtype{gInt, 16}
		case types.Int8:
			return gtype{gInt, 8}
		case types.Uint64, types.Uint:
			return gtype{gUint, 64}
		case types.Uint32:
			return gtype{gUint, 32}
		case types.Uint16:
			return gtype{gUint, 16}
		case types.Uint8:
			return gtype{gByte, 8}
		case types.Bool, types.UntypedBool:
			return gtype{gBool, 0}
		case types.UntypedNil:
			return gtype{gBytes, 0}
		}
	case *types.Slice:
		if b, ok := u.Elem().Underlying().(*types.Basic); ok {
			switch b.Kind() {
			case types.Uint8:
				return gtype{gBytes, 0}
			case types.Uint16:
				return gtype{gListN, 16}
			case types.Uint32:
				return gtype{gListN, 32}
			case types.Uint64:
				return gtype{gListN, 64}
			}
		}
	case *types.Interface:
		if t.String() == "error" {
			return gtype{gErr, 0}
		}
	}
	f.fail(n, "type %s", t)
	return gtype{}
}

func pow2(w int) string {
	switch w {
	case 8:
		return "256"
	case 16:
		return "65536"
	case 32:
		return "4294967296"
	case 64:
		return "18446744073709551616"
	}
	panic("width")
}

// ---------- expressions ----------
// An expression is translated to a list of monadic bindings (sub-expressions that can panic: index,
// slice, calls) and a pure term over the bound names.
type bind struct{ pat, term string }
type ex struct {
	binds []bind
	term  string
	ty    gtype
}

func (f *fn) fresh() string { f.tmp++; return fmt.Sprintf("t__%d", f.tmp) }

func (f *fn) typeOf(e ast.Expr) types.Type {
	tv, ok := f.pi.info.Types[e]
	if !ok || tv.Type == nil {
		f.fail(e, "expression without a type (type error in the body?)")
	}
	if b, ok := tv.Type.(*types.Basic); ok && b.Kind() == types.Invalid {
		f.fail(e, "expression of invalid type (an import that is not type-checked?)")
	}
	return tv.Type
}

func (f *fn) lit(n ast.Node, v constant.Value, ty gtype) string {
	if v.Kind() == constant.Unknown || (ty.k != gBool && constant.ToInt(v).Kind() != constant.Int) {
		f.fail(n, "constant whose value go/types could not compute (an import that is not type-checked?)")
	}
	switch ty.k {
	case gBool:
		if constant.BoolVal(v) {
			return "true"
		}
		return "false"
	case gInt:
		s := constant.ToInt(v).ExactString()
		if strings.HasPrefix(s, "-") {
			return "(" + s + ")%Z"
		}
		return s + "%Z"
	case gUint:
		return constant.ToInt(v).ExactString() + "%N"
	case gByte:
		return "(n2b " + constant.ToInt(v).ExactString() + "%N)"
	}
	f.fail(n, "constant of type %v", ty)
	return ""
}

// asN: numeric view (N) of an unsigned/byte term
func asN(e ex) string {
	if e.ty.k == gByte {
		if strings.HasPrefix(e.term, "(n2b ") && strings.HasSuffix(e.term, "%N)") { // literal
			return strings.TrimSuffix(strings.TrimPrefix(e.term, "(n2b "), ")")
		}
		return "(b2n " + e.term + ")"
	}
	return e.term
}

// asZ: a value used as slice/index bound (Go requires it to be representable as int: a uint64 above
// 2^63 is out of range for every slice, and so is the Z value here)
func (f *fn) asZ(n ast.Node, e ex) string {
	switch e.ty.k {
	case gInt:
		return e.term
	case gUint, gByte:
		return "(Z.of_N " + asN(e) + ")"
	}
	f.fail(n, "index of type %v", e.ty)
	return ""
}

func (f *fn) wrapS(w int, z string) string {
	if w == 64 {
		return "(wrap_int " + z + ")"
	}
	return fmt.Sprintf("(tr_wrap %d %s)", w, z)
}

// arithmetic on two terms of the same Go type ty
func (f *fn) binop(n ast.Node, op token.Token, a, b ex, ty gtype, shiftConst int64) string {
	switch ty.k {
	case gInt:
		switch op {
		case token.ADD:
			if ty.w == 64 {
				return "(int_add " + a.term + " " + b.term + ")"
			}
			return f.wrapS(ty.w, "("+a.term+" + "+b.term+")%Z")
		case token.SUB:
			return f.wrapS(ty.w, "("+a.term+" - "+b.term+")%Z")
		case token.MUL:
			return f.wrapS(ty.w, "("+a.term+" * "+b.term+")%Z")
		case token.SHL:
			return f.wrapS(ty.w, fmt.Sprintf("(Z.shiftl %s %d)", a.term, shiftConst))
		case token.SHR:
			return fmt.Sprintf("(Z.shiftr %s %d)", a.term, shiftConst)
		case token.AND:
			return "(Z.land " + a.term + " " + b.term + ")"
		case token.OR:
			return "(Z.lor " + a.term + " " + b.term + ")"
		case token.XOR:
			return "(Z.lxor " + a.term + " " + b.term + ")"
		}
	case gUint, gByte:
		x, y := asN(a), asN(b)
		m := pow2(ty.w)
		var r string
		switch op {
		case token.ADD:
			if ty.w == 64 {
				r = "(u64_add " + x + " " + y + ")"
			} else {
				r = "((" + x + " + " + y + ") mod " + m + ")%N"
			}
		case token.SUB:
			if ty.w == 64 {
				r = "(u64_sub " + x + " " + y + ")"
			} else {
				r = "((" + x + " + " + m + " - " + y + ") mod " + m + ")%N"
			}
		case token.MUL:
			r = "((" + x + " * " + y + ") mod " + m + ")%N"
		case token.SHL:
			r = fmt.Sprintf("(N.shiftl %s %d mod %s)%%N", x, shiftConst, m)
		case token.SHR:
			r = fmt.Sprintf("(N.shiftr %s %d)", x, shiftConst)
		case token.AND:
			r = "(N.land " + x + " " + y + ")"
		case token.OR:
			r = "(N.lor " + x + " " + y + ")"
		case token.XOR:
			r = "(N.lxor " + x + " " + y + ")"
		}
		if r != "" {
			if ty.k == gByte {
				return "(n2b " + r + ")"
			}
			return r
		}
	}
	f.fail(n, "operator %s on %v", op, ty)
	return ""
}

func (f *fn) cmp(n ast.Node, op token.Token, a, b ex) string {
	if a.ty.k != b.ty.k {
		f.fail(n, "comparison of %v with %v", a.ty, b.ty)
	}
	var x, y, sc string
	switch a.ty.k {
	case gInt:
		x, y, sc = a.term, b.term, "%Z"
	case gUint, gByte:
		x, y, sc = asN(a), asN(b), "%N"
	case gBool:
		switch op {
		case token.EQL:
			return "(Bool.eqb " + a.term + " " + b.term + ")"
		case token.NEQ:
			return "(negb (Bool.eqb " + a.term + " " + b.term + "))"
		}
		f.fail(n, "comparison %s on bool", op)
	default:
		f.fail(n, "comparison on %v (slices can only be compared with bytes.Equal)", a.ty)
	}
	switch op {
	case token.EQL:
		return "(" + x + " =? " + y + ")" + sc
	case token.NEQ:
		return "(negb (" + x + " =? " + y + ")" + sc + ")"
	case token.LSS:
		return "(" + x + " <? " + y + ")" + sc
	case token.LEQ:
		return "(" + x + " <=? " + y + ")" + sc
	case token.GTR:
		return "(" + y + " <? " + x + ")" + sc
	case token.GEQ:
		return "(" + y + " <=? " + x + ")" + sc
	}
	f.fail(n, "comparison %s", op)
	return ""
}

// conversion T(x) between integer types (Go spec: truncation to the width / sign reinterpretation)
func (f *fn) convert(n ast.Node, a ex, to gtype) string {
	from := a.ty
	if from == to {
		return a.term
	}
	switch {
	case from.k == gInt && to.k == gInt:
		if to.w >= from.w {
			return a.term
		}
		return f.wrapS(to.w, a.term)
	case from.k == gInt && (to.k == gUint || to.k == gByte):
		var r string
		if to.w == 64 {
			r = "(u64_of_int " + a.term + ")"
		} else {
			r = "(Z.to_N (" + a.term + " mod " + pow2(to.w) + ")%Z)"
		}
		if to.k == gByte {
			return "(n2b " + r + ")"
		}
		return r
	case (from.k == gUint || from.k == gByte) && to.k == gInt:
		x := asN(a)
		if from.w < to.w {
			return "(Z.of_N " + x + ")"
		}
		if to.w == 64 {
			return "(int_of_u64 " + x + ")"
		}
		return f.wrapS(to.w, "(Z.of_N "+x+")")
	case (from.k == gUint || from.k == gByte) && (to.k == gUint || to.k == gByte):
		x := asN(a)
		if to.k == gByte {
			return "(n2b " + x + ")" // n2b reduces mod 256
		}
		if to.w >= from.w {
			return x
		}
		return "(" + x + " mod " + pow2(to.w) + ")%N"
	case from.k == gBytes && to.k == gBytes, from.k == gListN && to.k == gListN && from.w == to.w:
		return a.term
	}
	f.fail(n, "conversion from %v to %v", from, to)
	return ""
}

func (f *fn) pkgOfIdent(id *ast.Ident) *types.PkgName {
	if pn, ok := f.pi.info.Uses[id].(*types.PkgName); ok {
		return pn
	}
	return nil
}

// qualified name "pkgpath.Name" of a called function / referenced variable, plus its object
func (f *fn) qualified(e ast.Expr) (string, types.Object) {
	switch x := e.(type) {
	case *ast.Ident:
		if o := f.pi.info.Uses[x]; o != nil && o.Pkg() != nil {
			return o.Pkg().Path() + "." + o.Name(), o
		}
	case *ast.SelectorExpr:
		if id, ok := x.X.(*ast.Ident); ok {
			if pn := f.pkgOfIdent(id); pn != nil {
				return pn.Imported().Path() + "." + x.Sel.Name, f.pi.info.Uses[x.Sel]
			}
		}
	}
	return "", nil
}

// the fixed library: Go function (by qualified syntactic name) -> Gallina function of Lib/
var prims = map[string]struct {
	coq   string
	args  []gkind
	res   gtype
	panic bool // the Gallina function returns res (the Go function indexes its argument)
}{
	"encoding/binary.LittleEndian.Uint64": {"le_u64", []gkind{gBytes}, gtype{gUint, 64}, true},
	"encoding/binary.LittleEndian.Uint32": {"tr_le_u32", []gkind{gBytes}, gtype{gUint, 32}, true},
	"encoding/binary.LittleEndian.Uint16": {"le_u16", []gkind{gBytes}, gtype{gUint, 16}, true},
	"encoding/binary.BigEndian.Uint64":    {"tr_be_u64", []gkind{gBytes}, gtype{gUint, 64}, true},
	"encoding/binary.BigEndian.Uint32":    {"tr_be_u32", []gkind{gBytes}, gtype{gUint, 32}, true},
	"encoding/binary.BigEndian.Uint16":    {"tr_be_u16", []gkind{gBytes}, gtype{gUint, 16}, true},
	"bytes.Equal":                         {"bytes_eqb", []gkind{gBytes, gBytes}, gtype{gBool, 0}, false},
	"bytes.HasPrefix":                     {"tr_has_prefix", []gkind{gBytes, gBytes}, gtype{gBool, 0}, false},
}

func (f *fn) primName(e ast.Expr) string {
	// binary.LittleEndian.Uint64 / bytes.Equal
	if s, ok := e.(*ast.SelectorExpr); ok {
		if s2, ok := s.X.(*ast.SelectorExpr); ok {
			if id, ok := s2.X.(*ast.Ident); ok {
				if pn := f.pkgOfIdent(id); pn != nil {
					return pn.Imported().Path() + "." + s2.Sel.Name + "." + s.Sel.Name
				}
			}
		}
		if id, ok := s.X.(*ast.Ident); ok {
			if pn := f.pkgOfIdent(id); pn != nil {
				return pn.Imported().Path() + "." + s.Sel.Name
			}
		}
	}
	return ""
}

func (f *fn) exprs(es []ast.Expr) ([]bind, []ex) {
	var bs []bind
	var rs []ex
	for _, e := range es {
		r := f.expr(e)
		bs = append(bs, r.binds...)
		rs = append(rs, r)
	}
	return bs, rs
}

func (f *fn) constOf(e ast.Expr) constant.Value {
	if tv, ok := f.pi.info.Types[e]; ok && tv.Value != nil {
		return tv.Value
	}
	return nil
}

func (f *fn) expr(e ast.Expr) ex {
	if p, ok := e.(*ast.ParenExpr); ok {
		return f.expr(p.X)
	}
	// any constant expression (go/types evaluates it, including references to package constants)
	if v := f.constOf(e); v != nil {
		ty := f.gtypeOf(e, f.typeOf(e))
		if ty.k == gInt || ty.k == gUint || ty.k == gByte || ty.k == gBool {
			return ex{nil, f.lit(e, v, ty), ty}
		}
		f.fail(e, "constant of type %s", f.typeOf(e))
	}
	switch x := e.(type) {
	case *ast.Ident:
		obj := f.pi.info.Uses[x]
		switch o := obj.(type) {
		case *types.Nil:
			ty := f.gtypeOf(e, f.typeOf(e))
			if ty.k == gBytes || ty.k == gListN {
				return ex{nil, "[]", ty} // a nil slice behaves as the empty slice for len/index/slice/append/bytes.Equal
			}
			f.fail(e, "nil of type %s", f.typeOf(e))
		case *types.Var:
			ty := f.gtypeOf(e, o.Type())
			if ty.k == gErr {
				f.fail(e, "error value used as an expression")
			}
			if n, ok := f.names[o]; ok {
				return ex{nil, n, ty}
			}
			if o.Parent() == o.Pkg().Scope() {
				return ex{nil, f.global(e, o.Pkg().Path(), o), ty}
			}
		}
		f.fail(e, "identifier %s", x.Name)
	case *ast.SelectorExpr:
		if q, o := f.qualified(x); q != "" {
			if v, ok := o.(*types.Var); ok {
				ty := f.gtypeOf(e, v.Type())
				if ty.k == gErr {
					f.fail(e, "error value used as an expression")
				}
				return ex{nil, f.global(e, v.Pkg().Path(), v), ty}
			}
		}
		f.fail(e, "selector %s", x.Sel.Name)
	case *ast.UnaryExpr:
		a := f.expr(x.X)
		switch {
		case x.Op == token.NOT && a.ty.k == gBool:
			return ex{a.binds, "(negb " + a.term + ")", a.ty}
		case x.Op == token.SUB && a.ty.k == gInt:
			return ex{a.binds, f.wrapS(a.ty.w, "(- "+a.term+")%Z"), a.ty}
		}
		f.fail(e, "unary %s", x.Op)
	case *ast.BinaryExpr:
		ty := f.gtypeOf(e, f.typeOf(e))
		switch x.Op {
		case token.LAND, token.LOR:
			a, b := f.expr(x.X), f.expr(x.Y)
			if len(b.binds) == 0 {
				if x.Op == token.LAND {
					return ex{a.binds, "(" + a.term + " && " + b.term + ")", ty}
				}
				return ex{a.binds, "(" + a.term + " || " + b.term + ")", ty}
			}
			// the right operand can panic: evaluate it only when Go does
			t := f.fresh()
			inner := f.seq(b.binds, "Ok "+b.term)
			var term string
			if x.Op == token.LAND {
				term = "(if " + a.term + " then " + inner + " else Ok false)"
			} else {
				term = "(if " + a.term + " then Ok true else " + inner + ")"
			}
			return ex{append(a.binds, bind{t, term}), t, ty}
		case token.EQL, token.NEQ, token.LSS, token.LEQ, token.GTR, token.GEQ:
			if t, ok := f.nilTest(x); ok {
				return ex{nil, t, ty}
			}
			a, b := f.expr(x.X), f.expr(x.Y)
			return ex{append(a.binds, b.binds...), f.cmp(e, x.Op, a, b), ty}
		case token.SHL, token.SHR:
			a := f.expr(x.X)
			c := f.constOf(x.Y)
			if c == nil {
				f.fail(e, "shift by a non-constant count")
			}
			k, ok := constant.Int64Val(constant.ToInt(c))
			if !ok || k < 0 || k > 63 {
				f.fail(e, "shift count %v", c)
			}
			if a.ty != ty {
				f.fail(e, "shift operand type")
			}
			return ex{a.binds, f.binop(e, x.Op, a, ex{}, ty, k), ty}
		default:
			a, b := f.expr(x.X), f.expr(x.Y)
			if a.ty != ty || b.ty != ty {
				f.fail(e, "operand types %v %v of %s", a.ty, b.ty, x.Op)
			}
			return ex{append(a.binds, b.binds...), f.binop(e, x.Op, a, b, ty, 0), ty}
		}
	case *ast.IndexExpr:
		a, i := f.expr(x.X), f.expr(x.Index)
		bs := append(a.binds, i.binds...)
		t := f.fresh()
		switch a.ty.k {
		case gBytes:
			return ex{append(bs, bind{t, "gindex " + f.asZ(x.Index, i) + " " + a.term}), t, gtype{gByte, 8}}
		case gListN:
			return ex{append(bs, bind{t, "tr_index_n " + f.asZ(x.Index, i) + " " + a.term}), t, gtype{gUint, a.ty.w}}
		}
		f.fail(e, "index into %v", a.ty)
	case *ast.SliceExpr:
		if x.Slice3 {
			f.fail(e, "3-index slice")
		}
		a := f.expr(x.X)
		if a.ty.k != gBytes {
			f.fail(e, "slice of %v", a.ty)
		}
		bs := a.binds
		var lo, hi string
		if x.Low != nil {
			r := f.expr(x.Low)
			bs = append(bs, r.binds...)
			lo = f.asZ(x.Low, r)
		}
		if x.High != nil {
			r := f.expr(x.High)
			bs = append(bs, r.binds...)
			hi = f.asZ(x.High, r)
		}
		t := f.fresh()
		var term string
		switch {
		case lo != "" && hi != "":
			term = "gslice " + lo + " " + hi + " " + a.term
		case lo != "":
			term = "gslice_from " + lo + " " + a.term
		case hi != "":
			term = "gslice_to " + hi + " " + a.term
		default:
			return a
		}
		return ex{append(bs, bind{t, term}), t, a.ty}
	case *ast.CompositeLit:
		ty := f.gtypeOf(e, f.typeOf(e))
		if ty.k != gBytes && ty.k != gListN {
			f.fail(e, "composite literal of %s", f.typeOf(e))
		}
		var bs []bind
		var els []string
		for _, el := range x.Elts {
			if _, kv := el.(*ast.KeyValueExpr); kv {
				f.fail(el, "keyed element")
			}
			r := f.expr(el)
			bs = append(bs, r.binds...)
			els = append(els, r.term)
		}
		return ex{bs, "[" + strings.Join(els, "; ") + "]", ty}
	case *ast.CallExpr:
		return f.call(x)
	}
	f.fail(e, "expression %T", e)
	return ex{}
}

// global: a package-level variable used as a constant; emitted once as a Definition
func (f *fn) global(n ast.Node, pkgpath string, v *types.Var) string {
	key := pkgpath + "." + v.Name()
	if g, ok := f.t.globals[key]; ok {
		return g
	}
	if !strings.HasPrefix(pkgpath, acraPrefix) {
		f.fail(n, "variable %s of a non-acra package", key)
	}
	pi, err := f.t.l.load(pkgpath[len(acraPrefix):])
	if err != nil {
		f.fail(n, "%v", err)
	}
	init := pi.findVarInit(v.Name())
	if init == nil {
		f.fail(n, "package variable %s without a single initialiser", key)
	}
	if m, where := pi.mutated(pi.pkg.Scope().Lookup(v.Name())); m {
		f.fail(n, "package variable %s is written at %s: it cannot be read as a constant", key, f.t.l.fset.Position(token.Pos(atoi(where))))
	}
	// translate the initialiser in the context of its own package (must be pure)
	g := &fn{t: f.t, pi: pi, tg: Target{Pkg: pkgpath[len(acraPrefix):], Func: "var " + v.Name()}, names: map[types.Object]string{}, used: map[string]bool{}}
	r := g.expr(init)
	name := "g_" + filepath.Base(pkgpath) + "_" + v.Name()
	pos := f.t.l.fset.Position(init.Pos())
	fmt.Fprintf(&f.t.out, "(* var %s.%s  (%s:%d), never written in its package *)\n", filepath.Base(pkgpath), v.Name(), filepath.Base(pos.Filename), pos.Line)
	if len(r.binds) == 0 {
		fmt.Fprintf(&f.t.out, "Definition %s : %s := %s.\n\n", name, r.ty.coq(), r.term)
	} else {
		// initialiser with a checked sub-expression (a slice of another variable): the value when it does not panic
		fmt.Fprintf(&f.t.out, "Definition %s : %s := match (%s) with Ok x => x | _ => [] end.\n", name, r.ty.coq(), g.seq(r.binds, "Ok "+r.term))
		fmt.Fprintf(&f.t.out, "Example %s_init_ok : (%s) = Ok %s. Proof. vm_compute. reflexivity. Qed.\n\n", name, g.seq(r.binds, "Ok "+r.term), name)
	}
	f.t.globals[key] = name
	return name
}

func atoi(s string) int { n := 0; fmt.Sscan(s, &n); return n }

// seq: do-notation for a list of bindings followed by a final term of type res
func (f *fn) seq(bs []bind, final string) string {
	var sb strings.Builder
	for _, b := range bs {
		fmt.Fprintf(&sb, "do %s <- %s; ", b.pat, b.term)
	}
	if len(bs) == 0 {
		return final
	}
	return "(" + sb.String() + final + ")"
}

// lookupTarget resolves a call to an already translated function; recv != nil for method calls
func (f *fn) lookupTarget(c *ast.CallExpr) (*doneFn, []ast.Expr, string) {
	if sel, ok := c.Fun.(*ast.SelectorExpr); ok {
		if s, ok := f.pi.info.Selections[sel]; ok && s.Kind() == types.MethodVal {
			recv := s.Recv()
			if p, ok := recv.(*types.Pointer); ok {
				recv = p.Elem()
			}
			if nt, ok := recv.(*types.Named); ok && nt.Obj().Pkg() != nil {
				key := nt.Obj().Pkg().Path() + "." + nt.Obj().Name() + "." + sel.Sel.Name
				return f.t.done[key], append([]ast.Expr{sel.X}, c.Args...), key
			}
		}
	}
	if q, o := f.qualified(c.Fun); q != "" {
		if _, ok := o.(*types.Func); ok {
			return f.t.done[q], c.Args, q
		}
	}
	return nil, nil, ""
}

func (f *fn) tuplePat(names []string) string {
	if len(names) == 1 {
		return names[0]
	}
	return "(" + strings.Join(names, ", ") + ")"
}

func (f *fn) call(c *ast.CallExpr) ex {
	// conversion
	if tv, ok := f.pi.info.Types[c.Fun]; ok && tv.IsType() {
		if len(c.Args) != 1 {
			f.fail(c, "conversion arity")
		}
		to := f.gtypeOf(c, tv.Type)
		a := f.expr(c.Args[0])
		return ex{a.binds, f.convert(c, a, to), to}
	}
	// builtin len
	if id, ok := c.Fun.(*ast.Ident); ok {
		if _, isB := f.pi.info.Uses[id].(*types.Builtin); isB {
			switch id.Name {
			case "append":
				return f.appendCall(c)
			case "make":
				return f.makeCall(c)
			}
			if id.Name == "len" && len(c.Args) == 1 {
				a := f.expr(c.Args[0])
				switch a.ty.k {
				case gBytes:
					return ex{a.binds, "(len " + a.term + ")", gtype{gInt, 64}}
				case gListN:
					return ex{a.binds, "(Z.of_nat (length " + a.term + "))", gtype{gInt, 64}}
				}
			}
			f.fail(c, "builtin %s", id.Name)
		}
	}
	// library primitive
	if pn := f.primName(c.Fun); pn != "" {
		if p, ok := prims[pn]; ok {
			bs, as := f.exprs(c.Args)
			if len(as) != len(p.args) {
				f.fail(c, "arity of %s", pn)
			}
			var ts []string
			for i, a := range as {
				if a.ty.k != p.args[i] {
					f.fail(c, "argument %d of %s has type %v", i, pn, a.ty)
				}
				ts = append(ts, a.term)
			}
			term := p.coq + " " + strings.Join(ts, " ")
			if p.panic {
				t := f.fresh()
				return ex{append(bs, bind{t, term}), t, p.res}
			}
			return ex{bs, "(" + term + ")", p.res}
		}
	}
	// translated function without error result, used as a value
	d, args, key := f.lookupTarget(c)
	if key == "" {
		f.fail(c, "call of %s", types.ExprString(c.Fun))
	}
	if d == nil {
		f.fail(c, "call of %s, which is not (yet) translated: put it before this function in the target list", key)
	}
	if d.ghost {
		f.fail(c, "call of %s, which distinguishes a nil slice argument from an empty one", key)
	}
	if d.hasErr {
		f.fail(c, "call of %s (returns an error) outside `x, err := f(..)` followed by `if err != nil {..}`", key)
	}
	if len(d.res) != 1 {
		f.fail(c, "call of %s with %d results used as a value", key, len(d.res))
	}
	bs, as := f.exprs(args)
	var ts []string
	for _, a := range as {
		ts = append(ts, a.term)
	}
	t := f.fresh()
	return ex{append(bs, bind{t, strings.TrimSpace(d.name + " " + strings.Join(ts, " "))}), t, d.res[0]}
}

// ---------- statements ----------
// kont: what to do when control falls off the end of a statement list: "" = impossible (end of the
// function body), otherwise the Gallina term of the join point applied to the current variables
type kont struct {
	term string
}

func (f *fn) nameOf(o types.Object) string {
	if n, ok := f.names[o]; ok {
		return n
	}
	base := "v_" + o.Name()
	n := base
	for i := 1; f.used[n]; i++ {
		n = fmt.Sprintf("%s_%d", base, i)
	}
	f.used[n] = true
	f.names[o] = n
	return n
}

func terminates(stmts []ast.Stmt) bool {
	if len(stmts) == 0 {
		return false
	}
	switch s := stmts[len(stmts)-1].(type) {
	case *ast.ReturnStmt:
		return true
	case *ast.BranchStmt:
		return s.Label == nil && (s.Tok == token.BREAK || s.Tok == token.CONTINUE)
	case *ast.BlockStmt:
		return terminates(s.List)
	case *ast.IfStmt:
		if s.Else == nil {
			return false
		}
		var els []ast.Stmt
		switch e := s.Else.(type) {
		case *ast.BlockStmt:
			els = e.List
		case *ast.IfStmt:
			els = []ast.Stmt{e}
		}
		return terminates(s.Body.List) && terminates(els)
	case *ast.SwitchStmt:
		hasDefault := false
		for _, c := range s.Body.List {
			cc := c.(*ast.CaseClause)
			if cc.List == nil {
				hasDefault = true
			}
			if !terminates(cc.Body) {
				return false
			}
		}
		return hasDefault
	}
	return false
}

// assignedOuter: variables assigned inside the nodes that were declared outside of them
func (f *fn) assignedOuter(nodes []ast.Node) []types.Object {
	inside := map[types.Object]bool{}
	var order []types.Object
	seen := map[types.Object]bool{}
	for _, n := range nodes {
		ast.Inspect(n, func(m ast.Node) bool {
			if id, ok := m.(*ast.Ident); ok {
				if o := f.pi.info.Defs[id]; o != nil {
					inside[o] = true
				}
			}
			return true
		})
	}
	add := func(e ast.Expr) {
		if id, ok := e.(*ast.Ident); ok {
			if o := f.pi.info.Uses[id]; o != nil && !inside[o] && !seen[o] {
				if _, isVar := o.(*types.Var); isVar {
					seen[o] = true
					order = append(order, o)
				}
			}
		}
	}
	for _, n := range nodes {
		ast.Inspect(n, func(m ast.Node) bool {
			switch s := m.(type) {
			case *ast.AssignStmt:
				for _, l := range s.Lhs {
					add(l)
				}
			case *ast.IncDecStmt:
				add(s.X)
			}
			return true
		})
	}
	return order
}

type branch struct {
	cond func() ex // evaluated lazily, in order (binds of later conditions run only when reached)
	body []ast.Stmt
}

// chain: if c1 {b1} else if c2 {b2} ... else {els}; rest
func (f *fn) chain(at ast.Node, brs []branch, els []ast.Stmt, rest []ast.Stmt, k kont, scopeNodes []ast.Node) string {
	falling := 0
	for _, b := range brs {
		if !terminates(b.body) {
			falling++
		}
	}
	if !terminates(els) {
		falling++
	}
	pre := ""
	restFor := func(body []ast.Stmt) ([]ast.Stmt, kont) { return append(append([]ast.Stmt{}, body...), rest...), k }
	if falling > 1 && len(rest) > 0 {
		// join point: the rest becomes a local function of the variables the branches assign
		vars := f.assignedOuter(scopeNodes)
		for _, v := range vars {
			if f.gtypeOf(at, v.Type()).k == gErr {
				f.fail(at, "error variable %s assigned in a branch that falls through", v.Name())
			}
		}
		f.tmp++
		kn := fmt.Sprintf("k__%d", f.tmp)
		var params []string
		for _, v := range vars {
			params = append(params, fmt.Sprintf("(%s : %s)", f.nameOf(v), f.gtypeOf(at, v.Type()).coq()))
		}
		if len(vars) == 0 {
			params = []string{"(_ : unit)"}
		}
		body := f.block(rest, k)
		pre = fmt.Sprintf("let %s := fun %s =>\n%s in\n", kn, strings.Join(params, " "), indent(body))
		restFor = func(body []ast.Stmt) ([]ast.Stmt, kont) {
			return body, kont{"@" + kn} // arguments are filled in at the fall-through point (current names)
		}
		f.joinVars[kn] = vars
	}
	var build func(i int) string
	build = func(i int) string {
		if i == len(brs) {
			b, kk := restFor(els)
			return f.block(b, kk)
		}
		c := brs[i].cond()
		b, kk := restFor(brs[i].body)
		th := f.block(b, kk)
		el := build(i + 1)
		return f.seq2(c.binds, "if "+c.term+" then\n"+indent(th)+"\nelse\n"+indent(el))
	}
	return pre + build(0)
}

func (f *fn) seq2(bs []bind, final string) string {
	var sb strings.Builder
	for _, b := range bs {
		fmt.Fprintf(&sb, "do %s <- %s;\n", b.pat, b.term)
	}
	return sb.String() + final
}

func indent(s string) string {
	return "  " + strings.ReplaceAll(s, "\n", "\n  ")
}

func (f *fn) fallOff(at ast.Node, k kont) string {
	if k.term == "" {
		f.fail(at, "control reaches the end of the function body")
	}
	if strings.HasPrefix(k.term, "@") {
		kn := k.term[1:]
		vars := f.joinVars[kn]
		if len(vars) == 0 {
			return kn + " tt"
		}
		var as []string
		for _, v := range vars {
			as = append(as, f.nameOf(v))
		}
		return kn + " " + strings.Join(as, " ")
	}
	return k.term
}

func (f *fn) zero(n ast.Node, ty gtype) string {
	switch ty.k {
	case gInt:
		return "0%Z"
	case gUint:
		return "0%N"
	case gByte:
		return "x00"
	case gBool:
		return "false"
	case gBytes, gListN:
		return "[]"
	}
	f.fail(n, "zero value of %v", ty)
	return ""
}

// isLogStmt: a statement that only calls the logrus API (log.WithField(..).Debug(..) …) with arguments
// that cannot panic and have no effect (identifiers, constants, len(x)); it is skipped
func (f *fn) isLogStmt(s ast.Stmt) bool {
	es, ok := s.(*ast.ExprStmt)
	if !ok {
		return false
	}
	var e ast.Expr = es.X
	safe := true
	var checkArg func(a ast.Expr) bool
	checkArg = func(a ast.Expr) bool {
		switch x := a.(type) {
		case *ast.Ident, *ast.BasicLit:
			return true
		case *ast.SelectorExpr:
			_, ok := x.X.(*ast.Ident)
			return ok
		case *ast.CallExpr:
			if id, ok := x.Fun.(*ast.Ident); ok && id.Name == "len" && len(x.Args) == 1 {
				return checkArg(x.Args[0])
			}
		}
		return false
	}
	for {
		switch x := e.(type) {
		case *ast.CallExpr:
			for _, a := range x.Args {
				if !checkArg(a) {
					safe = false
				}
			}
			e = x.Fun
		case *ast.SelectorExpr:
			e = x.X
		case *ast.Ident:
			pn := f.pkgOfIdent(x)
			return safe && pn != nil && pn.Imported().Path() == "github.com/sirupsen/logrus"
		default:
			return false
		}
	}
}

// errRef: the error class of a reference to a package-level error variable
func (f *fn) errRef(e ast.Expr) (string, bool) {
	var key string
	switch x := e.(type) {
	case *ast.Ident:
		if v, ok := f.pi.info.Uses[x].(*types.Var); ok && v.Pkg() != nil && v.Parent() == v.Pkg().Scope() {
			key = x.Name
		}
	case *ast.SelectorExpr:
		if id, ok := x.X.(*ast.Ident); ok && f.pkgOfIdent(id) != nil {
			key = id.Name + "." + x.Sel.Name
		}
	}
	if key == "" {
		return "", false
	}
	code, ok := f.tg.Errs[key]
	if !ok {
		f.fail(e, "error value %s has no class in the target's Errs table", key)
	}
	return fmt.Sprintf("Err %d%%N", code), true
}

func isNilIdent(f *fn, e ast.Expr) bool {
	id, ok := e.(*ast.Ident)
	if !ok {
		return false
	}
	_, isNil := f.pi.info.Uses[id].(*types.Nil)
	return isNil
}

func (f *fn) okTerm(ts []string) string {
	switch len(ts) {
	case 0:
		return "Ok tt"
	case 1:
		return "Ok " + ts[0]
	}
	return "Ok (" + strings.Join(ts, ", ") + ")"
}

func (f *fn) ret(s *ast.ReturnStmt) string {
	nres := len(f.resT)
	if f.hasErr {
		nres++
	}
	if len(s.Results) == 0 {
		if nres == 0 {
			return "Ok tt"
		}
		if f.results == nil {
			f.fail(s, "bare return without named results")
		}
		var ts []string
		for i, o := range f.results {
			if f.hasErr && i == len(f.results)-1 {
				if f.errNil[o] {
					continue
				}
				if t, ok := f.errTerm[o]; ok {
					return "Err " + t
				}
				f.fail(s, "bare return with an error result of unknown state")
			}
			ts = append(ts, f.nameOf(o))
		}
		return f.okTerm(ts)
	}
	if len(s.Results) != nres {
		f.fail(s, "return of a multi-value call")
	}
	vals := s.Results
	errTerm := ""
	if f.hasErr {
		ee := vals[len(vals)-1]
		vals = vals[:len(vals)-1]
		switch {
		case isNilIdent(f, ee):
		default:
			if t, ok := f.errRef(ee); ok {
				errTerm = t
			} else if id, ok := ee.(*ast.Ident); ok {
				o := f.pi.info.Uses[id]
				if f.errNil[o] {
				} else if t, ok := f.errTerm[o]; ok {
					errTerm = "Err " + t
				} else {
					f.fail(ee, "error variable %s of unknown state", id.Name)
				}
			} else {
				f.fail(ee, "error expression")
			}
		}
	}
	bs, rs := f.exprs(vals)
	var ts []string
	for i, r := range rs {
		if r.ty != f.resT[i] {
			f.fail(vals[i], "result %d has type %v, declared %v", i, r.ty, f.resT[i])
		}
		ts = append(ts, r.term)
	}
	if errTerm != "" {
		// values returned beside a non-nil error are evaluated (they may panic) and dropped
		return f.seq2(bs, errTerm)
	}
	return f.seq2(bs, f.okTerm(ts))
}

// errCall recognises `lhs.., err := f(args)` / `lhs.., err = f(args)` where f is a translated function with an error result
func (f *fn) errCall(s ast.Stmt) (*ast.AssignStmt, *doneFn, []ast.Expr) {
	as, ok := s.(*ast.AssignStmt)
	if !ok || len(as.Rhs) != 1 || (as.Tok != token.DEFINE && as.Tok != token.ASSIGN) {
		return nil, nil, nil
	}
	c, ok := as.Rhs[0].(*ast.CallExpr)
	if !ok {
		return nil, nil, nil
	}
	if tv, ok := f.pi.info.Types[c.Fun]; ok && tv.IsType() {
		return nil, nil, nil
	}
	d, args, _ := f.lookupTarget(c)
	if d == nil || !d.hasErr {
		return nil, nil, nil
	}
	if len(as.Lhs) != len(d.res)+1 {
		f.fail(s, "assignment arity")
	}
	return as, d, args
}

// errTest recognises `err != nil` (neq=true) / `err == nil`
func (f *fn) errTest(e ast.Expr) (types.Object, bool, bool) {
	b, ok := e.(*ast.BinaryExpr)
	if !ok || (b.Op != token.NEQ && b.Op != token.EQL) || !isNilIdent(f, b.Y) {
		return nil, false, false
	}
	id, ok := b.X.(*ast.Ident)
	if !ok {
		return nil, false, false
	}
	o := f.pi.info.Uses[id]
	if o == nil || f.gtypeOf(e, o.Type()).k != gErr {
		return nil, false, false
	}
	return o, b.Op == token.NEQ, true
}

func (f *fn) lhsObj(e ast.Expr) types.Object {
	id, ok := e.(*ast.Ident)
	if !ok {
		f.fail(e, "assignment to a non-variable")
	}
	if id.Name == "_" {
		return nil
	}
	if o := f.pi.info.Defs[id]; o != nil {
		return o
	}
	return f.pi.info.Uses[id]
}

// callWithErr translates  as: `.., err := g(args)`  followed by  `if err != nil { onErr }` ; rest
func (f *fn) callWithErr(as *ast.AssignStmt, d *doneFn, args []ast.Expr, onErr []ast.Stmt, rest []ast.Stmt, k kont) string {
	if !terminates(onErr) {
		f.fail(as, "the `if err != nil` block after the call does not return")
	}
	bs, rs := f.exprs(args)
	var ts []string
	for _, a := range rs {
		ts = append(ts, a.term)
	}
	callT := strings.TrimSpace(d.name + " " + strings.Join(ts, " "))
	errObj := f.lhsObj(as.Lhs[len(as.Lhs)-1])
	if errObj == nil {
		f.fail(as, "error result assigned to _")
	}
	// error branch first (names created in it do not leak: objects are distinct)
	f.tmp++
	en := fmt.Sprintf("e__%d", f.tmp)
	delete(f.errNil, errObj)
	f.errTerm[errObj] = en
	eb := f.block(onErr, kont{})
	delete(f.errTerm, errObj)
	f.errNil[errObj] = true
	var pats []string
	for _, l := range as.Lhs[:len(as.Lhs)-1] {
		if o := f.lhsObj(l); o != nil {
			pats = append(pats, f.nameOf(o))
		} else {
			pats = append(pats, "_")
		}
	}
	pat := "tt"
	if len(pats) > 0 {
		pat = f.tuplePat(pats)
	}
	if len(pats) > 1 {
		pat = "(" + strings.Join(pats, ", ") + ")"
	}
	okb := f.block(rest, k)
	return f.seq2(bs, fmt.Sprintf("match %s with\n| Ok %s =>\n%s\n| Err %s =>\n%s\n| Panic => Panic\nend", callT, pat, indent(okb), en, indent(eb)))
}

func (f *fn) block(stmts []ast.Stmt, k kont) string {
	if len(stmts) == 0 {
		return f.fallOff(f.fd, k)
	}
	s, rest := stmts[0], stmts[1:]
	if f.isLogStmt(s) {
		return "(* logrus call skipped *)\n" + f.block(rest, k)
	}
	// call with error result + check
	if as, d, args := f.errCall(s); as != nil {
		if len(rest) > 0 {
			if ifs, ok := rest[0].(*ast.IfStmt); ok && ifs.Init == nil && ifs.Else == nil {
				if o, neq, ok := f.errTest(ifs.Cond); ok && neq && o == f.lhsObj(as.Lhs[len(as.Lhs)-1]) {
					return f.callWithErr(as, d, args, ifs.Body.List, rest[1:], k)
				}
			}
		}
		f.fail(s, "call with an error result must be followed by `if err != nil { return .. }`")
	}
	switch x := s.(type) {
	case *ast.ReturnStmt:
		return f.ret(x)
	case *ast.BlockStmt:
		return f.block(append(append([]ast.Stmt{}, x.List...), rest...), k)
	case *ast.EmptyStmt:
		return f.block(rest, k)
	case *ast.DeclStmt:
		gd, ok := x.Decl.(*ast.GenDecl)
		if !ok || gd.Tok != token.VAR {
			f.fail(s, "declaration")
		}
		var sb strings.Builder
		for _, sp := range gd.Specs {
			vs := sp.(*ast.ValueSpec)
			for i, n := range vs.Names {
				o := f.pi.info.Defs[n]
				ty := f.gtypeOf(n, o.Type())
				if ty.k == gErr {
					f.fail(n, "local error variable")
				}
				if len(vs.Values) == 0 {
					fmt.Fprintf(&sb, "let %s := %s in\n", f.nameOf(o), f.zero(n, ty))
				} else if len(vs.Values) == len(vs.Names) {
					r := f.expr(vs.Values[i])
					sb.WriteString(f.seq2(r.binds, fmt.Sprintf("let %s := %s in\n", f.nameOf(o), r.term)))
				} else {
					f.fail(s, "var with a multi-value initialiser")
				}
			}
		}
		return sb.String() + f.block(rest, k)
	case *ast.IncDecStmt:
		o := f.lhsObj(x.X)
		ty := f.gtypeOf(x.X, o.Type())
		op := token.ADD
		if x.Tok == token.DEC {
			op = token.SUB
		}
		one := ex{nil, "1%Z", ty}
		if ty.k != gInt {
			one.term = "1%N"
			if ty.k == gByte {
				one.term = "(n2b 1%N)"
			}
		}
		cur := ex{nil, f.nameOf(o), ty}
		return fmt.Sprintf("let %s := %s in\n", f.nameOf(o), f.binop(s, op, cur, one, ty, 0)) + f.block(rest, k)
	case *ast.AssignStmt:
		return f.assign(x) + f.block(rest, k)
	case *ast.IfStmt:
		return f.ifStmt(x, rest, k)
	case *ast.SwitchStmt:
		return f.switchStmt(x, rest, k)
	case *ast.ForStmt:
		return f.forStmt(x, rest, k)
	case *ast.RangeStmt:
		return f.rangeStmt(x, rest, k)
	case *ast.BranchStmt:
		if x.Label != nil || len(f.loops) == 0 {
			f.fail(s, "%s with a label / outside a loop", x.Tok)
		}
		switch x.Tok {
		case token.CONTINUE:
			return f.loops[len(f.loops)-1].cont
		case token.BREAK:
			return f.loops[len(f.loops)-1].brk
		}
	case *ast.ExprStmt:
		if c, ok := x.X.(*ast.CallExpr); ok {
			if id, ok := c.Fun.(*ast.Ident); ok && id.Name == "copy" {
				if _, isB := f.pi.info.Uses[id].(*types.Builtin); isB {
					return f.copyStmt(c) + f.block(rest, k)
				}
			}
		}
	}
	f.fail(s, "statement %T", s)
	return ""
}

var opAssign = map[token.Token]token.Token{
	token.ADD_ASSIGN: token.ADD, token.SUB_ASSIGN: token.SUB, token.MUL_ASSIGN: token.MUL,
	token.SHL_ASSIGN: token.SHL, token.SHR_ASSIGN: token.SHR, token.AND_ASSIGN: token.AND,
	token.OR_ASSIGN: token.OR, token.XOR_ASSIGN: token.XOR,
}

func (f *fn) assign(x *ast.AssignStmt) string {
	if op, ok := opAssign[x.Tok]; ok {
		if len(x.Lhs) != 1 || len(x.Rhs) != 1 {
			f.fail(x, "op-assignment arity")
		}
		o := f.lhsObj(x.Lhs[0])
		ty := f.gtypeOf(x, o.Type())
		cur := ex{nil, f.nameOf(o), ty}
		if op == token.SHL || op == token.SHR {
			c := f.constOf(x.Rhs[0])
			if c == nil {
				f.fail(x, "shift by a non-constant count")
			}
			kk, ok := constant.Int64Val(constant.ToInt(c))
			if !ok || kk < 0 || kk > 63 {
				f.fail(x, "shift count")
			}
			return fmt.Sprintf("let %s := %s in\n", f.nameOf(o), f.binop(x, op, cur, ex{}, ty, kk))
		}
		r := f.expr(x.Rhs[0])
		if r.ty != ty {
			f.fail(x, "operand type %v for %v", r.ty, ty)
		}
		return f.seq2(r.binds, fmt.Sprintf("let %s := %s in\n", f.nameOf(o), f.binop(x, op, cur, r, ty, 0)))
	}
	if x.Tok != token.DEFINE && x.Tok != token.ASSIGN {
		f.fail(x, "assignment operator %s", x.Tok)
	}
	// map membership: _, ok := M[k]
	if len(x.Lhs) == 2 && len(x.Rhs) == 1 {
		if ie, ok := x.Rhs[0].(*ast.IndexExpr); ok {
			if _, isMap := f.typeOf(ie.X).Underlying().(*types.Map); isMap {
				return f.mapMember(x, ie)
			}
		}
		// multi-value call without error
		if c, ok := x.Rhs[0].(*ast.CallExpr); ok {
			d, args, key := f.lookupTarget(c)
			if d == nil || d.hasErr || len(d.res) != 2 {
				f.fail(x, "multi-value assignment from %s", key)
			}
			bs, rs := f.exprs(args)
			var ts []string
			for _, a := range rs {
				ts = append(ts, a.term)
			}
			var pats []string
			for _, l := range x.Lhs {
				if o := f.lhsObj(l); o != nil {
					pats = append(pats, f.nameOf(o))
				} else {
					pats = append(pats, "_")
				}
			}
			return f.seq2(bs, fmt.Sprintf("do (%s) <- %s %s;\n", strings.Join(pats, ", "), d.name, strings.Join(ts, " ")))
		}
	}
	if len(x.Lhs) != len(x.Rhs) {
		f.fail(x, "assignment arity")
	}
	// Go evaluates all right-hand sides before assigning: bind them to temporaries when there are several
	var sb strings.Builder
	var terms []string
	for _, r := range x.Rhs {
		e := f.expr(r)
		sb.WriteString(f.seq2(e.binds, ""))
		terms = append(terms, e.term)
		_ = e
	}
	if len(x.Lhs) > 1 {
		for i := range terms {
			t := f.fresh()
			fmt.Fprintf(&sb, "let %s := %s in\n", t, terms[i])
			terms[i] = t
		}
	}
	for i, l := range x.Lhs {
		o := f.lhsObj(l)
		if o == nil {
			continue
		}
		ty := f.gtypeOf(l, o.Type())
		if ty.k == gErr {
			f.fail(x, "assignment to an error variable")
		}
		rt := f.gtypeOf(x.Rhs[i], f.typeOf(x.Rhs[i]))
		if rt != ty {
			f.fail(x, "assignment of %v to %v", rt, ty)
		}
		fmt.Fprintf(&sb, "let %s := %s in\n", f.nameOf(o), terms[i])
	}
	return sb.String()
}

// `_, ok := M[k]` for a package-level map with a literal initialiser that is never written: membership in the key list
func (f *fn) mapMember(x *ast.AssignStmt, ie *ast.IndexExpr) string {
	if id, ok := x.Lhs[0].(*ast.Ident); !ok || id.Name != "_" {
		f.fail(x, "map value read (only `_, ok := m[k]` is supported)")
	}
	q, o := f.qualified(ie.X)
	v, isVar := o.(*types.Var)
	if q == "" || !isVar || v.Parent() != v.Pkg().Scope() || v.Pkg() != f.pi.pkg {
		f.fail(x, "map that is not a variable of this package")
	}
	init := f.pi.findVarInit(v.Name())
	cl, ok := init.(*ast.CompositeLit)
	if !ok {
		f.fail(x, "map %s without a literal initialiser", v.Name())
	}
	if m, where := f.pi.mutated(v); m {
		f.fail(x, "map %s is written at %s", v.Name(), f.t.l.fset.Position(token.Pos(atoi(where))))
	}
	key := f.expr(ie.Index)
	var keys []string
	for _, el := range cl.Elts {
		kv, ok := el.(*ast.KeyValueExpr)
		if !ok {
			f.fail(el, "map element")
		}
		c := f.constOf(kv.Key)
		if c == nil {
			f.fail(kv.Key, "non-constant map key")
		}
		kt := f.gtypeOf(kv.Key, f.typeOf(kv.Key))
		if kt != key.ty {
			f.fail(kv.Key, "map key type")
		}
		keys = append(keys, f.lit(kv.Key, c, kt))
	}
	okObj := f.lhsObj(x.Lhs[1])
	var test string
	switch key.ty.k {
	case gInt:
		test = fmt.Sprintf("existsb (Z.eqb %s) [%s]", key.term, strings.Join(keys, "; "))
	case gUint:
		test = fmt.Sprintf("existsb (N.eqb %s) [%s]", key.term, strings.Join(keys, "; "))
	case gByte:
		for i := range keys {
			keys[i] = asN(ex{nil, keys[i], key.ty})
		}
		test = fmt.Sprintf("existsb (N.eqb %s) [%s]", asN(key), strings.Join(keys, "; "))
	default:
		f.fail(x, "map key of type %v", key.ty)
	}
	return f.seq2(key.binds, fmt.Sprintf("let %s := %s in (* keys of %s *)\n", f.nameOf(okObj), test, v.Name()))
}

func (f *fn) ifStmt(x *ast.IfStmt, rest []ast.Stmt, k kont) string {
	// `if err := g(args); err != nil { .. }`
	if x.Init != nil {
		if as, d, args := f.errCall(x.Init); as != nil {
			if o, neq, ok := f.errTest(x.Cond); ok && neq && x.Else == nil && o == f.lhsObj(as.Lhs[len(as.Lhs)-1]) {
				return f.callWithErr(as, d, args, x.Body.List, rest, k)
			}
			f.fail(x, "only `if .., err := g(..); err != nil {..}` without else is supported for calls with an error result")
		}
		// general init statement: runs before the condition; its variables have distinct names
		switch in := x.Init.(type) {
		case *ast.AssignStmt:
			y := *x
			y.Init = nil
			return f.assign(in) + f.ifStmt(&y, rest, k)
		}
		f.fail(x, "if with init statement %T", x.Init)
	}
	if _, _, ok := f.errTest(x.Cond); ok {
		f.fail(x, "test of an error variable outside the supported call pattern")
	}
	var brs []branch
	var els []ast.Stmt
	cur := x
	scope := []ast.Node{x}
	for {
		c := cur
		if c.Init != nil {
			f.fail(c, "else-if with init statement")
		}
		brs = append(brs, branch{func() ex {
			r := f.expr(c.Cond)
			if r.ty.k != gBool {
				f.fail(c.Cond, "condition type")
			}
			return r
		}, c.Body.List})
		if c.Else == nil {
			break
		}
		if b, ok := c.Else.(*ast.BlockStmt); ok {
			els = b.List
			break
		}
		cur = c.Else.(*ast.IfStmt)
	}
	return f.chain(x, brs, els, rest, k, scope)
}

func (f *fn) switchStmt(x *ast.SwitchStmt, rest []ast.Stmt, k kont) string {
	pre := ""
	var tag *ex
	if x.Init != nil {
		f.fail(x, "switch with init statement")
	}
	if x.Tag != nil {
		r := f.expr(x.Tag)
		t := f.fresh()
		pre = f.seq2(r.binds, fmt.Sprintf("let %s := %s in\n", t, r.term))
		tag = &ex{nil, t, r.ty}
	}
	var brs []branch
	var els []ast.Stmt
	seenDefault := false
	for i, c := range x.Body.List {
		cc := c.(*ast.CaseClause)
		for _, st := range cc.Body {
			if b, ok := st.(*ast.BranchStmt); ok {
				f.fail(b, "%s inside switch", b.Tok)
			}
		}
		if cc.List == nil {
			if i != len(x.Body.List)-1 {
				f.fail(cc, "default that is not the last clause")
			}
			seenDefault = true
			els = cc.Body
			continue
		}
		list := cc.List
		brs = append(brs, branch{func() ex {
			var bs []bind
			var ts []string
			for _, ce := range list {
				r := f.expr(ce)
				if len(r.binds) > 0 && len(ts) > 0 {
					f.fail(ce, "case expression that can panic after the first one")
				}
				bs = append(bs, r.binds...)
				if tag != nil {
					ts = append(ts, f.cmp(ce, token.EQL, *tag, r))
				} else {
					if r.ty.k != gBool {
						f.fail(ce, "case type")
					}
					ts = append(ts, r.term)
				}
			}
			if len(ts) == 1 {
				return ex{bs, ts[0], gtype{gBool, 0}}
			}
			return ex{bs, "(" + strings.Join(ts, " || ") + ")", gtype{gBool, 0}}
		}, cc.Body})
	}
	_ = seenDefault
	if len(brs) == 0 {
		f.fail(x, "switch without cases")
	}
	return pre + f.chain(x, brs, els, rest, k, []ast.Node{x})
}

// ---------- functions ----------
func (t *trans) function(tg Target) (err error) {
	defer func() {
		if r := recover(); r != nil {
			if ft, ok := r.(fatal); ok {
				err = fmt.Errorf("%s", ft.msg)
				return
			}
			panic(r)
		}
	}()
	pi, e := t.l.load(tg.Pkg)
	if e != nil {
		return e
	}
	fd := pi.findFunc(tg.Func)
	if fd == nil || fd.Body == nil {
		return fmt.Errorf("xtr: function %s not found in %s", tg.Func, tg.Pkg)
	}
	f := &fn{t: t, pi: pi, tg: tg, fd: fd, names: map[types.Object]string{}, used: map[string]bool{},
		errNil: map[types.Object]bool{}, errTerm: map[types.Object]string{}, joinVars: map[string][]types.Object{},
		ghostNil: map[types.Object]string{}, paramSet: map[types.Object]bool{}}
	// a type error inside the body means the type information cannot be trusted
	for _, te := range pi.errs {
		if te.pos >= fd.Pos() && te.pos <= fd.End() {
			inLog := false
			for _, s := range allStmts(fd.Body) {
				if te.pos >= s.Pos() && te.pos <= s.End() && f.isLogStmt(s) {
					inLog = true
				}
			}
			if !inLog {
				return fmt.Errorf("%s: %s.%s: type error inside the body: %s", t.l.fset.Position(te.pos), tg.Pkg, tg.Func, te.msg)
			}
		}
	}
	if fd.Type.TypeParams != nil {
		f.fail(fd, "generic function")
	}
	var params []string
	var paramObjs []types.Object
	addParam := func(id *ast.Ident) {
		o := pi.info.Defs[id]
		if o == nil { // unnamed / blank
			f.fail(fd, "unnamed parameter")
		}
		ty := f.gtypeOf(id, o.Type())
		if ty.k == gErr {
			f.fail(id, "error parameter")
		}
		params = append(params, fmt.Sprintf("(%s : %s)", f.nameOf(o), ty.coq()))
		paramObjs = append(paramObjs, o)
		f.paramSet[o] = true
		if ty.k == gBytes {
			f.lenParams = append(f.lenParams, f.nameOf(o))
		}
	}
	if fd.Recv != nil {
		if len(fd.Recv.List) != 1 || len(fd.Recv.List[0].Names) != 1 {
			f.fail(fd, "receiver")
		}
		if _, ptr := fd.Recv.List[0].Type.(*ast.StarExpr); ptr {
			f.fail(fd, "pointer receiver")
		}
		addParam(fd.Recv.List[0].Names[0])
	}
	for _, p := range fd.Type.Params.List {
		if len(p.Names) == 0 {
			f.fail(fd, "unnamed parameter")
		}
		if _, variadic := p.Type.(*ast.Ellipsis); variadic {
			f.fail(fd, "variadic parameter")
		}
		for _, n := range p.Names {
			addParam(n)
		}
	}
	var init strings.Builder
	if fd.Type.Results != nil {
		var all []gtype
		for _, r := range fd.Type.Results.List {
			ty := f.gtypeOf(r.Type, pi.info.Types[r.Type].Type)
			cnt := len(r.Names)
			if cnt == 0 {
				cnt = 1
			}
			for i := 0; i < cnt; i++ {
				all = append(all, ty)
				if len(r.Names) > 0 {
					o := pi.info.Defs[r.Names[i]]
					f.results = append(f.results, o)
					if ty.k == gErr {
						f.errNil[o] = true
					} else {
						fmt.Fprintf(&init, "let %s := %s in\n", f.nameOf(o), f.zero(r.Type, ty))
					}
				}
			}
		}
		for i, ty := range all {
			if ty.k == gErr {
				if i != len(all)-1 {
					f.fail(fd, "error result that is not the last result")
				}
				f.hasErr = true
			} else {
				f.resT = append(f.resT, ty)
			}
		}
	}
	body := init.String() + f.block(fd.Body.List, kont{})
	// nil-sensitive slice parameters: one extra bool parameter each, in front of the slice
	if len(f.ghostNil) > 0 {
		var np []string
		for i, o := range paramObjs {
			if g, ok := f.ghostNil[o]; ok {
				np = append(np, fmt.Sprintf("(%s : bool)", g))
			}
			np = append(np, params[i])
		}
		params = np
	}
	var rts []string
	for _, r := range f.resT {
		rts = append(rts, r.coq())
	}
	rt := "unit"
	if len(rts) > 0 {
		rt = strings.Join(rts, " * ")
	}
	pos := t.l.fset.Position(fd.Pos())
	fmt.Fprintf(&t.out, "(* %s.%s  (%s:%d)", tg.Pkg, tg.Func, filepath.Base(pos.Filename), pos.Line)
	if len(tg.Errs) > 0 {
		var ks []string
		for k2 := range tg.Errs {
			ks = append(ks, k2)
		}
		sort.Strings(ks)
		for _, k2 := range ks {
			fmt.Fprintf(&t.out, "; %s = Err %d", k2, tg.Errs[k2])
		}
	}
	fmt.Fprintf(&t.out, " *)\nDefinition %s %s : res (%s) :=\n%s.\n\n", tg.Name, strings.Join(params, " "), rt, indent(body))
	key := pi.path + "." + tg.Func
	t.done[key] = &doneFn{name: tg.Name, res: f.resT, hasErr: f.hasErr, ghost: len(f.ghostNil) > 0}
	return nil
}

func allStmts(b *ast.BlockStmt) []ast.Stmt {
	var r []ast.Stmt
	ast.Inspect(b, func(n ast.Node) bool {
		if s, ok := n.(ast.Stmt); ok {
			r = append(r, s)
		}
		return true
	})
	return r
}

const prelude = `(* GENERATED by ` + "`acra-vh transgo`" + ` from the Go source of /repo on every run. Do not edit.
   Each Definition is the translation (harness/xtr) of the named Go function: integers are Z (signed) / N
   (unsigned) with Go's wrap-around written out, []byte is bytes, index and slice expressions go through
   Lib/GoSlice.v and yield Panic where Go raises a run-time error, (x.., error) results are res. *)
From Acra Require Import Lib.Bytes Lib.Outcome Lib.GoSlice.
Local Open Scope Z_scope.

(* intN(x): two's complement wrap to N bits *)
Definition tr_wrap (bits : Z) (z : Z) : Z := (z + 2 ^ (bits - 1)) mod 2 ^ bits - 2 ^ (bits - 1).
(* s[i] for a []uintN *)
Definition tr_index_n (i : Z) (s : list N) : res N :=
  if (0 <=? i) && (i <? Z.of_nat (length s)) then Ok (nth (Z.to_nat i) s 0%N) else Panic.
(* encoding/binary: every reader starts with the bounds check hint _ = b[w-1] *)
Definition tr_le_u32 (b : bytes) : res N := do _ <- gindex 3 b; Ok (le_dec (firstn 4 b)).
Definition tr_be_u16 (b : bytes) : res N := do _ <- gindex 1 b; Ok (be_dec (firstn 2 b)).
Definition tr_be_u32 (b : bytes) : res N := do _ <- gindex 3 b; Ok (be_dec (firstn 4 b)).
Definition tr_be_u64 (b : bytes) : res N := do _ <- gindex 7 b; Ok (be_dec (firstn 8 b)).
(* bytes.HasPrefix(s, prefix) *)
Definition tr_has_prefix (s prefix : bytes) : bool := starts_with prefix s.

`

// Translate produces the text of coq/Gen/Trans.v.
//
// Supported subset (everything else is an error):
//   types      int/int64/int32/int16/int8 (Z), uint/uint64/uint32/uint16 (N), uint8/byte (Coq byte), bool,
//              []byte and named types over it (bytes), []uint16/32/64 (list N), error (last result only),
//              named types over these
//   expr       constants (evaluated by go/types, so package constants are inlined with their current value),
//              local variables, package-level variables of acra packages with one initialiser that are never
//              written in their package (emitted as Definitions), + - * << >> (constant count) & | ^ with the
//              wrap-around of the operand type, comparisons, && || ! (short circuit kept when the right operand
//              can panic), conversions between integer types, len, a[i], a[i:j] a[i:] a[:j], []byte{..},
//              calls of bytes.Equal / bytes.HasPrefix / binary.{Little,Big}Endian.Uint{16,32,64}, calls of
//              already translated functions and methods with value receiver
//   stmt       := = op= ++ --, var, if / else if / else (init: assignment), switch with or without tag
//              (no fallthrough/break), return (named results too), `.., err := g(..)` + `if err != nil {..}`,
//              `if err := g(..); err != nil {..}`, `_, ok := m[k]` for a never-written package-level map literal
//              with constant keys, logrus statements whose arguments are identifiers/constants/len (skipped)
//   xtr2       (ext.go) append / make / copy on owned slices, `p == nil` on a never-assigned []byte parameter
//              (extra bool parameter), range loops over []byte, counted loops, general loops on fuel, unlabelled
//              break / continue
//   not        goto/labels/fallthrough/defer/go, pointers, structs, arrays, interfaces, closures, element assignment,
//              division, shifts by variables, strings, runes, floats, maps otherwise, [][]byte, panics/recover,
//              comparison of error values, nil comparison of local slices, append to a slice that is not owned
func Translate(repo string, targets []Target) (string, error) {
	t := &trans{l: newLoader(repo), targets: targets, done: map[string]*doneFn{}, globals: map[string]string{}}
	t.out.WriteString(prelude)
	seen := map[string]bool{}
	for _, tg := range targets {
		if seen[tg.Name] {
			return "", fmt.Errorf("xtr: duplicate definition name %s", tg.Name)
		}
		seen[tg.Name] = true
		if err := t.function(tg); err != nil {
			return "", err
		}
	}
	return t.out.String(), nil
}
