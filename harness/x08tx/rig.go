// Package x08tx: fault-injecting rig for the recovery domain of C08 (keystore v2 write path).
//
// Differences from vh.KswBackend: the wrapped back end is ANY api.Backend (the real in-memory back end or
// the real DirectoryBackend on a temporary directory), SEVERAL faults can be armed per operation (a schedule
// call index -> fault kind), a torn Put can be cut at any length (also 0 bytes), key rings of key pairs are
// abstracted as well, and the directory's bookkeeping files (root, version, version.new*, .lock) can be put
// into - and read back from - every state of coq/Model/KeystoreTx.v [dmeta].
package x08tx

import (
	"errors"
	"fmt"
	"io/ioutil"
	"os"
	"path/filepath"
	"sort"
	"strings"

	"acra-vh/vh"

	keystoreV2 "github.com/cossacklabs/acra/keystore/v2/keystore"
	"github.com/cossacklabs/acra/keystore/v2/keystore/api"
	"github.com/cossacklabs/acra/keystore/v2/keystore/crypto"
	fsV2 "github.com/cossacklabs/acra/keystore/v2/keystore/filesystem"
	"github.com/cossacklabs/acra/keystore/v2/keystore/filesystem/backend"
	backendAPI "github.com/cossacklabs/acra/keystore/v2/keystore/filesystem/backend/api"
	"github.com/cossacklabs/themis/gothemis/keys"
)

// ErrInjected is the injected I/O error.
var ErrInjected = errors.New("injected I/O error")

// Crash is the panic value standing for the death of the process.
type Crash struct{}

var errDead = errors.New("process is dead")

// Backend wraps a real back end.
type Backend struct {
	Inner  backendAPI.Backend
	Calls  int
	Faults map[int]int // call index -> vh.KErr..vh.KErrTorn
	Cut    int         // how a torn Put is cut: 0 half, 1 nothing written, 2 one byte, 3 all but one byte
	Trace  []string
	held   int
	dead   bool
}

// Arm resets the call counter and installs a fault schedule.
func (b *Backend) Arm(f map[int]int) { b.Calls, b.Faults, b.Trace = 0, f, nil }

// ReleaseLocks releases what the dead "process" held (flock dies with the process).
func (b *Backend) ReleaseLocks() {
	switch b.held {
	case 1:
		b.Inner.Unlock()
	case 2:
		b.Inner.RUnlock()
	}
	b.held = 0
}

func (b *Backend) gate(name string) int {
	i := b.Calls
	b.Calls++
	b.Trace = append(b.Trace, name)
	if k, ok := b.Faults[i]; ok {
		return k
	}
	return vh.KNone
}

func (b *Backend) crash() { b.ReleaseLocks(); b.dead = true; panic(Crash{}) }

func (b *Backend) simple(name string, act func() error) error {
	if b.dead {
		return errDead
	}
	switch b.gate(name) {
	case vh.KErr, vh.KErrTorn:
		return ErrInjected
	case vh.KCrashBefore, vh.KTorn:
		b.crash()
	case vh.KCrashAfter:
		act()
		b.crash()
	}
	return act()
}

func (b *Backend) lock(name string, excl bool) error {
	if b.dead {
		return errDead
	}
	take := func() error {
		var err error
		if excl {
			err = b.Inner.Lock()
			b.held = 1
		} else {
			err = b.Inner.RLock()
			b.held = 2
		}
		return err
	}
	switch b.gate(name) {
	case vh.KErr, vh.KErrTorn:
		return ErrInjected
	case vh.KCrashBefore, vh.KTorn:
		b.crash()
	case vh.KCrashAfter:
		take()
		b.crash()
	}
	return take()
}

// An unlock that "fails" still releases the underlying lock (the model treats lock calls as having no
// effect on the files; a lock that stays taken would only deadlock the harness).
func (b *Backend) unlock(name string, excl bool) error {
	if b.dead {
		return errDead
	}
	k := b.gate(name)
	if k == vh.KCrashBefore || k == vh.KTorn || k == vh.KCrashAfter {
		b.crash()
	}
	b.held = 0
	var err error
	if excl {
		err = b.Inner.Unlock()
	} else {
		err = b.Inner.RUnlock()
	}
	if k == vh.KErr || k == vh.KErrTorn {
		return ErrInjected
	}
	return err
}

func (b *Backend) Lock() error    { return b.lock("Lock", true) }
func (b *Backend) RLock() error   { return b.lock("RLock", false) }
func (b *Backend) Unlock() error  { return b.unlock("Unlock", true) }
func (b *Backend) RUnlock() error { return b.unlock("RUnlock", false) }
func (b *Backend) Close() error   { return nil }

func (b *Backend) Get(path string) (data []byte, err error) {
	err = b.simple("Get "+path, func() error { data, err = b.Inner.Get(path); return err })
	return data, err
}
func (b *Backend) ListAll() (l []string, err error) {
	err = b.simple("ListAll", func() error { l, err = b.Inner.ListAll(); return err })
	return l, err
}
func (b *Backend) Remove(path string) error {
	return b.simple("Remove "+path, func() error { return b.Inner.Remove(path) })
}
func (b *Backend) Rename(o, n string) error {
	return b.simple("Rename "+o+" "+n, func() error { return b.Inner.Rename(o, n) })
}
func (b *Backend) RenameNX(o, n string) error {
	return b.simple("RenameNX "+o+" "+n, func() error { return b.Inner.RenameNX(o, n) })
}

// Put is the only call that creates a new file: a torn write leaves a strict prefix in it.
func (b *Backend) Put(path string, data []byte) error {
	if b.dead {
		return errDead
	}
	torn := func() {
		if _, err := b.Inner.Get(path); err == backendAPI.ErrNotExist {
			n := len(data) / 2
			switch b.Cut {
			case 1:
				n = 0
			case 2:
				n = 1
			case 3:
				n = len(data) - 1
			}
			b.Inner.Put(path, append([]byte{}, data[:n]...))
		}
	}
	switch b.gate("Put " + path) {
	case vh.KErr:
		return ErrInjected
	case vh.KCrashBefore:
		b.crash()
	case vh.KCrashAfter:
		b.Inner.Put(path, data)
		b.crash()
	case vh.KTorn:
		torn()
		b.crash()
	case vh.KErrTorn:
		torn()
		return ErrInjected
	}
	return b.Inner.Put(path, data)
}

// ---------- keystore handles ----------

var encKey = []byte("0123456789abcdef0123456789abcdef")
var sigKey = []byte("fedcba9876543210fedcba9876543210")

// Suite returns the crypto suite every handle of this rig uses.
func Suite() *crypto.KeyStoreSuite {
	s, err := crypto.NewSCellSuite(encKey, sigKey)
	if err != nil {
		panic(err)
	}
	return s
}

// Handle = one "process".
type Handle struct {
	B  *Backend
	FS api.MutableKeyStore
	SK *keystoreV2.ServerKeyStore
}

func NewHandle(inner backendAPI.Backend) *Handle {
	b := &Backend{Inner: inner}
	ks, err := fsV2.CustomKeyStore(b, Suite())
	if err != nil {
		panic(err)
	}
	return &Handle{B: b, FS: ks, SK: keystoreV2.NewServerKeyStore(ks)}
}

// ring ids: 1..99 symmetric storage key ring of client c<rid>; 100+n key PAIR ring of client c<n>.
func IsPair(rid int) bool { return rid >= 100 }
func Client(rid int) []byte {
	if IsPair(rid) {
		rid -= 100
	}
	return []byte(fmt.Sprintf("c%03d", rid))
}
func RingPath(rid int) string {
	if IsPair(rid) {
		return "client/" + string(Client(rid)) + "/storage"
	}
	return "client/" + string(Client(rid)) + "/storage-sym"
}
func ridOfPath(p string) (int, bool) {
	var n int
	if strings.HasSuffix(p, "/storage-sym") {
		if _, err := fmt.Sscanf(p, "client/c%03d/storage-sym", &n); err == nil {
			return n, true
		}
	} else if _, err := fmt.Sscanf(p, "client/c%03d/storage", &n); err == nil {
		return 100 + n, true
	}
	return 0, false
}

// key pair whose halves both carry the ordinal
func PairOf(ord int) *keys.Keypair {
	return &keys.Keypair{
		Private: &keys.PrivateKey{Value: vh.KswKeyBytes(ord)},
		Public:  &keys.PublicKey{Value: append([]byte("PUB"), vh.KswKeyBytes(ord)...)},
	}
}

// Abstract reads every file through the (unwrapped) back end and maps it to the model's (name, content).
func Abstract(inner backendAPI.Backend, clean *Handle) ([]vh.KswFile, error) {
	names, err := inner.ListAll()
	if err != nil {
		return nil, err
	}
	var out []vh.KswFile
	for _, n := range names {
		n = filepath.ToSlash(n)
		f := vh.KswFile{Name: n}
		p := n
		switch {
		case strings.HasSuffix(p, fsV2.VerifKeyringSuffixC+fsV2.VerifNewSuffix):
			f.Kind = 1
			p = strings.TrimSuffix(p, fsV2.VerifKeyringSuffixC+fsV2.VerifNewSuffix)
		case strings.HasSuffix(p, fsV2.VerifKeyringSuffixC):
			p = strings.TrimSuffix(p, fsV2.VerifKeyringSuffixC)
		default:
			return nil, fmt.Errorf("unexpected file %q", n)
		}
		rid, ok := ridOfPath(p)
		if !ok {
			return nil, fmt.Errorf("unexpected ring path %q", n)
		}
		f.Rid = rid
		data, _ := inner.Get(n)
		ring, err := fsV2.VerifVerifyKeyRing(clean.FS, data, p)
		if err == nil && ring != nil {
			f.Valid = true
			f.Cur = ring.Current
			for _, k := range ring.Keys {
				kk := vh.KswKey{Seq: k.Seqnum, State: int(k.State)}
				if len(k.Data) > 0 {
					d := k.Data[0]
					if IsPair(rid) {
						plain, err := fsV2.VerifDecryptPrivateKey(clean.FS, p, k.Seqnum, d.PrivateKey)
						if err != nil {
							return nil, fmt.Errorf("%s: private key %d does not decrypt: %v", n, k.Seqnum, err)
						}
						kk.Ord = vh.KswOrd(plain)
						if kk.Ord >= 0 && string(d.PublicKey) != string(PairOf(kk.Ord).Public.Value) {
							kk.Ord = -1 // the two halves of the pair do not belong together
						}
					} else {
						plain, err := fsV2.VerifDecryptSymmetricKey(clean.FS, p, k.Seqnum, d.SymmetricKey)
						if err != nil {
							return nil, fmt.Errorf("%s: key %d does not decrypt: %v", n, k.Seqnum, err)
						}
						kk.Ord = vh.KswOrd(plain)
					}
				}
				f.Keys = append(f.Keys, kk)
			}
		}
		out = append(out, f)
	}
	sort.Slice(out, func(i, j int) bool {
		return out[i].Kind+2*out[i].Rid < out[j].Kind+2*out[j].Rid
	})
	return out, nil
}

// ---------- the directory's bookkeeping files ----------

// DMeta = Model.KeystoreTx.dmeta. Version: 0 none, 1 complete, 2 strict prefix, 3 foreign content.
type DMeta struct {
	Root    bool
	Version int
	Tmps    int
	Lock    bool
}

const versionString = "Acra Keystore v2"

func (m DMeta) Coq() string {
	v := [...]string{"None", "(Some VFull)", "(Some VPart)", "(Some VOther)"}[m.Version]
	return fmt.Sprintf("(mk_dmeta %v %s %d%%nat %v)", m.Root, v, m.Tmps, m.Lock)
}

// Realize builds the state under root with the very file-system calls the back end makes
// (MkdirAll 0700, exclusive create / write of "version", TempFile "version.new*", Create ".lock").
// cut = how many bytes a partial version file holds.
func (m DMeta) Realize(root string, cut int) error {
	if !m.Root {
		return nil
	}
	if err := os.MkdirAll(root, 0700); err != nil {
		return err
	}
	content := map[int]string{1: versionString, 2: versionString[:cut%len(versionString)], 3: "Acra Keystore v3"}
	if m.Version != 0 {
		f, err := os.OpenFile(filepath.Join(root, "version"), os.O_CREATE|os.O_EXCL|os.O_WRONLY, 0644)
		if err != nil {
			return err
		}
		f.WriteString(content[m.Version])
		f.Close()
	}
	for i := 0; i < m.Tmps; i++ {
		f, err := ioutil.TempFile(root, "version.new")
		if err != nil {
			return err
		}
		f.WriteString(versionString[:i%len(versionString)])
		f.Close()
	}
	if m.Lock {
		f, err := os.Create(filepath.Join(root, ".lock"))
		if err != nil {
			return err
		}
		f.Close()
	}
	return nil
}

// ObserveDir reads the state back.
func ObserveDir(root string) DMeta {
	var m DMeta
	fi, err := os.Stat(root)
	if err != nil || !fi.IsDir() {
		return m
	}
	m.Root = true
	if c, err := ioutil.ReadFile(filepath.Join(root, "version")); err == nil {
		switch {
		case string(c) == versionString:
			m.Version = 1
		case len(c) < len(versionString) && strings.HasPrefix(versionString, string(c)):
			m.Version = 2
		default:
			m.Version = 3
		}
	}
	ents, _ := ioutil.ReadDir(root)
	for _, e := range ents {
		if strings.HasPrefix(e.Name(), "version.new") {
			m.Tmps++
		}
		if e.Name() == ".lock" {
			m.Lock = true
		}
	}
	return m
}

// OpenDir runs the REAL open (read-write = CreateDirectoryBackend, read-only = OpenDirectoryBackend).
func OpenDir(root string, rw bool) (*backend.DirectoryBackend, error) {
	if rw {
		return backend.CreateDirectoryBackend(root)
	}
	return backend.OpenDirectoryBackend(root)
}
