package censorrig

// In-process rig around the REAL PostgreSQL proxy of acra: a harness-implemented
// base.ClientSession over two net.Pipe pairs, both proxy goroutines, a scripted client end and a
// scripted (fake) back end.  Every step is synchronous: the harness writes one protocol message and
// waits for the message(s) the proxy must emit, so observations are deterministic.

import (
	"acra-vh/vh"

	"context"
	"encoding/binary"
	"errors"
	"io"
	"net"
	"sync"
	"sync/atomic"
	"time"

	acracensor "github.com/cossacklabs/acra/acra-censor"
	"github.com/cossacklabs/acra/crypto"
	"github.com/cossacklabs/acra/decryptor/base"
	"github.com/cossacklabs/acra/decryptor/postgresql"
	"github.com/cossacklabs/acra/encryptor/base/config"
	"github.com/cossacklabs/acra/sqlparser"
)

// PgMsg is one PostgreSQL protocol message (Type 0 = start-up style message without type byte).
type PgMsg struct {
	Type    byte
	Payload []byte
}

type rigSession struct {
	ctx        context.Context
	client, db net.Conn
	state      interface{}
	mu         sync.Mutex
	data       map[string]interface{}
}

func (s *rigSession) Context() context.Context        { return s.ctx }
func (s *rigSession) ClientConnection() net.Conn      { return s.client }
func (s *rigSession) DatabaseConnection() net.Conn    { return s.db }
func (s *rigSession) ProtocolState() interface{}      { return s.state }
func (s *rigSession) SetProtocolState(st interface{}) { s.state = st }
func (s *rigSession) GetData(k string) (interface{}, bool) {
	s.mu.Lock()
	defer s.mu.Unlock()
	v, ok := s.data[k]
	return v, ok
}
func (s *rigSession) SetData(k string, v interface{}) { s.mu.Lock(); s.data[k] = v; s.mu.Unlock() }
func (s *rigSession) DeleteData(k string)             { s.mu.Lock(); delete(s.data, k); s.mu.Unlock() }
func (s *rigSession) HasData(k string) bool {
	s.mu.Lock()
	defer s.mu.Unlock()
	_, ok := s.data[k]
	return ok
}

// syncConn signals the start of every Read the proxy issues on its database connection.  The proxy
// reads through a bufio.Reader and every message of the fake back end is written with one Write
// (smaller than the buffer), so the proxy starts a new Read exactly when it is done with all
// earlier messages: the signal after message k means "message k has been processed completely".
type syncConn struct {
	net.Conn
	reads chan struct{}
}

func (c *syncConn) Read(p []byte) (int, error) {
	select {
	case c.reads <- struct{}{}:
	default:
	}
	return c.Conn.Read(p)
}

// PgRig is one proxied session.
type PgRig struct {
	Client     net.Conn // harness side of the client connection
	Backend    net.Conn // harness side of the database connection
	ToCli      chan PgMsg
	ToDB       chan PgMsg
	ErrCh      chan base.ProxyError
	sess       *rigSession
	cancel     context.CancelFunc
	dbReads    chan struct{}
	cliStarted atomic.Int64 // messages whose first byte the client-side reader has taken off the pipe
}

// CliStarted = number of messages the proxy has begun to write to the client so far.  A write of
// the proxy on the (unbuffered) pipe returns only after the reader consumed it, so once a LATER
// action of the same proxy goroutine is observed, every earlier message is counted here.
func (r *PgRig) CliStarted() int64 { return r.cliStarted.Load() }

// ErrRigTimeout is returned when the proxy does not produce an expected message in time.
var ErrRigTimeout = errors.New("rig: timeout waiting for the proxy")

var initRegistryOnce sync.Once

func readMsgs(c net.Conn, out chan PgMsg, firstUntyped bool, started *atomic.Int64) {
	defer close(out)
	first := firstUntyped
	for {
		var typ byte
		if !first {
			var t [1]byte
			if _, err := io.ReadFull(c, t[:]); err != nil {
				return
			}
			typ = t[0]
			if started != nil {
				started.Add(1)
			}
		}
		first = false
		var l [4]byte
		if _, err := io.ReadFull(c, l[:]); err != nil {
			return
		}
		n := int(binary.BigEndian.Uint32(l[:]))
		if n < 4 || n > 1<<24 {
			return
		}
		p := make([]byte, n-4)
		if _, err := io.ReadFull(c, p); err != nil {
			return
		}
		out <- PgMsg{typ, p}
	}
}

// NewPgRig builds the proxy from a censor YAML and an encryptor-config YAML and starts both directions.
func NewPgRig(censorYAML, encryptorYAML []byte) (*PgRig, error) {
	initRegistryOnce.Do(func() { crypto.InitRegistry(nil) })
	censor := acracensor.NewAcraCensor()
	if err := censor.LoadConfiguration(censorYAML); err != nil {
		return nil, err
	}
	schema, err := config.MapTableSchemaStoreFromConfig(encryptorYAML, false)
	if err != nil {
		return nil, err
	}
	parser := sqlparser.New(sqlparser.ModeStrict)
	ks := vh.NewMemKeystore()
	setting := base.NewProxySetting(parser, schema, ks, nil, censor, nil)
	factory, err := postgresql.NewProxyFactory(setting, ks, nil)
	if err != nil {
		return nil, err
	}
	cliH, cliP := net.Pipe()
	dbP, dbH := net.Pipe()
	ctx, cancel := context.WithCancel(context.Background())
	dbReads := make(chan struct{}, 4096)
	sess := &rigSession{client: cliP, db: &syncConn{dbP, dbReads}, data: map[string]interface{}{}}
	sess.ctx = base.SetClientSessionToContext(ctx, sess)
	proxy, err := factory.New([]byte("client"), sess)
	if err != nil {
		cancel()
		return nil, err
	}
	rig := &PgRig{Client: cliH, Backend: dbH, ToCli: make(chan PgMsg, 64), ToDB: make(chan PgMsg, 64),
		ErrCh: make(chan base.ProxyError, 4), sess: sess, cancel: cancel, dbReads: dbReads}
	go readMsgs(cliH, rig.ToCli, false, &rig.cliStarted)
	go readMsgs(dbH, rig.ToDB, true, nil)
	go proxy.ProxyClientConnection(sess.ctx, rig.ErrCh)
	go proxy.ProxyDatabaseConnection(sess.ctx, rig.ErrCh)
	return rig, nil
}

func encodeMsg(m PgMsg) []byte {
	var b []byte
	if m.Type != 0 {
		b = append(b, m.Type)
	}
	var l [4]byte
	binary.BigEndian.PutUint32(l[:], uint32(len(m.Payload)+4))
	b = append(b, l[:]...)
	return append(b, m.Payload...)
}

func writeTimeout(c net.Conn, b []byte) error {
	c.SetWriteDeadline(time.Now().Add(5 * time.Second))
	_, err := c.Write(b)
	return err
}

// ClientSend writes one message on the client connection.
func (r *PgRig) ClientSend(m PgMsg) error { return writeTimeout(r.Client, encodeMsg(m)) }

// BackendSend writes one message on the database connection (as the database).
func (r *PgRig) BackendSend(m PgMsg) error { return writeTimeout(r.Backend, encodeMsg(m)) }

// BackendSendSync writes one message as the database and returns when the proxy has processed it
// completely (it came back to read the next message).  Everything the proxy wrote to the client
// for this message is then counted in CliStarted.
func (r *PgRig) BackendSendSync(m PgMsg) error {
	if err := r.BackendSend(m); err != nil {
		return err
	}
	select {
	case <-r.dbReads:
		return nil
	case <-time.After(5 * time.Second):
		return ErrRigTimeout
	}
}

// Recv waits for the next message on ch.
func Recv(ch chan PgMsg, d time.Duration) (PgMsg, error) {
	select {
	case m, ok := <-ch:
		if !ok {
			return PgMsg{}, io.EOF
		}
		return m, nil
	case <-time.After(d):
		return PgMsg{}, ErrRigTimeout
	}
}

// Pending returns the SQL texts in pendingQueryPackets (head first) through the export_verif hook.
func (r *PgRig) Pending() []string {
	st, ok := r.sess.state.(*postgresql.PgProtocolState)
	if !ok || st == nil {
		return nil
	}
	return st.VerifPendingQueries()
}

// Startup performs the start-up exchange: StartupMessage -> back end, AuthenticationOk + ReadyForQuery -> client.
func (r *PgRig) Startup() error {
	p := []byte{0, 3, 0, 0}
	p = append(p, []byte("user\x00u\x00database\x00d\x00\x00")...)
	if err := r.ClientSend(PgMsg{0, p}); err != nil {
		return err
	}
	if _, err := Recv(r.ToDB, 5*time.Second); err != nil {
		return err
	}
	select { // the database side of the proxy has started to read
	case <-r.dbReads:
	case <-time.After(5 * time.Second):
		return ErrRigTimeout
	}
	if err := r.BackendSendSync(PgMsg{'R', []byte{0, 0, 0, 0}}); err != nil {
		return err
	}
	if _, err := Recv(r.ToCli, 5*time.Second); err != nil {
		return err
	}
	if err := r.BackendSendSync(PgMsg{'Z', []byte{'I'}}); err != nil {
		return err
	}
	_, err := Recv(r.ToCli, 5*time.Second)
	return err
}

// Close tears the session down.
func (r *PgRig) Close() {
	r.cancel()
	r.Client.Close()
	r.Backend.Close()
	r.sess.client.Close()
	r.sess.db.Close()
}
