package censorrig

// Extension of the in-process PostgreSQL rig for the extended query protocol (check C05, domain
// c05prep): the same proxy, pipes and synchronisation as NewPgRig, plus
//   - access to Acra's own view of the session (prepared-statement registry, portal registry, queue
//     of pending query packets) through the add-only hooks of decryptor/postgresql/export_verif_s43.go,
//   - a recording query observer: the statement the proxy hands to the OnBind observers for every Bind.

import (
	"acra-vh/vh"

	"context"
	"errors"
	"net"
	"sync"

	pg_query "github.com/cossacklabs/pg_query_go/v5"

	acracensor "github.com/cossacklabs/acra/acra-censor"
	"github.com/cossacklabs/acra/crypto"
	"github.com/cossacklabs/acra/decryptor/base"
	"github.com/cossacklabs/acra/decryptor/postgresql"
	"github.com/cossacklabs/acra/encryptor/base/config"
	encpg "github.com/cossacklabs/acra/encryptor/postgresql"
	"github.com/cossacklabs/acra/sqlparser"
)

// PrepBindObserver records the statements given to OnBind (deparsed text), in call order.
type PrepBindObserver struct {
	mu    sync.Mutex
	binds []string
}

// ID implements QueryObserver.
func (o *PrepBindObserver) ID() string { return "censorrig.PrepBindObserver" }

// OnQuery implements QueryObserver (nothing recorded, nothing changed).
func (o *PrepBindObserver) OnQuery(ctx context.Context, data encpg.OnQueryObject) (encpg.OnQueryObject, bool, error) {
	return data, false, nil
}

// OnBind implements QueryObserver.
func (o *PrepBindObserver) OnBind(ctx context.Context, statement *pg_query.ParseResult, values []base.BoundValue) ([]base.BoundValue, bool, error) {
	text, err := pg_query.Deparse(statement)
	if err != nil {
		text = "deparse-error: " + err.Error()
	}
	o.mu.Lock()
	o.binds = append(o.binds, text)
	o.mu.Unlock()
	return values, false, nil
}

// Binds returns the statements seen so far.
func (o *PrepBindObserver) Binds() []string {
	o.mu.Lock()
	defer o.mu.Unlock()
	return append([]string{}, o.binds...)
}

// PgPrepRig is a PgRig whose proxy can be inspected.
type PgPrepRig struct {
	*PgRig
	Proxy    *postgresql.PgProxy
	Observer *PrepBindObserver
}

// NewPgPrepRig builds the proxy like NewPgRig and keeps a handle on it.
func NewPgPrepRig(censorYAML, encryptorYAML []byte) (*PgPrepRig, error) {
	initRegistryOnce.Do(func() { crypto.InitRegistry(nil) })
	censor := acracensor.NewAcraCensor()
	if err := censor.LoadConfiguration(censorYAML); err != nil {
		return nil, err
	}
	schema, err := config.MapTableSchemaStoreFromConfig(encryptorYAML, false)
	if err != nil {
		return nil, err
	}
	parser := sqlparser.New(sqlparser.ModeStrict)
	ks := vh.NewMemKeystore()
	setting := base.NewProxySetting(parser, schema, ks, nil, censor, nil)
	factory, err := postgresql.NewProxyFactory(setting, ks, nil)
	if err != nil {
		return nil, err
	}
	cliH, cliP := net.Pipe()
	dbP, dbH := net.Pipe()
	ctx, cancel := context.WithCancel(context.Background())
	dbReads := make(chan struct{}, 4096)
	sess := &rigSession{client: cliP, db: &syncConn{dbP, dbReads}, data: map[string]interface{}{}}
	sess.ctx = base.SetClientSessionToContext(ctx, sess)
	generic, err := factory.New([]byte("client"), sess)
	if err != nil {
		cancel()
		return nil, err
	}
	proxy, ok := generic.(*postgresql.PgProxy)
	if !ok {
		cancel()
		return nil, errors.New("rig: the proxy factory did not return a *postgresql.PgProxy")
	}
	obs := &PrepBindObserver{}
	proxy.AddQueryObserver(obs)
	rig := &PgRig{Client: cliH, Backend: dbH, ToCli: make(chan PgMsg, 64), ToDB: make(chan PgMsg, 64),
		ErrCh: make(chan base.ProxyError, 4), sess: sess, cancel: cancel, dbReads: dbReads}
	go readMsgs(cliH, rig.ToCli, false, &rig.cliStarted)
	go readMsgs(dbH, rig.ToDB, true, nil)
	go proxy.ProxyClientConnection(sess.ctx, rig.ErrCh)
	go proxy.ProxyDatabaseConnection(sess.ctx, rig.ErrCh)
	return &PgPrepRig{PgRig: rig, Proxy: proxy, Observer: obs}, nil
}
