(** CHECKED twin of Model/Envelope.v for property C14 (envelope decoders).
    Every definition follows the current Go code of /repo statement by statement; every
    slice / index expression goes through [gslice]/[gindex] (Lib/GoSlice.v) and therefore
    yields [Panic] exactly where Go raises a run-time error; integer conversions
    ([int(uint64)], [uint64(int)], uint64 and int64 wrap-around) are written out.
    [len s] is Go's [len(s)] (an [int]); constants are [zn CONST] with the constants of
    Gen/Consts.v.  No proofs here (Proofs/EnvelopeChecked.v). *)
From Acra Require Import Lib.Bytes Lib.Outcome Lib.GoSlice Lib.Sha256 Crypto.Interface Gen.Consts Model.Envelope.
Local Open Scope Z_scope.

Definition zn (n : nat) : Z := Z.of_nat n.

(** generic Go [for { … }] loop: [step] runs one iteration and either continues with a new
    state or leaves the loop with the function's result *)
Inductive step_res (S R : Type) := Continue (s : S) | Done (r : R).
Arguments Continue {S R} s.
Arguments Done {S R} r.

Fixpoint iterate {S R} (fuel : nat) (step : S -> res (step_res S R)) (s : S) : res R :=
  match fuel with
  | O => Err E_OUT_OF_FUEL
  | Datatypes.S f =>
      match step s with
      | Ok (Continue s') => iterate f step s'
      | Ok (Done r) => Ok r
      | Err e => Err e
      | Panic => Panic
      end
  end.

Section Checked.
Variable C : crypto.

(** * acrastruct/utils.go *)
(* GetMinAcraStructLength: len(TagBegin) + KeyBlockLength + DataLengthSize *)
Definition as_min_z : Z := len as_tag + zn as_key_block + zn AS_DATALEN_SIZE.

(* GetDataLengthFromAcraStruct *)
Definition as_data_length_checked (data : bytes) : res Z :=
  do dataLengthBlock <- gslice (as_min_z - zn AS_DATALEN_SIZE) as_min_z data;
  do v <- le_u64 dataLengthBlock;
  Ok (int_of_u64 v).

(* ValidateAcraStructLength: [Ok true] = nil error *)
Definition as_validate_checked (data : bytes) : res bool :=
  let baseLength := as_min_z in
  if len data <? baseLength then Ok false else
  do t <- gslice_to (len as_tag) data;
  if negb (bytes_eqb t as_tag) then Ok false else
  do dataLength <- as_data_length_checked data;
  do tail <- gslice_from as_min_z data;
  if negb (dataLength =? len tail) then Ok false else Ok true.

(* ExtractAcraStruct *)
Definition as_extract_checked (data : bytes) : res (Z * bytes) :=
  if len data <? as_min_z then Err E_GENERIC else
  do dl <- as_data_length_checked data;
  let acraStructLength := int_add dl as_min_z in
  if (acraStructLength <? 0) || (len data <? acraStructLength) then Err E_GENERIC else
  do s <- gslice_to acraStructLength data;
  do v <- as_validate_checked s;
  if negb v then Err E_GENERIC else
  do s2 <- gslice_to acraStructLength data;
  Ok (acraStructLength, s2).

(* DecryptAcrastruct *)
Definition as_decrypt_checked (data priv ctx : bytes) : res bytes :=
  do v <- as_validate_checked data;
  if negb v then Err E_GENERIC else
  do innerData <- gslice_from (len as_tag) data;
  do pub <- gslice_to (zn AS_PUBKEY_LEN) innerData;
  do sm <- gslice (zn AS_PUBKEY_LEN) (zn as_key_block) innerData;
  match msg_unwrap C priv pub sm with
  | None => Err E_GENERIC
  | Some symkey =>
      (* binary.Read of a uint64 from an 8-byte reader cannot fail *)
      do _ <- gslice (zn as_key_block) (zn (as_key_block + AS_DATALEN_SIZE)) innerData;
      do ct <- gslice_from (zn (as_key_block + AS_DATALEN_SIZE)) innerData;
      of_option E_GENERIC (cell_decrypt C symkey ctx ct)
  end.

(* DecryptRotatedAcrastruct *)
Fixpoint as_decrypt_rotated_checked (data : bytes) (privs : list bytes) (ctx : bytes) : res bytes :=
  match privs with
  | [] => Err E_GENERIC
  | p :: rest =>
      match as_decrypt_checked data p ctx with
      | Ok x => Ok x
      | Panic => Panic
      | Err e => match rest with [] => Err e | _ => as_decrypt_rotated_checked data rest ctx end
      end
  end.

(* ProcessAcraStructs.  State of the loop: (outBuffer, inIndex, outIndex). *)
Definition pas_state : Type := bytes * Z * Z.

Definition pas_step (proc : bytes -> res bytes) (inBuffer : bytes) (st : pas_state)
  : res (step_res pas_state bytes) :=
  let '(outBuffer, inIndex, outIndex) := st in
  do rest <- gslice_from inIndex inBuffer;
  match index_of as_tag rest with
  | None =>   (* break; copy left bytes *)
      do o <- gslice_to outIndex outBuffer;
      do r <- gslice_from inIndex inBuffer;
      Ok (Done (o ++ r))
  | Some i =>
      let beginTagIndex := zn i + inIndex in
      do o <- gslice_to outIndex outBuffer;
      do mid <- gslice inIndex beginTagIndex inBuffer;
      let outBuffer := o ++ mid in
      let outIndex := outIndex + (beginTagIndex - inIndex) in
      let inIndex := beginTagIndex in
      do r1 <- gslice_from inIndex inBuffer;
      do cand <-
        (if as_min_z <? len r1 then
           do r2 <- gslice_from inIndex inBuffer;
           do dl <- as_data_length_checked r2;
           let acrastructLength := int_add dl as_min_z in
           do r3 <- gslice_from inIndex inBuffer;
           if (0 <? acrastructLength) && (acrastructLength <=? len r3) then
             let endIndex := inIndex + acrastructLength in
             do s <- gslice inIndex endIndex inBuffer;
             Ok (Some (acrastructLength, s))
           else Ok None
         else Ok None);
      match cand with
      | Some (acrastructLength, s) =>
          match proc s with
          | Panic => Panic
          | Err e => Err e            (* return inBuffer, err *)
          | Ok processedData =>
              do o2 <- gslice_to outIndex outBuffer;
              Ok (Continue (o2 ++ processedData, inIndex + acrastructLength, outIndex + len processedData))
          end
      | None =>
          do o2 <- gslice_to outIndex outBuffer;
          do b <- gindex inIndex inBuffer;
          Ok (Continue (o2 ++ [b], inIndex + 1, outIndex + 1))
      end
  end.

Definition process_acrastructs_checked (proc : bytes -> res bytes) (inBuffer outBuffer : bytes) : res bytes :=
  if len inBuffer <? as_min_z then Ok (gcopy outBuffer inBuffer)
  else iterate (S (length inBuffer)) (pas_step proc inBuffer) (outBuffer, 0, 0).

(** * acrablock/acrablock.go *)
Definition backend_known (b sym : byte) : bool := byte_eqb b sym.   (* the maps have the single key SecureCell *)

(* ExtractAcraBlockFromData *)
Definition ab_extract_checked (data : bytes) : res (Z * bytes) :=
  if len data <? zn AB_MIN_SIZE then Err E_GENERIC else
  do t <- gslice_to (zn AB_TAG_SIZE) data;
  do t2 <- gslice_to (zn AB_TAG_SIZE) as_tag;          (* acrastruct.TagBegin[:TagBeginSize] *)
  let m1 := bytes_eqb t t2 in
  do rl <- gslice (zn AB_REST_LEN_POS) (zn (AB_REST_LEN_POS + AB_REST_LEN_SIZE)) data;
  do restLength <- le_u64 rl;
  let m2 := (N.of_nat (AB_MIN_SIZE - AB_TAG_SIZE) <=? restLength)%N
            && (restLength <=? u64_of_int (len data - zn AB_TAG_SIZE))%N in
  do kb <- gindex (zn AB_KEK_TYPE_POS) data;
  let m3 := backend_known kb AB_KEK_TYPE_SECURE_CELL in
  do db <- gindex (zn AB_DATA_TYPE_POS) data;
  let m4 := backend_known db AB_DATA_TYPE_SECURE_CELL in
  if negb (m1 && m2 && m3 && m4) then Err E_GENERIC else
  let length := u64_add (N.of_nat AB_TAG_SIZE) restLength in
  do blk <- gslice_to (Z.of_N length) data;             (* data[:length], length uint64 *)
  Ok (int_of_u64 length, blk).

(* EncryptedDataEncryptionKeyLength *)
Definition ab_key_len_checked (b : bytes) : res Z :=
  do s <- gslice (zn AB_DEK_LEN_POS) (zn (AB_DEK_LEN_POS + AB_DEK_LEN_SIZE)) b;
  do v <- le_u16 s;
  Ok (Z.of_N v).

(* KeyEncryptionBackend / DataEncryptionBackend: [Ok false] = nil backend *)
Definition ab_kek_backend_checked (b : bytes) : res bool :=
  do x <- gindex (zn AB_KEK_TYPE_POS) b; Ok (backend_known x AB_KEK_TYPE_SECURE_CELL).
Definition ab_data_backend_checked (b : bytes) : res bool :=
  do x <- gindex (zn AB_DATA_TYPE_POS) b; Ok (backend_known x AB_DATA_TYPE_SECURE_CELL).

(* getKeyEncryptionKeyID *)
Definition ab_block_key_id_checked (b : bytes) : res bytes :=
  if len b <? zn (AB_KEY_ID_POS + AB_KEY_ID_SIZE) then Err E_GENERIC
  else gslice (zn AB_KEY_ID_POS) (zn (AB_KEY_ID_POS + AB_KEY_ID_SIZE)) b.

(* AcraBlock.Decrypt *)
Definition ab_decrypt_checked (b : bytes) (keys : list bytes) (ctx : bytes) : res bytes :=
  if len b <? zn AB_MIN_SIZE then Err E_GENERIC else
  do keySize <- ab_key_len_checked b;
  if len b <? zn AB_MIN_SIZE + keySize then Err E_GENERIC else
  do encryptedKey <- gslice (zn AB_ENC_KEY_POS) (zn AB_ENC_KEY_POS + keySize) b;
  do encryptedData <- gslice_from (zn AB_MIN_SIZE + keySize) b;
  do kek <- ab_kek_backend_checked b;
  do dek <- ab_data_backend_checked b;
  if negb (kek && dek) then Err E_GENERIC else
  do blockKeyID <- ab_block_key_id_checked b;
  match ab_find_key C keys ctx blockKeyID encryptedKey with
  | None => Err E_GENERIC
  | Some dk => of_option E_GENERIC (cell_decrypt C dk ctx encryptedData)
  end.

(* ProcessAcraBlocks (acrablock/utils.go); the processor receives the extracted block *)
Definition pab_step (proc : bytes -> res bytes) (inBuffer : bytes) (st : pas_state)
  : res (step_res pas_state bytes) :=
  let '(outBuffer, inIndex, outIndex) := st in
  do rest <- gslice_from inIndex inBuffer;
  match index_of ab_tag rest with
  | None =>
      do o <- gslice_to outIndex outBuffer;
      do r <- gslice_from inIndex inBuffer;
      Ok (Done (o ++ r))
  | Some i =>
      let beginTagIndex := zn i + inIndex in
      do o <- gslice_to outIndex outBuffer;
      do mid <- gslice inIndex beginTagIndex inBuffer;
      let outBuffer := o ++ mid in
      let outIndex := outIndex + (beginTagIndex - inIndex) in
      let inIndex := beginTagIndex in
      do r1 <- gslice_from inIndex inBuffer;
      do cand <-
        (if zn AB_MIN_SIZE <? len r1 then
           do r2 <- gslice_from inIndex inBuffer;
           match ab_extract_checked r2 with
           | Ok (n, blk) => Ok (Some (n, blk))
           | Err _ => Ok None
           | Panic => Panic
           end
         else Ok None);
      match cand with
      | Some (n, blk) =>
          match proc blk with
          | Panic => Panic
          | Err e => Err e
          | Ok processedData =>
              do o2 <- gslice_to outIndex outBuffer;
              Ok (Continue (o2 ++ processedData, inIndex + n, outIndex + len processedData))
          end
      | None =>
          do o2 <- gslice_to outIndex outBuffer;
          do b <- gindex inIndex inBuffer;
          Ok (Continue (o2 ++ [b], inIndex + 1, outIndex + 1))
      end
  end.

Definition process_acrablocks_checked (proc : bytes -> res bytes) (inBuffer outBuffer : bytes) : res bytes :=
  if len inBuffer <? zn AB_MIN_SIZE then Ok (gcopy outBuffer inBuffer)
  else iterate (S (length inBuffer)) (pab_step proc inBuffer) (outBuffer, 0, 0).

(** * crypto/registry_handler.go *)
(* validateSerializedContainer: [Ok None] = error *)
Definition sc_validate_checked (data : bytes) : res (option byte) :=
  if len data <=? zn SC_MIN_SIZE then Ok None else
  do t <- gslice_to (len sc_tag) data;
  if negb (bytes_eqb t sc_tag) then Ok None else
  do envelopeID <- gindex (zn (SC_TAG_SIZE + SC_LEN_SIZE)) data;
  if known_envelope envelopeID then Ok (Some envelopeID) else Ok None.

(* matchOldContainer: [Ok None] = ErrNoOldContainerMatched *)
Definition match_old_checked (data : bytes) : res (option (byte * Z)) :=
  do v <- as_validate_checked data;
  if v then
    do dl <- as_data_length_checked data;
    Ok (Some (ENVELOPE_ID_ACRASTRUCT, int_add dl as_min_z))
  else
    match ab_extract_checked data with
    | Ok (n, _) => Ok (Some (ENVELOPE_ID_ACRABLOCK, n))
    | Err _ => Ok None
    | Panic => Panic
    end.

(* getEnvelopeIDFromData *)
Definition envelope_kind_checked (data : bytes) : res env_kind :=
  do v <- sc_validate_checked data;
  match v with
  | Some id => Ok (EnvNew id)
  | None =>
      do m <- match_old_checked data;
      match m with Some (id, _) => Ok (EnvOld id) | None => Ok EnvNone end
  end.

(* getSerializedContainerLength *)
Definition sc_internal_length_checked (encrypted : bytes) : res N :=
  do lb <- gslice (len sc_tag) (len sc_tag + zn SC_LEN_SIZE) encrypted;
  do length <- le_u64 lb;
  let internalLength := u64_sub length (u64_of_int (zn SC_MIN_SIZE)) in
  if (internalLength <? 0)%N || (u64_of_int (len encrypted - zn SC_MIN_SIZE) <? internalLength)%N
  then Err E_GENERIC else Ok internalLength.

(* DeserializeEncryptedData: (internal, envelope id, bytes allocated with make) *)
Definition sc_deserialize_alloc_checked (encrypted : bytes) : res (bytes * byte * nat) :=
  do k <- envelope_kind_checked encrypted;
  match k with
  | EnvOld id => Ok (encrypted, id, O)
  | EnvNone => Err E_GENERIC
  | EnvNew id =>
      do internalLength <- sc_internal_length_checked encrypted;
      do n <- gmake (int_of_u64 internalLength);
      let internal := repeat x00 n in
      do src <- gslice_from (zn SC_MIN_SIZE) encrypted;
      Ok (gcopy internal src, id, n)
  end.

Definition sc_deserialize_checked (encrypted : bytes) : res (bytes * byte) :=
  res_map fst (sc_deserialize_alloc_checked encrypted).

(* ExtractSerializedContainer *)
Definition sc_extract_checked (data : bytes) : res (Z * bytes) :=
  do v <- sc_validate_checked data;
  match v with
  | Some _ =>
      do lb <- gslice (len sc_tag) (len sc_tag + zn SC_LEN_SIZE) data;
      do length <- le_u64 lb;
      if (length <=? u64_of_int (zn SC_MIN_SIZE))%N || (u64_of_int (len data) <? length)%N
      then Err E_GENERIC else Ok (int_of_u64 length, data)
  | None =>
      do m <- match_old_checked data;
      match m with
      | Some (id, n) => do s <- sc_serialize data id; Ok (n, s)
      | None => Err E_GENERIC
      end
  end.

(** * crypto/envelope_detector.go: EnvelopeDetector.OnColumn *)
(* the inner [for index, handler := range callbacks]: None = "append inBuffer[inIndex]; inIndex++" *)
Fixpoint cb_loop (cbs : list (bytes -> res bytes)) (container : bytes) : res (option bytes) :=
  match cbs with
  | [] => Ok None
  | h :: rest =>
      let last := is_nil rest in     (* index == len(callbacks)-1 *)
      match h container with
      | Panic => Panic
      | Err e =>
          if N.eqb e E_DECRYPTION then (if last then Ok None else cb_loop rest container)
          else Err e                 (* return ctx, inBuffer, err *)
      | Ok processedData =>
          if negb (bytes_eqb processedData container) then Ok (Some processedData)
          else if last then Ok None else cb_loop rest container
      end
  end.

(* state: (outBuffer, inIndex, changed) *)
Definition oc_state : Type := bytes * Z * bool.

Definition oc_step (cbs : list (bytes -> res bytes)) (inBuffer : bytes) (st : oc_state)
  : res (step_res oc_state (bytes * bool)) :=
  let '(outBuffer, inIndex, changed) := st in
  do rest <- gslice_from inIndex inBuffer;
  match index_of sc_tag rest with
  | None =>
      do r <- gslice_from inIndex inBuffer;
      Ok (Done (outBuffer ++ r, changed))
  | Some i =>
      let beginTagIndex := zn i + inIndex in
      do mid <- gslice inIndex beginTagIndex inBuffer;
      let outBuffer := outBuffer ++ mid in
      let inIndex := beginTagIndex in
      do r1 <- gslice_from inIndex inBuffer;
      match sc_extract_checked r1 with
      | Panic => Panic
      | Err _ =>
          do b <- gindex inIndex inBuffer;
          Ok (Continue (outBuffer ++ [b], inIndex + 1, changed))
      | Ok (n, container) =>
          match cb_loop cbs container with
          | Panic => Panic
          | Err e => Err e
          | Ok None =>
              do b <- gindex inIndex inBuffer;
              Ok (Continue (outBuffer ++ [b], inIndex + 1, changed))
          | Ok (Some processedData) =>
              Ok (Continue (outBuffer ++ processedData, inIndex + n, true))
          end
      end
  end.

Definition on_column_checked (cbs : list (bytes -> res bytes)) (inBuffer : bytes) : res (bytes * bool) :=
  if (len inBuffer <? zn SC_MIN_SIZE) || (Z.of_nat (length cbs) =? 0) then Ok (inBuffer, false)
  else iterate (S (length inBuffer)) (oc_step cbs inBuffer) ([], 0, false).

(** * hmac/hash.go *)
(* ExtractHash: Some = HashData.data *)
Definition extract_hash_checked (data : bytes) : res (option bytes) :=
  if len data =? 0 then Ok None else
  do f <- gindex 0 data;
  if negb (byte_eqb f HMAC_FUNC_SHA256) then Ok None else   (* hashFuncMap lookup *)
  let size := zn (HMAC_HASH_SIZE - 1) in                    (* sha256.New().Size() *)
  do t <- gslice_from 1 data;
  if len t <? size then Ok None else
  do h <- gslice_to (size + 1) data;
  Ok (Some h).

(* ExtractHashAndData *)
Definition extract_hash_and_data_checked (container : bytes) : res (option (bytes * bytes)) :=
  do h <- extract_hash_checked container;
  match h with
  | None => Ok None
  | Some hd => do r <- gslice_from (len hd) container; Ok (Some (hd, r))
  end.

(** * handlers (crypto/acrastruct.go, crypto/acrablock.go, RegistryHandler): compositions of the above *)
Definition handler_match_checked (id : byte) (data : bytes) : res bool :=
  if byte_eqb id ENVELOPE_ID_ACRASTRUCT then as_validate_checked data
  else match ab_extract_checked data with Ok _ => Ok true | Err _ => Ok false | Panic => Panic end.

Definition handler_decrypt_checked (id : byte) (ks : keyset) (data : bytes) : res bytes :=
  if byte_eqb id ENVELOPE_ID_ACRASTRUCT then
    do v <- as_validate_checked data;
    if negb v then Err E_GENERIC
    else if is_nil (ks_privs ks) then Err E_GENERIC
    else as_decrypt_rotated_checked data (ks_privs ks) []
  else
    match ab_extract_checked data with
    | Ok (_, block) =>
        if is_nil (ks_syms ks) then Err E_GENERIC
        else match ab_decrypt_checked block (ks_syms ks) [] with
             | Ok x => Ok x
             | Err _ => Err E_DECRYPTION
             | Panic => Panic
             end
    | Err e => Err e
    | Panic => Panic
    end.

(* RegistryHandler.DecryptWithHandler *)
Definition decrypt_with_handler_checked (id : byte) (ks : keyset) (data : bytes) : res bytes :=
  do p <- sc_deserialize_checked data;
  let '(internal, _) := p in
  do m <- handler_match_checked id internal;
  if negb m then Err E_GENERIC
  else handler_decrypt_checked id ks internal.

(* RegistryHandler.Process *)
Definition registry_process_checked (ks : keyset) (data : bytes) : res bytes :=
  do k <- envelope_kind_checked data;
  match k with
  | EnvNone => Err E_GENERIC
  | EnvNew id | EnvOld id => decrypt_with_handler_checked id ks data
  end.

End Checked.
