(** Replay of implementation observations on the keystore v1 write model (C08_v1 fault scenarios). *)
From Acra Require Export Lib.Bytes Lib.Outcome Model.KeystoreWrite Model.KeystoreWriteV1.
Local Open Scope N_scope.

Inductive expected := XOk (vals : list bytes) | XErr | XPanic.

(** history of (operation, fault) steps on an empty keystore directory (after a crash the next
    step is run by a new process: v1 keeps nothing but a cache in memory); one operation with the
    fault; then a fresh keystore object: storage dump, probe, a follow-up operation, storage dump *)
Inductive op :=
| Scenario (links : bool) (hist : list (v1op * fault)) (faulted : v1op) (f : fault) (follow : v1op).

(** the key files of the harness (harness/vhv1/rig.go Universe) *)
Definition universe : list N := [0; 1; 2; 3; 4; 5; 6; 7; 8; 9; 10; 11].

(** ** encoding of observations: sequences of 16-bit little-endian numbers (every number of a
    scenario is small) *)
Definition encN (n : N) : bytes := le_enc 2 n.
Definition enc_nat (n : nat) : bytes := encN (N.of_nat n).

Definition enc_content (c : option content) : bytes :=
  match c with
  | Some (CKey 0 _) => encN 0 ++ encN 0          (* an empty file *)
  | Some (CKey o w) => encN o ++ encN (if w then 1 else 0)
  | _ => encN 99
  end.

Fixpoint tmp_names (k : N) (l : list fname) : list N :=
  match l with
  | [] => []
  | FTmp k' rnd :: t => if N.eqb k k' then rnd :: tmp_names k t else tmp_names k t
  | _ :: t => tmp_names k t
  end.

Definition enc_key (st : storage) (k : N) : bytes :=
  let olds := old_ts k st in
  let tmps := sort_u (tmp_names k (names st)) in
  encN k ++
  match lookup (FKey k) st with None => encN 0 | c => encN 1 ++ enc_content c end ++
  enc_nat (length olds) ++ flat_map (fun ts => enc_content (lookup (FOld k ts) st)) olds ++
  enc_nat (length tmps) ++ flat_map (fun r => encN r ++ enc_content (lookup (FTmp k r) st)) tmps.

Definition enc_storage (st : storage) : bytes := flat_map (enc_key st) universe.

Definition enc_res (r : res unit) : bytes :=
  match r with Ok _ => encN 0 | Err _ => encN 1 | Panic => encN 3 end.

Definition enc_cur (r : res N) : bytes :=
  match r with Ok o => encN 0 ++ encN o | Err _ => encN 1 | Panic => encN 3 end.

Definition enc_all (k : N) (st : storage) : bytes :=
  if has_all k then
    match read_all k st with
    | Ok l => encN 0 ++ enc_nat (length l) ++ flat_map encN l
    | Err _ => encN 1
    | Panic => encN 3
    end
  else encN 9.

Fixpoint in_universe (k : N) (u : list N) : bool :=
  match u with [] => false | x :: t => N.eqb k x || in_universe k t end.

(** the probe of a fresh keystore object: every key's current and all-versions reader, ListKeys,
    ListRotatedKeys, CacheOnStart *)
Definition enc_probe (st : storage) : bytes :=
  flat_map (fun k => enc_cur (read_cur k st) ++ enc_all k st) universe ++
  match k1_list_keys st with
  | Ok ks => let l := sort_u ks in encN 0 ++ enc_nat (length l) ++ flat_map encN l
  | _ => encN 1
  end ++
  (encN 0 ++ enc_nat (k1_list_rotated st)) ++
  match k1_cache_on_start st with Ok _ => encN 0 | _ => encN 1 end.

Fixpoint run_hist (links : bool) (st : storage) (h : list (v1op * fault)) : storage :=
  match h with
  | [] => st
  | (o, f) :: rest => run_hist links (v1_after links st o f) rest
  end.

Definition op_keys (o : v1op) : list N :=
  match o with
  | V1Write k _ _ _ | V1DestroySym k | V1DestroyRotated k _ => [k]
  | V1SavePair a b _ _ _ _ _ _ | V1DestroyPair a b | V1DestroyRotatedPair a b _ => [a; b]
  end.

Definition run_scenario (links : bool) (hist : list (v1op * fault)) (o : v1op) (f : fault) (follow : v1op) : expected :=
  let st0 := run_hist links [] hist in
  let '(outcome, st1) :=
    match vexec links (v1_prog o) f st0 0 with
    | Ret r st1 k => (enc_res r ++ enc_nat k, st1)
    | Crash st1 => (encN 2, st1)
    end in
  let '(fo, st2) :=
    match vexec links (v1_prog follow) None st1 0 with
    | Ret r st2 _ => (enc_res r, st2)
    | Crash st2 => (encN 2, st2)
    end in
  let reads := flat_map (fun k => if in_universe k universe then enc_cur (read_cur k st2) else []) (op_keys follow) in
  XOk [outcome; enc_storage st1; enc_probe st1; fo ++ reads; enc_storage st2].

Definition run (o : op) : expected :=
  match o with
  | Scenario links hist x f follow => run_scenario links hist x f follow
  end.

Fixpoint list_bytes_eqb (a b : list bytes) : bool :=
  match a, b with
  | [], [] => true
  | x :: a', y :: b' => bytes_eqb x y && list_bytes_eqb a' b'
  | _, _ => false
  end.

Definition expected_eqb (a b : expected) : bool :=
  match a, b with
  | XOk x, XOk y => list_bytes_eqb x y
  | XErr, XErr => true
  | XPanic, XPanic => true
  | _, _ => false
  end.

Fixpoint mismatches_from (i : nat) (cs : list (op * expected)) : list (nat * expected) :=
  match cs with
  | [] => []
  | (o, e) :: rest =>
      let m := run o in
      if expected_eqb m e then mismatches_from (S i) rest else (i, m) :: mismatches_from (S i) rest
  end.
Definition mismatches := mismatches_from 0.
