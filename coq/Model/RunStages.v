(** Replay of implementation observations on Model/Stages.v.  Domain c04stages (property C04). *)
From Coq Require Import List NArith Bool.
From Acra Require Import Lib.Bytes Lib.Outcome Gen.StagesConsts.
From Acra Require Export Model.Stages.
Import ListNotations.
Local Open Scope N_scope.

(* canonical outcomes (own copy: Model/RunEnvelope.v would pull the whole crypto stand-in into every case shard) *)
Inductive expected := XOk (vals : list bytes) | XErr | XPanic.
Fixpoint list_bytes_eqb (a b : list bytes) : bool :=
  match a, b with
  | [], [] => true
  | x :: a', y :: b' => bytes_eqb x y && list_bytes_eqb a' b'
  | _, _ => false
  end.
Definition expected_eqb (a b : expected) : bool :=
  match a, b with
  | XOk x, XOk y => list_bytes_eqb x y
  | XErr, XErr => true
  | XPanic, XPanic => true
  | _, _ => false
  end.

Definition be32 (m : N) : bytes := be_enc 4 m.

Definition stage_id (s : stage) : byte :=
  n2b match s with StTokenize => 0 | StEncrypt => 1 | StSearch => 2 | StMask => 3 | StReencrypt => 4 end.
Definition sub_id (s : subscriber) : byte :=
  n2b match s with SubDecoder => 0 | SubToken => 1 | SubHmac => 2 | SubDetector => 3 | SubVerify => 4
      | SubEncoder => 5 | SubQuery => 6 | SubPrepared => 7 end.

Definition cfg_of (d : st_defaults) (cfg : list (list st_raw)) : config := map (map (apply_defaults d)) cfg.

Inductive op :=
(* GetSettingMask() of one column setting of a loaded config *)
| StColMask (d : st_defaults) (c : st_raw)
(* MapTableSchemaStoreFromConfig + proxyFactory.New: [global mask; write chain members; column subscribers] *)
| StBuild (mysql : bool) (d : st_defaults) (cfg : list (list st_raw))
(* a fresh value written through the proxy to column ci of table ti (None: a column without setting):
   [1] = the database received something else than the application sent *)
| StFwd (d : st_defaults) (cfg : list (list st_raw)) (ti : nat) (ci : option nat).

Definition run (o : op) : expected :=
  match o with
  | StColMask d c => XOk [be32 (col_mask (apply_defaults d c))]
  | StBuild mysql d cfg =>
      let m := global_mask (cfg_of d cfg) in
      XOk [be32 m; map stage_id (build_chain m); map sub_id (build_subs mysql m)]
  | StFwd d cfg ti ci =>
      let c := cfg_of d cfg in
      match ci with
      | None => XOk [[n2b 0]]
      | Some i =>
          match nth_error (nth ti c []) i with
          | Some col => XOk [[n2b (if forwarded_changed (build_chain (global_mask c)) col then 1 else 0)]]
          | None => XErr
          end
      end
  end.

Fixpoint mismatches_from (i : nat) (cs : list (op * expected)) : list (nat * expected) :=
  match cs with
  | [] => []
  | (o, e) :: rest =>
      let m := run o in
      if expected_eqb m e then mismatches_from (S i) rest else (i, m) :: mismatches_from (S i) rest
  end.
Definition mismatches := mismatches_from 0.
