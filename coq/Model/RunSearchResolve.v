(** Replay of the REAL HashQuery.OnQuery / OnBind (PostgreSQL and MySQL) on the column-resolution model of the
    searchable path (Model/SearchResolve.v).

      RQuery d cfg srch key s exp   the statement [s] through OnQuery of a client whose HMAC key is [key]; [exp] is
                                    the statement the REAL code produced (same mapping of the real AST as [s]);
                                    outcome XOk [01] = the model produces exactly [exp]
      RBind d cfg srch s n          OnBind on the (rewritten) statement [s] with [n] bound values: the positions
                                    whose value was replaced, ascending, one byte each *)
From Coq Require Import List Bool NArith Arith.
From Acra Require Import Lib.Bytes Lib.Outcome Lib.Sha256 Gen.Consts Model.Search.
From Acra Require Export Model.SearchResolve.
Import ListNotations.

Inductive expected := XOk (vals : list bytes) | XErr | XPanic.

Inductive op :=
| RQuery (d : dial) (cfg : CR.rcfg) (srch : list N) (key : bytes) (s exp : sel)
| RBind (d : dial) (cfg : CR.rcfg) (srch : list N) (s : sel) (n : nat).

(** * decidable equality of statements *)
Definition cop_eqb (a b : cop) : bool :=
  match a, b with
  | OpEq, OpEq | OpNe, OpNe | OpNse, OpNse | OpLike, OpLike | OpNLike, OpNLike | OpOther, OpOther => true
  | _, _ => false
  end.

Definition rval_eqb (a b : rval) : bool :=
  match a, b with
  | VLit x, VLit y => bytes_eqb x y
  | VPar i, VPar j => Nat.eqb i j
  | _, _ => false
  end.

Fixpoint expr_eqb (a b : expr) : bool :=
  match a, b with
  | ECol q c, ECol q' c' => bytes_eqb q q' && bytes_eqb c c'
  | EVal v, EVal v' => rval_eqb v v'
  | ECast e, ECast e' | ESubstr e, ESubstr e' | EConv e, EConv e' => expr_eqb e e'
  | EOther n, EOther n' => N.eqb n n'
  | _, _ => false
  end.

Definition item_eqb (a b : item) : bool :=
  bytes_eqb (it_q a) (it_q b) && bytes_eqb (it_c a) (it_c b) && bytes_eqb (it_as a) (it_as b).

Fixpoint items_eqb (a b : list item) : bool :=
  match a, b with
  | [], [] => true
  | x :: a', y :: b' => item_eqb x y && items_eqb a' b'
  | _, _ => false
  end.

Fixpoint cond_eqb (a b : cond) {struct a} : bool :=
  match a, b with
  | CTrue, CTrue => true
  | CCmp o l r, CCmp o' l' r' => cop_eqb o o' && expr_eqb l l' && expr_eqb r r'
  | CAnd x y, CAnd x' y' | COr x y, COr x' y' => cond_eqb x x' && cond_eqb y y'
  | CNot x, CNot x' | CParen x, CParen x' => cond_eqb x x'
  | CExists s, CExists s' => sel_eqb s s'
  | CIn e s, CIn e' s' => expr_eqb e e' && sel_eqb s s'
  | CCmpSub o e s, CCmpSub o' e' s' => cop_eqb o o' && expr_eqb e e' && sel_eqb s s'
  | _, _ => false
  end
with tref_eqb (a b : tref) {struct a} : bool :=
  match a, b with
  | TBase n x, TBase n' x' => bytes_eqb n n' && bytes_eqb x x'
  | TJoin l r o, TJoin l' r' o' => tref_eqb l l' && tref_eqb r r' && cond_eqb o o'
  | TDerived s x, TDerived s' x' => sel_eqb s s' && bytes_eqb x x'
  | _, _ => false
  end
with flist_eqb (a b : flist) {struct a} : bool :=
  match a, b with
  | FNil, FNil => true
  | FCons t f, FCons t' f' => tref_eqb t t' && flist_eqb f f'
  | _, _ => false
  end
with sel_eqb (a b : sel) {struct a} : bool :=
  match a, b with
  | Sel i f w, Sel i' f' w' => items_eqb i i' && flist_eqb f f' && cond_eqb w w'
  end.

(** ascending, without repetition *)
Fixpoint insert_nat (i : nat) (l : list nat) : list nat :=
  match l with
  | [] => [i]
  | x :: tl => if Nat.ltb i x then i :: l else if Nat.eqb i x then l else x :: insert_nat i tl
  end.
Definition sort_nat (l : list nat) : list nat := fold_right insert_nat [] l.

Definition flagb (b : bool) : bytes := [if b then x01 else x00].

Definition run (o : op) : expected :=
  match o with
  | RQuery d cfg srch key s exp =>
      match on_query d cfg srch (fun v => Some (blind_index key v)) s with
      | Ok s' => XOk [flagb (sel_eqb s' exp)]
      | Err _ => XErr
      | Panic => XPanic
      end
  | RBind d cfg srch s n =>
      match on_bind d cfg srch s n with
      | Ok idx => XOk [map (fun i => n2b (N.of_nat i)) (sort_nat idx)]
      | Err _ => XErr
      | Panic => XPanic
      end
  end.

Fixpoint list_bytes_eqb (a b : list bytes) : bool :=
  match a, b with
  | [], [] => true
  | x :: a', y :: b' => bytes_eqb x y && list_bytes_eqb a' b'
  | _, _ => false
  end.

Definition expected_eqb (a b : expected) : bool :=
  match a, b with
  | XOk x, XOk y => list_bytes_eqb x y
  | XErr, XErr => true
  | XPanic, XPanic => true
  | _, _ => false
  end.

Fixpoint mismatches_from (i : nat) (cs : list (op * expected)) : list (nat * expected) :=
  match cs with
  | [] => []
  | (o, e) :: rest =>
      let m := run o in
      if expected_eqb m e then mismatches_from (S i) rest else (i, m) :: mismatches_from (S i) rest
  end.
Definition mismatches := mismatches_from 0.
