(** Executable model of how the PostgreSQL proxy pairs DATA ROWS WITH STATEMENTS in the extended query
    protocol (portals, row-limited Execute, pipelining), AFTER the fix [fix_pg_pending_batch].
    Anchors: decryptor/postgresql/protocol.go (queryPacket, PgProtocolState.HandleDatabasePacket,
    currentBatch / endBatch / finishBatch), decryptor/postgresql/pending_packets.go,
    decryptor/postgresql/pg_decryptor.go (handleClientPacket: Execute / Query / Sync cases,
    handleQueryDataPacket: GetPendingPacket = head of the queue, registerPreparedStatement, registerCursor),
    decryptor/postgresql/prepared_statements.go (AddStatement, AddCursor, DeleteStatement).

    Part 1 [Machine]: the pending queue with batch numbers, generic in the payload of an entry.
    Part 2 [Sys]: proxy + a PostgreSQL back end that answers the forwarded messages in order
            (rows* then one terminator per Execute, skip-to-Sync after an error, portals with row limits),
            with all three FIFOs asynchronous; used by the theorems (Proofs/ProxyPortal.v).
    Part 3 [Replay]: the machine with the prepared statement / portal registry in front of it, replayed against
            the real proxy by the harness domain c04portal (Model/RunProxyPortal.v).
    No proofs in this file. *)
From Coq Require Import List Bool NArith Arith.
Import ListNotations.

(** * Part 1: pendingQueryPackets *)
Section Machine.
  Variable X : Type.                         (* what a queue entry stands for (statement + Bind settings) *)

  Definition entry := (X * nat)%type.        (* queryPacket: payload, batch *)

  (** [sent]: PgProtocolState.batchesSent (Sync / Query packets forwarded), [done]: batchesDone *)
  Record pstate := PS { pending : list entry; sent : nat; done : nat }.
  Definition pinit : pstate := PS [] 0 0.

  (** client side (handleClientPacket) *)
  Definition push (p : pstate) (x : X) : pstate := PS (pending p ++ [(x, sent p)]) (sent p) (done p).
  Definition end_batch (p : pstate) : pstate := PS (pending p) (S (sent p)) (done p).
  Definition on_execute (p : pstate) (x : X) : pstate := push p x.
  Definition on_query (p : pstate) (x : X) : pstate := end_batch (push p x).
  Definition on_sync (p : pstate) : pstate := end_batch p.

  (** database side (HandleDatabasePacket) *)
  Inductive dbmsg :=
  | DRow                        (* DataRow *)
  | DTerm (suspended : bool)    (* CommandComplete / EmptyQueryResponse (false), PortalSuspended (true) *)
  | DErr                        (* ErrorResponse *)
  | DReady                      (* ReadyForQuery *)
  | DOther.                     (* ParseComplete, BindComplete, CloseComplete, NoData, descriptions, notices *)

  Fixpoint drop_finished (dn : nat) (q : list entry) : list entry :=
    match q with
    | (x, b) :: rest => if Nat.ltb b dn then drop_finished dn rest else q
    | [] => []
    end.

  (* finishBatch *)
  Definition on_ready (p : pstate) : pstate :=
    let dn := if Nat.ltb (done p) (sent p) then S (done p) else done p in
    PS (drop_finished dn (pending p)) (sent p) dn.

  (** the settings handleQueryDataPacket uses for a data row: the head of the queue *)
  Definition row_settings (p : pstate) : option X := option_map fst (hd_error (pending p)).

  Definition db_step (p : pstate) (d : dbmsg) : pstate :=
    match d with
    | DRow => p
    | DTerm _ => PS (tl (pending p)) (sent p) (done p)     (* RemoveNextPendingPacket *)
    | DErr => p                                            (* removed at ReadyForQuery *)
    | DReady => on_ready p
    | DOther => p
    end.

  (** variants used only by refutation examples *)
  (* the seeded change m42: PortalSuspended no longer retires the head *)
  Definition db_step_m42 (p : pstate) (d : dbmsg) : pstate :=
    match d with
    | DTerm true => p
    | _ => db_step p d
    end.
  (* the tree before fix_pg_pending_batch: ErrorResponse retires the head, ReadyForQuery does nothing *)
  Definition db_step_unfixed (p : pstate) (d : dbmsg) : pstate :=
    match d with
    | DErr => PS (tl (pending p)) (sent p) (done p)
    | DReady => p
    | _ => db_step p d
    end.
End Machine.
Arguments PS {X}. Arguments pending {X}. Arguments sent {X}. Arguments done {X}.
Arguments pinit {X}. Arguments push {X}. Arguments end_batch {X}. Arguments on_execute {X}.
Arguments on_query {X}. Arguments on_sync {X}. Arguments drop_finished {X}. Arguments on_ready {X}.
Arguments row_settings {X}. Arguments db_step {X}. Arguments db_step_m42 {X}. Arguments db_step_unfixed {X}.

(** * Part 2: proxy + in-order back end, asynchronous *)
Section Sys.
  Variable X : Type.

  (** messages forwarded to the database, as far as the queue is concerned *)
  Inductive cmsg :=
  | KExec (x : X)      (* Execute of a portal whose statement/Bind settings are x *)
  | KQuery (x : X)     (* simple Query *)
  | KSync
  | KOther.            (* Parse, Bind, Describe, Close, Flush *)

  (** messages sent by the back end; a row carries (ghost) the Execute/Query that produced it *)
  Inductive bmsg := MRow (x : X) | MTerm (suspended : bool) | MErr | MReady | MOther.

  Definition to_db (m : bmsg) : dbmsg :=
    match m with
    | MRow _ => DRow | MTerm s => DTerm s | MErr => DErr | MReady => DReady | MOther => DOther
    end.

  Inductive bmode :=
  | BIdle
  | BAns (x : X) (simple : bool)   (* answering an Execute / a simple Query: rows, then one terminator *)
  | BSkip                          (* after an error in the extended protocol: everything but Sync is discarded *)
  | BOwed.                         (* simple Query answered: ReadyForQuery follows *)

  Record sys := Sys {
    px : pstate X;
    dirty : bool;          (* the client has sent extended-protocol messages since its last Sync / Query *)
    cwire : list cmsg;     (* forwarded by the proxy, not yet read by the back end *)
    mode : bmode;
    dwire : list bmsg      (* sent by the back end, not yet handled by the proxy *)
  }.
  Definition sys_init : sys := Sys pinit false [] BIdle [].

  Inductive sys_event :=
  | EClient (m : cmsg)          (* the client side of the proxy handles the next client message and forwards it *)
  | EBackTake (ok : bool)       (* the back end reads the next forwarded message (ok = false: it rejects a KOther) *)
  | EBackRow                    (* ... sends a row of what it is answering *)
  | EBackTerm (err suspended : bool)   (* ... ends the answer: ErrorResponse / PortalSuspended / CommandComplete, EmptyQuery *)
  | EBackReady                  (* ... sends the ReadyForQuery owed for a simple Query *)
  | EBackNotice                 (* ... sends an asynchronous message *)
  | EProxyDb.                   (* the database side of the proxy handles the next message of the back end *)

  (** observation: a data row produced by [producer] was handled with the settings [used] *)
  Definition obs := (X * option X)%type.

  Definition client_step (y : sys) (m : cmsg) : sys :=
    match m with
    | KExec x => Sys (on_execute (px y) x) true (cwire y ++ [m]) (mode y) (dwire y)
    | KQuery x =>
        (* protocol conformance of the client: no simple Query inside an unsynced extended batch
           (PostgreSQL ignores such a Query while it skips to Sync); not enabled otherwise *)
        if dirty y then y
        else Sys (on_query (px y) x) false (cwire y ++ [m]) (mode y) (dwire y)
    | KSync => Sys (on_sync (px y)) false (cwire y ++ [m]) (mode y) (dwire y)
    | KOther => Sys (px y) true (cwire y ++ [m]) (mode y) (dwire y)
    end.

  Definition emit (y : sys) (md : bmode) (cw : list cmsg) (ms : list bmsg) : sys :=
    Sys (px y) (dirty y) cw md (dwire y ++ ms).

  Definition back_take (y : sys) (ok : bool) : sys :=
    match cwire y with
    | [] => y
    | m :: rest =>
        match mode y with
        | BIdle =>
            match m with
            | KExec x => emit y (BAns x false) rest []
            | KQuery x => emit y (BAns x true) rest []
            | KSync => emit y BIdle rest [MReady]
            | KOther => if ok then emit y BIdle rest [MOther] else emit y BSkip rest [MErr]
            end
        | BSkip =>
            match m with
            | KSync => emit y BIdle rest [MReady]
            | _ => emit y BSkip rest []
            end
        | _ => y
        end
    end.

  Section Step.
    Variable dbs : pstate X -> dbmsg -> pstate X.   (* the database-side step of the proxy *)

    Definition sys_step (y : sys) (e : sys_event) : sys * list obs :=
      match e with
      | EClient m => (client_step y m, [])
      | EBackTake ok => (back_take y ok, [])
      | EBackRow =>
          match mode y with
          | BAns x _ => (emit y (mode y) (cwire y) [MRow x], [])
          | _ => (y, [])
          end
      | EBackTerm err susp =>
          match mode y with
          | BAns x simple =>
              let md := if simple then BOwed else if err then BSkip else BIdle in
              (emit y md (cwire y) [if err then MErr else MTerm susp], [])
          | _ => (y, [])
          end
      | EBackReady =>
          match mode y with
          | BOwed => (emit y BIdle (cwire y) [MReady], [])
          | _ => (y, [])
          end
      | EBackNotice => (emit y (mode y) (cwire y) [MOther], [])
      | EProxyDb =>
          match dwire y with
          | [] => (y, [])
          | m :: rest =>
              (Sys (dbs (px y) (to_db m)) (dirty y) (cwire y) (mode y) rest,
               match m with MRow x => [(x, row_settings (px y))] | _ => [] end)
          end
      end.

    Fixpoint sys_run (y : sys) (evs : list sys_event) : sys * list obs :=
      match evs with
      | [] => (y, [])
      | e :: tl =>
          let '(y1, o1) := sys_step y e in
          let '(y2, o2) := sys_run y1 tl in
          (y2, o1 ++ o2)
      end.
  End Step.
End Sys.
Arguments KExec {X}. Arguments KQuery {X}. Arguments KSync {X}. Arguments KOther {X}.
Arguments MRow {X}. Arguments MTerm {X}. Arguments MErr {X}. Arguments MReady {X}. Arguments MOther {X}.
Arguments BIdle {X}. Arguments BAns {X}. Arguments BSkip {X}. Arguments BOwed {X}.
Arguments Sys {X}. Arguments px {X}. Arguments dirty {X}. Arguments cwire {X}. Arguments mode {X}. Arguments dwire {X}.
Arguments sys_init {X}. Arguments EClient {X}. Arguments EBackTake {X}. Arguments EBackRow {X}.
Arguments EBackTerm {X}. Arguments EBackReady {X}. Arguments EBackNotice {X}. Arguments EProxyDb {X}.
Arguments sys_step {X}. Arguments sys_run {X}. Arguments client_step {X}. Arguments back_take {X}.
Arguments to_db {X}. Arguments emit {X}.

(** * Part 3: the registry in front of the queue (replayed against the implementation) *)

(** what handleQueryDataPacket takes from a queue entry: simple / extended, the statement text (an identifier
    given by the harness: one per distinct SQL text) and the result format codes of the Bind packet (one
    identifier per distinct list) *)
Record settings := Settings { s_ext : bool; s_sid : N; s_fid : N }.

Fixpoint nassoc {A} (k : N) (l : list (N * A)) : option A :=
  match l with
  | [] => None
  | (k', v) :: rest => if N.eqb k k' then Some v else nassoc k rest
  end.
Fixpoint nremove {A} (k : N) (l : list (N * A)) : list (N * A) :=
  match l with
  | [] => []
  | (k', v) :: rest => if N.eqb k k' then nremove k rest else (k', v) :: nremove k rest
  end.

(** PgPreparedStatementRegistry.  A statement OBJECT is identified by the ordinal of its Parse packet;
    [r_owned]: the cursors map of each statement object (names only: AddCursor never removes a name from
    the statement that owned it before). *)
Record registry := Reg {
  r_stmts : list (N * (nat * N));          (* statement name -> (object, text id) *)
  r_cursors : list (N * (nat * N * N));    (* portal name -> (statement object, text id, result formats id) *)
  r_owned : list (nat * N);                (* (statement object, portal name) *)
  r_next : nat
}.
Definition reg_init : registry := Reg [] [] [] 0.

(* AddStatement = DeleteStatement(name) ; insert *)
Definition reg_parse (r : registry) (name sid : N) : registry :=
  let '(cursors, owned, stmts) :=
    match nassoc name (r_stmts r) with
    | Some (old, _) =>
        (fold_left (fun cs op => if Nat.eqb (fst op) old then nremove (snd op) cs else cs) (r_owned r) (r_cursors r),
         filter (fun op => negb (Nat.eqb (fst op) old)) (r_owned r),
         nremove name (r_stmts r))
    | None => (r_cursors r, r_owned r, r_stmts r)
    end in
  Reg ((name, (r_next r, sid)) :: stmts) cursors owned (S (r_next r)).

(* registerCursor: StatementByName, AddCursor; None = the proxy ends the session *)
Definition reg_bind (r : registry) (portal stmt fid : N) : option registry :=
  match nassoc stmt (r_stmts r) with
  | None => None
  | Some (obj, sid) =>
      Some (Reg (r_stmts r) ((portal, (obj, sid, fid)) :: nremove portal (r_cursors r)) ((obj, portal) :: r_owned r) (r_next r))
  end.

Inductive pevent :=
(* client side, in the order the proxy handles them *)
| PParse (name sid : N)
| PBind (portal stmt fid : N)
| PExec (portal : N)
| PQuery (sid : N)
| PSync
| POther                      (* Describe, Close, Flush *)
(* database side *)
| PDb (d : dbmsg)
(* observation points of the harness *)
| PHead                       (* the back end starts to answer an Execute / Query: head of the queue *)
| PQuiet.                     (* nothing in flight: the whole queue *)

Inductive pobs := OHead (h : option settings) | OQueue (q : list settings) | ODead.

Record rstate := RS { rs_reg : registry; rs_q : pstate settings; rs_dead : bool }.
Definition rinit : rstate := RS reg_init pinit false.

Definition rstep (st : rstate) (e : pevent) : rstate * list pobs :=
  if rs_dead st then (st, []) else
  match e with
  | PParse name sid => (RS (reg_parse (rs_reg st) name sid) (rs_q st) false, [])
  | PBind portal stmt fid =>
      match reg_bind (rs_reg st) portal stmt fid with
      | Some r => (RS r (rs_q st) false, [])
      | None => (RS (rs_reg st) (rs_q st) true, [ODead])
      end
  | PExec portal =>
      match nassoc portal (r_cursors (rs_reg st)) with
      | Some (_, sid, fid) => (RS (rs_reg st) (on_execute (rs_q st) (Settings true sid fid)) false, [])
      | None => (RS (rs_reg st) (rs_q st) true, [ODead])      (* CursorByName fails: session error *)
      end
  | PQuery sid => (RS (rs_reg st) (on_query (rs_q st) (Settings false sid 0)) false, [])
  | PSync => (RS (rs_reg st) (on_sync (rs_q st)) false, [])
  | POther => (st, [])
  | PDb d => (RS (rs_reg st) (db_step (rs_q st) d) false, [])
  | PHead => (st, [OHead (row_settings (rs_q st))])
  | PQuiet => (st, [OQueue (map fst (pending (rs_q st)))])
  end.

Fixpoint rrun (st : rstate) (evs : list pevent) : list pobs :=
  match evs with
  | [] => []
  | e :: tl => let '(st', o) := rstep st e in o ++ rrun st' tl
  end.
