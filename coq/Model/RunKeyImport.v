(** Replay of implementation observations of the domain c07imp (C07: file name -> owner context on the
    v1 import path) on Model/KeyImport.v, instantiated with the stand-in crypto ([Stub]). *)
From Acra Require Import Lib.Bytes Lib.Outcome Crypto.Interface Crypto.Stub Gen.KsConsts.
From Acra Require Export Model.Path Model.KeyAtRest Model.Backup Model.KeyImport.

Inductive expected := XOk (vals : list bytes) | XErr | XPanic.

Inductive op :=
| IBase (p : bytes)                               (* filepath.Base *)
| ICtx (historical : bool) (name : bytes)         (* isPrivate, getContextFromFilename: purpose and context bytes *)
| IHist (master cachekey dir : bytes) (tape : list bytes) (ops : list iop).

Definition n8 (n : nat) : bytes := le_enc 8 (N.of_nat n).
Definition flag (b : bool) : bytes := [if b then x01 else x00].

Definition ev_vals (e : event) : list bytes :=
  match e with
  | (SFile p, t) => [[x00]; p; encode Stub t]
  | (SCache n, t) => [[x01]; n; encode Stub t]
  end.

Definition outcome_vals (o : outcome) : list bytes :=
  (match o_res o with
   | Ok v => [[x00]; v]
   | Err _ => [[x01]; []]
   | Panic => [[x02]; []]
   end) ++ n8 (length (o_events o)) :: flat_map ev_vals (o_events o).

Definition run (o : op) : expected :=
  match o with
  | IBase p => XOk [base p]
  | ICtx h name =>
      match get_context_from_filename h name with
      | Ok (purpose, c) => XOk [flag (is_private_file h name); purpose; c]
      | Err _ => XErr
      | Panic => XPanic
      end
  | IHist m ck d tape ops =>
      XOk (flat_map outcome_vals (irun_hist Stub {| master := m; cache_key := ck; key_dir := d |} st0 tape ops))
  end.

Fixpoint list_bytes_eqb (a b : list bytes) : bool :=
  match a, b with
  | [], [] => true
  | x :: a', y :: b' => bytes_eqb x y && list_bytes_eqb a' b'
  | _, _ => false
  end.

Definition expected_eqb (a b : expected) : bool :=
  match a, b with
  | XOk x, XOk y => list_bytes_eqb x y
  | XErr, XErr => true
  | XPanic, XPanic => true
  | _, _ => false
  end.

Fixpoint mismatches_from (i : nat) (cs : list (op * expected)) : list (nat * expected) :=
  match cs with
  | [] => []
  | (o, e) :: rest =>
      let m := run o in
      if expected_eqb m e then mismatches_from (S i) rest else (i, m) :: mismatches_from (S i) rest
  end.
Definition mismatches := mismatches_from 0.
