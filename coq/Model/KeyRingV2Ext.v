(** Keystore v2 at key granularity (C18 extension): export / import of key rings and the
    key-ring operations that build a store history.
      keystore/v2/keystore/filesystem/export.go   exportKeyRings, exportKeyRing, exportASN1,
                                                  decryptAllKeyData, decryptKeyData, importKeyRing, importASN1
      keystore/v2/keystore/filesystem/key.go      newKey, copyKey (AS REPAIRED by
                                                  patches/fix_v2_import_destroyed_key.diff), addKeyData,
                                                  keyDataByFormat, State, ValidSince/Until, Formats,
                                                  PublicKey, PrivateKey, SymmetricKey, key contexts
      keystore/v2/keystore/filesystem/keyRing.go  newKeyRing, CurrentKey, AllKeys, AddKey, nextSeqnum
      keystore/v2/keystore/filesystem/keyRingTX.go txSetKeys, txAddKey, txSetKeyCurrent, txChangeKeyState,
                                                  txDestroyKeyData
      keystore/v2/keystore/filesystem/keyStore.go ExportKeyRings / ImportKeyRings, defaultImportDelegate
      keystore/v2/keystore/asn1/asn1.go           KeyRing, Key, KeyData, KeyWithSeqnum
    A store = master key + back end mapping a ring path to the ring it holds (the signed DER file of
    a ring is Model/Notary.v + Model/DerV2Ext.v).  Times are the UTCTime strings of the DER form
    ("YYMMDDhhmmssZ", UTC).  Randomness: one 12-byte nonce per encrypted field, in order.
    No proofs here (Proofs/KeyRingV2Ext.v). *)
From Coq Require Import List NArith ZArith Bool.
From Acra Require Import Lib.Bytes Lib.Outcome Crypto.Interface Gen.KsConsts Gen.X18Consts Model.KeyAtRest Model.DerV2Ext.
Import ListNotations.
Local Open Scope Z_scope.


Definition backend := list (bytes * ring).
Fixpoint b_get (p : bytes) (b : backend) : option ring :=
  match b with
  | [] => None
  | (q, r) :: t => if bytes_eqb p q then Some r else b_get p t
  end.
(** every ring reaches the back end as DER, where the data of a key is a SET OF: what is stored (and
    read back) has the data of each key in the order of their encodings *)
Definition b_put (p : bytes) (r : ring) (b : backend) : backend := (p, sorted_ring r) :: b.

Definition E_NOT_EXIST : N := 50.
Definition E_NO_PUBLIC_DATA : N := 51.
Definition E_RING_EXISTS : N := 52.
Definition E_CRYPTOPERIOD : N := 53.
Definition E_NO_KEY_DATA : N := 54.
Definition E_FORMAT_DUP : N := 55.
Definition E_INVALID_FORMAT : N := 56.
Definition E_KEY_NOT_EXIST : N := 57.
Definition E_KEY_DESTROYED : N := 58.
Definition E_FORMAT_MISSING : N := 59.
Definition E_NO_CURRENT : N := 60.
Definition E_INVALID_STATE : N := 61.
Definition E_TX : N := 62.
Definition E_PARSE : N := 63.

(** fmt.Sprintf("%d", seqnum) *)
Definition decimalZ (z : Z) : bytes :=
  if z <? 0 then X18_MINUS ++ decimal (Z.to_N (- z)) else decimal (Z.to_N z).

(** keyStoreContext(keyRingContext(privateKeyContext / symmetricKeyContext (seqnum))) *)
Definition key_ctx (path : bytes) (private : bool) (seq : Z) : bytes :=
  V2_CTX_BEFORE_PATH ++ path ++ (if private then V2_CTX_PRIVATE else V2_CTX_SYMMETRIC) ++ decimalZ seq.

(** time.Time.After on two UTCTime values (second precision, UTC): compare (year, month, …, second) *)
Definition digit (b : byte) : N := (b2n b - 48)%N.
Definition two (a b : byte) : N := (10 * digit a + digit b)%N.
Definition utc_key (t : bytes) : N :=
  match t with
  | y1 :: y2 :: m1 :: m2 :: d1 :: d2 :: h1 :: h2 :: i1 :: i2 :: s1 :: s2 :: _ =>
      let yy := two y1 y2 in
      let year := (if yy <? 50 then 2000 + yy else 1900 + yy)%N in
      (((((year * 100 + two m1 m2) * 100 + two d1 d2) * 100 + two h1 h2) * 100 + two i1 i2) * 100 + two s1 s2)%N
  | _ => 0%N
  end.
Definition time_after (a b : bytes) : bool := (utc_key b <? utc_key a)%N.

(** ---------------- encryption of key data ---------------- *)
Section Store.
  Variable C : crypto.

  (** one encryption = one nonce; the rest of the tape is returned also on failure *)
  Definition enc_field (master ctx : bytes) (tape : list bytes) (plain : bytes) : res bytes * list bytes :=
    match tape with
    | n :: t => match cell_encrypt C master ctx n plain with
                | Some e => (Ok e, t)
                | None => (Err E_ENCRYPT, tape)
                end
    | [] => (Err E_TAPE, [])
    end.

  Definition has_format (f : Z) (l : list kdata) : bool := existsb (fun d => kd_format d =? f) l.

  (** KeyRing.addKeyData: [d] is plaintext, [acc] the data the key already has *)
  Definition add_key_data (master path : bytes) (seq : Z) (tape : list bytes) (d : kdata) (acc : list kdata)
    : res (list kdata) * list bytes :=
    if has_format (kd_format d) acc then (Err E_FORMAT_DUP, tape) else
    if kd_format d =? FORMAT_KEYPAIR then
      if is_nil (kd_pub d) then (Err E_NO_KEY_DATA, tape) else
      if is_nil (kd_priv d) then
        (Ok (acc ++ [{| kd_format := kd_format d; kd_pub := kd_pub d; kd_priv := []; kd_sym := [] |}]), tape)
      else
        let (x, t) := enc_field master (key_ctx path true seq) tape (kd_priv d) in
        (do e <- x; Ok (acc ++ [{| kd_format := kd_format d; kd_pub := kd_pub d; kd_priv := e; kd_sym := [] |}]), t)
    else if kd_format d =? FORMAT_SYMMETRIC then
      if is_nil (kd_sym d) then (Err E_NO_KEY_DATA, tape) else
      let (x, t) := enc_field master (key_ctx path false seq) tape (kd_sym d) in
      (do e <- x; Ok (acc ++ [{| kd_format := kd_format d; kd_pub := []; kd_priv := []; kd_sym := e |}]), t)
    else (Err E_INVALID_FORMAT, tape).

  Fixpoint add_all (master path : bytes) (seq : Z) (tape : list bytes) (ds acc : list kdata)
    : res (list kdata) * list bytes :=
    match ds with
    | [] => (Ok acc, tape)
    | d :: r =>
        let (x, t) := add_key_data master path seq tape d acc in
        match x with
        | Ok acc' => add_all master path seq t r acc'
        | Err e => (Err e, t)
        | Panic => (Panic, t)
        end
    end.

  (** KeyRing.copyKey (repaired: a destroyed key without data is copied as a marker) *)
  Definition copy_key (master path : bytes) (tape : list bytes) (k : rkey) : res rkey * list bytes :=
    if time_after (k_since k) (k_until k) then (Err E_CRYPTOPERIOD, tape) else
    if is_nil (k_data k) && negb (k_state k =? STATE_DESTROYED) then (Err E_NO_KEY_DATA, tape) else
    let (x, t) := add_all master path (k_seq k) tape (k_data k) [] in
    (do ds <- x;
     Ok {| k_seq := k_seq k; k_state := k_state k; k_since := k_since k; k_until := k_until k; k_data := ds |}, t).

  Fixpoint copy_keys (master path : bytes) (tape : list bytes) (ks : list rkey) : res (list rkey) * list bytes :=
    match ks with
    | [] => (Ok [], tape)
    | k :: r =>
        let (x, t) := copy_key master path tape k in
        match x with
        | Ok k' => let (y, t') := copy_keys master path t r in (do ks' <- y; Ok (k' :: ks'), t')
        | Err e => (Err e, t)
        | Panic => (Panic, t)
        end
    end.

  (** KeyRing.newKey: seqnum = last + 1, state pre-active *)
  Definition next_seqnum (r : ring) : Z :=
    match rev (r_keys r) with [] => FIRST_SEQNUM | k :: _ => k_seq k + 1 end.
  Definition new_key (master path : bytes) (tape : list bytes) (r : ring) (since until : bytes) (ds : list kdata)
    : res rkey * list bytes :=
    if time_after since until then (Err E_CRYPTOPERIOD, tape) else
    if is_nil ds then (Err E_NO_KEY_DATA, tape) else
    let (x, t) := add_all master path (next_seqnum r) tape ds [] in
    (do ds' <- x;
     Ok {| k_seq := next_seqnum r; k_state := STATE_PREACTIVE; k_since := since; k_until := until; k_data := ds' |}, t).

  (** ---------------- import ---------------- *)
  Inductive decision := DOverwrite | DSkip | DAbort.

  Record imp := { im_b : backend; im_tape : list bytes; im_events : list (bytes * ring); im_res : res unit }.

  Definition empty_ring (path : bytes) : ring := {| r_purpose := path; r_keys := []; r_current := NOKEY |}.

  (** KeyRing.importASN1 on a ring whose stored state is [base]: txSetKeys replaces keys and current *)
  Definition import_asn1 (master : bytes) (b : backend) (tape : list bytes) (path : bytes) (base nr : ring) : imp :=
    match copy_keys master path tape (r_keys nr) with
    | (Ok ks, t') =>
        let r' := {| r_purpose := r_purpose base; r_keys := ks; r_current := r_current nr |} in
        {| im_b := b_put path r' b; im_tape := t'; im_events := [(path, sorted_ring r')]; im_res := Ok tt |}
    | (Err e, t') => {| im_b := b; im_tape := t'; im_events := []; im_res := Err e |}
    | (Panic, t') => {| im_b := b; im_tape := t'; im_events := []; im_res := Panic |}
    end.

  (** KeyStore.importKeyRing *)
  Definition import_ring (master : bytes) (deleg : ring -> ring -> decision) (b : backend) (tape : list bytes) (nr : ring) : imp :=
    let path := r_purpose nr in
    match b_get path b with
    | Some cur =>
        match deleg cur nr with
        | DOverwrite => import_asn1 master b tape path cur nr
        | DSkip => {| im_b := b; im_tape := tape; im_events := []; im_res := Ok tt |}
        | DAbort => {| im_b := b; im_tape := tape; im_events := []; im_res := Err E_RING_EXISTS |}
        end
    | None =>
        (* openKeyRing writes a new empty ring first *)
        let e := empty_ring path in
        let i := import_asn1 master (b_put path e b) tape path e nr in
        {| im_b := im_b i; im_tape := im_tape i; im_events := (path, e) :: im_events i; im_res := im_res i |}
    end.

  (** KeyStore.ImportKeyRings after decryptAndVerifyKeyRings: ring by ring, stop at the first error *)
  Fixpoint import_rings (master : bytes) (deleg : ring -> ring -> decision) (b : backend) (tape : list bytes) (rs : list ring) : imp :=
    match rs with
    | [] => {| im_b := b; im_tape := tape; im_events := []; im_res := Ok tt |}
    | nr :: rest =>
        let i := import_ring master deleg b tape nr in
        match im_res i with
        | Ok _ => let j := import_rings master deleg (im_b i) (im_tape i) rest in
                  {| im_b := im_b j; im_tape := im_tape j; im_events := im_events i ++ im_events j; im_res := im_res j |}
        | _ => i
        end
    end.

  Definition deleg_default (_ _ : ring) : decision := DAbort.
  Definition deleg_overwrite (_ _ : ring) : decision := DOverwrite.
  Definition deleg_skip (_ _ : ring) : decision := DSkip.

  (** ---------------- export ---------------- *)
  Definition dec_field (master ctx f : bytes) : res bytes :=
    if is_nil f then Ok f else of_option E_DECRYPTION (cell_decrypt C master ctx f).

  (** KeyRing.decryptKeyData *)
  Definition decrypt_key_data (master path : bytes) (seq : Z) (mode : N) (d : kdata) : res kdata :=
    if (N.land mode EXPORT_PRIVATE_KEYS =? 0)%N then
      if is_nil (kd_pub d) then Err E_NO_PUBLIC_DATA
      else Ok {| kd_format := kd_format d; kd_pub := kd_pub d; kd_priv := []; kd_sym := [] |}
    else
      do p <- dec_field master (key_ctx path true seq) (kd_priv d);
      do s <- dec_field master (key_ctx path false seq) (kd_sym d);
      Ok {| kd_format := kd_format d; kd_pub := kd_pub d; kd_priv := p; kd_sym := s |}.

  Fixpoint map_res {A B} (f : A -> res B) (l : list A) : res (list B) :=
    match l with
    | [] => Ok []
    | x :: r => do y <- f x; do ys <- map_res f r; Ok (y :: ys)
    end.

  Definition export_key (master path : bytes) (mode : N) (k : rkey) : res rkey :=
    do ds <- map_res (decrypt_key_data master path (k_seq k) mode) (k_data k);
    Ok {| k_seq := k_seq k; k_state := k_state k; k_since := k_since k; k_until := k_until k; k_data := ds |}.

  (** KeyStore.exportKeyRing + KeyRing.exportASN1 *)
  Definition export_ring (master : bytes) (b : backend) (mode : N) (path : bytes) : res ring :=
    match b_get path b with
    | None => Err E_NOT_EXIST
    | Some r =>
        do ks <- map_res (export_key master path mode) (r_keys r);
        Ok {| r_purpose := r_purpose r; r_keys := ks; r_current := r_current r |}
    end.

  (** KeyStore.exportKeyRings: rings without public data are skipped, any other error aborts *)
  Fixpoint export_rings (master : bytes) (b : backend) (mode : N) (paths : list bytes) : res (list ring) :=
    match paths with
    | [] => Ok []
    | p :: rest =>
        match export_ring master b mode p with
        | Ok r => do rs <- export_rings master b mode rest; Ok (r :: rs)
        | Err e => if (e =? E_NO_PUBLIC_DATA)%N then export_rings master b mode rest else Err e
        | Panic => Panic
        end
    end.

  (** ---------------- what a reader sees: the view of a ring ---------------- *)
  Inductive fview := FAbsent | FVal (b : bytes) | FFail.
  Record vdata := { vd_format : Z; vd_pub : bytes; vd_priv : fview; vd_sym : fview }.
  Record vkey := { vk_seq : Z; vk_state : Z; vk_since : bytes; vk_until : bytes; vk_data : list vdata }.
  Record vring := { vr_keys : list vkey; vr_current : Z }.

  Definition view_field (master ctx f : bytes) : fview :=
    if is_nil f then FAbsent else
    match cell_decrypt C master ctx f with Some p => FVal p | None => FFail end.
  Definition view_data (master path : bytes) (seq : Z) (d : kdata) : vdata :=
    {| vd_format := kd_format d; vd_pub := kd_pub d;
       vd_priv := view_field master (key_ctx path true seq) (kd_priv d);
       vd_sym := view_field master (key_ctx path false seq) (kd_sym d) |}.
  Definition view_key (master path : bytes) (k : rkey) : vkey :=
    {| vk_seq := k_seq k; vk_state := k_state k; vk_since := k_since k; vk_until := k_until k;
       vk_data := map (view_data master path (k_seq k)) (k_data k) |}.
  Definition view_ring (master path : bytes) (r : ring) : vring :=
    {| vr_keys := map (view_key master path) (r_keys r); vr_current := r_current r |}.
  Definition store_view (master : bytes) (b : backend) (path : bytes) : option vring :=
    option_map (view_ring master path) (b_get path b).

  (** the same for a ring whose fields are plaintext (an exported ring) *)
  Definition plain_field (f : bytes) : fview := if is_nil f then FAbsent else FVal f.
  Definition plain_data (d : kdata) : vdata :=
    {| vd_format := kd_format d; vd_pub := kd_pub d; vd_priv := plain_field (kd_priv d); vd_sym := plain_field (kd_sym d) |}.
  Definition plain_key (k : rkey) : vkey :=
    {| vk_seq := k_seq k; vk_state := k_state k; vk_since := k_since k; vk_until := k_until k;
       vk_data := map plain_data (k_data k) |}.
  Definition plain_ring (r : ring) : vring :=
    {| vr_keys := map plain_key (r_keys r); vr_current := r_current r |}.
End Store.

(** ---------------- getters of api.KeyRing, as functions of the view ---------------- *)
(** asn1.KeyRing.KeyWithSeqnum: searched from the newest key *)
Definition v_key (v : vring) (seq : Z) : option vkey := find (fun k => vk_seq k =? seq) (rev (vr_keys v)).

Definition g_current (v : vring) : res Z := if vr_current v =? NOKEY then Err E_NO_CURRENT else Ok (vr_current v).
Definition g_all_keys (v : vring) : list Z := rev (map vk_seq (vr_keys v)).
Definition g_state (v : vring) (seq : Z) : res Z :=
  match v_key v seq with Some k => Ok (vk_state k) | None => Err E_KEY_NOT_EXIST end.
Definition g_since (v : vring) (seq : Z) : res bytes :=
  match v_key v seq with Some k => Ok (vk_since k) | None => Err E_KEY_NOT_EXIST end.
Definition g_until (v : vring) (seq : Z) : res bytes :=
  match v_key v seq with Some k => Ok (vk_until k) | None => Err E_KEY_NOT_EXIST end.
Definition g_formats (v : vring) (seq : Z) : res (list Z) :=
  match v_key v seq with Some k => Ok (map vd_format (vk_data k)) | None => Err E_KEY_NOT_EXIST end.
(** KeyRing.keyDataByFormat *)
Definition v_data (v : vring) (seq format : Z) : res vdata :=
  match v_key v seq with
  | None => Err E_KEY_NOT_EXIST
  | Some k =>
      if vk_state k =? STATE_DESTROYED then Err E_KEY_DESTROYED else
      match find (fun d => vd_format d =? format) (vk_data k) with
      | Some d => Ok d
      | None => Err E_FORMAT_MISSING
      end
  end.
Definition g_public (v : vring) (seq format : Z) : res bytes :=
  do d <- v_data v seq format;
  if is_nil (vd_pub d) then Err E_INVALID_FORMAT else Ok (vd_pub d).
Definition of_fview (absent : N) (f : fview) : res bytes :=
  match f with FAbsent => Err absent | FVal b => Ok b | FFail => Err E_DECRYPTION end.
Definition g_private (v : vring) (seq format : Z) : res bytes :=
  do d <- v_data v seq format; of_fview E_NO_KEY_DATA (vd_priv d).
Definition g_symmetric (v : vring) (seq format : Z) : res bytes :=
  do d <- v_data v seq format; of_fview E_INVALID_FORMAT (vd_sym d).

(** ---------------- ring operations that make a store history ---------------- *)
Inductive rop :=
| RAddKey (path since until : bytes) (ds : list kdata)   (* OpenKeyRingRW + AddKey (plaintext data) *)
| RSetCurrent (path : bytes) (seq : Z)
| RSetState (path : bytes) (seq : Z) (st : Z)
| RDestroy (path : bytes) (seq : Z).

Definition transition_valid (a b : Z) : bool :=
  existsb (fun t => (Z.of_N (fst t) =? a) && (Z.of_N (snd t) =? b)) KEY_TRANSITIONS.

Definition ring_has (r : ring) (seq : Z) : bool := existsb (fun k => k_seq k =? seq) (r_keys r).
(** the key found by KeyWithSeqnum is the LAST with that number; updates go to that one *)
Fixpoint upd_last (f : rkey -> rkey) (seq : Z) (ks : list rkey) : list rkey :=
  match ks with
  | [] => []
  | k :: r => if existsb (fun k' => k_seq k' =? seq) r then k :: upd_last f seq r
              else if k_seq k =? seq then f k :: r else k :: r
  end.
Definition last_state (r : ring) (seq : Z) : option Z :=
  option_map k_state (find (fun k => k_seq k =? seq) (rev (r_keys r))).

Section Hist.
  Variable C : crypto.
  Record hst := { h_b : backend; h_tape : list bytes }.

  Definition open_rw (b : backend) (path : bytes) : backend * ring :=
    match b_get path b with
    | Some r => (b, r)
    | None => (b_put path (empty_ring path) b, empty_ring path)
    end.

  Definition rstep (master : bytes) (s : hst) (o : rop) : hst * res Z :=
    match o with
    | RAddKey path since until ds =>
        let (b1, r) := open_rw (h_b s) path in
        match new_key C master path (h_tape s) r since until ds with
        | (Ok k, t') =>
            if ring_has r (k_seq k) then ({| h_b := b1; h_tape := t' |}, Err E_TX) else
            ({| h_b := b_put path {| r_purpose := r_purpose r; r_keys := r_keys r ++ [k]; r_current := r_current r |} b1;
                h_tape := t' |}, Ok (k_seq k))
        | (Err e, t') => ({| h_b := b1; h_tape := t' |}, Err e)
        | (Panic, t') => ({| h_b := b1; h_tape := t' |}, Panic)
        end
    | RSetCurrent path seq =>
        let (b1, r) := open_rw (h_b s) path in
        if ((r_current r =? NOKEY) || ring_has r (r_current r)) && ring_has r seq then
          ({| h_b := b_put path {| r_purpose := r_purpose r; r_keys := r_keys r; r_current := seq |} b1; h_tape := h_tape s |}, Ok seq)
        else ({| h_b := b1; h_tape := h_tape s |}, Err E_TX)
    | RSetState path seq st =>
        let (b1, r) := open_rw (h_b s) path in
        match last_state r seq with
        | None => ({| h_b := b1; h_tape := h_tape s |}, Err E_KEY_NOT_EXIST)
        | Some old =>
            if transition_valid old st then
              ({| h_b := b_put path {| r_purpose := r_purpose r;
                                       r_keys := upd_last (fun k => {| k_seq := k_seq k; k_state := st; k_since := k_since k;
                                                                       k_until := k_until k; k_data := k_data k |}) seq (r_keys r);
                                       r_current := r_current r |} b1; h_tape := h_tape s |}, Ok seq)
            else ({| h_b := b1; h_tape := h_tape s |}, Err E_INVALID_STATE)
        end
    | RDestroy path seq =>
        let (b1, r) := open_rw (h_b s) path in
        match last_state r seq with
        | None => ({| h_b := b1; h_tape := h_tape s |}, Err E_KEY_NOT_EXIST)
        | Some old =>
            if transition_valid old STATE_DESTROYED then
              ({| h_b := b_put path {| r_purpose := r_purpose r;
                                       r_keys := upd_last (fun k => {| k_seq := k_seq k; k_state := STATE_DESTROYED; k_since := k_since k;
                                                                       k_until := k_until k; k_data := [] |}) seq (r_keys r);
                                       r_current := r_current r |} b1; h_tape := h_tape s |}, Ok seq)
            else ({| h_b := b1; h_tape := h_tape s |}, Err E_INVALID_STATE)
        end
    end.

  Definition run_rops (master : bytes) (s : hst) (ops : list rop) : hst :=
    fold_left (fun s o => fst (rstep master s o)) ops s.
End Hist.
