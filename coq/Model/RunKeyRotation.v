(** Replay of implementation observations (one case = one operation history run on the real
    keystore v1 / v2) on the keystore models.  Used by the correspondence check of C06. *)
From Coq Require Import List NArith ZArith Bool.
From Acra Require Export Lib.Bytes Lib.Outcome Gen.KeyStates Model.KeySpec Model.KeystoreV1 Model.KeystoreV2.
Import ListNotations.

Inductive expected := XOk (vals : list bytes) | XErr | XPanic.

Inductive op :=
| V1Hist (cache_size : Z) (ops : list kop)
| V2Hist (ops : list kop).

(** KeyStoreBuilder.CacheSize: keystore.WithoutCache / lru.New(size) *)
Definition mode_of (z : Z) : cmode := if (z =? CACHE_WITHOUT)%Z then NoCache else Lru (Z.to_nat z).

(** raw result of one step as the harness writes it: tag byte, then one byte per value *)
Definition enc_res (r : res (list N)) : bytes :=
  match r with
  | Ok l => x00 :: map n2b l
  | Err _ => [x01]
  | Panic => [x02]
  end.

Definition run (o : op) : expected :=
  match o with
  | V1Hist z ops => XOk (map enc_res (v1_run (mode_of z) v1_init ops))
  | V2Hist ops => XOk (map enc_res (v2_run v2_init ops))
  end.

Fixpoint list_bytes_eqb (a b : list bytes) : bool :=
  match a, b with
  | [], [] => true
  | x :: a', y :: b' => bytes_eqb x y && list_bytes_eqb a' b'
  | _, _ => false
  end.

Definition expected_eqb (a b : expected) : bool :=
  match a, b with
  | XOk x, XOk y => list_bytes_eqb x y
  | XErr, XErr => true
  | XPanic, XPanic => true
  | _, _ => false
  end.

Fixpoint mismatches_from (i : nat) (cs : list (op * expected)) : list (nat * expected) :=
  match cs with
  | [] => []
  | (o, e) :: rest =>
      let m := run o in
      if expected_eqb m e then mismatches_from (S i) rest else (i, m) :: mismatches_from (S i) rest
  end.
Definition mismatches := mismatches_from 0.
