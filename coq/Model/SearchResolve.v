(** Column resolution of the SEARCHABLE path: which comparisons of a statement HashQuery.OnQuery rewrites.

    Modelled code (FIXED code, patches/fix_searchable_filter_duplicates.diff):
      encryptor/postgresql/searchable_query_filter.go  FilterSearchableComparisons, filterTableExpressions,
                                                       filterColumnEqualComparisonExprs, ChangeSearchableOperator
      encryptor/mysql/searchable_query_filter.go       the same four functions on sqlparser trees
      encryptor/{postgresql,mysql}/utils.go            FindColumnInfo, getMatchedTable, findTableName,
                                                       getFirstTableWithoutAlias, getJoinFirstTableWithoutAlias,
                                                       getAliasedName, getNonAliasedName, GetColumnSetting,
                                                       GetWhereStatements
      hmac/decryptor/{postgresql,mysql}/hashQuery.go   OnQuery (which comparison becomes what), OnBind (which
                                                       placeholders are replaced)
    The MySQL functions of utils.go are the ones Model/ColumnResolve.v (package x04col) models on the generic
    trees of the real sqlparser AST ([matched_table], [ftn], [find_column_info]); here they are written once more
    over a statement type that BOTH front ends are mapped to (the PostgreSQL front end works on pg_query trees,
    which have no generic-tree export), with the dialect differences spelled out ([knows], [ftn_base],
    [matched_loop]).  The configuration type and its look-ups ARE the ones of Model/ColumnResolve.v.

    Statement type: SELECT / UPDATE / DELETE with a FROM list of base tables (optional alias), JOIN trees with ON
    conditions, derived tables; WHERE / ON conditions built from AND / OR / NOT / parentheses over comparisons,
    EXISTS (select), e IN (select), e op (select).  Identifiers are in the spelling of the configuration
    (sqlparser: ValueForConfig; pg_query: the parser's own case folding).  A literal is its decoded value.
    No proofs in this file. *)
From Coq Require Import List Bool NArith Arith.
From Acra Require Import Lib.Bytes Lib.Outcome.
From Acra Require Model.ColumnResolve.
Import ListNotations.

Module CR := Acra.Model.ColumnResolve.

Inductive dial := RPG | RMY.

(** comparison operators: =, <>, MySQL <=>, LIKE / ILIKE, NOT LIKE / NOT ILIKE, anything else *)
Inductive cop := OpEq | OpNe | OpNse | OpLike | OpNLike | OpOther.

Inductive rval := VLit (v : bytes) | VPar (i : nat).

Inductive expr :=
| ECol (q c : bytes)           (* column reference, [q = []]: unqualified *)
| EVal (v : rval)              (* PG: A_Const / ParamRef;  MySQL: an SQLVal isSupportedSQLVal accepts *)
| ECast (e : expr)             (* PG: TypeCast;  MySQL: any wrapper that is not an SQLVal (CAST, _binary, parentheses) *)
| ESubstr (e : expr)           (* substr(e, 1, 33) *)
| EConv (e : expr)             (* MySQL convert(e, binary) *)
| EOther (n : N).              (* any other expression *)

(** select item  [q.]c [AS as] *)
Record item := mk_item { it_q : bytes; it_c : bytes; it_as : bytes }.

Inductive cond :=
| CTrue
| CCmp (op : cop) (l r : expr)
| CAnd (a b : cond)
| COr (a b : cond)
| CNot (a : cond)
| CParen (a : cond)
| CExists (s : sel)
| CIn (e : expr) (s : sel)
| CCmpSub (op : cop) (e : expr) (s : sel)
with tref :=
| TBase (name al : bytes)
| TJoin (l r : tref) (on : cond)
| TDerived (s : sel) (al : bytes)
with flist :=
| FNil
| FCons (t : tref) (f : flist)
with sel :=
| Sel (items : list item) (f : flist) (w : cond).

Definition sel_items (s : sel) : list item := let '(Sel i _ _) := s in i.
Definition sel_from (s : sel) : flist := let '(Sel _ f _) := s in f.
Definition sel_where (s : sel) : cond := let '(Sel _ _ w) := s in w.

Definition empty (b : bytes) : bool := match b with [] => true | _ => false end.

Definition E_NOTFOUND : N := CR.E_NOTFOUND.
Definition E_MATCHED : N := CR.E_MATCHED.
Definition E_NOTMATCHED : N := CR.E_NOTMATCHED.
Definition E_EMPTY : N := CR.E_EMPTY.
Definition E_UNSUPPORTED : N := CR.E_UNSUPPORTED.
Definition E_MORE1 : N := CR.E_MORE1.

(** pg_query's walker does not go below an A_Expr: what PostgreSQL leaves as it is / what MySQL visits *)
Definition pgsk {A} (d : dial) (a b : A) : A := match d with RPG => a | RMY => b end.

Section Impl.
Variable d : dial.
Variable cfg : CR.rcfg.
Variable srch : list N.                 (* the setting numbers that are searchable *)

Definition is_srch (sid : N) : bool := existsb (N.eqb sid) srch.

(** isTableColumn of getMatchedTable: PostgreSQL looks at `columns` only, MySQL (fixed by x04col) also at the
    encrypted columns *)
Definition knows (s : CR.rtable) (c : bytes) : bool :=
  match d with RPG => CR.lists_col s c | RMY => CR.knows_col s c end.

(** getNonAliasedName on a FROM entry *)
Definition non_aliased_name (t : tref) : option bytes :=
  match t with TBase n a => if empty a then Some n else None | _ => None end.

(** getJoinFirstTableWithoutAlias *)
Fixpoint join_first (l : tref) : option bytes :=
  match l with
  | TBase n a => if empty a then Some n else None
  | TJoin l' _ _ => join_first l'
  | TDerived _ _ => None
  end.

Definition is_join (t : tref) : bool := match t with TJoin _ _ _ => true | _ => false end.

(** getFirstTableWithoutAlias *)
Fixpoint first_plain_loop (f : flist) (name : bytes) : res bytes :=
  match f with
  | FNil => if empty name then Err E_NOTFOUND else Ok name
  | FCons t tl =>
      match non_aliased_name t with
      | Some n => if empty name then first_plain_loop tl n else Err E_MORE1
      | None => first_plain_loop tl name
      end
  end.

Definition first_table_without_alias (f : flist) : res bytes :=
  match f with
  | FNil => Err E_EMPTY
  | FCons (TJoin l _ _) _ => match join_first l with Some n => Ok n | None => Err E_NOTFOUND end
  | _ => first_plain_loop f []
  end.

(** getMatchedTable *)
Fixpoint matched_loop (f : flist) (col : bytes) (found : bytes) : res bytes :=
  match f with
  | FNil => if empty found then Err E_NOTMATCHED else Ok found
  | FCons t tl =>
      match t with
      | TJoin _ _ _ => matched_loop tl col found
      | TDerived _ _ => match d with RMY => Err E_UNSUPPORTED | RPG => matched_loop tl col found end
      | TBase n a =>
          match CR.get_schema cfg n with
          | None => matched_loop tl col found
          | Some s =>
              if knows s col then
                if empty found then matched_loop tl col (if empty a then n else a) else Err E_MATCHED
              else matched_loop tl col found
          end
      end
  end.

Definition matched_table (f : flist) (col : bytes) : res bytes :=
  match f with
  | FNil => Err E_EMPTY
  | FCons (TJoin l _ _) _ => match join_first l with Some n => Ok n | None => Err E_NOTFOUND end
  | _ => matched_loop f col []
  end.

(** findTableName on a table: PostgreSQL accepts the table name also when the entry has an alias *)
Definition ftn_base (n a alias : bytes) : res bytes :=
  match d with
  | RMY => if empty a then (if bytes_eqb alias n then Ok n else Err E_NOTFOUND)
           else if bytes_eqb a alias then Ok n else Err E_NOTFOUND
  | RPG => if bytes_eqb alias n then Ok n
           else if negb (empty a) && bytes_eqb a alias then Ok n else Err E_NOTFOUND
  end.

(** findTableName: the table a column [alias].[col] comes from *)
Fixpoint ftn_t (t : tref) (alias col : bytes) {struct t} : res bytes :=
  match t with
  | TBase n a => ftn_base n a alias
  | TJoin l r _ =>
      match ftn_t l alias col with
      | Err e => if N.eqb e E_NOTFOUND then ftn_t r alias col else Err e
      | x => x
      end
  | TDerived s a =>
      if negb (bytes_eqb a alias) then Err E_NOTFOUND else
      match s with
      | Sel items from _ =>
          (fix loop (its : list item) : res bytes :=
             match its with
             | [] => Err E_NOTFOUND
             | it :: tl =>
                 if empty (it_as it) then
                   if negb (bytes_eqb (it_c it) col) then loop tl else
                   if empty (it_q it) then
                     match first_table_without_alias from with Ok ft => Ok ft | _ => loop tl end
                   else ftn_f from (it_q it) (it_c it)
                 else if bytes_eqb (it_as it) col then
                   if empty (it_q it) then
                     match first_table_without_alias from with
                     | Ok ft => ftn_f from ft (it_c it)
                     | Err e => Err e
                     | Panic => Panic
                     end
                   else ftn_f from (it_q it) (it_c it)
                 else loop tl
             end) items
      end
  end
with ftn_f (f : flist) (alias col : bytes) {struct f} : res bytes :=
  match f with
  | FNil => Err E_NOTFOUND
  | FCons t tl => match ftn_t t alias col with Ok x => Ok x | _ => ftn_f tl alias col end
  end.

(** FindColumnInfo: the table *)
Definition find_table (from : flist) (q c : bytes) : res bytes :=
  do alias <- (if empty q then matched_table from c else Ok q);
  ftn_f from alias c.

(** FindColumnInfo + GetColumnSetting *)
Definition col_setting_of (from : flist) (q c : bytes) : option N :=
  match find_table from q c with
  | Ok tb => match CR.get_schema cfg tb with Some s => CR.col_setting s c | None => None end
  | _ => None
  end.

(** the column the left operand is: a column, or substr(column ..) of an already rewritten statement *)
Definition left_col (l : expr) : option (bytes * bytes) :=
  match l with
  | ECol q c => Some (q, c)
  | ESubstr (ECol q c) => Some (q, c)
  | _ => None
  end.

Definition value_op (op : cop) : bool :=
  match d, op with
  | _, OpEq | _, OpNe => true
  | RMY, OpNse => true
  | _, _ => false
  end.

Definition value_shape (r : expr) : bool :=
  match d, r with
  | _, EVal _ => true
  | RPG, ECast _ => true
  | _, _ => false
  end.

(** filterColumnEqualComparisonExprs on one comparison + the IsSearchable test of OnQuery / OnBind:
    the setting of the comparison when it is rewritten *)
Definition sel_cmp (from : flist) (op : cop) (l r : expr) : option N :=
  match left_col l with
  | None => None
  | Some (q, c) =>
      match col_setting_of from q c with
      | None => None
      | Some sid =>
          if negb (is_srch sid) then None else
          match r with
          | ECol rq rc =>
              match col_setting_of from rq rc with
              | Some rsid => if is_srch rsid then Some rsid else None
              | None => None
              end
          | _ => if value_shape r && value_op op then Some sid else None
          end
      end
  end.

(** ChangeSearchableOperator *)
Definition norm_op (op : cop) : cop :=
  match d, op with
  | _, OpEq | _, OpLike => OpEq
  | RMY, OpNse => OpEq
  | _, OpNe | _, OpNLike => OpNe
  | _, o => o
  end.

Section Hash.
Variable h : bytes -> option bytes.     (* calculateHmac; None = error *)

Definition lit_of (r : expr) : option bytes :=
  match d, r with
  | _, EVal (VLit v) => Some v
  | RPG, ECast (EVal (VLit v)) => Some v
  | _, _ => None
  end.

Definition put_lit (r : expr) (v : bytes) : expr :=
  match r with
  | ECast _ => ECast (EVal (VLit v))
  | _ => EVal (VLit v)
  end.

(** OnQuery stops with an error: calculateHmac failed, or UpdateExpressionValue found the value unchanged *)
Definition cmp_fails (from : flist) (op : cop) (l r : expr) : bool :=
  match sel_cmp from op l r, r with
  | Some _, ECol _ _ => false
  | Some _, _ =>
      match lit_of r with
      | Some v => match h v with Some x => bytes_eqb x v | None => true end
      | None => false
      end
  | None, _ => false
  end.

(** OnQuery on one comparison *)
Definition rw_cmp (from : flist) (op : cop) (l r : expr) : cop * expr * expr :=
  match sel_cmp from op l r with
  | None => (op, l, r)
  | Some _ =>
      match r with
      | ECol _ _ => (norm_op op, ESubstr l, ESubstr r)
      | _ =>
          match lit_of r with
          | Some v =>
              let v' := match h v with Some x => x | None => v end in
              (norm_op op, match d with RMY => EConv (ESubstr l) | RPG => ESubstr l end, put_lit r v')
          | None => (norm_op op, ESubstr l, r)
          end
      end
  end.

(** the whole statement: every comparison of every WHERE / ON clause, all against the TOP-LEVEL table list *)
Variable top : flist.

Fixpoint rw_c (c : cond) : cond :=
  match c with
  | CTrue => CTrue
  | CCmp op l r => let '(op', l', r') := rw_cmp top op l r in CCmp op' l' r'
  | CAnd a b => CAnd (rw_c a) (rw_c b)
  | COr a b => COr (rw_c a) (rw_c b)
  | CNot a => CNot (rw_c a)
  | CParen a => CParen (rw_c a)
  | CExists s => CExists (rw_s s)
  | CIn e s => CIn e (rw_s s)
  | CCmpSub op e s => CCmpSub op e (pgsk d s (rw_s s))   (* pg_query's walker does not go below an A_Expr *)
  end
with rw_t (t : tref) : tref :=
  match t with
  | TBase n a => TBase n a
  | TJoin l r on => TJoin (rw_t l) (rw_t r) (rw_c on)
  | TDerived s a => TDerived (rw_s s) a
  end
with rw_f (f : flist) : flist :=
  match f with
  | FNil => FNil
  | FCons t tl => FCons (rw_t t) (rw_f tl)
  end
with rw_s (s : sel) : sel :=
  match s with
  | Sel items f w => Sel items (rw_f f) (rw_c w)
  end.

(** all comparisons the front end visits, statement order *)
Fixpoint cmps_c (c : cond) : list (cop * expr * expr) :=
  match c with
  | CTrue => []
  | CCmp op l r => [(op, l, r)]
  | CAnd a b | COr a b => cmps_c a ++ cmps_c b
  | CNot a | CParen a => cmps_c a
  | CExists s | CIn _ s => cmps_s s
  | CCmpSub _ _ s => pgsk d [] (cmps_s s)
  end
with cmps_t (t : tref) : list (cop * expr * expr) :=
  match t with
  | TBase _ _ => []
  | TJoin l r on => cmps_t l ++ cmps_t r ++ cmps_c on
  | TDerived s _ => cmps_s s
  end
with cmps_f (f : flist) : list (cop * expr * expr) :=
  match f with
  | FNil => []
  | FCons t tl => cmps_t t ++ cmps_f tl
  end
with cmps_s (s : sel) : list (cop * expr * expr) :=
  match s with
  | Sel _ f w => cmps_f f ++ cmps_c w
  end.

End Hash.
End Impl.

(** HashQuery.OnQuery on a statement: the statement the database receives *)
Definition on_query (d : dial) (cfg : CR.rcfg) (srch : list N) (h : bytes -> option bytes) (s : sel) : res sel :=
  let top := sel_from s in
  if existsb (fun x => let '(op, l, r) := x in cmp_fails d cfg srch h top op l r) (cmps_s d s) then Err E_GENERIC
  else Ok (rw_s d cfg srch h top s).

(** HashQuery.OnBind with [n] bound values: the positions of the values that are replaced by their index *)
Definition bind_of (d : dial) (cfg : CR.rcfg) (srch : list N) (top : flist) (x : cop * expr * expr) : res (list nat) :=
  let '(op, l, r) := x in
  match sel_cmp d cfg srch top op l r with
  | None => Ok []
  | Some _ =>
      match r with
      | EVal (VPar i) => Ok [i]
      | EVal (VLit _) => match d with RMY => Err E_GENERIC | RPG => Ok [] end   (* ParsePlaceholderIndex of a literal *)
      | _ => Ok []
      end
  end.

Fixpoint bind_all (d : dial) (cfg : CR.rcfg) (srch : list N) (top : flist) (l : list (cop * expr * expr)) : res (list nat) :=
  match l with
  | [] => Ok []
  | x :: tl =>
      do a <- bind_of d cfg srch top x;
      do b <- bind_all d cfg srch top tl;
      Ok (a ++ b)
  end.

Definition on_bind (d : dial) (cfg : CR.rcfg) (srch : list N) (s : sel) (n : nat) : res (list nat) :=
  do idx <- bind_all d cfg srch (sel_from s) (cmps_s d s);
  if existsb (fun i => Nat.leb n i) idx then Err E_GENERIC else Ok idx.
