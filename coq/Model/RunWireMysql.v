(** Replay of implementation observations on Model/MysqlWireExt.v (domain c12my; C12 and C14). *)
From Acra Require Import Lib.Bytes Lib.Outcome Lib.GoSlice Gen.WireMysqlConsts Model.MysqlWire Model.MysqlWireExt.
Local Open Scope N_scope.

Inductive expected := XOk (vals : list bytes) | XErr | XPanic.

(** what the scripted subscriber of the harness answers for one column *)
Inductive trspec :=
| TrRaw            (* the value as received (no framing) *)
| TrFrame          (* PutLengthEncodedString(value) *)
| TrConst (b : bytes)   (* these bytes *)
| TrFail.          (* an error *)

(** one rewritten COM_STMT_EXECUTE parameter as SetParameters sees it: GetType(); for the long types
    the sign of the decimal text (0 = not negative, 1 = negative, 2 = GetData/ParseInt error); Encode() *)
Inductive npspec := Np (ty : N) (neg : N) (enc : option bytes).

Inductive op :=
| MxRead (stream : bytes)                       (* ReadPacket + accessors + classification + Dump *)
| MxClassify (h d : bytes)                      (* IsOK / IsEOF / IsErr / isResultSetRowsEnd on any packet *)
| MxSetData (stream d : bytes)                  (* ReadPacket + SetData + Dump *)
| MxReplaceQuery (h d q : bytes)                (* replaceQuery + Dump *)
| MxBinRow (tys : list N) (trs : list trspec) (row : bytes)   (* processBinaryDataRow *)
| MxColDef (maria : bool) (h d : bytes) (newty : option N)    (* ParseResultField + Dump (+ changed Dump) *)
| MxGetParams (d : bytes) (pn : N)              (* GetBindParameters *)
| MxSetParams (h d : bytes) (vals : list npspec). (* SetParameters + Dump *)

Definition flag (b : bool) : bytes := [if b then x01 else x00].
Definition ov (v : option bytes) : list bytes :=
  match v with None => [flag true; []] | Some d => [flag false; d] end.
Definition canon {A} (f : A -> list bytes) (r : res A) : expected :=
  match r with Ok x => XOk (f x) | Err _ => XErr | Panic => XPanic end.

Definition tr_of (trs : list trspec) : cell_tr := fun i v =>
  match nth i trs TrRaw with
  | TrRaw => Ok (match v with Some d => d | None => [] end)
  | TrFrame => Ok (put_lenenc_string v)
  | TrConst b => Ok b
  | TrFail => Err E_CALLBACK
  end.

Definition classify (p : packet) : res bytes :=
  do a <- is_ok p; do b <- is_eof p; do c <- is_err p; do d <- is_rows_end MY_MAX_PAYLOAD p;
  Ok (flag a ++ flag b ++ flag c ++ flag d).

Definition np_of (s : npspec) : new_param :=
  match s with
  | Np ty neg enc =>
      mk_new_param ty (if neg =? 0 then Ok false else if neg =? 1 then Ok true else Err E_CALLBACK)
                   (match enc with Some e => Ok e | None => Err E_CALLBACK end)
  end.

(** float / double parameter values are not compared (their text form is strconv's) *)
Definition param_view (x : N * option bytes) : list bytes :=
  let '(ty, v) := x in
  [[n2b ty]] ++ (if (ty =? 4) || (ty =? 5) then ov (option_map (fun _ => []) v) else ov v).

Definition coldef_view (f : coldef) : list bytes :=
  ov (cd_schema f) ++ ov (cd_table f) ++ ov (cd_org_table f) ++ ov (cd_name f) ++ ov (cd_org_name f) ++
  [cd_ext f; le_enc 2 (cd_charset f); le_enc 4 (cd_collen f); [n2b (cd_type f)]; le_enc 2 (cd_flag f);
   [n2b (cd_decimal f)]; le_enc 8 (cd_deflen f)] ++ ov (cd_default f).

Definition run (o : op) : expected :=
  match o with
  | MxRead s =>
      canon (fun x => x)
        (do (p, rest) <- read_packet MY_MAX_PAYLOAD s;
         do c <- classify p;
         Ok [p_header p; p_data p; rest; le_enc 3 (hdr_len (p_header p)); [hdr_seq (p_header p)]; c;
             dump MY_MAX_PAYLOAD p])
  | MxClassify h d => canon (fun c => [c]) (classify (mk_packet h d))
  | MxSetData s d =>
      canon (fun '(p, rest) => [dump MY_MAX_PAYLOAD (set_data p d)]) (read_packet MY_MAX_PAYLOAD s)
  | MxReplaceQuery h d q =>
      canon (fun p => [dump MY_MAX_PAYLOAD p]) (replace_query (mk_packet h d) q)
  | MxBinRow tys trs row =>
      canon (fun '(out, seen) => out :: flat_map ov seen) (process_binary_row_seen true (tr_of trs) row tys)
  | MxColDef maria h d newty =>
      canon (fun f =>
               coldef_view f ++ [dump_field true maria false (mk_packet h d) f] ++
               match newty with
               | None => []
               | Some t =>
                   [dump_field true maria true (mk_packet h d)
                      (mk_coldef (cd_schema f) (cd_table f) (cd_org_table f) (cd_name f) (cd_org_name f) (cd_ext f)
                                 (cd_charset f) (cd_collen f) t (cd_flag f) (cd_decimal f) (cd_deflen f) (cd_default f))]
               end)
            (parse_result_field true maria d)
  | MxGetParams d pn =>
      canon (fun r => match r with None => [flag false] | Some vs => flag true :: flat_map param_view vs end)
            (get_bind_parameters true d (N.to_nat pn))
  | MxSetParams h d vals =>
      canon (fun p => [dump MY_MAX_PAYLOAD p]) (set_parameters true (mk_packet h d) (map np_of vals))
  end.

Fixpoint list_bytes_eqb (a b : list bytes) : bool :=
  match a, b with
  | [], [] => true
  | x :: a', y :: b' => bytes_eqb x y && list_bytes_eqb a' b'
  | _, _ => false
  end.

Definition expected_eqb (a b : expected) : bool :=
  match a, b with
  | XOk x, XOk y => list_bytes_eqb x y
  | XErr, XErr => true
  | XPanic, XPanic => true
  | _, _ => false
  end.

(** indices (from 0) of the cases on which model and implementation differ, with the model's answer *)
Fixpoint mismatches_from (i : nat) (cs : list (op * expected)) : list (nat * expected) :=
  match cs with
  | [] => []
  | (o, e) :: rest =>
      let m := run o in
      if expected_eqb m e then mismatches_from (S i) rest else (i, m) :: mismatches_from (S i) rest
  end.
Definition mismatches := mismatches_from 0.
