(** Executable model of the JSON path of acra's audit log at the level of the bytes that are
    authenticated (C20, extension of Model/AuditLog.v, which has JSON at field-map level only):

    - logging.go            JSONFormatterHook.PostFormat            -> [json_post_b], [write_json_b]
    - log_entry_parser.go   JSONLogParser.ParseEntry                -> [json_parse_b], [verify_json_b]
                            convertMapToBytes / getBytes             -> [conv_b] / [render]
    - encoding/json         Unmarshal into map[string]interface{}   -> [decode], [decode_top]
                            Marshal of the decoded values            -> [render] ([quote], [render_float])

    A JSON TEXT is represented by its abstract syntax [wv] (number literals as written, string contents
    after unquoting, members in source order, duplicates kept): the scanner / unquoting of encoding/json is
    the part that stays outside (the harness obtains [wv] with Go's own tokenizer).
    A DECODED value [jv] holds a number the way the decoder REPRESENTS it: [NumF bits] (float64, the
    default) or [NumL lit] (json.Number, decoder option UseNumber).  Which representation the writer
    side and the verifier side use is read from the running code: Gen.AuditLogConsts
    [AL_JSON_WRITER_USENUMBER] / [AL_JSON_VERIFIER_USENUMBER].  No proofs in this file. *)
From Acra Require Import Lib.Bytes Lib.Outcome Lib.Sha256 Gen.AuditLogConsts Model.AuditLog Model.AuditLogJsonNum.

(** * values *)
Inductive wv :=
| WNull | WBool (b : bool) | WNum (lit : bytes) | WStr (s : bytes)
| WArr (l : list wv) | WObj (m : list (bytes * wv)).

Inductive jnum := NumF (bits : N) | NumL (lit : bytes).
Inductive jv :=
| JNull | JBool (b : bool) | JNum (n : jnum) | JStr (s : bytes)
| JArr (l : list jv) | JObj (m : list (bytes * jv)).   (* a Go map: sorted by key, keys distinct *)

(** * Go maps as sorted association lists *)
Section Assoc.
  Context {A : Type}.
  Fixpoint aget (k : bytes) (m : list (bytes * A)) : option A :=
    match m with
    | [] => None
    | (k', v) :: r => if bytes_eqb k k' then Some v else aget k r
    end.
  Fixpoint adel (k : bytes) (m : list (bytes * A)) : list (bytes * A) :=
    match m with
    | [] => []
    | (k', v) :: r => if bytes_eqb k k' then adel k r else (k', v) :: adel k r
    end.
  Fixpoint ains (k : bytes) (v : A) (m : list (bytes * A)) : list (bytes * A) :=
    match m with
    | [] => [(k, v)]
    | (k', v') :: r => if bytes_ltb k k' then (k, v) :: m else (k', v') :: ains k v r
    end.
  Definition aset (k : bytes) (v : A) (m : list (bytes * A)) : list (bytes * A) := ains k v (adel k m).
  (** strictly increasing keys (sort.Strings order = bytewise) *)
  Fixpoint ssorted (m : list (bytes * A)) : bool :=
    match m with
    | [] => true
    | (k, _) :: r => forallb (fun kv => bytes_ltb k (fst kv)) r && ssorted r
    end.
End Assoc.

(** * UTF-8 as Go reads it (utf8.DecodeRune): number of bytes FOLLOWING a valid lead byte, [None] = RuneError *)
Definition in_rng (lo hi : N) (b : byte) : bool := ((lo <=? b2n b) && (b2n b <=? hi))%N.
Definition cont (b : byte) : bool := in_rng 128 191 b.

Definition utf8_tail (s : bytes) : option nat :=
  match s with
  | [] => None
  | b0 :: r =>
      if in_rng 194 223 b0 then
        match r with b1 :: _ => if cont b1 then Some 1 else None | _ => None end
      else if in_rng 224 239 b0 then
        match r with
        | b1 :: b2 :: _ =>
            let lo := if N.eqb (b2n b0) 224 then 160%N else 128%N in
            let hi := if N.eqb (b2n b0) 237 then 159%N else 191%N in
            if in_rng lo hi b1 && cont b2 then Some 2 else None
        | _ => None
        end
      else if in_rng 240 244 b0 then
        match r with
        | b1 :: b2 :: b3 :: _ =>
            let lo := if N.eqb (b2n b0) 240 then 144%N else 128%N in
            let hi := if N.eqb (b2n b0) 244 then 143%N else 191%N in
            if in_rng lo hi b1 && cont b2 && cont b3 then Some 3 else None
        | _ => None
        end
      else None
  end.

Definition UTF8_REPLACEMENT : bytes := [xef; xbf; xbd].      (* U+FFFD *)
Definition is_ascii (b : byte) : bool := (b2n b <? 128)%N.

(** what unquoting the quoted form gives back: every byte that is not part of a valid sequence becomes U+FFFD
    ([skip] = bytes of the current valid sequence still to copy) *)
Fixpoint sanitize_go (skip : nat) (s : bytes) : bytes :=
  match s with
  | [] => []
  | b :: r =>
      match skip with
      | S k => b :: sanitize_go k r
      | O =>
          if is_ascii b then b :: sanitize_go 0 r
          else match utf8_tail s with
               | Some n => b :: sanitize_go n r
               | None => UTF8_REPLACEMENT ++ sanitize_go 0 r
               end
      end
  end.
Definition sanitize (s : bytes) : bytes := sanitize_go 0 s.
Definition clean (s : bytes) : bool := bytes_eqb (sanitize s) s.    (* valid UTF-8 *)

(** * json.Marshal *)
Definition ESC_FFFD : bytes := [x5c; x75; x66; x66; x66; x64].      (* backslash ufffd *)
Definition ESC_202 : bytes := [x5c; x75; x32; x30; x32].            (* \u202 *)

(** encodeState.string with escapeHTML: [AL_JSON_ASCII] holds the rendering of each byte below 0x80;
    [skip] = bytes of the current sequence still to pass, copied unless [mute] (U+2028 / U+2029 are escaped) *)
Definition LINE_SEP : bytes := [xe2; x80; xa8].
Definition PARA_SEP : bytes := [xe2; x80; xa9].
Fixpoint quote_go (skip : nat) (mute : bool) (s : bytes) : bytes :=
  match s with
  | [] => []
  | b :: r =>
      match skip with
      | S k => (if mute then [] else [b]) ++ quote_go k mute r
      | O =>
          if is_ascii b then nth (N.to_nat (b2n b)) AL_JSON_ASCII [] ++ quote_go 0 false r
          else match utf8_tail s with
               | None => ESC_FFFD ++ quote_go 0 false r
               | Some n =>
                   if starts_with LINE_SEP s then ESC_202 ++ [x38] ++ quote_go n true r
                   else if starts_with PARA_SEP s then ESC_202 ++ [x39] ++ quote_go n true r
                   else b :: quote_go n false r
               end
      end
  end.
Definition quote (s : bytes) : bytes := [x22] ++ quote_go 0 false s ++ [x22].

Fixpoint join_comma (l : list bytes) : bytes :=
  match l with
  | [] => []
  | [x] => x
  | x :: r => x ++ x2c :: join_comma r
  end.

Definition LIT_NULL : bytes := [x6e; x75; x6c; x6c].
Definition LIT_TRUE : bytes := [x74; x72; x75; x65].
Definition LIT_FALSE : bytes := [x66; x61; x6c; x73; x65].

Definition render_num (n : jnum) : bytes :=
  match n with
  | NumF b => match render_float b with Some s => s | None => [] end   (* non-finite: Marshal fails; never decoded *)
  | NumL l => l                                                        (* json.Number is printed as it was read *)
  end.

(** json.Marshal of a decoded value (map keys sorted: the representation invariant of [JObj]) *)
Fixpoint render (v : jv) : bytes :=
  match v with
  | JNull => LIT_NULL
  | JBool b => if b then LIT_TRUE else LIT_FALSE
  | JNum n => render_num n
  | JStr s => quote s
  | JArr l => [x5b] ++ join_comma (map render l) ++ [x5d]
  | JObj m => [x7b] ++ join_comma (map (fun kv : bytes * jv => let (k, x) := kv in quote k ++ x3a :: render x) m) ++ [x7d]
  end.

(** convertMapToBytes: keys in sort.Strings order, raw key bytes, getBytes = json.Marshal of the value *)
Definition conv_b (m : list (bytes * jv)) : bytes :=
  flat_map (fun kv => AL_JSON_DELIM ++ fst kv ++ AL_JSON_DELIM ++ render (snd kv) ++ AL_JSON_DELIM) m.

(** * json.Unmarshal into interface{} / map[string]interface{} *)
Definition decode_num (usenum : bool) (lit : bytes) : option jnum :=
  if usenum then Some (NumL lit)
  else match parse_float lit with Some b => Some (NumF b) | None => None end.   (* out of range: Unmarshal fails *)

(** elements of an array / members of an object, given the decoder [f] of one value; a repeated member
    name overwrites the earlier one *)
Definition dec_list (f : wv -> option jv) : list wv -> option (list jv) :=
  fix go (l : list wv) : option (list jv) :=
    match l with
    | [] => Some []
    | x :: r => match f x, go r with Some a, Some b => Some (a :: b) | _, _ => None end
    end.
Definition dec_members (f : wv -> option jv) : list (bytes * wv) -> list (bytes * jv) -> option (list (bytes * jv)) :=
  fix go (m : list (bytes * wv)) (acc : list (bytes * jv)) : option (list (bytes * jv)) :=
    match m with
    | [] => Some acc
    | (k, x) :: r => match f x with Some a => go r (aset k a acc) | None => None end
    end.

Fixpoint decode (usenum : bool) (w : wv) : option jv :=
  match w with
  | WNull => Some JNull
  | WBool b => Some (JBool b)
  | WNum lit => option_map JNum (decode_num usenum lit)
  | WStr s => Some (JStr s)
  | WArr l => option_map JArr (dec_list (decode usenum) l)
  | WObj m => option_map JObj (dec_members (decode usenum) m [])
  end.

(** the target is a non-nil map[string]interface{}: `null` leaves it empty, any other non-object is an error *)
Definition decode_top (usenum : bool) (w : wv) : option (list (bytes * jv)) :=
  match w with
  | WNull => Some []
  | WObj _ => match decode usenum w with Some (JObj m) => Some m | _ => None end
  | _ => None
  end.

(** the text [render v] seen by the tokenizer again (trusted link, replayed: op [JWrite]) *)
Fixpoint to_wire (v : jv) : wv :=
  match v with
  | JNull => WNull
  | JBool b => WBool b
  | JNum n => WNum (render_num n)
  | JStr s => WStr (sanitize s)
  | JArr l => WArr (map to_wire l)
  | JObj m => WObj (map (fun kv : bytes * jv => let (k, x) := kv in (sanitize k, to_wire x)) m)
  end.

(** * JSONFormatterHook.PostFormat *)
Definition E_JSON : N := 20.
Definition json_post_b (usenum : bool) (c : calc) (formatted : wv) : res (list (bytes * jv) * calc) :=
  match decode_top usenum formatted with
  | None => Err E_JSON
  | Some m =>
      let '(agg, nc, c') := calc_step c (conv_b m) in
      let m1 := aset AL_INTEGRITY_KEY (JStr (hex_encode agg)) m in
      Ok (if nc then aset AL_CHAIN_KEY (JStr AL_NEW_VALUE) m1 else m1, c')
  end.
(** the bytes written for the entry: json.Marshal(parsed) and a line break *)
Definition json_line (m : list (bytes * jv)) : bytes := render (JObj m) ++ [x0a].

Inductive jbev := JBEntry (formatted : wv) | JBReset (key : bytes).
(** a failing hook makes formatEntry fail: logrus reports it on stderr and writes nothing; the calculator
    has not been touched *)
Fixpoint write_json_b (usenum : bool) (c : calc) (evs : list jbev) : list (list (bytes * jv)) :=
  match evs with
  | [] => []
  | JBEntry w :: r =>
      match json_post_b usenum c w with
      | Ok x => fst x :: write_json_b usenum (snd x) r
      | _ => write_json_b usenum c r
      end
  | JBReset k :: r => write_json_b usenum (calc_new k) r
  end.

(** * JSONLogParser.ParseEntry *)
Definition is_str (v : option jv) (s : bytes) : bool :=
  match v with Some (JStr x) => bytes_eqb x s | _ => false end.

Definition json_end_marked (m : list (bytes * jv)) : bool :=
  is_str (aget AL_CHAIN_KEY m) AL_END_VALUE && is_str (aget AL_MSG_KEY m) AL_END_CHAIN_MESSAGE.

Definition json_parse_m (m : list (bytes * jv)) : pres :=
  match aget AL_INTEGRITY_KEY m with
  | Some (JStr s) =>
      match hex_decode s with
      | None => PErr
      | Some integ =>
          let m1 := adel AL_INTEGRITY_KEY m in
          let isnew := is_str (aget AL_CHAIN_KEY m1) AL_NEW_VALUE in
          let m2 := if isnew then adel AL_CHAIN_KEY m1 else m1 in
          POk (mk_parsed (conv_b m2) integ isnew (json_end_marked m1))
      end
  | _ => PSkip                                   (* ErrJSONIntegrityExtract *)
  end.
Definition json_parse_b (usenum : bool) (w : wv) : pres :=
  match decode_top usenum w with
  | None => PErr
  | Some m => json_parse_m m
  end.

Inductive wline := WEmpty | WBad (* not a JSON text *) | WLine (w : wv).
Definition wline_pres (usenum : bool) (l : wline) : pres :=
  match l with WEmpty => PSkip | WBad => PErr | WLine w => json_parse_b usenum w end.
Definition verify_json_b (usenum : bool) (key : bytes) (ls : list wline) : verdict :=
  verify_pres key (vinit key) 0 (map (wline_pres usenum) ls).

(** * side condition of the honest theorem (decidable; evaluated on every replayed history: op [JWf]) *)

(** the float a literal denotes is printed and read back unchanged (strconv's shortest-round-trip guarantee,
    checked number by number instead of assumed) *)
Definition float_rt (lit : bytes) : bool :=
  match parse_float lit with
  | Some b =>
      match render_float b with
      | Some s => match parse_float s with Some b' => N.eqb b' b | None => false end
      | None => false
      end
  | None => true               (* the decoder rejects the text: nothing is written *)
  end.
Definition lit_ok (usenum : bool) (lit : bytes) : bool := usenum || float_rt lit.

(** strings and member names are valid UTF-8 (always true for what the tokenizer delivers), numbers round-trip *)
Fixpoint w_ok (usenum : bool) (w : wv) : bool :=
  match w with
  | WNum lit => lit_ok usenum lit
  | WStr s => clean s
  | WArr l => forallb (w_ok usenum) l
  | WObj m => forallb (fun kv : bytes * wv => let (k, x) := kv in clean k && w_ok usenum x) m
  | _ => true
  end.

Definition has_key {A} (k : bytes) (m : list (bytes * A)) : bool :=
  match aget k m with Some _ => true | None => false end.

(** what the code imposes on the field map of an entry (known finding json-reserved-field marks the boundary):
    no member `integrity`; no member `chain` on the first entry of a chain; `chain` is not the string "new" *)
Definition entry_ok (first : bool) (m : list (bytes * jv)) : bool :=
  negb (has_key AL_INTEGRITY_KEY m)
  && (if first then negb (has_key AL_CHAIN_KEY m) else negb (is_str (aget AL_CHAIN_KEY m) AL_NEW_VALUE)).

(** [first]: the next entry starts a chain; [last]: end mark of the last written entry.  Resets use the
    verifier's key and follow an end-marked entry (what AuditLogHandler.ResetChain guarantees). *)
Fixpoint wf_jb_evs (usenum : bool) (K : bytes) (first : bool) (last : option bool) (evs : list jbev) : bool :=
  match evs with
  | [] => true
  | JBEntry w :: r =>
      match decode_top usenum w with
      | None => wf_jb_evs usenum K first last r
      | Some m => w_ok usenum w && entry_ok first m && wf_jb_evs usenum K false (Some (json_end_marked m)) r
      end
  | JBReset k :: r =>
      bytes_eqb k K && negb (match last with Some false => true | _ => false end) && wf_jb_evs usenum K true last r
  end.

(** * the two sides as they are configured in the running code *)
Definition json_writer := write_json_b AL_JSON_WRITER_USENUMBER.
Definition json_verifier := verify_json_b AL_JSON_VERIFIER_USENUMBER.
