(** Executable model of poison-record detection: crypto/poison_detector.go
    (PoisonRecordDetector.OnCryptoEnvelope, PoisonRecordKeyStoreWrapper), poison/poison.go
    (CreatePoisonRecord / CreateSymmetricPoisonRecord), the callback order of
    decryptor/{postgresql,mysql}/proxy.go ("poison record processor should be first") and the
    translator's check after a failed decrypt (cmd/acra-translator/common/service.go).
    Callbacks have an effect (running the intrusion callbacks), so the scanner of Model/Envelope.v is
    re-stated here with an event trace; Proofs/Poison.v shows that erasing the events gives back
    exactly [Envelope.scan] / [Envelope.on_column].  No proofs here. *)
From Acra Require Import Lib.Bytes Lib.Outcome Lib.Sha256 Crypto.Interface Gen.Consts Gen.MaskConsts Model.Envelope.

Inductive event :=
| Callback                (* PoisonRecordCallbackStorage.Call() was executed *)
| Deliver (v : bytes)     (* the value handed on to the client / caller *)
| Abort.                  (* the operation ended with an error: nothing delivered *)

(** an envelope callback with effects: events it caused, then its result *)
Definition ecb := bytes -> list event * res bytes.
Definition lift (cb : bytes -> res bytes) : ecb := fun c => ([], cb c).
Definition erase (cb : ecb) : bytes -> res bytes := fun c => snd (cb c).

Definition prepend {A} (ev : list event) (r : list event * A) : list event * A := (ev ++ fst r, snd r).

(** EnvelopeDetector.OnColumn's inner loop over the callbacks, with events *)
Fixpoint run_callbacks_ev (cbs : list ecb) (container : bytes) : list event * res (option bytes) :=
  match cbs with
  | [] => ([], Ok None)
  | cb :: rest =>
      let '(ev, r) := cb container in
      match r with
      | Panic => (ev, Panic)
      | Err e => if N.eqb e E_DECRYPTION then prepend ev (run_callbacks_ev rest container) else (ev, Err e)
      | Ok p => if bytes_eqb p container then prepend ev (run_callbacks_ev rest container) else (ev, Ok (Some p))
      end
  end.

Fixpoint scan_ev (fuel : nat) (cbs : list ecb) (rest out : bytes) (changed : bool)
  : list event * res (bytes * bool) :=
  match fuel with
  | O => ([], Err E_OUT_OF_FUEL)
  | S f =>
      match index_of sc_tag rest with
      | None => ([], Ok (out ++ rest, changed))
      | Some i =>
          let out1 := out ++ firstn i rest in
          let r := skipn i rest in
          match sc_extract r with
          | Panic => ([], Panic)
          | Err _ => scan_ev f cbs (skipn 1 r) (out1 ++ firstn 1 r) changed
          | Ok (n, container) =>
              let '(ev, rc) := run_callbacks_ev cbs container in
              match rc with
              | Panic => (ev, Panic)
              | Err e => (ev, Err e)
              | Ok None => prepend ev (scan_ev f cbs (skipn 1 r) (out1 ++ firstn 1 r) changed)
              | Ok (Some p) => prepend ev (scan_ev f cbs (skipn n r) (out1 ++ p) true)
              end
          end
      end
  end.

Definition on_column_ev (cbs : list ecb) (inb : bytes) : list event * res (bytes * bool) :=
  if Nat.ltb (length inb) SC_MIN_SIZE || is_nil cbs then ([], Ok (inb, false))
  else scan_ev (S (length inb)) cbs inb [] false.

(** * poison keys (keystore.RecordProcessorKeyStore), newest first *)
Record poison_keys := {
  pk_privs : list bytes;   (* GetPoisonPrivateKeys *)
  pk_syms : list bytes     (* GetPoisonSymmetricKeys *)
}.

(* PoisonRecordKeyStoreWrapper: the client id is ignored, the poison keys are returned *)
Definition poison_keyset (pk : poison_keys) : keyset :=
  {| ks_pub := None; ks_privs := pk_privs pk; ks_syms := pk_syms pk; ks_hmac := None |}.

(** does a poison key open this container?  (RegistryHandler.Process under the wrapper keystore) *)
Definition poison_opens (C : crypto) (pk : poison_keys) (container : bytes) : res bytes :=
  registry_process C (poison_keyset pk) container.

(** PoisonRecordDetector.OnCryptoEnvelope.  [has_cb] = callbacks.HasCallbacks(); [cb_err] = the callback
    storage's Call() returns an error.  ErrKeysNotFound and every other processing error end the same
    way: the container is returned unchanged and nothing is called. *)
Definition poison_detector (C : crypto) (has_cb cb_err : bool) (pk : poison_keys) : ecb := fun container =>
  if negb has_cb then ([], Ok container)
  else match poison_opens C pk container with
       | Ok _ => ([Callback], if cb_err then Err E_GENERIC else Ok container)
       | Err _ => ([], Ok container)
       | Panic => ([], Panic)
       end.

(** the detector chain of proxyFactory.New: the poison detector is added first, and only when a callback
    storage with callbacks is configured; then the decrypt handler over [proc] *)
Definition proxy_chain (C : crypto) (has_cb cb_err : bool) (pk : poison_keys) (proc : bytes -> res bytes) : list ecb :=
  (if has_cb then [poison_detector C has_cb cb_err pk] else []) ++ [lift (decrypt_handler proc)].

Definition finish {A} (deliver : A -> bytes) (r : list event * res A) : list event :=
  fst r ++ [match snd r with Ok a => Deliver (deliver a) | _ => Abort end].

(** what happens for one column value in the proxy: callback events, then the value is handed on *)
Definition column_trace (C : crypto) (has_cb cb_err : bool) (pk : poison_keys) (ks : keyset) (col : bytes) : list event :=
  finish fst (on_column_ev (proxy_chain C has_cb cb_err pk (registry_process C ks)) col).

(** * translator: TranslatorService.Decrypt / DecryptSym ([id] selects the handler) *)
Definition translator_chain (C : crypto) (has_cb cb_err : bool) (pk : poison_keys) : list ecb :=
  if has_cb then [poison_detector C has_cb cb_err pk] else [].

Definition tr_decrypt_ev (C : crypto) (id : byte) (ks : keyset) (has_cb cb_err : bool) (pk : poison_keys)
  (data : bytes) : list event * res bytes :=
  match decrypt_with_handler C id ks data with
  | Ok x => ([], Ok x)
  | Panic => ([], Panic)
  | Err e =>
      let '(ev, r) := on_column_ev (translator_chain C has_cb cb_err pk) data in
      (ev, match r with Panic => Panic | _ => Err e end)
  end.

Definition translator_trace C id ks has_cb cb_err pk data : list event :=
  finish (fun x => x) (tr_decrypt_ev C id ks has_cb cb_err pk data).

(** * poison/poison.go: a poison record is an ordinary envelope under the poison keys around random data.
    [data] = the bytes createPoisonRecordData drew; [tape] = the draws of the envelope constructor. *)
Definition create_poison_record (C : crypto) (pub : bytes) (data : bytes) (tape : list bytes) : res bytes :=
  do a <- as_create C tape data pub []; sc_serialize a ENVELOPE_ID_ACRASTRUCT.

Definition create_sym_poison_record (C : crypto) (key : bytes) (data : bytes) (tape : list bytes) : res bytes :=
  do a <- ab_create C tape data key []; sc_serialize a ENVELOPE_ID_ACRABLOCK.
