(** Replay of implementation observations on the poison-record model (C15), instantiated with [Stub]. *)
From Acra Require Import Lib.Bytes Lib.Outcome Lib.Sha256 Crypto.Interface Crypto.Stub Gen.Consts Gen.MaskConsts
  Model.Envelope Model.RunEnvelope Model.Poison.
Export RunEnvelope(expected, XOk, XErr, XPanic, mk_ks).

Definition mk_pk := Build_poison_keys.

Inductive op :=
| PoisonCreate (pub data : bytes) (tape : list bytes)
| PoisonCreateSym (key data : bytes) (tape : list bytes)
| PoisonDetect (has_cb cb_err : bool) (pk : poison_keys) (container : bytes)
| PoisonColumn (has_cb cb_err : bool) (pk : poison_keys) (ks : keyset) (col : bytes)
| PoisonTranslator (id : bytes) (ks : keyset) (has_cb cb_err : bool) (pk : poison_keys) (data : bytes).

Fixpoint count_callbacks (ev : list event) : nat :=
  match ev with
  | [] => 0
  | Callback :: r => S (count_callbacks r)
  | _ :: r => count_callbacks r
  end.

(** [count of callback runs; 00 = value returned / 01 = error; returned values...] *)
Definition canon_ev {A} (vals : A -> list bytes) (r : list event * res A) : expected :=
  match snd r with
  | Ok a => XOk (n8 (count_callbacks (fst r)) :: [x00] :: vals a)
  | Err _ => XOk [n8 (count_callbacks (fst r)); [x01]]
  | Panic => XPanic
  end.

Definition run (o : op) : expected :=
  match o with
  | PoisonCreate pub data tape => canon1 (create_poison_record Stub pub data tape)
  | PoisonCreateSym key data tape => canon1 (create_sym_poison_record Stub key data tape)
  | PoisonDetect has_cb cb_err pk c => canon_ev (fun x => [x]) (poison_detector Stub has_cb cb_err pk c)
  | PoisonColumn has_cb cb_err pk ks col =>
      canon_ev (fun p => [fst p; flag (snd p)])
               (on_column_ev (proxy_chain Stub has_cb cb_err pk (registry_process Stub ks)) col)
  | PoisonTranslator id ks has_cb cb_err pk data =>
      canon_ev (fun x => [x]) (tr_decrypt_ev Stub (idb id) ks has_cb cb_err pk data)
  end.

Fixpoint mismatches_from (i : nat) (cs : list (op * expected)) : list (nat * expected) :=
  match cs with
  | [] => []
  | (o, e) :: rest =>
      let m := run o in
      if expected_eqb m e then mismatches_from (S i) rest else (i, m) :: mismatches_from (S i) rest
  end.
Definition mismatches := mismatches_from 0.
