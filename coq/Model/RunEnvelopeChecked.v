(** Replay of implementation observations on the CHECKED envelope model (property C14,
    domain c14env), instantiated with the stand-in crypto.  The constructors shared with
    Model/RunEnvelope.v have the same names and arguments, so the emitters of envops.go are reusable. *)
From Acra Require Import Lib.Bytes Lib.Outcome Lib.GoSlice Lib.Sha256 Crypto.Interface Crypto.Stub Gen.Consts
  Model.Envelope Model.EnvelopeChecked.

Definition mk_ks := Build_keyset.

Inductive expected := XOk (vals : list bytes) | XErr | XPanic.

(** test processors / callbacks of the harness *)
Inductive pmode :=
| PmId                    (* returns its argument *)
| PmConst (b : bytes)     (* replaces with fixed bytes *)
| PmErr                   (* generic error *)
| PmDecErr                (* crypto.ErrDecryptionError *)
| PmTail.                 (* argument without its first byte *)

Definition pm_fun (m : pmode) (x : bytes) : res bytes :=
  match m with
  | PmId => Ok x
  | PmConst b => Ok b
  | PmErr => Err E_GENERIC
  | PmDecErr => Err E_DECRYPTION
  | PmTail => Ok (skipn 1 x)
  end.

Inductive op :=
| AsDataLen (data : bytes)
| AsValidate (data : bytes)
| AsExtract (data : bytes)
| AsDecrypt (data : bytes) (privs : list bytes) (ctx : bytes)
| PAS (m : pmode) (inb outb : bytes)
| AbExtract (data : bytes)
| AbKeyLen (b : bytes)
| AbKeyId (b : bytes)
| AbDecrypt (block : bytes) (keys : list bytes) (ctx : bytes)
| PAB (m : pmode) (inb outb : bytes)
| ScValidate (data : bytes)
| ScLen (data : bytes)
| MatchOld (data : bytes)
| ScDeserialize (data : bytes)
| ScExtract (data : bytes)
| DecHandler (id : bytes) (ks : keyset) (data : bytes)
| Process (ks : keyset) (data : bytes)
| OnColumn (ks : keyset) (data : bytes)
| OnColumnCb (ms : list pmode) (data : bytes)
| ExtractHash (data : bytes)
| ExtractHashData (data : bytes).

Definition idb (id : bytes) : byte := nthb 0 id.
(* a Go int as 8 little-endian bytes (two's complement) *)
Definition z8 (z : Z) : bytes := le_enc 8 (Z.to_N (z mod 18446744073709551616)%Z).
Definition flag (b : bool) : bytes := [if b then x01 else x00].

Definition canon1 (r : res bytes) : expected :=
  match r with Ok x => XOk [x] | Err _ => XErr | Panic => XPanic end.
Definition canon_zb (r : res (Z * bytes)) : expected :=
  match r with Ok (n, b) => XOk [z8 n; b] | Err _ => XErr | Panic => XPanic end.

Definition registry_cbs_checked (ks : keyset) : list (bytes -> res bytes) :=
  [decrypt_handler (registry_process_checked Stub ks)].

Definition run (o : op) : expected :=
  match o with
  | AsDataLen data =>
      match as_data_length_checked data with Ok z => XOk [z8 z] | Err _ => XErr | Panic => XPanic end
  | AsValidate data =>
      match as_validate_checked data with Ok true => XOk [] | Ok false => XErr | Err _ => XErr | Panic => XPanic end
  | AsExtract data => canon_zb (as_extract_checked data)
  | AsDecrypt data privs ctx => canon1 (as_decrypt_rotated_checked Stub data privs ctx)
  | PAS m inb outb => canon1 (process_acrastructs_checked (pm_fun m) inb outb)
  | AbExtract data => canon_zb (ab_extract_checked data)
  | AbKeyLen b => match ab_key_len_checked b with Ok z => XOk [z8 z] | Err _ => XErr | Panic => XPanic end
  | AbKeyId b => canon1 (ab_block_key_id_checked b)
  | AbDecrypt b keys ctx => canon1 (ab_decrypt_checked Stub b keys ctx)
  | PAB m inb outb => canon1 (process_acrablocks_checked (pm_fun m) inb outb)
  | ScValidate data =>
      match sc_validate_checked data with Ok (Some id) => XOk [[id]] | Ok None => XErr | Err _ => XErr | Panic => XPanic end
  | ScLen data =>
      match sc_internal_length_checked data with Ok n => XOk [le_enc 8 n] | Err _ => XErr | Panic => XPanic end
  | MatchOld data =>
      match match_old_checked data with
      | Ok (Some (id, n)) => XOk [[id]; z8 n] | Ok None => XErr | Err _ => XErr | Panic => XPanic end
  | ScDeserialize data =>
      match sc_deserialize_checked data with Ok (i, id) => XOk [i; [id]] | Err _ => XErr | Panic => XPanic end
  | ScExtract data => canon_zb (sc_extract_checked data)
  | DecHandler id ks data => canon1 (decrypt_with_handler_checked Stub (idb id) ks data)
  | Process ks data => canon1 (registry_process_checked Stub ks data)
  | OnColumn ks data =>
      match on_column_checked (registry_cbs_checked ks) data with
      | Ok (out, ch) => XOk [out; flag ch] | Err _ => XErr | Panic => XPanic end
  | OnColumnCb ms data =>
      match on_column_checked (map pm_fun ms) data with
      | Ok (out, ch) => XOk [out; flag ch] | Err _ => XErr | Panic => XPanic end
  | ExtractHash data =>
      match extract_hash_checked data with Ok (Some h) => XOk [h] | Ok None => XErr | Err _ => XErr | Panic => XPanic end
  | ExtractHashData data =>
      match extract_hash_and_data_checked data with
      | Ok (Some (h, r)) => XOk [h; r] | Ok None => XErr | Err _ => XErr | Panic => XPanic end
  end.

Fixpoint list_bytes_eqb (a b : list bytes) : bool :=
  match a, b with
  | [], [] => true
  | x :: a', y :: b' => bytes_eqb x y && list_bytes_eqb a' b'
  | _, _ => false
  end.

Definition expected_eqb (a b : expected) : bool :=
  match a, b with
  | XOk x, XOk y => list_bytes_eqb x y
  | XErr, XErr => true
  | XPanic, XPanic => true
  | _, _ => false
  end.

Fixpoint mismatches_from (i : nat) (cs : list (op * expected)) : list (nat * expected) :=
  match cs with
  | [] => []
  | (o, e) :: rest =>
      let m := run o in
      if expected_eqb m e then mismatches_from (S i) rest else (i, m) :: mismatches_from (S i) rest
  end.
Definition mismatches := mismatches_from 0.
