(** PostgreSQL bytea text codecs: byte-exact model of utils/dbByteArrayEncoders.go
    (EncodeToOctal, DecodeOctal, PgEncodeToHex, DecodeEscaped) including the
    []rune(string) conversion DecodeOctal starts with (Go's UTF-8 decoder: an invalid byte
    becomes U+FFFD of width 1), unicode.IsControl and utf8.EncodeRune, and
    encoding/hex's Encode/Decode.  No proofs here. *)
From Acra Require Import Lib.Bytes Lib.Outcome.
Local Open Scope N_scope.

Definition E_OCTAL : N := 40.  (* ErrDecodeOctalString *)
Definition E_HEX : N := 41.    (* hex.InvalidByteError / hex.ErrLength *)

Definition BACKSLASH : N := 92.
Definition RUNE_ERROR : N := 0xFFFD.

(** utils.IsPrintableEscapeChar *)
Definition is_printable (c : N) : bool := (32 <=? c) && (c <=? 126).

(** EncodeToOctal *)
Definition octal_of (c : N) : bytes :=
  [n2b BACKSLASH; n2b (48 + c / 64); n2b (48 + (c / 8) mod 8); n2b (48 + c mod 8)].
Fixpoint encode_octal (data : bytes) : bytes :=
  match data with
  | [] => []
  | b :: r =>
      let c := b2n b in
      (if c =? BACKSLASH then [n2b BACKSLASH; n2b BACKSLASH]
       else if negb (is_printable c) then octal_of c
       else [b]) ++ encode_octal r
  end.

(** unicode/utf8: first-byte classes (size, accepted range of the second byte) *)
Definition utf8_first (b : N) : option (nat * N * N) :=
  if b <? 0xC2 then None
  else if b <=? 0xDF then Some (2%nat, 0x80, 0xBF)
  else if b =? 0xE0 then Some (3%nat, 0xA0, 0xBF)
  else if b =? 0xED then Some (3%nat, 0x80, 0x9F)
  else if b <=? 0xEF then Some (3%nat, 0x80, 0xBF)
  else if b =? 0xF0 then Some (4%nat, 0x90, 0xBF)
  else if b <=? 0xF3 then Some (4%nat, 0x80, 0xBF)
  else if b =? 0xF4 then Some (4%nat, 0x80, 0x8F)
  else None.
Definition is_cont (b : N) : bool := (0x80 <=? b) && (b <=? 0xBF).

(** utf8.DecodeRune on a non-empty input: (rune, width) *)
Definition decode_rune (s : bytes) : N * nat :=
  match s with
  | [] => (RUNE_ERROR, 0%nat)
  | b0 :: r =>
      let p0 := b2n b0 in
      if p0 <? 0x80 then (p0, 1%nat) else
      match utf8_first p0 with
      | None => (RUNE_ERROR, 1%nat)
      | Some (sz, lo, hi) =>
          match sz, r with
          | 2%nat, b1 :: _ =>
              let c1 := b2n b1 in
              if (c1 <? lo) || (hi <? c1) then (RUNE_ERROR, 1%nat)
              else ((p0 mod 32) * 64 + c1 mod 64, 2%nat)
          | 3%nat, b1 :: b2 :: _ =>
              let c1 := b2n b1 in let c2 := b2n b2 in
              if (c1 <? lo) || (hi <? c1) then (RUNE_ERROR, 1%nat)
              else if negb (is_cont c2) then (RUNE_ERROR, 1%nat)
              else ((p0 mod 16) * 4096 + (c1 mod 64) * 64 + c2 mod 64, 3%nat)
          | 4%nat, b1 :: b2 :: b3 :: _ =>
              let c1 := b2n b1 in let c2 := b2n b2 in let c3 := b2n b3 in
              if (c1 <? lo) || (hi <? c1) then (RUNE_ERROR, 1%nat)
              else if negb (is_cont c2) then (RUNE_ERROR, 1%nat)
              else if negb (is_cont c3) then (RUNE_ERROR, 1%nat)
              else ((p0 mod 8) * 262144 + (c1 mod 64) * 4096 + (c2 mod 64) * 64 + c3 mod 64, 4%nat)
          | _, _ => (RUNE_ERROR, 1%nat)   (* fewer bytes than the sequence needs *)
          end
      end
  end.

(** []rune(string) *)
Fixpoint runes_of (fuel : nat) (s : bytes) : list N :=
  match fuel with
  | O => []
  | S f =>
      match s with
      | [] => []
      | _ => let '(r, w) := decode_rune s in r :: runes_of f (skipn w s)
      end
  end.
Definition to_runes (s : bytes) : list N := runes_of (length s) s.

(** utf8.EncodeRune (surrogates and out-of-range values encode U+FFFD) *)
Definition encode_rune (r : N) : bytes :=
  if r <? 0x80 then [n2b r]
  else if r <? 0x800 then [n2b (0xC0 + r / 64); n2b (0x80 + r mod 64)]
  else if (0x10FFFF <? r) || ((0xD800 <=? r) && (r <=? 0xDFFF)) then [xef; xbf; xbd]
  else if r <? 0x10000 then [n2b (0xE0 + r / 4096); n2b (0x80 + (r / 64) mod 64); n2b (0x80 + r mod 64)]
  else [n2b (0xF0 + r / 262144); n2b (0x80 + (r / 4096) mod 64); n2b (0x80 + (r / 64) mod 64); n2b (0x80 + r mod 64)].

(** unicode.IsControl: category Cc exists only in Latin-1 *)
Definition is_control (r : N) : bool := (r <? 32) || ((127 <=? r) && (r <? 160)).
Definition is_octal_digit (r : N) : bool := (48 <=? r) && (r <=? 55).

(** loop of DecodeOctal over the runes *)
Fixpoint decode_octal_runes (text : list N) : res bytes :=
  match text with
  | [] => Ok []
  | ch :: r =>
      if is_control ch then Err E_OCTAL
      else if negb (ch =? BACKSLASH) then do o <- decode_octal_runes r; Ok (encode_rune ch ++ o)
      else match r with
           | [] => Err E_OCTAL
           | c1 :: r1 =>
               if c1 =? BACKSLASH then do o <- decode_octal_runes r1; Ok (n2b BACKSLASH :: o)
               else match r1 with
                    | c2 :: c3 :: r3 =>
                        if is_octal_digit c1 && is_octal_digit c2 && is_octal_digit c3
                        then do o <- decode_octal_runes r3;
                             Ok (n2b ((c1 - 48) * 64 + (c2 - 48) * 8 + (c3 - 48)) :: o)   (* byte arithmetic: mod 256 in n2b *)
                        else Err E_OCTAL
                    | _ => Err E_OCTAL
                    end
           end
  end.

(** DecodeOctal *)
Definition decode_octal (data : bytes) : res bytes := decode_octal_runes (to_runes data).

(** encoding/hex *)
Definition hex_digit (n : N) : byte := n2b (if n <? 10 then 48 + n else 87 + n).
Fixpoint hex_encode (data : bytes) : bytes :=
  match data with
  | [] => []
  | b :: r => hex_digit (b2n b / 16) :: hex_digit (b2n b mod 16) :: hex_encode r
  end.
Definition from_hex_char (c : N) : option N :=
  if (48 <=? c) && (c <=? 57) then Some (c - 48)
  else if (97 <=? c) && (c <=? 102) then Some (c - 87)
  else if (65 <=? c) && (c <=? 70) then Some (c - 55)
  else None.
Fixpoint hex_decode (src : bytes) : res bytes :=
  match src with
  | [] => Ok []
  | [_] => Err E_HEX
  | p :: q :: r =>
      match from_hex_char (b2n p), from_hex_char (b2n q) with
      | Some a, Some b => do o <- hex_decode r; Ok (n2b (a * 16 + b) :: o)
      | _, _ => Err E_HEX
      end
  end.

(** PgEncodeToHex *)
Definition pg_encode_hex (data : bytes) : bytes := n2b BACKSLASH :: n2b 120 :: hex_encode data.

(** DecodeEscaped *)
Definition decode_escaped (data : bytes) : res bytes :=
  match data with
  | a :: b :: r =>
      if (b2n a =? BACKSLASH) && (b2n b =? 120) then hex_decode r
      else match decode_octal data with Ok o => Ok o | _ => Err E_OCTAL end
  | _ => match decode_octal data with Ok o => Ok o | _ => Err E_OCTAL end
  end.
