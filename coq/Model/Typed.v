(** C19 — executable model of type-aware column delivery (PostgreSQL side complete):
    decryptor/postgresql/types/{int4,int8,text,bytea}.go (Encode / Decode / EncodeOnFail / encodeDefault /
    ValidateDefaultValue), decryptor/postgresql/data_encoder.go (PgSQLDataDecoderProcessor,
    PgSQLDataEncoderProcessor), utils.DecodeEscaped / DecodeOctal / PgEncodeToHex, strconv.ParseInt /
    FormatInt (base 10), encoding/base64 StdEncoding.DecodeString, unicode/utf8 validity,
    the type / default / policy part of BasicColumnEncryptionSetting.Init and the type id rewrite of
    handleRowDescription.  NO proofs here. *)
From Acra Require Import Lib.Bytes Lib.Outcome Gen.TypedConsts.
Local Open Scope N_scope.

(** * Small helpers *)
Definition inr (lo hi b : N) : bool := (lo <=? b) && (b <=? hi).
Definition E_ENCODING : N := 7.   (* base.EncodingError: sent to the client as an error response *)
Definition E_HEX : N := 8.        (* encoding/hex error out of utils.DecodeEscaped *)
Definition E_OCTAL : N := 9.      (* utils.ErrDecodeOctalString *)

Fixpoint lookup (k : N) (t : list (N * N)) : option N :=
  match t with
  | [] => None
  | (a, b) :: r => if a =? k then Some b else lookup k r
  end.

(** * strconv.ParseInt(s, 10, bits) / strconv.FormatInt(v, 10) *)
Definition is_digit (b : byte) : bool := inr 48 57 (b2n b).
Definition dval (b : byte) : N := b2n b - 48.

Fixpoint parse_digits (s : bytes) (acc : N) : option N :=
  match s with
  | [] => Some acc
  | b :: r => if is_digit b then parse_digits r (10 * acc + dval b) else None
  end.

(** unsigned part: at least one digit, digits only (base 10: no underscores, no prefixes) *)
Definition parse_uint (s : bytes) : option N :=
  match s with [] => None | _ => parse_digits s 0 end.

(** [None] = any error of ParseInt (syntax or range; the callers only test err != nil) *)
Definition parse_int (bits : N) (s : bytes) : option Z :=
  let cutoff := 2 ^ (bits - 1) in
  match s with
  | [] => None
  | c :: r =>
      let neg := b2n c =? 45 in
      let body := if neg || (b2n c =? 43) then r else s in
      match parse_uint body with
      | None => None
      | Some un =>
          if neg then (if un <=? cutoff then Some (- Z.of_N un)%Z else None)
          else (if un <? cutoff then Some (Z.of_N un) else None)
      end
  end.

Definition digit_byte (d : N) : byte := n2b (48 + d).

Fixpoint digits_fuel (fuel : nat) (n : N) (acc : bytes) : bytes :=
  match fuel with
  | O => acc
  | S f =>
      let acc' := digit_byte (n mod 10) :: acc in
      if n <? 10 then acc' else digits_fuel f (n / 10) acc'
  end.

(** 20 decimal digits cover every unsigned 64-bit value *)
Definition print_nat (n : N) : bytes := digits_fuel 20 n [].
Definition print_int (z : Z) : bytes :=
  if (z <? 0)%Z then x2d :: print_nat (Z.to_N (- z)) else print_nat (Z.to_N z).

(** two's complement, [w] bytes big endian (binary.BigEndian.PutUintNN(uintNN(v))) *)
Definition be_of_int (w : nat) (z : Z) : bytes := be_enc w (Z.to_N (z mod 2 ^ Z.of_nat (8 * w))).
Definition int_of_be (bs : bytes) : Z :=
  let n := be_dec bs in
  let m := 256 ^ N.of_nat (length bs) in
  if 2 * n <? m then Z.of_N n else (Z.of_N n - Z.of_N m)%Z.

(** * encoding/hex, utils.PgEncodeToHex, utils.DecodeEscaped *)
Definition hex_digit (n : N) : byte := if n <? 10 then n2b (48 + n) else n2b (87 + n).
Fixpoint hex_encode (d : bytes) : bytes :=
  match d with
  | [] => []
  | b :: r => hex_digit (b2n b / 16) :: hex_digit (b2n b mod 16) :: hex_encode r
  end.
Definition pg_hex (d : bytes) : bytes := x5c :: x78 :: hex_encode d.

Definition unhex_digit (b : byte) : option N :=
  let n := b2n b in
  if inr 48 57 n then Some (n - 48)
  else if inr 97 102 n then Some (n - 87)
  else if inr 65 70 n then Some (n - 55) else None.

(** hex.Decode: any invalid character or an odd length is an error *)
Fixpoint hex_decode (s : bytes) : option bytes :=
  match s with
  | [] => Some []
  | [_] => None
  | a :: b :: r =>
      match unhex_digit a, unhex_digit b with
      | Some x, Some y =>
          match hex_decode r with Some o => Some (n2b (16 * x + y) :: o) | None => None end
      | _, _ => None
      end
  end.

(** Go's UTF-8 decoding: width of the valid sequence at the head, 0 = invalid byte (RuneError, width 1) *)
Definition utf8_width (s : bytes) : nat :=
  match s with
  | [] => 0%nat
  | b0 :: r =>
      let n0 := b2n b0 in
      if n0 <? 128 then 1%nat
      else if inr 194 223 n0 then
        match r with
        | b1 :: _ => if inr 128 191 (b2n b1) then 2%nat else 0%nat
        | _ => 0%nat
        end
      else if inr 224 239 n0 then
        match r with
        | b1 :: b2 :: _ =>
            let lo := if n0 =? 224 then 160 else 128 in
            let hi := if n0 =? 237 then 159 else 191 in
            if inr lo hi (b2n b1) && inr 128 191 (b2n b2) then 3%nat else 0%nat
        | _ => 0%nat
        end
      else if inr 240 244 n0 then
        match r with
        | b1 :: b2 :: b3 :: _ =>
            let lo := if n0 =? 240 then 144 else 128 in
            let hi := if n0 =? 244 then 143 else 191 in
            if inr lo hi (b2n b1) && inr 128 191 (b2n b2) && inr 128 191 (b2n b3) then 4%nat else 0%nat
        | _ => 0%nat
        end
      else 0%nat
  end.

(** utf8.ValidString *)
Fixpoint utf8_valid_fuel (fuel : nat) (s : bytes) : bool :=
  match fuel with
  | O => false
  | S f =>
      match s with
      | [] => true
      | _ => match utf8_width s with
             | O => false
             | w => utf8_valid_fuel f (skipn w s)
             end
      end
  end.
Definition utf8_valid (s : bytes) : bool := utf8_valid_fuel (S (length s)) s.

Definition is_octal (b : byte) : bool := inr 48 55 (b2n b).
Definition rune_error : bytes := [xef; xbf; xbd].

(** utils.DecodeOctal: the input is converted to runes (invalid bytes become U+FFFD), every rune is
    refused when unicode.IsControl (U+0000..1F, U+007F..9F), [\\] is a backslash, [\ooo] a byte *)
Fixpoint decode_octal_fuel (fuel : nat) (s : bytes) : res bytes :=
  match fuel with
  | O => Err E_OUT_OF_FUEL
  | S f =>
      match s with
      | [] => Ok []
      | b :: r =>
          if b2n b =? 92 then
            match r with
            | [] => Err E_OCTAL
            | b1 :: r1 =>
                if b2n b1 =? 92 then do o <- decode_octal_fuel f r1; Ok (x5c :: o)
                else match r with
                     | d1 :: d2 :: d3 :: r3 =>
                         if is_octal d1 && is_octal d2 && is_octal d3 then
                           do o <- decode_octal_fuel f r3;
                           Ok (n2b (64 * dval d1 + 8 * dval d2 + dval d3) :: o)
                         else Err E_OCTAL
                     | _ => Err E_OCTAL
                     end
            end
          else
            match utf8_width s with
            | O => do o <- decode_octal_fuel f r; Ok (rune_error ++ o)
            | S O => if (b2n b <? 32) || (b2n b =? 127) then Err E_OCTAL
                     else do o <- decode_octal_fuel f r; Ok (b :: o)
            | w =>
                if (b2n b =? 194) && inr 128 159 (b2n (hd x00 r)) then Err E_OCTAL
                else do o <- decode_octal_fuel f (skipn w s); Ok (firstn w s ++ o)
            end
      end
  end.
Definition decode_octal (s : bytes) : res bytes := decode_octal_fuel (S (length s)) s.

(** utils.DecodeEscaped: [Err E_HEX] for a [\x] value that is not hex, [Err E_OCTAL] otherwise *)
Definition decode_escaped (d : bytes) : res bytes :=
  match d with
  | a :: b :: r =>
      if (b2n a =? 92) && (b2n b =? 120) then
        match hex_decode r with Some o => Ok o | None => Err E_HEX end
      else match decode_octal d with Ok o => Ok o | Err e => Err (if e =? E_OUT_OF_FUEL then e else E_OCTAL) | Panic => Panic end
  | _ => match decode_octal d with Ok o => Ok o | Err e => Err (if e =? E_OUT_OF_FUEL then e else E_OCTAL) | Panic => Panic end
  end.

(** * encoding/base64 StdEncoding.DecodeString (padded, non-strict, CR/LF skipped) *)
Definition b64_val (b : byte) : option N :=
  let n := b2n b in
  if inr 65 90 n then Some (n - 65)
  else if inr 97 122 n then Some (n - 71)
  else if inr 48 57 n then Some (n + 4)
  else if n =? 43 then Some 62
  else if n =? 47 then Some 63 else None.
Definition is_nl (b : byte) : bool := (b2n b =? 10) || (b2n b =? 13).
Fixpoint skip_nl (s : bytes) : bytes :=
  match s with
  | b :: r => if is_nl b then skip_nl r else s
  | [] => []
  end.

Fixpoint b64_go (s : bytes) (acc : list N) : option bytes :=
  match s with
  | [] => match acc with [] => Some [] | _ => None end
  | c :: r =>
      match b64_val c with
      | Some v =>
          match acc with
          | [a; b; c3] =>
              match b64_go r [] with
              | Some o => Some (n2b (4 * a + b / 16) :: n2b (16 * (b mod 16) + c3 / 4) :: n2b (64 * (c3 mod 4) + v) :: o)
              | None => None
              end
          | _ => b64_go r (acc ++ [v])
          end
      | None =>
          if is_nl c then b64_go r acc
          else if b2n c =? 61 then
            match acc with
            | [a; b] =>
                match skip_nl r with
                | p :: r2 => if (b2n p =? 61) then
                               match skip_nl r2 with [] => Some [n2b (4 * a + b / 16)] | _ => None end
                             else None
                | [] => None
                end
            | [a; b; c3] =>
                match skip_nl r with
                | [] => Some [n2b (4 * a + b / 16); n2b (16 * (b mod 16) + c3 / 4)]
                | _ => None
                end
            | _ => None
            end
          else None
      end
  end.
Definition b64_decode (s : bytes) : option bytes := b64_go s [].

(** * Column setting as the encoders see it (type_awareness.DataTypeFormat) *)
Inductive policy := PEmpty | PCiphertext | PDefault | PError | PBad.
Inductive tykind := TInt4 | TInt8 | TText | TBytea.

Definition kind_of_code (c : N) : option tykind :=
  match c with 1 => Some TInt4 | 2 => Some TInt8 | 3 => Some TText | 4 => Some TBytea | _ => None end.

Record setting := mk_setting {
  s_type_id : N;               (* GetDBDataTypeID *)
  s_policy : policy;           (* GetResponseOnFail *)
  s_default : option bytes;    (* GetDefaultDataValue *)
  s_binop : bool;              (* config.IsBinaryDataOperation *)
  s_type_aware : bool          (* config.HasTypeAwareSupport *)
}.

(** registry of type-aware encoders of one database: type id -> kind *)
Definition encoder_for (table : list (N * N)) (id : N) : option tykind :=
  match lookup id table with Some c => kind_of_code c | None => None end.
Definition pg_encoder_for := encoder_for PG_ENCODERS.

Definition int_bits (k : tykind) : N := match k with TInt4 => 32 | _ => 64 end.
Definition int_width (k : tykind) : nat := match k with TInt4 => 4%nat | _ => 8%nat end.
Definition is_int_kind (k : tykind) : bool := match k with TInt4 | TInt8 => true | _ => false end.

(** ValidateDefaultValue *)
Definition validate_default (k : tykind) (d : bytes) : bool :=
  match k with
  | TInt4 | TInt8 => match parse_int (int_bits k) d with Some _ => true | None => false end
  | TText => utf8_valid d
  | TBytea => match b64_decode d with Some _ => true | None => false end
  end.

(** encodeDefault: [Ok None] = Go's nil value (fall through to the ciphertext) *)
Definition pg_encode_default (k : tykind) (binary : bool) (d : bytes) : res (option bytes) :=
  match k with
  | TInt4 | TInt8 =>
      match parse_int (int_bits k) d with
      | None => Err E_GENERIC
      | Some z => Ok (Some (if binary then be_of_int (int_width k) z else d))
      end
  | TText => Ok (Some d)
  | TBytea =>
      match b64_decode d with
      | None => Ok None
      | Some v => Ok (Some (if binary then v else pg_hex v))
      end
  end.

(** EncodeOnFail *)
Definition pg_encode_on_fail (k : tykind) (s : setting) (binary : bool) : res (option bytes) :=
  match s_policy s with
  | PEmpty | PCiphertext => Ok None
  | PDefault => match s_default s with None => Ok None | Some d => pg_encode_default k binary d end
  | PError => Err E_ENCODING
  | PBad => Err E_GENERIC
  end.

(** per-column context values the processors read and write *)
Record cctx := mk_cctx { c_decrypted : bool; c_encoded : option bytes }.
Definition ctx0 : cctx := mk_cctx false None.

(** Encode of the four PostgreSQL type encoders *)
Definition pg_type_encode (k : tykind) (s : setting) (binary : bool) (c : cctx) (data : bytes) : res bytes :=
  let on_fail (k0 : bytes -> res bytes) :=
    if c_decrypted c then k0 data
    else match pg_encode_on_fail k s binary with
         | Err e => Err e
         | Panic => Panic
         | Ok (Some v) => Ok v
         | Ok None => k0 data
         end in
  match k with
  | TInt4 | TInt8 =>
      match parse_int (int_bits k) data with
      | Some z => Ok (if binary then be_of_int (int_width k) z else data)
      | None => on_fail (fun d => Ok d)
      end
  | TText => on_fail (fun d => Ok d)
  | TBytea => on_fail (fun d => Ok (if binary then d else pg_hex d))
  end.

(** the shared "binary data operation" branch of Decode *)
Definition decode_escaped_step (c : cctx) (data : bytes) : res (cctx * bytes) :=
  match decode_escaped data with
  | Ok d => Ok (mk_cctx (c_decrypted c) (Some data), d)
  | Err e => if e =? E_OCTAL then Ok (c, data) else Err e
  | Panic => Panic
  end.

(** Decode of the four PostgreSQL type encoders *)
Definition pg_type_decode (k : tykind) (s : setting) (binary : bool) (c : cctx) (data : bytes) : res (cctx * bytes) :=
  if binary then
    match k with
    | TInt4 =>
        if (length data =? 4)%nat || (length data =? 8)%nat then Ok (c, print_int (int_of_be data))
        else Ok (c, data)
    | TInt8 => if (length data =? 8)%nat then Ok (c, print_int (int_of_be data)) else Ok (c, data)
    | _ => Ok (c, data)
    end
  else if s_binop s then decode_escaped_step c data
  else Ok (c, data).

(** PgSQLDataDecoderProcessor.OnColumn (column info present) *)
Definition pg_decoder (s : setting) (binary : bool) (c : cctx) (data : bytes) : res (cctx * bytes) :=
  match pg_encoder_for (s_type_id s) with
  | Some k => pg_type_decode k s binary c data
  | None => if s_binop s then decode_escaped_step c data else Ok (c, data)
  end.

(** PgSQLDataEncoderProcessor.OnColumn (column info present) *)
Definition pg_encoder (s : setting) (binary : bool) (c : cctx) (data : bytes) : res bytes :=
  match data with
  | [] => Ok []
  | _ =>
      match pg_encoder_for (s_type_id s) with
      | Some k => pg_type_encode k s binary c data
      | None =>
          if c_decrypted c then pg_type_encode TBytea s binary c data
          else match c_encoded c with Some e => Ok e | None => Ok data end
      end
  end.

(** One non-NULL cell of a data row: decode subscriber, the reveal step (any function of the decoded
    bytes: [Some p] = decrypted to [p] and the context marked decrypted), encode subscriber.
    ColumnDecryptionObserver.OnColumnDecryption stops at the first error. *)
Definition pg_cell (s : setting) (binary : bool) (reveal : bytes -> option bytes) (stored : bytes) : res bytes :=
  do cd <- pg_decoder s binary ctx0 stored;
  let '(c, d) := cd in
  match reveal d with
  | Some p => pg_encoder s binary (mk_cctx true (c_encoded c)) p
  | None => pg_encoder s binary c d
  end.

(** the value the reveal step sees *)
Definition pg_cell_value (s : setting) (binary : bool) (stored : bytes) : res bytes :=
  do cd <- pg_decoder s binary ctx0 stored; Ok (snd cd).

(** handleRowDescription / handleParameterDescription: type id the client is told *)
Definition pg_described_oid (s : setting) (db_oid : N) : N :=
  if s_type_aware s then
    match lookup (s_type_id s) PG_ENCODERS with Some _ => s_type_id s | None => db_oid end
  else db_oid.

(** * BasicColumnEncryptionSetting.Init, the type / default / policy part.
    Settings of plain encryption columns (crypto_envelope set, reencrypting_to_acrablocks true,
    no token / masking / searchable options), so the mask check reduces to the line below. *)
Record init_in := mk_init {
  i_data_type : N;            (* index into DATA_TYPE_WORDS: 0 = "" *)
  i_type_id : N;              (* data_type_db_identifier *)
  i_policy : N;               (* index into POLICY_WORDS: 0 = "" *)
  i_default : option bytes
}.

Definition policy_of_code (c : N) : policy :=
  match c with 0 => PEmpty | 1 => PCiphertext | 2 => PDefault | 3 => PError | _ => PBad end.

Definition init_setting (encoders type_ids : list (N * N)) (i : init_in) : res setting :=
  let onfail_flag := negb (i_policy i =? 0) in
  let pol_code := if onfail_flag then i_policy i
                  else match i_default i with Some _ => 2 | None => 1 end in
  match lookup pol_code POLICY_WORDS with
  | Some 1 =>
      let dt_flag := negb (i_data_type i =? 0) in
      (* data_type given: no data_type_db_identifier beside it, the word must be known *)
      do dt <- (if dt_flag then
                  if negb (i_type_id i =? 0) then Err E_GENERIC
                  else match lookup (i_data_type i) DATA_TYPE_WORDS with
                       | Some 99 | None => Err E_GENERIC
                       | Some e => Ok e
                       end
                else Ok 0);
      do tid <- (if negb (i_type_id i =? 0) then
                   match lookup (i_type_id i) encoders with Some _ => Ok (i_type_id i) | None => Err E_GENERIC end
                 else if dt_flag then Ok (match lookup dt type_ids with Some t => t | None => 0 end)
                 else Ok 0);
      do _ <- (match i_default i with
               | None => Ok tt
               | Some d =>
                   if tid =? 0 then Err E_GENERIC
                   else if negb (pol_code =? 2) then Err E_GENERIC
                   else match lookup tid encoders with
                        | None => Panic                 (* nil encoder dereferenced *)
                        | Some c => match kind_of_code c with
                                    | None => Err E_GENERIC
                                    | Some k => if validate_default k d then Ok tt else Err E_GENERIC
                                    end
                        end
               end);
      (* validSettings: an on-fail / default option needs data_type or data_type_db_identifier *)
      let has_type := dt_flag || negb (i_type_id i =? 0) in
      if has_type || (negb onfail_flag && match i_default i with None => true | Some _ => false end)
      then Ok (mk_setting tid (policy_of_code pol_code) (i_default i) true true)
      else Err E_GENERIC
  | _ => Err E_GENERIC
  end.

Definition pg_init := init_setting PG_ENCODERS PG_TYPE_IDS.
Definition my_init := init_setting MY_ENCODERS MY_TYPE_IDS.
