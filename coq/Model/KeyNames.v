(** Storage names of per-client keys in acra's two key store formats, and [keystore.ValidateID].

    keystore v1 (keystore/filesystem/filenames.go, key_names.go, server_keystore.go): every per-client key
    is one file in the key directory; the file name is [fmt.Sprintf("%s<suffix>", id)], i.e. prefix ++ id ++
    suffix with NO cleaning or escaping ([GetPrivateKeyFilePath] = dir + "/" + name).  The purposes below
    are all per-client files the v1 key store reads or writes:
      StoragePriv  GetServerDecryptionPrivateKey(s) / GenerateDataEncryptionKeys   (GetServerDecryptionKeyFilename)
      StoragePub   GetClientIDEncryptionPublicKey                                  (getPublicKeyFilename of the former)
      StorageSym   GetClientIDSymmetricKey(s) / GenerateClientIDSymmetricKey       (getClientIDSymmetricKeyName)
      Hmac         GetHMACSecretKey / GenerateHmacKey                              (getHmacKeyFilename)
      ConnPriv/ConnPub, ServerPriv/ServerPub, TransPriv/TransPub: the legacy transport key pairs
                   (GenerateConnectorKeys / GenerateServerKeys / GenerateTranslatorKeys, GetPrivateKey, GetPeerPublicKey);
                   still exported methods of the key store, no longer called by any acra command.
    NOT modelled: the history directories ("<name>.old/<timestamp>") of rotated keys; they hang below the
    current name, so two distinct current names have distinct history directories.

    keystore v2 (keystore/v2/keystore/{storage_client,storage,hmac}.go + filesystem/keyStoreLoad.go): every
    per-client key ring is one backend object [filepath.Join("client", id, <purpose>) + ".keyring"].
    [filepath.Join] cleans the path; it is plain concatenation exactly when every '/'-separated component
    of the id is an ordinary name ([join_plain]: no empty, "." or ".." component); outside that domain [name_v2] is [None] (not modelled).

    The constants (prefixes, suffixes, id length bounds, accepted id bytes) come from Gen/KeyNames.v, which is
    regenerated from the compiled acra packages on every run. *)
From Acra Require Import Lib.Bytes Gen.KeyNames.

Inductive v1_purpose :=
  StoragePriv | StoragePub | StorageSym | Hmac
| ConnPriv | ConnPub | ServerPriv | ServerPub | TransPriv | TransPub.

Inductive v2_purpose := StorageRing | StorageSymRing | HmacRing.

Definition v1_pre (p : v1_purpose) : bytes :=
  match p with
  | StoragePriv => V1_StoragePriv_PRE | StoragePub => V1_StoragePub_PRE
  | StorageSym => V1_StorageSym_PRE | Hmac => V1_Hmac_PRE
  | ConnPriv => V1_ConnPriv_PRE | ConnPub => V1_ConnPub_PRE
  | ServerPriv => V1_ServerPriv_PRE | ServerPub => V1_ServerPub_PRE
  | TransPriv => V1_TransPriv_PRE | TransPub => V1_TransPub_PRE
  end.

Definition v1_suf (p : v1_purpose) : bytes :=
  match p with
  | StoragePriv => V1_StoragePriv_SUF | StoragePub => V1_StoragePub_SUF
  | StorageSym => V1_StorageSym_SUF | Hmac => V1_Hmac_SUF
  | ConnPriv => V1_ConnPriv_SUF | ConnPub => V1_ConnPub_SUF
  | ServerPriv => V1_ServerPriv_SUF | ServerPub => V1_ServerPub_SUF
  | TransPriv => V1_TransPriv_SUF | TransPub => V1_TransPub_SUF
  end.

(** the file name (relative to the key directory) of the current key of [purpose] for client [id] *)
Definition name_v1 (p : v1_purpose) (id : bytes) : bytes := v1_pre p ++ id ++ v1_suf p.

(** the purposes acra's commands use today (everything except the legacy transport key pairs) *)
Definition v1_current (p : v1_purpose) : bool :=
  match p with StoragePriv | StoragePub | StorageSym | Hmac => true | _ => false end.

(** the legacy AcraConnector key pair: its private key file is the bare client id *)
Definition v1_connector (p : v1_purpose) : bool :=
  match p with ConnPriv | ConnPub => true | _ => false end.

Definition v2_pre (p : v2_purpose) : bytes :=
  match p with
  | StorageRing => V2_StorageRing_PRE | StorageSymRing => V2_StorageSymRing_PRE | HmacRing => V2_HmacRing_PRE
  end.
Definition v2_suf (p : v2_purpose) : bytes :=
  match p with
  | StorageRing => V2_StorageRing_SUF | StorageSymRing => V2_StorageSymRing_SUF | HmacRing => V2_HmacRing_SUF
  end.

(** Go's path/filepath on Linux: separator '/', special components "." and ".." (standard library
    semantics, not an acra constant).  [join_plain id]: [filepath.Join(a, id, b)] = a/id/b verbatim. *)
Definition SLASH : byte := x2f.
Definition DOT : byte := x2e.
Fixpoint split_slash (cur : bytes) (s : bytes) : list bytes :=
  match s with
  | [] => [rev cur]
  | b :: s' => if byte_eqb SLASH b then rev cur :: split_slash [] s' else split_slash (b :: cur) s'
  end.
Definition plain_component (c : bytes) : bool :=
  negb (bytes_eqb c []) && negb (bytes_eqb c [DOT]) && negb (bytes_eqb c [DOT; DOT]).
(** every '/'-separated component of the id is an ordinary name: Clean has nothing to remove *)
Definition join_plain (id : bytes) : bool := forallb plain_component (split_slash [] id).

(** backend path of the key ring of [purpose] for client [id] *)
Definition name_v2 (p : v2_purpose) (id : bytes) : option bytes :=
  if join_plain id then Some (v2_pre p ++ id ++ v2_suf p) else None.

(** keystore.ValidateID: MinClientIDLength <= len <= MaxClientIDLength and every rune is a letter, digit
    or one of ValidChars.  All accepted runes are ASCII and every byte >= 0x80 decodes (alone or as part of a
    sequence) to a rune >= 0x80 or to RuneError, so the rune loop is equivalent to a byte loop over the
    accepted byte set [ID_VALID_BYTES] (read from the real function by the generator, and replayed by the
    ValidID cases incl. multi-byte UTF-8). *)
Definition valid_byte (b : byte) : bool := existsb (byte_eqb b) ID_VALID_BYTES.
Definition valid_id (id : bytes) : bool :=
  (ID_MIN_LEN <=? length id) && (length id <=? ID_MAX_LEN) && forallb valid_byte id.

(** key-encryption context of a stored v1 key ([keystore.GetKeyContextFromContext] of
    [NewClientIDKeyContext purpose id] / [NewKeyContext PurposeLegacy id]): the owner id alone — the purpose
    is not part of it. *)
Definition v1_key_context (p : v1_purpose) (id : bytes) : bytes := id.
