(** Replay of implementation observations on the envelope model, instantiated with the
    stand-in crypto ([Stub]).  Used by the correspondence check of C01/C03/C14/C15/C11. *)
From Acra Require Import Lib.Bytes Lib.Outcome Lib.Sha256 Crypto.Interface Crypto.Stub Gen.Consts Model.Envelope.

Definition h := unhex.
Definition mk_ks := Build_keyset.

Inductive expected := XOk (vals : list bytes) | XErr | XPanic.

Inductive op :=
| AsCreate (tape : list bytes) (data pub ctx : bytes)
| AsDecrypt (data : bytes) (privs : list bytes) (ctx : bytes)
| AbCreate (tape : list bytes) (data key ctx : bytes)
| AbExtract (data : bytes)
| AbDecrypt (block : bytes) (keys : list bytes) (ctx : bytes)
| ScSerialize (enc id : bytes)
| ScDeserialize (data : bytes)
| ScExtract (data : bytes)
| EncHandler (id : bytes) (ks : keyset) (tape : list bytes) (data : bytes)
| DecHandler (id : bytes) (ks : keyset) (data : bytes)
| Process (ks : keyset) (data : bytes)
| OnColumn (ks : keyset) (data : bytes)
| TrEncSearch (id : bytes) (ks : keyset) (tape : list bytes) (data : bytes)
| TrDecSearch (id : bytes) (ks : keyset) (data : bytes) (hash : option bytes).

Definition idb (id : bytes) : byte := nthb 0 id.
Definition n8 (n : nat) : bytes := le_enc 8 (N.of_nat n).
Definition flag (b : bool) : bytes := [if b then x01 else x00].

Definition canon1 (r : res bytes) : expected :=
  match r with Ok x => XOk [x] | Err _ => XErr | Panic => XPanic end.

Definition registry_cbs (ks : keyset) : list (bytes -> res bytes) :=
  [decrypt_handler (registry_process Stub ks)].

Definition run (o : op) : expected :=
  match o with
  | AsCreate tape data pub ctx => canon1 (as_create Stub tape data pub ctx)
  | AsDecrypt data privs ctx => canon1 (as_decrypt_rotated Stub data privs ctx)
  | AbCreate tape data key ctx => canon1 (ab_create Stub tape data key ctx)
  | AbExtract data =>
      match ab_extract data with Ok (n, b) => XOk [n8 n; b] | Err _ => XErr | Panic => XPanic end
  | AbDecrypt b keys ctx => canon1 (ab_decrypt Stub b keys ctx)
  | ScSerialize enc id => canon1 (sc_serialize enc (idb id))
  | ScDeserialize data =>
      match sc_deserialize data with Ok (i, id) => XOk [i; [id]] | Err _ => XErr | Panic => XPanic end
  | ScExtract data =>
      match sc_extract data with Ok (n, c) => XOk [n8 n; c] | Err _ => XErr | Panic => XPanic end
  | EncHandler id ks tape data => canon1 (encrypt_with_handler Stub (idb id) ks tape data)
  | DecHandler id ks data => canon1 (decrypt_with_handler Stub (idb id) ks data)
  | Process ks data => canon1 (registry_process Stub ks data)
  | OnColumn ks data =>
      match on_column (registry_cbs ks) data with
      | Ok (out, ch) => XOk [out; flag ch] | Err _ => XErr | Panic => XPanic end
  | TrEncSearch id ks tape data =>
      match tr_encrypt_searchable Stub (idb id) ks tape data with
      | Ok (e, hsh) => XOk [e; hsh] | Err _ => XErr | Panic => XPanic end
  | TrDecSearch id ks data hash => canon1 (tr_decrypt_searchable Stub (idb id) ks data hash)
  end.

Fixpoint list_bytes_eqb (a b : list bytes) : bool :=
  match a, b with
  | [], [] => true
  | x :: a', y :: b' => bytes_eqb x y && list_bytes_eqb a' b'
  | _, _ => false
  end.

Definition expected_eqb (a b : expected) : bool :=
  match a, b with
  | XOk x, XOk y => list_bytes_eqb x y
  | XErr, XErr => true
  | XPanic, XPanic => true
  | _, _ => false
  end.

(** indices (from 0) of the cases on which model and implementation differ, with the model's answer *)
Fixpoint mismatches_from (i : nat) (cs : list (op * expected)) : list (nat * expected) :=
  match cs with
  | [] => []
  | (o, e) :: rest =>
      let m := run o in
      if expected_eqb m e then mismatches_from (S i) rest else (i, m) :: mismatches_from (S i) rest
  end.
Definition mismatches := mismatches_from 0.
