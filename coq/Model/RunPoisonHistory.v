(** Replay of detector HISTORIES (harness domain c15hist) on Model/PoisonHistory.v, instantiated with [Stub].
    One operation = one whole history given to ONE long-lived object (the chain / the detector / the translator service
    of a scenario); the keystore's successive poison-key states and the clients' key sets are tables of the operation
    and every value names the state in force when it was given.  The expected outcome is the concatenation, value by
    value, of [callback runs for THIS value (8 bytes LE); 00; returned values...] | [runs; 04; flag?] (the returned bytes
    are the given bytes) | [runs; 01] (error) | [02] (panic). *)
From Acra Require Import Lib.Bytes Lib.Outcome Lib.Sha256 Crypto.Interface Crypto.Stub Gen.Consts Gen.MaskConsts
  Model.Envelope Model.RunEnvelope Model.Poison Model.PoisonHistory.
Export RunEnvelope(expected, XOk, XErr, XPanic, mk_ks).

Definition mk_pk := Build_poison_keys.
(** a value with the indices of the keystore state / the client in force *)
Inductive hraw :=
| HEnv (p : N) (c : bytes)
| HCol (p k : N) (col : bytes)
| HTr (id : bytes) (k p : N) (data : bytes).

Inductive op :=
| PoisonHistory (has_cb cb_err : bool) (pks : list poison_keys) (kss : list keyset) (h : list hraw).

Definition no_pk : poison_keys := mk_pk [] [].
Definition no_ks : keyset := mk_ks None [] [] None.

Definition resolve (pks : list poison_keys) (kss : list keyset) (v : hraw) : hval :=
  match v with
  | HEnv p c => HVEnvelope (nth (N.to_nat p) pks no_pk) c
  | HCol p k col => HVColumn (nth (N.to_nat p) pks no_pk) (nth (N.to_nat k) kss no_ks) col
  | HTr id k p data => HVTranslate (idb id) (nth (N.to_nat k) kss no_ks) (nth (N.to_nat p) pks no_pk) data
  end.

Definition given (v : hval) : bytes :=
  match v with HVEnvelope _ c => c | HVColumn _ _ col => col | HVTranslate _ _ _ data => data end.

Definition canon_res {A} (given : bytes) (same : bool) (out : A -> bytes) (rest : A -> list bytes)
  (ev : list event) (r : res A) : list bytes :=
  match r with
  | Ok a => if same && bytes_eqb (out a) given then n8 (count_callback_events ev) :: [x04] :: rest a
            else n8 (count_callback_events ev) :: [x00] :: out a :: rest a
  | Err _ => [n8 (count_callback_events ev); [x01]]
  | Panic => [[x02]]
  end.

Definition canon_out (v : hval) (o : hout) : list bytes :=
  match snd o with
  | HREnvelope r => canon_res (given v) true (fun x => x) (fun _ => []) (fst o) r
  | HRColumn r => canon_res (given v) true fst (fun p => [flag (snd p)]) (fst o) r
  | HRTranslate r => canon_res (given v) false (fun x => x) (fun _ => []) (fst o) r
  end.

Fixpoint canon_history (h : list hval) (outs : list hout) : list bytes :=
  match h, outs with
  | v :: h', o :: outs' => canon_out v o ++ canon_history h' outs'
  | _, _ => []
  end.

Definition run (o : op) : expected :=
  match o with
  | PoisonHistory has_cb cb_err pks kss h =>
      let hv := map (resolve pks kss) h in
      XOk (canon_history hv (run_history Stub {| ds_has_cb := has_cb; ds_cb_err := cb_err |} hv))
  end.

Fixpoint mismatches_from (i : nat) (cs : list (op * expected)) : list (nat * expected) :=
  match cs with
  | [] => []
  | (o, e) :: rest =>
      let m := run o in
      if expected_eqb m e then mismatches_from (S i) rest else (i, m) :: mismatches_from (S i) rest
  end.
Definition mismatches := mismatches_from 0.
