(** RowDescription / ParameterDescription of the PostgreSQL proxy, the database-side dispatch around them and
    the client-side start-up switch: byte-exact model of

      - pgproto3 (pgx v5) RowDescription.Decode / Encode and ParameterDescription.Decode / Encode, the codecs acra
        calls from PacketHandler.GetRowDescriptionData / GetParameterDescriptionData (packet_handler.go);
      - PgProxy.handleRowDescription / handleParameterDescription (pg_decryptor.go): the rewrite of the type OID
        (and of nothing else) for columns / placeholders whose setting has a data type, AFTER the fix
        "declare the length of the re-encoded description" (the code as found is [..._old]);
      - mapEncryptedTypeToOID (type_conversion.go) and config.HasTypeAwareSupport (encryptionSettings.go);
      - PgProxy.handleDatabasePacket's dispatch as far as the BYTES of the packet are concerned;
      - PacketHandler.ReadClientPacket (start-up message first, general messages afterwards) and the one-byte answer
        of the database to an SSLRequest (ProxyDatabaseConnection, stateFirstPacket).

    CHECKED style (Lib/GoSlice.v): every Go slice / index expression of the decoders is a [gslice*] / [gindex]
    that yields [Panic] when out of range.  pgproto3 walks the message with an absolute position [rp] into [src];
    the model carries the tail [src[rp:]] instead: [src[rp:rp+idx]] is [tail[:idx]], [rp += k] followed by
    [src[rp:]] is [tail[k:]], and each of these is checked at the same place.  No proofs here. *)
From Acra Require Import Lib.Bytes Lib.Outcome Lib.GoSlice Gen.WireConsts Gen.WireDescConsts Model.PgWire.
Local Open Scope N_scope.

Definition E_DESC : N := 36.        (* pgproto3 invalidMessageFormatErr *)
Definition E_DESC_ENCODE : N := 37. (* pgproto3 "too many fields" / "message body too large" *)

(** ---------- RowDescription ---------- *)
(** pgproto3.FieldDescription.  DataTypeSize / TypeModifier / Format are int16 / int32 / int16 in Go: Decode converts
    the unsigned wire value to the signed type and Encode converts it back, which is the identity on the bits, so the
    model keeps the unsigned wire values. *)
Record fielddesc := mk_fd { fd_name : bytes; fd_table : N; fd_attr : N; fd_type : N; fd_size : N; fd_mod : N; fd_format : N }.

(** the six fixed-width values after the name: [binary.BigEndian.UintNN(src[rp:])] then [rp += N/8] *)
Definition rd_fixed (name t1 : bytes) : res (fielddesc * bytes) :=
  do table <- be_u32 t1; do t2 <- gslice_from 4 t1;
  do attr <- be_u16 t2;  do t3 <- gslice_from 2 t2;
  do type <- be_u32 t3;  do t4 <- gslice_from 4 t3;
  do size <- be_u16 t4;  do t5 <- gslice_from 2 t4;
  do tmod <- be_u32 t5;  do t6 <- gslice_from 4 t5;
  do fmt <- be_u16 t6;   do t7 <- gslice_from 2 t6;
  Ok (mk_fd name table attr type size tmod fmt, t7).

(** one iteration of the loop of RowDescription.Decode on the tail [t = src[rp:]]:
    [idx := bytes.IndexByte(src[rp:], 0)], an error when [idx < 0], [name = src[rp:rp+idx]], [rp += idx + 1] - the
    computation of [Model.PgWire.read_cstring] (index of the first 0 byte or -1, [t[:idx]], [t[idx+1:]]) with
    pgproto3's error - then [len(src[rp:]) < 18], then the fixed part *)
Definition rd_field (t : bytes) : res (fielddesc * bytes) :=
  match read_cstring t with
  | Err _ => Err E_DESC
  | Panic => Panic
  | Ok (name, t1) => if (len t1 <? 18)%Z then Err E_DESC else rd_fixed name t1
  end.

Fixpoint rd_fields (k : nat) (t : bytes) : res (list fielddesc * bytes) :=
  match k with
  | O => Ok ([], t)
  | S k' => do (f, t1) <- rd_field t; do (fs, t2) <- rd_fields k' t1; Ok (f :: fs, t2)
  end.

(** RowDescription.Decode: the fields and the bytes after the last field (which Decode ignores) *)
Definition rd_decode_rest (src : bytes) : res (list fielddesc * bytes) :=
  if (len src <? 2)%Z then Err E_DESC else
  do c <- be_u16 src;                             (* int(binary.BigEndian.Uint16(src)): 0..65535, never negative *)
  do t <- gslice_from 2 src;
  rd_fields (N.to_nat c) t.
Definition rd_decode (src : bytes) : res (list fielddesc) := do (fs, _) <- rd_decode_rest src; Ok fs.

Definition fd_fixed (f : fielddesc) : bytes :=
  be_enc 4 (fd_table f) ++ be_enc 2 (fd_attr f) ++ be_enc 4 (fd_type f) ++ be_enc 2 (fd_size f)
  ++ be_enc 4 (fd_mod f) ++ be_enc 2 (fd_format f).
Definition fd_bytes (f : fielddesc) : bytes := fd_name f ++ [x00] ++ fd_fixed f.
Definition rd_payload (fs : list fielddesc) : bytes := be_enc 2 (N.of_nat (length fs)) ++ concat (map fd_bytes fs).

(** Encode(dst)[5:]: "too many fields" above 65535, finishMessage's "message body too large" (length field + payload) *)
Definition desc_encode_guard (count : nat) (payload : bytes) : res bytes :=
  if 65535 <? N.of_nat count then Err E_DESC_ENCODE
  else if PGPROTO3_MAX_BODY <? 4 + N.of_nat (length payload) then Err E_DESC_ENCODE
  else Ok payload.
Definition rd_encode (fs : list fielddesc) : res bytes := desc_encode_guard (length fs) (rd_payload fs).

(** ---------- ParameterDescription ---------- *)
(** Decode: the declared count is skipped ([buf.Next(2)]), the count is the remaining size / 4, a tail of 1-3 bytes is
    ignored; [buf.Next(4)] cannot fail inside the loop *)
Fixpoint pd_oids (s : bytes) : list N :=
  match s with
  | a :: b :: c :: d :: r => be_dec [a; b; c; d] :: pd_oids r
  | _ => []
  end.
Definition pd_decode (src : bytes) : res (list N) :=
  if (len src <? 2)%Z then Err E_DESC else
  do t <- gslice_from 2 src; Ok (pd_oids t).

Definition pd_payload (oids : list N) : bytes := be_enc 2 (N.of_nat (length oids)) ++ concat (map (be_enc 4) oids).
Definition pd_encode (oids : list N) : res bytes := desc_encode_guard (length oids) (pd_payload oids).

(** ---------- the settings ---------- *)
(** what handleRowDescription / handleParameterDescription read from a ColumnEncryptionSetting:
    OnlyEncryption(), IsSearchable(), GetMaskingPattern() != "", GetDBDataTypeID() *)
Record setting := mk_setting { s_only_enc : bool; s_searchable : bool; s_masking : bool; s_dtid : N }.

(** config.HasTypeAwareSupport *)
Definition has_type_aware (s : setting) : bool :=
  s_only_enc s || s_searchable s || (s_masking s && negb (s_dtid s =? 0)).

(** mapEncryptedTypeToOID: the id itself when an encoder is registered for it *)
Definition map_oid (id : N) : option N :=
  if existsb (N.eqb id) PG_DESC_TYPE_OIDS then Some id else None.

(** the new OID for one column, if the code rewrites it *)
Definition new_oid (s : option setting) : option N :=
  match s with
  | None => None                                  (* setting == nil *)
  | Some st => if has_type_aware st then map_oid (s_dtid st) else None
  end.

Definition set_type (f : fielddesc) (o : N) : fielddesc :=
  mk_fd (fd_name f) (fd_table f) (fd_attr f) o (fd_size f) (fd_mod f) (fd_format f).

(** the loop of handleRowDescription (items and fields have the same length there) *)
Fixpoint rd_rewrite (items : list (option setting)) (fs : list fielddesc) : list fielddesc * bool :=
  match items, fs with
  | it :: items', f :: fs' =>
      let (r, ch) := rd_rewrite items' fs' in
      match new_oid it with Some o => (set_type f o :: r, true) | None => (f :: r, ch) end
  | _, _ => (fs, false)
  end.

(** the loop of handleParameterDescription: [items[i]] is a map lookup, absent = nil *)
Fixpoint pd_rewrite (items : list (option setting)) (oids : list N) : list N * bool :=
  match oids with
  | [] => ([], false)
  | o :: oids' =>
      let (r, ch) := pd_rewrite (tl items) oids' in
      match new_oid (hd None items) with Some n => (n :: r, true) | None => (o :: r, ch) end
  end.

(** how the re-encoded payload goes back into the packet: the fixed code declares its length, the code as found
    kept the length field of the message read *)
Definition put_desc (fixed : bool) (p : packet) (pl : bytes) : packet :=
  mk_packet (p_type p) (if fixed then packet_length_buf (N.of_nat (length pl)) else p_lenbuf p) pl.

Definition reencode (fixed : bool) (p : packet) (changed : bool) (enc : res bytes) : res packet :=
  if changed then
    match enc with
    | Ok pl => Ok (put_desc fixed p pl)
    | Err _ => Ok p                                (* "Can't encode ..." is logged, the packet goes out as read *)
    | Panic => Panic
    end
  else Ok p.

(** handleRowDescription; [items = None]: no query items in the session *)
Definition handle_row_description_with (fixed : bool) (items : option (list (option setting))) (p : packet) : res packet :=
  match items with
  | None => Ok p
  | Some its =>
      match rd_decode (p_desc p) with
      | Err _ => Ok p                              (* "Can't parse RowDescription packet" *)
      | Panic => Panic
      | Ok fs =>
          if (length its =? length fs)%nat
          then let (fs', changed) := rd_rewrite its fs in reencode fixed p changed (rd_encode fs')
          else Ok p
      end
  end.

(** handleParameterDescription; [items = None]: the session value has the wrong type *)
Definition handle_parameter_description_with (fixed : bool) (items : option (list (option setting))) (p : packet) : res packet :=
  match items with
  | None => Ok p
  | Some its =>
      match pd_decode (p_desc p) with
      | Err _ => Ok p
      | Panic => Panic
      | Ok oids => let (oids', changed) := pd_rewrite its oids in reencode fixed p changed (pd_encode oids')
      end
  end.

Definition handle_row_description := handle_row_description_with true.
Definition handle_parameter_description := handle_parameter_description_with true.
Definition handle_row_description_old := handle_row_description_with false.
Definition handle_parameter_description_old := handle_parameter_description_with false.

(** ---------- handleDatabasePacket, as far as the bytes of the packet go ----------
    DataRow packets take the column path ([Model.PgWire.process_datarow], its own theorems); RowDescription and
    ParameterDescription the two handlers above; every other type (ParseComplete, BindComplete, CommandComplete,
    EmptyQueryResponse, PortalSuspended, ErrorResponse, NoticeResponse, ReadyForQuery, CopyData, authentication
    messages, ParameterStatus, unknown tags ...) only updates the protocol state. *)
Definition db_rewritten_type (t : byte) : bool :=
  byte_eqb t PG_DATAROW_TYPE || byte_eqb t PG_ROWDESC_TYPE || byte_eqb t PG_PARAMDESC_TYPE.

Definition handle_database_packet (ritems pitems : option (list (option setting)))
                                  (row : packet -> res packet) (p : packet) : res packet :=
  if byte_eqb (p_type p) PG_DATAROW_TYPE then row p
  else if byte_eqb (p_type p) PG_ROWDESC_TYPE then handle_row_description ritems p
  else if byte_eqb (p_type p) PG_PARAMDESC_TYPE then handle_parameter_description pitems p
  else Ok p.

(** ReadPacket, handleDatabasePacket, sendPacket: the bytes sent and the unread rest *)
Definition db_step (ritems pitems : option (list (option setting))) (row : packet -> res packet) (s : bytes)
  : res (bytes * bytes) :=
  do (p, rest) <- read_msg s;
  do p' <- handle_database_packet ritems pitems row p;
  Ok (marshal p', rest).

(** ---------- client side: start-up message first, general messages afterwards ---------- *)
(** ReadClientPacket: [started] selects readGeneralPacket / readStartupPacket; a start-up packet that was read
    sets [started] *)
Definition read_client (started : bool) (s : bytes) : res (packet * bytes * bool) :=
  if started then do (p, rest) <- read_msg s; Ok (p, rest, true)
  else do (p, rest) <- read_startup s; Ok (p, rest, true).

(** the read/send loop of one client handler until the first read error: bytes sent and messages relayed *)
Fixpoint client_relay (fuel : nat) (started : bool) (s : bytes) : bytes * N :=
  match fuel with
  | O => ([], 0)
  | S f => match read_client started s with
           | Ok (p, rest, st) => let (o, n) := client_relay f st rest in (marshal p ++ o, n + 1)
           | _ => ([], 0)
           end
  end.

(** stateFirstPacket of ProxyDatabaseConnection: one type byte; 'N' (SSL denied) and 'S' (SSL allowed) are sent on
    alone (the TLS hand-over after 'S' is outside the model); anything else is an ordinary message *)
Definition db_first (s : bytes) : res (bytes * bytes) :=
  do (t, s1) <- read_n 1 s;
  if byte_eqb (hd_byte t) PG_SSL_DENY || byte_eqb (hd_byte t) PG_SSL_ALLOW then Ok (t, s1)
  else do (p, rest) <- read_msg s; Ok (marshal p, rest).
