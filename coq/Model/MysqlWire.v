(** MySQL length-encoded integers and strings: byte-exact model of
    decryptor/mysql/base/utils.go (LengthEncodedInt, LengthEncodedString,
    SkipLengthEncodedString, PutLengthEncodedInt, PutLengthEncodedString) AFTER the
    fix "validate the declared length against the remaining data (uint64 comparison)".
    [lenenc_string_old] keeps the code as found, to state what the fix removed.
    The tag bytes 0xfb..0xfe and the 250/0xffff/0xffffff bounds are literals inside the
    Go function bodies (no named constants to regenerate); the correspondence replay
    covers them.  No proofs here. *)
From Acra Require Import Lib.Bytes Lib.Outcome.
Local Open Scope N_scope.

Definition E_MALFORMED : N := 20.  (* base.ErrMalformPacket *)
Definition E_EOF : N := 21.        (* io.EOF *)

(** Go index expression data[i]: run-time panic when out of range *)
Definition idx (data : bytes) (i : nat) : res N :=
  match nth_error data i with Some b => Ok (b2n b) | None => Panic end.

(** Go slice expression s[lo:hi] with int bounds (Z because the old code computes negative ones) *)
Definition slice_z (s : bytes) (lo hi : Z) : res bytes :=
  if ((0 <=? lo) && (lo <=? hi) && (hi <=? Z.of_nat (length s)))%Z
  then Ok (sub (Z.to_nat lo) (Z.to_nat (hi - lo)) s) else Panic.

(** little-endian value of data[1..w] *)
Fixpoint le_at (data : bytes) (i w : nat) : res N :=
  match w with
  | O => Ok 0
  | S w' => do b <- idx data i; do r <- le_at data (S i) w'; Ok (b + 256 * r)
  end.

(** LengthEncodedInt: (num, isNull, n) *)
Definition lenenc_int (data : bytes) : res (N * bool * nat) :=
  if (length data =? 0)%nat then Err E_MALFORMED else
  do t <- idx data 0;
  if t =? 0xfb then Ok (0, true, 1%nat)
  else if t =? 0xfc then
    if (length data <? 3)%nat then Err E_MALFORMED else do v <- le_at data 1 2; Ok (v, false, 3%nat)
  else if t =? 0xfd then
    if (length data <? 4)%nat then Err E_MALFORMED else do v <- le_at data 1 3; Ok (v, false, 4%nat)
  else if t =? 0xfe then
    if (length data <? 9)%nat then Err E_MALFORMED else do v <- le_at data 1 8; Ok (v, false, 9%nat)
  else Ok (t, false, 1%nat).

(** LengthEncodedString (fixed): value ([None] = Go nil = SQL NULL) and bytes consumed *)
Definition lenenc_string (data : bytes) : res (option bytes * nat) :=
  do (num, isNull, n) <- lenenc_int data;
  if isNull then Ok (None, n)
  else if N.of_nat (length data - n) <? num then Err E_EOF
  else
    let n' := (Z.of_nat n + int_of_u64 num)%Z in
    do v <- slice_z data (n' - int_of_u64 num)%Z n';
    Ok (Some v, Z.to_nat n').

(** LengthEncodedString as found (before the fix): the error of LengthEncodedInt is dropped,
    [n += int(num)] wraps for num >= 2^63 and the slice bounds are not validated *)
Definition wrap64 (z : Z) : Z := ((z + 9223372036854775808) mod 18446744073709551616 - 9223372036854775808)%Z.
Definition lenenc_string_old (data : bytes) : res (option bytes * Z) :=
  let '(num, isNull, n) := match lenenc_int data with Ok x => x | _ => (0, false, 0%nat) end in
  if isNull then Ok (None, Z.of_nat n)
  else
    let n' := wrap64 (Z.of_nat n + int_of_u64 num)%Z in
    if (n' <=? Z.of_nat (length data))%Z
    then do v <- slice_z data (wrap64 (n' - int_of_u64 num)%Z) n'; Ok (Some v, n')
    else Err E_EOF.

(** SkipLengthEncodedString (fixed) *)
Definition skip_lenenc_string (data : bytes) : res nat :=
  do (num, _, n) <- lenenc_int data;
  if num <? 1 then Ok n
  else if N.of_nat (length data - n) <? num then Err E_EOF
  else Ok (n + N.to_nat num)%nat.

(** PutLengthEncodedInt on a uint64 *)
Definition put_lenenc_int (n : N) : bytes :=
  if n <=? 250 then [n2b n]
  else if n <=? 0xffff then xfc :: le_enc 2 n
  else if n <=? 0xffffff then xfd :: le_enc 3 n
  else xfe :: le_enc 8 n.

(** PutLengthEncodedString: [None] = nil *)
Definition put_lenenc_string (b : option bytes) : bytes :=
  match b with
  | None => [xfb]
  | Some d => put_lenenc_int (N.of_nat (length d)) ++ d
  end.

(** text-protocol row = sequence of length-encoded strings (processTextDataRow's split):
    decode [k] fields, return them with the unconsumed rest *)
Fixpoint text_row (k : nat) (data : bytes) : res (list (option bytes) * bytes) :=
  match k with
  | O => Ok ([], data)
  | S k' =>
      do (v, n) <- lenenc_string data;
      do (vs, rest) <- text_row k' (skipn n data);
      Ok (v :: vs, rest)
  end.
Definition put_text_row (vs : list (option bytes)) : bytes := concat (map put_lenenc_string vs).
