(** Replay of implementation observations on the searchable-encryption model (stand-in crypto). *)
From Acra Require Import Lib.Bytes Lib.Outcome Lib.Sha256 Crypto.Interface Crypto.Stub Gen.Consts
  Model.Envelope.
From Acra Require Import Model.EnvelopeOld.
From Acra Require Export Model.Search Model.SearchExt.

Definition mk_ks := Build_keyset.

Inductive expected := XOk (vals : list bytes) | XErr | XPanic.

(** the table of the harness: columns data1 (searchable), plain (unprotected), data2 (encrypted, not searchable) *)
Definition harness_schema : list bool := [true; false; false].

Inductive op :=
| SearchEnc (id : bytes) (ks : keyset) (tape : list bytes) (data : bytes)
| CalcHmac (ks : keyset) (data : bytes)
| Query (ks : keyset) (rows : list (list bytes)) (c : scond) (binds : list bytes)
| HashProc (ks : keyset) (data : bytes)
| TrDec (id : bytes) (ks : keyset) (data : bytes) (hash : option bytes)
(* condition trees (NOT / parentheses / casts / either operand order), PostgreSQL and MySQL OnQuery + OnBind *)
| QueryX (d : dialect) (ks : keyset) (rows : list (list bytes)) (c : wcond) (binds : list bytes)
(* a history of columns through ONE hmac.Processor subscribed as the proxies do:
   [processor; OldContainerDetectorWrapper(DecryptHandler(RegistryHandler)); processor.Verifier()] *)
| HmacCols (ks : keyset) (cols : list bytes).

Definition idb (id : bytes) : byte := nthb 0 id.

Definition canon1 (r : res bytes) : expected :=
  match r with Ok x => XOk [x] | Err _ => XErr | Panic => XPanic end.

Definition flag_bytes (l : list bool) : bytes := map (fun b : bool => if b then x01 else x00) l.

Fixpoint cols_expected (l : list (res (bytes * bool))) (acc : list bytes) : expected :=
  match l with
  | [] => XOk acc
  | Ok (out, f) :: rest => cols_expected rest (acc ++ [out; [if f then x01 else x00]])
  | Err _ :: _ => XErr
  | Panic :: _ => XPanic
  end.

Definition run (o : op) : expected :=
  match o with
  | SearchEnc id ks tape data => canon1 (searchable_encrypt Stub (idb id) ks tape data)
  | CalcHmac ks data => canon1 (calculate_hmac Stub ks data)
  | Query ks rows c binds =>
      match run_query Stub ks harness_schema rows c binds with
      | Ok fl => XOk [flag_bytes fl] | Err _ => XErr | Panic => XPanic end
  | HashProc ks data => canon1 (column_hash_processor Stub ks data)
  | TrDec id ks data hash => canon1 (tr_decrypt_searchable Stub (idb id) ks data hash)
  | QueryX d ks rows c binds =>
      match run_queryx Stub d ks harness_schema rows c binds with
      | Ok fl => XOk [flag_bytes fl] | Err _ => XErr | Panic => XPanic end
  | HmacCols ks cols => cols_expected (hp_columns envelope_match (proxy_inner Stub ks) ks None cols) []
  end.

Fixpoint list_bytes_eqb (a b : list bytes) : bool :=
  match a, b with
  | [], [] => true
  | x :: a', y :: b' => bytes_eqb x y && list_bytes_eqb a' b'
  | _, _ => false
  end.

Definition expected_eqb (a b : expected) : bool :=
  match a, b with
  | XOk x, XOk y => list_bytes_eqb x y
  | XErr, XErr => true
  | XPanic, XPanic => true
  | _, _ => false
  end.

Fixpoint mismatches_from (i : nat) (cs : list (op * expected)) : list (nat * expected) :=
  match cs with
  | [] => []
  | (o, e) :: rest =>
      let m := run o in
      if expected_eqb m e then mismatches_from (S i) rest else (i, m) :: mismatches_from (S i) rest
  end.
Definition mismatches := mismatches_from 0.
