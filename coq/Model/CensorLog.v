(** Property C16 — the firewall's log calls, driven by the call-site tables regenerated from the source.

    Gen/CensorLogSites.v (go/ast over acra-censor/acra-censor_implementation.go) lists every call of
    AcraCensor.HandleQuery with the branch of its control flow it stands in and, for every argument, WHICH of
    HandleQuery's values it is (raw statement / normalized text / redacted text / parsed statement), and for the
    firewall's log helpers (logAllowedQuery, logDeniedQuery) their guarded clauses with the log calls of each clause.
    This model runs HandleQuery's control flow (hand-written skeleton: parse-error branches, the handler loop with
    capture / ignore / allow-deny handlers, fall-through) and takes from the tables what is logged in each branch: a
    changed argument at any call site changes the model's log lines.  The skeleton itself is tied to the code by the
    replay of real firewall runs (Model/RunCensorLog.v, harness domain c16fw).

    Texts are kept symbolic at first ([tkind]: which of the four texts a log line carries) and made concrete by
    [text_of_kind]; a statement either parsed ([Some t]) or did not ([None]); AcraCensor's parser is ModeStrict, so an
    unparsed statement has empty normalized / redacted texts and a nil parsed statement (SqlRedact.handle_raw). *)
From Coq Require Import List NArith Bool String Ascii.
From Acra Require Import Lib.Bytes.
From Acra Require Export Gen.CensorLogSites Model.SqlRedact.
Import ListNotations.
Local Open Scope N_scope.

Inductive tkind := KEmpty | KRaw | KNormalized | KRedacted.

Definition tkind_eqb (a b : tkind) : bool :=
  match a, b with
  | KEmpty, KEmpty | KRaw, KRaw | KNormalized, KNormalized | KRedacted, KRedacted => true
  | _, _ => false
  end.

(** the value of an expression at a call site *)
Inductive pval :=
| PVtext (k : tkind)      (* one of the statement's texts *)
| PVstmt                  (* the parsed statement (nil when it did not parse) *)
| PVnone                  (* nothing derived from the statement *)
| PVbad.                  (* not understood: treated as the raw statement *)

(** [p] = the statement parsed.  The normalized and redacted texts of an unparsed statement are empty. *)
Definition nk (p : bool) (k : tkind) : tkind :=
  match k with
  | KEmpty => KEmpty
  | KRaw => KRaw
  | KNormalized => if p then KNormalized else KEmpty
  | KRedacted => if p then KRedacted else KEmpty
  end.

Definition eval_src (p : bool) (s : csrc) : pval :=
  match s with
  | CS_none => PVnone
  | CS_raw => PVtext KRaw
  | CS_normalized => PVtext (nk p KNormalized)
  | CS_redacted => PVtext (nk p KRedacted)
  | CS_parsed => PVstmt
  | CS_param _ => PVbad
  | CS_unknown => PVbad
  end.

(** inside a helper: parameters are looked up in the actual arguments of the call *)
Definition eval_in (env : list pval) (s : csrc) : pval :=
  match s with
  | CS_param i => nth i env PVbad
  | CS_none => PVnone
  | _ => PVbad
  end.

(** what a log call prints for an argument: a statement printed with %T shows its type only, otherwise the statement *)
Definition arg_kind (p : bool) (v : pval) (type_only : bool) : tkind :=
  match v with
  | PVtext k => k
  | PVstmt => if type_only then KEmpty else nk p KNormalized
  | PVnone => KEmpty
  | PVbad => KRaw
  end.

Definition krank (k : tkind) : N :=
  match k with KEmpty => 0 | KRedacted => 1 | KNormalized => 2 | KRaw => 3 end.
Definition kmax (a b : tkind) : tkind := if krank a <? krank b then b else a.

Record kev := mkKE { ke_line : N; ke_level : clevel; ke_msg : string; ke_kind : tkind }.

Definition site_event (p : bool) (look : csrc -> pval) (s : clogsite) : kev :=
  mkKE (ls_line s) (ls_level s) (ls_msg s)
       (fold_left (fun acc a => kmax acc (arg_kind p (look (la_src a)) (la_type_only a))) (ls_args s) KEmpty).

Definition atom_holds (p : bool) (env : list pval) (a : catom) : bool :=
  match a with
  | CA_nil i => match nth i env PVbad with PVstmt => negb p | _ => false end
  | CA_nonnil i => match nth i env PVbad with PVstmt => p | _ => false end
  | CA_empty i => match nth i env PVbad with PVtext k => tkind_eqb k KEmpty | _ => false end
  | CA_nonempty i => match nth i env PVbad with PVtext k => negb (tkind_eqb k KEmpty) | _ => false end
  | CA_unknown => false
  end.

(** a helper's body: the first clause whose guard holds and that returns ends the run *)
Fixpoint run_clauses (p : bool) (env : list pval) (cs : list cclause) : list kev :=
  match cs with
  | [] => []
  | c :: r =>
      if forallb (atom_holds p env) (cc_guard c)
      then map (site_event p (eval_in env)) (cc_sites c) ++ (if cc_returns c then [] else run_clauses p env r)
      else run_clauses p env r
  end.

Definition find_helper (name : string) : option chelper :=
  find (fun h => String.eqb (ch_name h) name) CENSOR_HELPERS.

Definition cbranch_eqb (a b : cbranch) : bool :=
  match a, b with
  | CB_entry, CB_entry | CB_unparsed, CB_unparsed | CB_unparsed_ignored, CB_unparsed_ignored
  | CB_unparsed_denied, CB_unparsed_denied | CB_capture, CB_capture | CB_ignore_check, CB_ignore_check
  | CB_ignore_match, CB_ignore_match | CB_check, CB_check | CB_deny, CB_deny | CB_allow_stop, CB_allow_stop
  | CB_end, CB_end | CB_unknown, CB_unknown => true
  | _, _ => false
  end.

Definition calls_at (b : cbranch) : list ccall :=
  filter (fun c => cbranch_eqb (call_branch c) b) CENSOR_HANDLE_QUERY.

(** the log lines one call of HandleQuery produces *)
Definition call_events (p : bool) (c : ccall) : list kev :=
  match call_callee c with
  | CK_log s => [site_event p (eval_src p) s]
  | CK_helper name =>
      match find_helper name with
      | Some h => run_clauses p (map (eval_src p) (call_args c)) (ch_clauses h)
      | None => []
      end
  | _ => []
  end.

(** the log lines of one branch of HandleQuery, in source order *)
Definition br (p : bool) (b : cbranch) : list kev := flat_map (call_events p) (calls_at b).

Definition kind_of_pval (v : pval) : tkind :=
  match v with PVtext k => k | PVstmt => KNormalized | PVnone => KEmpty | PVbad => KRaw end.

(** the text handed to the capture handler / to the parse_errors_log writer *)
Definition captured_at (p : bool) : list tkind :=
  flat_map (fun c => match call_callee c, call_args c with
                     | CK_check_capture, s :: _ => [kind_of_pval (eval_src p s)]
                     | _, _ => []
                     end) (calls_at CB_capture).

Definition unparsed_saved (p : bool) : list tkind :=
  flat_map (fun c => match call_callee c, call_args c with
                     | CK_helper name, s :: _ =>
                         if String.eqb name "saveUnparsedQuery" then [kind_of_pval (eval_src p s)] else []
                     | _, _ => []
                     end) (calls_at CB_unparsed).

Record kout := mkKO { ko_logs : list kev; ko_denied : bool; ko_captured : list tkind }.

(** the handler loop (handler, verdict: Model/SqlRedact.v) *)
Fixpoint run_handlers_k (p : bool) (hs : list handler) (logs : list kev) (cap : list tkind) : kout :=
  match hs with
  | [] => mkKO (logs ++ br p CB_end) false cap
  | HCapture :: r => run_handlers_k p r (logs ++ br p CB_capture) (cap ++ captured_at p)
  | HIgnore m :: r =>
      let logs1 := logs ++ br p CB_ignore_check in
      if m then mkKO (logs1 ++ br p CB_ignore_match) false cap else run_handlers_k p r logs1 cap
  | HCheck v :: r =>
      let logs1 := logs ++ br p CB_check in
      match v with
      | VDeny => mkKO (logs1 ++ br p CB_deny) true cap
      | VAllowStop => mkKO (logs1 ++ br p CB_allow_stop) false cap
      | VContinue => run_handlers_k p r logs1 cap
      end
  end.

(** AcraCensor.HandleQuery *)
Definition censor_handle_k (cfg : censor_cfg) (p : bool) : kout :=
  match cfg_handlers cfg, cfg_unparsed_writer cfg with
  | [], false => mkKO [] false []
  | _, _ =>
      let l0 := br p CB_entry in
      if p then run_handlers_k p (cfg_handlers cfg) l0 []
      else
        let l1 := l0 ++ br p CB_unparsed in
        let cap0 := if cfg_unparsed_writer cfg then unparsed_saved p else [] in
        if cfg_ignore_parse_error cfg
        then run_handlers_k p (cfg_handlers cfg) (l1 ++ br p CB_unparsed_ignored) cap0
        else mkKO (l1 ++ br p CB_unparsed_denied) true cap0
  end.

(** ---------- concrete texts ---------- *)
Definition text_of_kind (parsed : option tree) (k : tkind) : text :=
  match k, parsed with
  | KEmpty, _ => TEmpty
  | KRaw, _ => TRaw
  | KNormalized, Some t => TPrinted t
  | KRedacted, Some t => TPrinted (redact VALUE_MASK t)
  | _, None => TEmpty
  end.

Record slogev := mkSL { sl_level : clevel; sl_msg : string; sl_text : text }.

Definition is_some {A} (o : option A) : bool := match o with Some _ => true | None => false end.

(** the firewall's log lines for a statement under a configuration *)
Definition censor_logs (cfg : censor_cfg) (parsed : option tree) : list slogev :=
  map (fun e => mkSL (ke_level e) (ke_msg e) (text_of_kind parsed (ke_kind e)))
      (ko_logs (censor_handle_k cfg (is_some parsed))).

Definition censor_captured (cfg : censor_cfg) (parsed : option tree) : list text :=
  map (text_of_kind parsed) (ko_captured (censor_handle_k cfg (is_some parsed))).

(** ---------- what the reader of the source must have understood ---------- *)
Definition ALL_BRANCHES : list cbranch :=
  [CB_entry; CB_unparsed; CB_unparsed_ignored; CB_unparsed_denied; CB_capture; CB_ignore_check; CB_ignore_match;
   CB_check; CB_deny; CB_allow_stop; CB_end; CB_unknown].

Definition csrc_known (s : csrc) : bool := match s with CS_unknown => false | _ => true end.
Definition csrc_tainted (s : csrc) : bool := match s with CS_none => false | _ => true end.
Definition catom_known (a : catom) : bool := match a with CA_unknown => false | _ => true end.

Fixpoint ends_with (suffix s : string) : bool :=
  if String.eqb suffix s then true
  else match s with EmptyString => false | String _ r => ends_with suffix r end.

Definition site_known (s : clogsite) : bool := forallb (fun a => csrc_known (la_src a)) (ls_args s).

Definition helper_known (h : chelper) : bool :=
  forallb (fun c => forallb catom_known (cc_guard c) && forallb site_known (cc_sites c)) (ch_clauses h).

Definition call_known (c : ccall) : bool :=
  negb (cbranch_eqb (call_branch c) CB_unknown) && forallb csrc_known (call_args c) &&
  match call_callee c with
  | CK_log s => site_known s
  | CK_helper name =>
      match find_helper name with
      | Some h => Nat.eqb (ch_arity h) (length (call_args c)) && helper_known h
      | None => false
      end
  | CK_other name =>
      (* the only other call that may receive something derived from the statement: the parser *)
      negb (existsb csrc_tainted (call_args c)) || ends_with ".HandleRawSQLQuery" name
  | _ => true
  end.

(** which branch each kind of call stands in: the skeleton above runs a handler's CheckQuery in these branches *)
Definition call_placed (c : ccall) : bool :=
  match call_callee c with
  | CK_check_capture => cbranch_eqb (call_branch c) CB_capture
  | CK_check_ignore => cbranch_eqb (call_branch c) CB_ignore_check
  | CK_check_handler => cbranch_eqb (call_branch c) CB_check
  | _ => true
  end.

Definition tables_understood : bool :=
  CENSOR_SITES_UNDERSTOOD && forallb call_known CENSOR_HANDLE_QUERY && forallb call_placed CENSOR_HANDLE_QUERY.

(** ---------- the static reading: what each log call receives, whatever the guards ---------- *)
Definition src_safe (s : csrc) (type_only : bool) : bool :=
  match s with
  | CS_none | CS_redacted => true
  | CS_parsed => type_only
  | _ => false
  end.

(** every log call reachable from a call of HandleQuery, with each argument resolved to HandleQuery's values *)
Definition resolved_args (c : ccall) : list (clogsite * csrc * bool) :=
  match call_callee c with
  | CK_log s => map (fun a => (s, la_src a, la_type_only a)) (ls_args s)
  | CK_helper name =>
      match find_helper name with
      | Some h =>
          flat_map (fun cl => flat_map (fun s =>
            map (fun a => (s, match la_src a with
                              | CS_param i => nth i (call_args c) CS_unknown
                              | CS_none => CS_none
                              | _ => CS_unknown
                              end, la_type_only a)) (ls_args s)) (cc_sites cl)) (ch_clauses h)
      | None => []
      end
  | _ => []
  end.

Definition all_resolved_args : list (clogsite * csrc * bool) := flat_map resolved_args CENSOR_HANDLE_QUERY.

(** ---------- the handlers' own log calls ---------- *)
Definition handler_site_quiet (x : string * clogsite) : bool :=
  match ls_args (snd x) with [] => true | _ => false end.
