(** Replay of implementation observations (harness domain c20) on the audit-log model. *)
From Acra Require Import Lib.Bytes Lib.Outcome Lib.Sha256 Gen.AuditLogConsts.
From Acra Require Export Model.AuditLog.

Inductive expected := XOk (vals : list bytes) | XErr | XPanic.

Inductive fmt := FText | FCef.
Definition is_cef (f : fmt) : bool := match f with FCef => true | FText => false end.

Inductive op :=
| WriteText (f : fmt) (key : bytes) (evs : list wev)      (* expected: the bytes written per entry *)
| VerifyFile (f : fmt) (key : bytes) (file : bytes)       (* expected: [[0]] or [[code]; line as 8 bytes LE] *)
| WriteJson (key : bytes) (evs : list jev)                (* expected: per entry the integrity string and [1] iff "chain":"new" *)
| VerifyJson (key : bytes) (lines : list jline).

Definition n8 (n : nat) : bytes := le_enc 8 (N.of_nat n).

Definition canon_verdict (v : verdict) : expected :=
  match v with
  | VAccept => XOk [[x00]]
  | VFail i c => XOk [[n2b c]; n8 i]
  end.

Definition json_obs (m : jmap) : list bytes :=
  [match jget AL_INTEGRITY_KEY m with Some v => match jstr v with Some s => s | None => [] end | None => [] end;
   [if jstr_is (jget AL_CHAIN_KEY m) AL_NEW_VALUE then x01 else x00]].

Definition run (o : op) : expected :=
  match o with
  | WriteText f key evs =>
      match write_text (is_cef f) (calc_new key) evs with
      | Ok chunks => XOk chunks | Err _ => XErr | Panic => XPanic end
  | VerifyFile f key file => canon_verdict (verify_file (is_cef f) key file)
  | WriteJson key evs => XOk (flat_map json_obs (write_json (calc_new key) evs))
  | VerifyJson key ls => canon_verdict (verify_json key ls)
  end.

Fixpoint list_bytes_eqb (a b : list bytes) : bool :=
  match a, b with
  | [], [] => true
  | x :: a', y :: b' => bytes_eqb x y && list_bytes_eqb a' b'
  | _, _ => false
  end.

Definition expected_eqb (a b : expected) : bool :=
  match a, b with
  | XOk x, XOk y => list_bytes_eqb x y
  | XErr, XErr => true
  | XPanic, XPanic => true
  | _, _ => false
  end.

Fixpoint mismatches_from (i : nat) (cs : list (op * expected)) : list (nat * expected) :=
  match cs with
  | [] => []
  | (o, e) :: rest =>
      let m := run o in
      if expected_eqb m e then mismatches_from (S i) rest else (i, m) :: mismatches_from (S i) rest
  end.
Definition mismatches := mismatches_from 0.
