(** Executable model of the PostgreSQL proxy's session state around [pendingQueryPackets]
    (simple query protocol), AFTER the fix [fix_pg_pending_queue].
    Anchors: decryptor/postgresql/pg_decryptor.go (ProxyClientConnection, handleClientPacket
    case SimpleQueryPacket, handleQueryPacket, sendClientError, ProxyDatabaseConnection incl.
    stateSkipResponse, handleQueryDataPacket), decryptor/postgresql/protocol.go
    (PgProtocolState.HandleDatabasePacket), decryptor/postgresql/pending_packets.go.

    A statement is an identifier [N]; the censor verdict for it is an input of the event (computed by
    Model/Censor.v in the composition theorem, by the real AcraCensor in the harness).
    [strict s] = the settings of statement [s] answer an undecodable value with an error
    (response_on_fail: error), which puts the database side of the proxy into stateSkipResponse.
    No proofs in this file. *)
From Coq Require Import List Bool NArith.
Import ListNotations.

Inductive event :=
| ClientQuery (s : N) (censored : bool)  (* 'Q' from the client; verdict of AcraCensor.HandleQuery *)
| DbDataRow (bad : bool)       (* 'D' from the database; bad = value not decodable as the configured type *)
| DbComplete                   (* CommandComplete | EmptyQueryResponse | PortalSuspended | ErrorResponse *)
| DbReady                      (* ReadyForQuery *)
| DbOther.                     (* RowDescription without settings, notices, parameter status, ... *)

Inductive out :=
| ToDb (s : N)                 (* the query packet is forwarded to the database *)
| ToClientError                (* ErrorResponse + ReadyForQuery written by sendClientError (censor) *)
| RowToClient (settings : option N) (bad : bool)  (* row processed with the settings of that statement, forwarded *)
| RowFailed (settings : option N)   (* EncodingError: error + ReadyForQuery to the client, skip the rest *)
| PassToClient                 (* packet forwarded unchanged *)
| Skipped.                     (* packet dropped in stateSkipResponse *)

Record state := St { pending : list N; skip : bool }.
Definition init : state := St [] false.

Section Step.
  Variable strict : N -> bool.

  Definition fails (settings : option N) (bad : bool) : bool :=
    bad && match settings with Some s => strict s | None => false end.

  (** the repaired code *)
  Definition step (st : state) (e : event) : state * list out :=
    match e with
    | ClientQuery s censored =>
        (* handleClientPacket: handleQueryPacket first; queue only when not censored *)
        if censored then (st, [ToClientError])
        else (St (pending st ++ [s]) (skip st), [ToDb s])
    | DbDataRow bad =>
        if skip st then (st, [Skipped]) else
        let settings := hd_error (pending st) in     (* GetPendingPacket: head of the queue *)
        if fails settings bad then (St (pending st) true, [RowFailed settings])
        else (st, [RowToClient settings bad])
    | DbComplete =>
        (* HandleDatabasePacket: RemoveNextPendingPacket; (fix) also while skipping *)
        (St (tl (pending st)) (skip st), [if skip st then Skipped else PassToClient])
    | DbReady => (St (pending st) false, [if skip st then Skipped else PassToClient])
    | DbOther => (st, [if skip st then Skipped else PassToClient])
    end.

  (** the pinned tree (before the fix): queued before the verdict; completion not seen while skipping *)
  Definition step_pinned (st : state) (e : event) : state * list out :=
    match e with
    | ClientQuery s censored =>
        let st' := St (pending st ++ [s]) (skip st) in
        if censored then (st', [ToClientError]) else (st', [ToDb s])
    | DbComplete =>
        if skip st then (st, [Skipped]) else (St (tl (pending st)) false, [PassToClient])
    | _ => step st e
    end.

  Fixpoint run_with (stp : state -> event -> state * list out) (st : state) (evs : list event) : state * list out :=
    match evs with
    | [] => (st, [])
    | e :: tl =>
        let '(st1, o1) := stp st e in
        let '(st2, o2) := run_with stp st1 tl in
        (st2, o1 ++ o2)
    end.

  Definition run_session := run_with step.

  (** ** Proxy + a database that answers the statements it received in order (simple protocol) *)

  Inductive sys_event :=
  | CQuery (s : N) (censored : bool)
  | BRow (bad : bool)     (* the database sends a row of the statement it is executing *)
  | BComplete             (* ... finishes it (CommandComplete or ErrorResponse) *)
  | BReady                (* ... sends the ReadyForQuery that follows *)
  | BOther.

  (** [bq]: statements received and not yet completed (head = the one being executed);
      [owed]: a ReadyForQuery is owed for the statement just completed;
      ghost history: [forwarded], [completed]. *)
  Record sys := Sys { proxy : state; bq : list N; owed : bool; forwarded : list N; completed : list N }.
  Definition sys_init : sys := Sys init [] false [] [].

  (** observation: a data row produced by statement [producer] was handled with [settings] *)
  Inductive obs := RowObs (producer : N) (settings : option N) | Other (o : out).

  Definition forwarded_of (os : list out) : list N :=
    flat_map (fun o => match o with ToDb s => [s] | _ => [] end) os.

  Definition sys_step (stp : state -> event -> state * list out) (y : sys) (e : sys_event) : sys * list obs :=
    match e with
    | CQuery s c =>
        let '(p, os) := stp (proxy y) (ClientQuery s c) in
        (Sys p (bq y ++ forwarded_of os) (owed y) (forwarded y ++ forwarded_of os) (completed y), map Other os)
    | BRow bad =>
        match bq y, owed y with
        | producer :: _, false =>
            let '(p, os) := stp (proxy y) (DbDataRow bad) in
            (Sys p (bq y) (owed y) (forwarded y) (completed y),
             map (fun o => match o with
                           | RowToClient st _ => RowObs producer st
                           | RowFailed st => RowObs producer st
                           | _ => Other o end) os)
        | _, _ => (y, [])      (* not enabled *)
        end
    | BComplete =>
        match bq y, owed y with
        | s :: rest, false =>
            let '(p, os) := stp (proxy y) DbComplete in
            (Sys p rest true (forwarded y) (completed y ++ [s]), map Other os)
        | _, _ => (y, [])
        end
    | BReady =>
        if owed y then
          let '(p, os) := stp (proxy y) DbReady in
          (Sys p (bq y) false (forwarded y) (completed y), map Other os)
        else (y, [])
    | BOther =>
        let '(p, os) := stp (proxy y) DbOther in
        (Sys p (bq y) (owed y) (forwarded y) (completed y), map Other os)
    end.

  Fixpoint sys_run (stp : state -> event -> state * list out) (y : sys) (evs : list sys_event) : sys * list obs :=
    match evs with
    | [] => (y, [])
    | e :: tl =>
        let '(y1, o1) := sys_step stp y e in
        let '(y2, o2) := sys_run stp y1 tl in
        (y2, o1 ++ o2)
    end.

  Definition aligned (o : obs) : bool :=
    match o with
    | RowObs producer (Some s) => N.eqb producer s
    | RowObs _ None => false
    | Other _ => true
    end.
End Step.
