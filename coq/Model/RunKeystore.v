(** Replay of implementation observations of the keystore properties C07 / C18 on the models,
    instantiated with the stand-in crypto ([Stub]) and HMAC-SHA-256. *)
From Acra Require Import Lib.Bytes Lib.Outcome Lib.Sha256 Crypto.Interface Crypto.Stub Gen.KsConsts.
From Acra Require Export Model.Path Model.KeyAtRest Model.Notary Model.Backup.

Inductive expected := XOk (vals : list bytes) | XErr | XPanic.

Definition mk_bkey := Build_bkey.

Inductive op :=
| PClean (p : bytes)
| PJoin (a b : bytes)
| PDir (p : bytes)
| POsPath (root path : bytes)
| PValidate (id : bytes)
| PV1Path (dir : bytes) (k : v1kind) (id : bytes)
| V1Hist (master cachekey dir : bytes) (tape : list bytes) (ops : list kop)
| V2KeyCtx (path : bytes) (priv : bool) (seq : N)
| V2EncKey (master path : bytes) (priv : bool) (seq : N) (nonce key : bytes)
| NSign (key path payload : bytes)
| NVerify (key path payload : bytes) (sigs : list (bytes * bytes))
| CtxFromName (name : bytes)
| V2ExportsPrivate (mode : N)
| B1Export (tape : list bytes) (gob : bytes)
| B1Import (master dir : bytes) (tape : list bytes) (access data : bytes) (keys : list bkey)
| B2Seal (enckey nonce ser : bytes)
| B2Open (signkey enckey payload enc : bytes) (sigs : list (bytes * bytes)).

Definition n8 (n : nat) : bytes := le_enc 8 (N.of_nat n).
Definition flag (b : bool) : bytes := [if b then x01 else x00].

Definition canon1 (r : res bytes) : expected :=
  match r with Ok x => XOk [x] | Err _ => XErr | Panic => XPanic end.

Definition ev_vals (e : event) : list bytes :=
  match e with
  | (SFile p, t) => [[x00]; p; encode Stub t]
  | (SCache n, t) => [[x01]; n; encode Stub t]
  end.

Definition outcome_vals (o : outcome) : list bytes :=
  (match o_res o with
   | Ok v => [[x00]; v]
   | Err _ => [[x01]; []]
   | Panic => [[x02]; []]
   end) ++ n8 (length (o_events o)) :: flat_map ev_vals (o_events o).

Definition algs1 (key : bytes) : list (bytes * bytes) := [(SHA256_OID, key)].

Definition run (o : op) : expected :=
  match o with
  | PClean p => XOk [clean p]
  | PJoin a b => XOk [join2 a b]
  | PDir p => XOk [dir p]
  | POsPath root path => canon1 (os_path root path)
  | PValidate id => XOk [flag (validate_id id)]
  | PV1Path d k id => XOk [v1_path d (v1_fname k id)]
  | V1Hist m ck d tape ops =>
      XOk (flat_map outcome_vals (run_hist Stub {| master := m; cache_key := ck; key_dir := d |} st0 tape ops))
  | V2KeyCtx path priv seq => XOk [v2_key_ctx path priv seq]
  | V2EncKey m path priv seq nonce key =>
      match v2_encrypt_key Stub m path priv seq nonce key with
      | Some t => XOk [encode Stub t] | None => XErr end
  | NSign key path payload =>
      XOk (map snd (sign_ring hmac_sha256 (algs1 key) path payload))
  | NVerify key path payload sigs =>
      match verify_ring hmac_sha256 (algs1 key) sigs path payload with
      | Ok _ => XOk [] | Err _ => XErr | Panic => XPanic end
  | V2ExportsPrivate mode => XOk [flag (v2_exports_private mode)]
  | CtxFromName name => XOk [flag (is_private_name name); ctx_from_name name]
  | B1Export tape gob =>
      match export_v1 (fun _ => gob) tape [] with
      | Ok (k, t) => XOk [k; encode Stub t] | Err _ => XErr | Panic => XPanic end
  | B1Import m d tape access data keys =>
      match import_v1 Stub (fun _ => Some keys) m d tape access data with
      | Ok es => XOk (flat_map ev_vals es) | Err _ => XErr | Panic => XPanic end
  | B2Seal enckey nonce ser =>
      match bundle_term enckey nonce ser with
      | Some t => XOk [encode Stub t] | None => XErr end
  | B2Open signkey enckey payload enc sigs =>
      canon1 (open_bundle hmac_sha256 Stub (algs1 signkey) sigs enckey payload enc)
  end.

Fixpoint list_bytes_eqb (a b : list bytes) : bool :=
  match a, b with
  | [], [] => true
  | x :: a', y :: b' => bytes_eqb x y && list_bytes_eqb a' b'
  | _, _ => false
  end.

Definition expected_eqb (a b : expected) : bool :=
  match a, b with
  | XOk x, XOk y => list_bytes_eqb x y
  | XErr, XErr => true
  | XPanic, XPanic => true
  | _, _ => false
  end.

Fixpoint mismatches_from (i : nat) (cs : list (op * expected)) : list (nat * expected) :=
  match cs with
  | [] => []
  | (o, e) :: rest =>
      let m := run o in
      if expected_eqb m e then mismatches_from (S i) rest else (i, m) :: mismatches_from (S i) rest
  end.
Definition mismatches := mismatches_from 0.
