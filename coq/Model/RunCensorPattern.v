(** Replay of implementation observations of the pattern matcher on the model (domain c05pat).
    [OpMatch p s]     the REAL common.CheckPatternsMatching([p], s) on the parsed pattern / statement whose
                      tree forms are p and s: XOk [result; wf p; wf s; supported s; instance_of; instance_of_loose]
                      or XPanic.  The first value is the observation; the shape flags are 1 for whatever the
                      parser produces (the shape the theorems assume); the last two are the documented relation
                      evaluated by the model, expected as the GENERATOR knows them (generalisation => instance,
                      near miss => not an instance).
    [OpMatchMany p ss] the same for one pattern and several statements (the statement the pattern was derived
                      from, its spelling variants and near misses): XOk [six flags per statement], shorter
                      case files.
    [OpMatchRaw p s]  the same on ASTs the harness has damaged (a pointer field set to nil): XOk [result] or
                      XPanic; ties the nil-dereference behaviour of the model to the code.
    [OpInst p s]      the documented relation alone: XOk [instance_of; instance_of_loose]. *)
From Coq Require Import List Bool NArith.
From Acra Require Import Lib.Bytes Lib.Outcome.
From Acra Require Export Model.CensorPattern.
Import ListNotations.

Inductive expected := XOk (vals : list bytes) | XErr | XPanic.

Inductive op :=
| OpMatch (p s : bytes)
| OpMatchMany (p : bytes) (ss : list bytes)
| OpMatchRaw (p s : bytes)
| OpInst (p s : bytes).

Definition flag (b : bool) : bytes := [if b then x01 else x00].

Definition flagb (b : bool) : byte := if b then x01 else x00.

(** the six flags of one (pattern, statement) pair; [None]: the matcher panicked *)
Definition match_flags (tp ts : tree) : option bytes :=
  match match_impl tp ts with
  | Ok b => Some [flagb b; flagb (wf tp); flagb (wf ts); flagb (supported ts);
                  flagb (instance_of tp ts); flagb (instance_of_loose tp ts)]
  | _ => None
  end.

Fixpoint match_many (tp : tree) (ss : list bytes) : option (list bytes) :=
  match ss with
  | [] => Some []
  | s :: tl =>
      match decode s with
      | None => None
      | Some ts =>
          match match_flags tp ts, match_many tp tl with
          | Some f, Some fs => Some (f :: fs)
          | _, _ => None
          end
      end
  end.

Definition run (o : op) : expected :=
  match o with
  | OpMatchMany p ss =>
      match decode p with
      | Some tp => match match_many tp ss with Some fs => XOk fs | None => XPanic end
      | None => XErr
      end
  | OpMatch p s =>
      match decode p, decode s with
      | Some tp, Some ts =>
          match match_impl tp ts with
          | Ok b => XOk [flag b; flag (wf tp); flag (wf ts); flag (supported ts);
                         flag (instance_of tp ts); flag (instance_of_loose tp ts)]
          | Panic => XPanic
          | Err _ => XErr
          end
      | _, _ => XErr
      end
  | OpMatchRaw p s =>
      match decode p, decode s with
      | Some tp, Some ts =>
          match match_impl tp ts with
          | Ok b => XOk [flag b]
          | Panic => XPanic
          | Err _ => XErr
          end
      | _, _ => XErr
      end
  | OpInst p s =>
      match decode p, decode s with
      | Some tp, Some ts => XOk [flag (instance_of tp ts); flag (instance_of_loose tp ts)]
      | _, _ => XErr
      end
  end.

Fixpoint list_bytes_eqb (a b : list bytes) : bool :=
  match a, b with
  | [], [] => true
  | x :: a', y :: b' => bytes_eqb x y && list_bytes_eqb a' b'
  | _, _ => false
  end.

Definition expected_eqb (a b : expected) : bool :=
  match a, b with
  | XOk x, XOk y => list_bytes_eqb x y
  | XErr, XErr => true
  | XPanic, XPanic => true
  | _, _ => false
  end.

Fixpoint mismatches_from (i : nat) (cs : list (op * expected)) : list (nat * expected) :=
  match cs with
  | [] => []
  | (o, e) :: rest =>
      let m := run o in
      if expected_eqb m e then mismatches_from (S i) rest else (i, m) :: mismatches_from (S i) rest
  end.
