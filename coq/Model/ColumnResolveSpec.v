(** A short SPECIFICATION of SQL name resolution for the statements the proxy protects, written over the same
    generic trees but independently of how encryptor/mysql walks them (Model/ColumnResolve.v):

    - a FROM / table-expression list defines a SCOPE: one entry per table expression, left to right, with the
      name it is visible under (its alias, else its table name) and what it is (a base table, a derived table);
    - a qualified reference q.c is column c of the entry visible as q; an unqualified reference c is column c
      of the only entry that has a column c (what the proxy can know about the columns of a base table is its
      configuration: the `columns` list and the encrypted columns; a derived table has the columns of its select
      list);
    - a column of a derived table is whatever its select item is;
    - a value position of INSERT / UPDATE is an expression that is a direct value - a literal or a placeholder,
      possibly in parentheses or behind the _binary introducer - written to a column: the j-th value of a
      VALUES tuple (or the j-th select item of INSERT .. SELECT) to the j-th column of the column list, or of
      the table's `columns` when the statement has no column list; the right side of a SET / ON DUPLICATE KEY
      UPDATE assignment to its target;
    - names are compared in the spelling of the configuration (ValueForConfig of the dialect).

    [spec_lits] / [spec_phs]: the literal positions / placeholder numbers that belong to a configured
    (encrypted) column, with the column's setting.  [spec_result]: the setting of every result column of a
    SELECT / RETURNING, [None] when the number of result columns cannot be known (star over a table without
    column list).  No proofs in this file. *)
From Coq Require Import String.
From Coq Require Import List Bool NArith ZArith Arith.
From Acra Require Import Lib.Bytes Lib.Outcome.
From Acra Require Export Model.ColumnResolve.
Import ListNotations.
Local Open Scope nat_scope.

Section Spec.
Variable d : dialect.
Variable cfg : rcfg.

(** * Direct values *)

(** every literal type of the SQL text (placeholders and casted values are not literals) *)
Definition literal_type (ty : N) : bool :=
  N.eqb ty VT_StrVal || N.eqb ty VT_IntVal || N.eqb ty VT_FloatVal || N.eqb ty VT_HexNum || N.eqb ty VT_HexVal ||
  N.eqb ty VT_BitVal || N.eqb ty VT_PgEscapeString.

Inductive vform := VLit | VPh (i : Z).

(** the direct value an expression is, with the relative path of its SQLVal node; an empty literal is nothing
    to protect.  [lt] = which SQLVal types count as literals ([literal_type] in the specification; the proofs
    instantiate it with the types the implementation handles to state what is missing) *)
Definition direct_value_gen (lt : N -> bool) (e : tree) : option (list nat * vform) :=
  let '(p, v) := unwrap e tt in
  if isk K_SQLVal v then
    match ph_index v with
    | Some i => Some (p, VPh i)
    | None => if lt (sv_type v) && negb (empty (sv_val v)) then Some (p, VLit) else None
    end
  else None.
Definition direct_value := direct_value_gen literal_type.

(** * Scopes *)

Inductive source := SBase (table : bytes) | SDerived (select : tree).
Definition entry := (bytes * source)%type.         (* visible name, source *)
Definition scope := list entry.

Fixpoint scope_of (t : tree) (u : unit) {struct t} : scope :=
  let '(T k _ cs) := t in
  let sub := map scope_of cs in
  match k with
  | K_AliasedTableExpr =>
      let e := nth (fnum K_AliasedTableExpr "Expr") cs tnil in
      let a := nth (fnum K_AliasedTableExpr "As") cs tnil in
      if isk K_TableName e then
        let n := vfc_tab d (tn_name e) in [(if ti_empty a then n else vfc_tab d a, SBase n)]
      else if isk K_Subquery e then [(vfc_tab d a, SDerived (fld "Select" e))]
      else []
  | K_JoinTableExpr =>
      nth (fnum K_JoinTableExpr "LeftExpr") sub (fun _ => []) u ++ nth (fnum K_JoinTableExpr "RightExpr") sub (fun _ => []) u
  | K_ParenTableExpr => nth (fnum K_ParenTableExpr "Exprs") sub (fun _ => []) u
  | K_TableExprs => flat_map (fun f => f u) sub
  | _ => []
  end.

Definition scope_of_list (ts : list tree) : scope := flat_map (fun t => scope_of t tt) ts.

(** * References.  [fuel] bounds the nesting of derived tables (the size of the statement is enough). *)

Definition ref_qual (cn : tree) : bytes := vfc_tab d (tn_name (fld "Qualifier" cn)).
Definition ref_col (cn : tree) : bytes := vfc_col d (fld "Name" cn).

Definition base_has (tbl c : bytes) : bool :=
  match get_schema cfg tbl with Some s => knows_col s c | None => false end.

(** the columns of a base table, if the configuration lists them *)
Definition base_cols (tbl : bytes) : option (list bytes) :=
  match get_schema cfg tbl with
  | Some s => if nonempty (rt_cols s) then Some (rt_cols s) else None
  | None => None
  end.

Fixpoint opt_concat {A} (l : list (option (list A))) : option (list A) :=
  match l with
  | [] => Some []
  | None :: _ => None
  | Some x :: tl => option_map (app x) (opt_concat tl)
  end.

(** result columns of a select: (name it is visible under, the base column it is) *)
Definition outcol := (bytes * option (bytes * bytes))%type.

Fixpoint outputs (fuel : nat) (sel : tree) {struct fuel} : option (list outcol) :=
  match fuel with
  | O => None
  | S f =>
      let sc := scope_of_list (tkids (fld "From" sel)) in
      let cols_of (e : entry) : option (list outcol) :=
        match snd e with
        | SBase tbl => option_map (map (fun c => (c, Some (tbl, c)))) (base_cols tbl)
        | SDerived sub => outputs f sub
        end in
      let has (e : entry) (c : bytes) : bool :=
        match snd e with
        | SBase tbl => base_has tbl c
        | SDerived sub => match outputs f sub with
                          | Some os => existsb (fun o => bytes_eqb (fst o) c) os
                          | None => false
                          end
        end in
      let via (e : entry) (c : bytes) : option (bytes * bytes) :=
        match snd e with
        | SBase tbl => Some (tbl, c)
        | SDerived sub => match outputs f sub with
                          | Some os => match find (fun o => bytes_eqb (fst o) c) os with Some o => snd o | None => None end
                          | None => None
                          end
        end in
      let resolve (q c : bytes) : option (bytes * bytes) :=
        if empty q then
          match filter (fun e => has e c) sc with [e] => via e c | _ => None end
        else
          match find (fun e => bytes_eqb (fst e) q) sc with Some e => via e c | None => None end in
      let item (it : tree) : option (list outcol) :=
        if isk K_StarExpr it then
          let q := vfc_tab d (tn_name (fld "TableName" it)) in
          if empty q then opt_concat (map cols_of sc)
          else match find (fun e => bytes_eqb (fst e) q) sc with Some e => cols_of e | None => None end
        else if isk K_AliasedExpr it then
          let x := fld "Expr" it in
          let a := fld "As" it in
          if isk K_ColName x then
            Some [(if ci_empty a then ref_col x else vfc_col d a, resolve (ref_qual x) (ref_col x))]
          else if isk K_Subquery x && isk K_Select (fld "Select" x) then
            match outputs f (fld "Select" x) with
            | Some [o] => Some [(vfc_col d a, snd o)]
            | _ => None
            end
          else Some [(vfc_col d a, None)]
        else Some [([], None)] in
      opt_concat (map item (tkids (fld "SelectExprs" sel)))
  end.

(** a reference against a scope whose entries are base tables or derived tables *)
Definition resolve_in (fuel : nat) (sc : scope) (q c : bytes) : option (bytes * bytes) :=
  let has (e : entry) : bool :=
    match snd e with
    | SBase tbl => base_has tbl c
    | SDerived sub => match outputs fuel sub with
                      | Some os => existsb (fun o => bytes_eqb (fst o) c) os
                      | None => false
                      end
    end in
  let via (e : entry) : option (bytes * bytes) :=
    match snd e with
    | SBase tbl => Some (tbl, c)
    | SDerived sub => match outputs fuel sub with
                      | Some os => match find (fun o => bytes_eqb (fst o) c) os with Some o => snd o | None => None end
                      | None => None
                      end
    end in
  if empty q then match filter has sc with [e] => via e | _ => None end
  else match find (fun e => bytes_eqb (fst e) q) sc with Some e => via e | None => None end.

(** the setting of a base column *)
Definition setting_of (tc : option (bytes * bytes)) : option (N * bytes * bytes) :=
  match tc with
  | Some (tbl, c) =>
      match get_schema cfg tbl with
      | Some s => match col_setting s c with Some sid => Some (sid, tbl, c) | None => None end
      | None => None
      end
  | None => None
  end.

(** * Result columns *)

Definition spec_select (t : tree) : option (list (option (N * bytes * bytes))) :=
  option_map (map (fun o => setting_of (snd o))) (outputs (tree_size t) t).

(** RETURNING: the select list [ret] over the scope of the statement's tables *)
Definition spec_returning (ret : list tree) (from : list tree) : option (list (option (N * bytes * bytes))) :=
  let sc := scope_of_list from in
  let cols_of (e : entry) : option (list (option (bytes * bytes))) :=
    match snd e with
    | SBase tbl => option_map (map (fun c => Some (tbl, c))) (base_cols tbl)
    | SDerived _ => None
    end in
  let item (it : tree) : option (list (option (bytes * bytes))) :=
    if isk K_StarExpr it then
      let q := vfc_tab d (tn_name (fld "TableName" it)) in
      if empty q then opt_concat (map cols_of sc)
      else match find (fun e => bytes_eqb (fst e) q) sc with Some e => cols_of e | None => None end
    else if isk K_AliasedExpr it && isk K_ColName (fld "Expr" it) then
      Some [resolve_in 0 sc (ref_qual (fld "Expr" it)) (ref_col (fld "Expr" it))]
    else Some [None] in
  option_map (map setting_of) (opt_concat (map item ret)).

Definition spec_result (t : tree) : option (list (option (N * bytes * bytes))) :=
  match tkind t with
  | K_Select => spec_select t
  | K_Insert => spec_returning (tkids (fld "Returning" t)) [mk_aliased (fld "Table" t)]
  | K_Update => spec_returning (tkids (fld "Returning" t)) (tkids (fld "TableExprs" t) ++ tkids (fld "From" t))
  | K_Delete => spec_returning (tkids (fld "Returning" t)) (tkids (fld "TableExprs" t) ++ tkids (fld "Targets" t))
  | _ => None
  end.

(** * Value positions *)

(** a value position: path of the expression, the expression, the column it is written to *)
Definition vpos := (list nat * tree * option (bytes * bytes))%type.

(** the target of an assignment: qualified = the base table visible under the qualifier among all tables of the
    statement [sc]; unqualified = the only UPDATED table [upd] (UPDATE <these> SET ..: one table in PostgreSQL, the
    joined tables of a MySQL multiple-table UPDATE) whose configuration knows the column *)
Definition knows (tbl c : bytes) : bool :=
  match get_schema cfg tbl with Some s => knows_col s c | None => false end.

Definition base_entries (sc : scope) : list (bytes * bytes) :=
  flat_map (fun e => match snd e with SBase tbl => [(fst e, tbl)] | SDerived _ => [] end) sc.

Definition target (upd sc : scope) (name : tree) : option (bytes * bytes) :=
  let q := ref_qual name in
  let c := ref_col name in
  if empty q then
    match filter (fun e => knows (snd e) c) (base_entries upd) with
    | [e] => Some (snd e, c)
    | _ => None
    end
  else
    match find (fun e => bytes_eqb (fst e) q) (base_entries sc) with
    | Some e => Some (snd e, c)
    | None => None
    end.

Definition assign_positions (pp : list nat) (es : list tree) (upd sc : scope) : list vpos :=
  mapi (fun k e => (pp ++ [k; fnum K_UpdateExpr "Expr"], fld "Expr" e, target upd sc (fld "Name" e))) es.

(** [withsel]: the select items of INSERT .. SELECT are value positions (true in the specification) *)
Definition insert_positions (withsel : bool) (t : tree) : list vpos :=
  let tbl := vfc_tab d (tn_name (fld "Table" t)) in
  let cs := tkids (fld "Columns" t) in
  let cols := if nonempty cs then map (vfc_col d) cs
              else match base_cols tbl with Some l => l | None => [] end in
  let col j := option_map (fun c => (tbl, c)) (nth_error cols j) in
  let rows := fld "Rows" t in
  let fr := fnum K_Insert "Rows" in
  (if isk K_Values rows then
     concat (mapi (fun i tup => mapi (fun j v => ([fr; i; j], v, col j)) (tkids tup)) (tkids rows))
   else if withsel && isk K_Select rows then
     mapi (fun j it => ([fr; fnum K_Select "SelectExprs"; j; fnum K_AliasedExpr "Expr"], fld "Expr" it, col j))
          (tkids (fld "SelectExprs" rows))
   else [])
  ++ assign_positions [fnum K_Insert "OnDup"] (tkids (fld "OnDup" t)) [(tbl, SBase tbl)] [(tbl, SBase tbl)].

Definition update_positions (t : tree) : list vpos :=
  assign_positions [fnum K_Update "Exprs"] (tkids (fld "Exprs" t))
    (scope_of_list (tkids (fld "TableExprs" t)))
    (scope_of_list (tkids (fld "TableExprs" t) ++ tkids (fld "From" t))).

Definition positions (withsel : bool) (t : tree) : list vpos :=
  match tkind t with
  | K_Insert => insert_positions withsel t
  | K_Update => update_positions t
  | _ => []
  end.

Definition setting_id (tc : option (bytes * bytes)) : option N :=
  option_map (fun x => fst (fst x)) (setting_of tc).

(** literal positions of configured columns: (path of the SQLVal node, setting) *)
Definition lit_of (lt : N -> bool) (vp : vpos) : list (list nat * N) :=
  let '(p, e, tc) := vp in
  match setting_id tc, direct_value_gen lt e with
  | Some sid, Some (rp, VLit) => [(p ++ rp, sid)]
  | _, _ => []
  end.
Definition spec_lits_gen (lt : N -> bool) (withsel : bool) (t : tree) : list (list nat * N) :=
  flat_map (lit_of lt) (positions withsel t).
Definition spec_lits := spec_lits_gen literal_type true.

(** placeholders that are the value of a configured column: (number - 1, setting) *)
Definition ph_of (vp : vpos) : list (Z * N) :=
  let '(p, e, tc) := vp in
  match setting_id tc, direct_value e with
  | Some sid, Some (_, VPh i) => [(i, sid)]
  | _, _ => []
  end.
Definition spec_phs_gen (withsel : bool) (t : tree) : list (Z * N) := flat_map ph_of (positions withsel t).
Definition spec_phs := spec_phs_gen true.

End Spec.
