(** `acra-keys migrate` from keystore v1 to v2 (C18 extension) as a function from a v1 file tree
    to v2 key rings:
      cmd/acra-keys/keys/migrate-keys.go          MigrateV1toV2
      keystore/filesystem/key_export.go           EnumerateExportedKeysByClass, ClassifyExportedKey (AS
                                                  REPAIRED by patches/fix_migrate_poison_sym_context.diff),
                                                  fusedID, addPathFrom, ExportKeyPair/PublicKey/PrivateKey/
                                                  SymmetricKey
      utils/utils.go                              LoadPrivateKey (permission check)
      keystore/v2/keystore/importV1.go            ImportKeyFileV1
      keystore/v2/keystore/keyRingUtils.go        addCurrentKeyPair, describeNewKeyPair (AS REPAIRED by
                                                  patches/fix_v2_keypair_nil_half.diff), addCurrentSymmetricKey
    The tree is the list of regular files in enumeration order (path, content, whether the mode is
    at most 0600).  Go iterates the classified keys in map order; every key goes to its own ring, so the
    resulting rings do not depend on that order: the model processes them in first-seen order and takes
    the clock values and the nonce used for a ring as a function of the ring path.
    Files in history directories "<name>.old/<timestamp>" are classified by the real code by their
    LAST path component only, i.e. as the private storage key of a client called <timestamp>: known
    finding v1-migrate-rotated-keys-not-carried.  No proofs here (Proofs/MigrateV2Ext.v). *)
From Coq Require Import List NArith ZArith Bool.
From Acra Require Import Lib.Bytes Lib.Outcome Crypto.Interface Gen.KsConsts Gen.X18Consts
  Model.KeyAtRest Model.Backup Model.DerV2Ext Model.KeyRingV2Ext.
Import ListNotations.

Record xfile := { xf_path : bytes; xf_data : bytes; xf_private_perm : bool }.

Inductive purpose := PLog | PPoisonSym | PHmac | PStorageSym | PPoisonPair | PStoragePair.
Definition purpose_eqb (a b : purpose) : bool :=
  match a, b with
  | PLog, PLog | PPoisonSym, PPoisonSym | PHmac, PHmac | PStorageSym, PStorageSym
  | PPoisonPair, PPoisonPair | PStoragePair, PStoragePair => true
  | _, _ => false
  end.

Record xkey := { x_purpose : purpose; x_ctx : bytes;
                 x_pub : option bytes; x_priv : option bytes; x_sym : option bytes }.

(** filepath.Base of a cleaned file path: what follows the last separator *)
Fixpoint until_slash (s : bytes) : bytes :=
  match s with
  | [] => []
  | c :: r => if byte_eqb c x2f then [] else c :: until_slash r
  end.
Definition base_name (p : bytes) : bytes := rev (until_slash (rev p)).
(** strings.TrimSuffix *)
Definition trim_suffix (s suf : bytes) : bytes := if ends_with s suf then strip_suffix s suf else s.

Definition x_symmetric (p : purpose) (ctx path : bytes) : xkey :=
  {| x_purpose := p; x_ctx := ctx; x_pub := None; x_priv := None; x_sym := Some path |}.
Definition x_public (p : purpose) (ctx path : bytes) : xkey :=
  {| x_purpose := p; x_ctx := ctx; x_pub := Some path; x_priv := None; x_sym := None |}.
Definition x_private (p : purpose) (ctx path : bytes) : xkey :=
  {| x_purpose := p; x_ctx := ctx; x_pub := None; x_priv := Some path; x_sym := None |}.

(** DefaultKeyFileClassifier.ClassifyExportedKey *)
Definition classify (path : bytes) : xkey :=
  let filename := base_name path in
  if bytes_eqb filename V1_LOG_KEY_NAME then x_symmetric PLog V1_LOG_KEY_NAME path
  else if ends_with path (V1_SLASH ++ V1_POISON_NAME ++ V1_SUF_SYM) then x_symmetric PPoisonSym (V1_POISON_NAME ++ V1_SUF_SYM) path
  else if ends_with filename V1_SUF_HMAC then x_symmetric PHmac (strip_suffix filename V1_SUF_HMAC) path
  else if ends_with filename V1_SUF_STORAGE_SYM then x_symmetric PStorageSym (strip_suffix filename V1_SUF_STORAGE_SYM) path
  else if ends_with path (V1_POISON_NAME ++ V1_SUF_PUB) then x_public PPoisonPair V1_POISON_NAME path
  else if ends_with path V1_POISON_NAME then x_private PPoisonPair V1_POISON_NAME path
  else if ends_with filename V1_SUF_STORAGE_PUB then x_public PStoragePair (strip_suffix filename V1_SUF_STORAGE_PUB) path
  else x_private PStoragePair (trim_suffix filename V1_SUF_STORAGE) path.

(** fusedID equality and addPathFrom *)
Definition same_key (a b : xkey) : bool := purpose_eqb (x_purpose a) (x_purpose b) && bytes_eqb (x_ctx a) (x_ctx b).
Definition or_else {A} (a b : option A) : option A := match a with Some _ => a | None => b end.
Definition add_path_from (k other : xkey) : xkey :=
  {| x_purpose := x_purpose k; x_ctx := x_ctx k;
     x_pub := or_else (x_pub other) (x_pub k); x_priv := or_else (x_priv other) (x_priv k);
     x_sym := or_else (x_sym other) (x_sym k) |}.
Fixpoint merge_key (k : xkey) (l : list xkey) : list xkey :=
  match l with
  | [] => [k]
  | k' :: r => if same_key k' k then add_path_from k' k :: r else k' :: merge_key k r
  end.
(** EnumerateExportedKeysByClass (first-seen order) *)
Definition enumerate (files : list xfile) : list xkey :=
  fold_left (fun acc f => merge_key (classify (xf_path f)) acc) files [].

Fixpoint xfind (p : bytes) (files : list xfile) : option xfile :=
  match files with
  | [] => None
  | f :: r => if bytes_eqb p (xf_path f) then Some f else xfind p r
  end.

(** the v2 ring a purpose is imported into *)
Definition ring_path (p : purpose) (ctx : bytes) : bytes :=
  match p with
  | PLog => RING_AUDIT_LOG
  | PPoisonSym => RING_POISON_SYM
  | PPoisonPair => RING_POISON
  | PHmac => RING_HMAC_PRE ++ ctx ++ RING_HMAC_POST
  | PStorageSym => RING_STORAGE_SYM_PRE ++ ctx ++ RING_STORAGE_SYM_POST
  | PStoragePair => RING_STORAGE_PRE ++ ctx ++ RING_STORAGE_POST
  end.
Definition is_pair (p : purpose) : bool := match p with PPoisonPair | PStoragePair => true | _ => false end.

Definition E_PERMISSIONS : N := 70.
Definition E_READ : N := 71.

Section Migrate.
  Variable C : crypto.

  (** KeyStore.ExportPublicKey / ExportPrivateKey / ExportSymmetricKey of keystore v1 *)
  Definition export_public (files : list xfile) (p : option bytes) : res bytes :=
    match p with
    | None => Ok []
    | Some path => match xfind path files with Some f => Ok (xf_data f) | None => Err E_READ end
    end.
  Definition export_private (m1 : bytes) (files : list xfile) (ctx : bytes) (p : option bytes) : res bytes :=
    match p with
    | None => Ok []
    | Some path =>
        match xfind path files with
        | None => Err E_READ
        | Some f =>
            if negb (xf_private_perm f) then Err E_PERMISSIONS else
            of_option E_DECRYPTION (cell_decrypt C m1 ctx (xf_data f))
        end
    end.
  Definition export_symmetric (m1 : bytes) (files : list xfile) (ctx : bytes) (p : option bytes) : res bytes :=
    match p with
    | None => Ok []
    | Some path =>
        match xfind path files with
        | None => Err E_READ
        | Some f => of_option E_DECRYPTION (cell_decrypt C m1 ctx (xf_data f))
        end
    end.

  (** plaintext key data handed to AddKey *)
  Definition exported_data (m1 : bytes) (files : list xfile) (k : xkey) : res kdata :=
    if is_pair (x_purpose k) then
      do pub <- export_public files (x_pub k);
      do priv <- export_private m1 files (x_ctx k) (x_priv k);
      Ok {| kd_format := FORMAT_KEYPAIR; kd_pub := pub; kd_priv := priv; kd_sym := [] |}
    else
      do sym <- export_symmetric m1 files (x_ctx k) (x_sym k);
      Ok {| kd_format := FORMAT_SYMMETRIC; kd_pub := []; kd_priv := []; kd_sym := sym |}.

  (** ImportKeyFileV1: OpenKeyRingRW, AddKey, SetCurrent.  [aux path] = (ValidSince, ValidUntil, nonce) *)
  Definition import_key_file (m1 m2 : bytes) (aux : bytes -> bytes * bytes * bytes) (files : list xfile)
             (b : backend) (k : xkey) : backend * bool :=
    match exported_data m1 files k with
    | Ok d =>
        let path := ring_path (x_purpose k) (x_ctx k) in
        let '(since, until, nonce) := aux path in
        let (s1, r1) := rstep C m2 {| h_b := b; h_tape := [nonce] |} (RAddKey path since until [d]) in
        match r1 with
        | Ok seq =>
            let (s2, r2) := rstep C m2 s1 (RSetCurrent path seq) in
            (h_b s2, match r2 with Ok _ => true | _ => false end)
        | _ => (h_b s1, false)
        end
    | _ => (b, false)
    end.

  Record mres := { mg_b : backend; mg_imported : nat; mg_expected : nat; mg_ok : bool }.

  Fixpoint import_all (m1 m2 : bytes) (aux : bytes -> bytes * bytes * bytes) (files : list xfile)
           (b : backend) (ks : list xkey) : backend * nat :=
    match ks with
    | [] => (b, O)
    | k :: r =>
        let (b1, ok) := import_key_file m1 m2 aux files b k in
        let (b2, n) := import_all m1 m2 aux files b1 r in
        (b2, if ok then S n else n)
    end.

  (** MigrateV1toV2 into an empty v2 store *)
  Definition migrate_from (m1 m2 : bytes) (aux : bytes -> bytes * bytes * bytes) (files : list xfile) (b : backend) : mres :=
    let ks := enumerate files in
    let (b', n) := import_all m1 m2 aux files b ks in
    {| mg_b := b'; mg_imported := n; mg_expected := length ks; mg_ok := Nat.eqb n (length ks) |}.
End Migrate.

Fixpoint aux_of (l : list (bytes * (bytes * bytes * bytes))) (p : bytes) : bytes * bytes * bytes :=
  match l with
  | [] => ([], [], [])
  | (q, v) :: r => if bytes_eqb p q then v else aux_of r p
  end.
