(** Executable model of WHICH STAGES a proxy of acra is built with for an encryptor config of several tables:

      encryptor/base/config/encryptionSettings.go  BasicColumnEncryptionSetting.applyDefaults / Init: the SettingMask
                                                   of one column setting (for the keys crypto_envelope,
                                                   reencrypting_to_acrablocks, token_type, consistent_tokenization,
                                                   searchable, masking + plaintext_length + plaintext_side)
      encryptor/base/config/schemaStore.go         MapTableSchemaStoreFromConfig: ONE accumulator OR-ed with the mask
                                                   of every column setting of every table, in config order
                                                   (GetGlobalSettingsMask)
      decryptor/postgresql/proxy.go, decryptor/mysql/proxy.go   proxyFactory.New: the members of the write chain
                                                   (encryptor.ChainDataEncryptor) and the column subscribers chosen
                                                   from that mask; decryptor/base/proxy.go OnlyDefaultEncryptorSettings
      the guards of the chain members              pseudonymization.TokenEncryptor (IsTokenized), crypto.EncryptHandler
                                                   (OnlyEncryption), hmac.SearchableDataEncryptor (IsSearchable),
                                                   masking.DataEncryptor (GetMaskingPattern() != "")

    The bit values come from Gen/StagesConsts.v (regenerated from the compiled package on every run).  No proofs. *)
From Coq Require Import List NArith Bool.
From Acra Require Import Lib.Bytes Gen.StagesConsts.
Import ListNotations.
Local Open Scope N_scope.

(** * column settings *)
(* the `defaults` section of the config: None = key absent *)
Record st_defaults := mk_sd { sd_env_ab : option bool; sd_reenc : option bool; sd_consistent : option bool }.

(* one entry of `encrypted` as written in the config: None = key absent; env: Some true = acrablock, Some false = acrastruct *)
Record st_raw := mk_sr {
  sr_env_ab : option bool;      (* crypto_envelope *)
  sr_reenc : option bool;       (* reencrypting_to_acrablocks *)
  sr_token : bool;              (* token_type given *)
  sr_consistent : option bool;  (* consistent_tokenization *)
  sr_search : bool;             (* searchable: true *)
  sr_mask : bool                (* masking / plaintext_length / plaintext_side given *)
}.

(* defaultValues.GetCryptoEnvelope / ShouldReEncryptAcraStructToAcraBlock / GetConsistentTokenization *)
Definition sd_get_env (d : st_defaults) : bool :=
  match sd_env_ab d with Some b => b | None => SM_DEFAULT_ENVELOPE_ACRABLOCK end.
Definition sd_get_reenc (d : st_defaults) : bool :=
  match sd_reenc d with Some b => b | None => SM_DEFAULT_REENCRYPT end.
Definition sd_get_consistent (d : st_defaults) : bool :=
  match sd_consistent d with Some b => b | None => SM_DEFAULT_CONSISTENT end.

(* the setting after applyDefaults (run on the freshly parsed setting: its mask is still 0, so every default applies) *)
Record st_col := mk_sc {
  sc_env_ab : bool; sc_reenc : bool; sc_token : bool; sc_consistent : bool; sc_search : bool; sc_mask : bool
}.

Definition apply_defaults (d : st_defaults) (r : st_raw) : st_col :=
  {| sc_env_ab := match sr_env_ab r with Some b => b | None => sd_get_env d end;
     sc_reenc := match sr_reenc r with Some b => b | None => sd_get_reenc d end;
     sc_token := sr_token r;
     sc_consistent := match sr_consistent r with
                      | Some b => b
                      | None => if sr_token r then sd_get_consistent d else false
                      end;
     sc_search := sr_search r;
     sc_mask := sr_mask r |}.

(** * BasicColumnEncryptionSetting.Init: the setting mask, in the order the code sets the bits *)
Definition SM_MASKING_ALL : N := N.lor SM_MASKING (N.lor SM_MASKING_PLAINTEXT_LENGTH SM_MASKING_PLAINTEXT_SIDE).

Definition col_mask (c : st_col) : N :=
  let m := SM_CLIENT_ID in
  let m := N.lor m (if sc_env_ab c then SM_ACRABLOCK_ENCRYPTION else SM_ACRASTRUCT_ENCRYPTION) in
  let m := if sc_reenc c then N.lor m SM_REENCRYPTION else m in
  let m := if sc_token c then
             let m := N.lor (N.lor m SM_TOKENIZATION) SM_TOKEN_TYPE in
             let m := if sc_consistent c then N.lor m SM_CONSISTENT_TOKENIZATION else m in
             (* tokenization supports only AcraBlock *)
             N.lor (N.ldiff m SM_ACRASTRUCT_ENCRYPTION) SM_ACRABLOCK_ENCRYPTION
           else m in
  let m := if sc_mask c then N.lor m SM_MASKING_ALL else m in
  if sc_search c then N.lor m SM_SEARCH else m.

(** * MapTableSchemaStoreFromConfig: one accumulator over the tables and their settings in config order *)
Definition config := list (list st_col).

Definition global_mask_from (m0 : N) (cfg : config) : N :=
  fold_left (fun m t => fold_left (fun m c => N.lor m (col_mask c)) t m) cfg m0.
Definition global_mask (cfg : config) : N := global_mask_from 0 cfg.

(* per table (used to STATE what the accumulator computes) *)
Definition lor_all (l : list N) : N := fold_right N.lor 0 l.
Definition table_mask (t : list st_col) : N := lor_all (map col_mask t).

(* storeMask & flag == flag *)
Definition has (m f : N) : bool := N.eqb (N.land m f) f.

(** * proxyFactory.New *)
Inductive stage := StTokenize | StEncrypt | StSearch | StMask | StReencrypt.

Definition stage_eqb (a b : stage) : bool :=
  match a, b with
  | StTokenize, StTokenize | StEncrypt, StEncrypt | StSearch, StSearch | StMask, StMask | StReencrypt, StReencrypt => true
  | _, _ => false
  end.

(* chainEncryptors, in append order (the same list in both factories) *)
Definition build_chain (m : N) : list stage :=
  (if has m SM_TOKENIZATION then [StTokenize] else []) ++ [StEncrypt]
  ++ (if has m SM_SEARCH then [StSearch] else [])
  ++ (if has m SM_MASKING then [StMask] else [])
  ++ [StReencrypt].

Inductive subscriber :=
  SubDecoder | SubToken | SubHmac | SubDetector | SubVerify | SubEncoder | SubQuery | SubPrepared.

(* decryptor/base/proxy.go OnlyDefaultEncryptorSettings *)
Definition only_default (m : N) : bool :=
  N.eqb (N.land m (N.lor SM_SEARCH (N.lor SM_MASKING (N.lor SM_TOKENIZATION (N.lor SM_DEFAULT_DATA_VALUE SM_DATA_TYPE))))) 0.

(* SubscribeOnAllColumnsDecryption calls in order (no poison-record callbacks configured) *)
Definition build_subs (mysql : bool) (m : N) : list subscriber :=
  let core := (if has m SM_TOKENIZATION then [SubToken] else [])
              ++ (if has m SM_SEARCH then [SubHmac] else [])
              ++ [SubDetector]
              ++ (if has m SM_SEARCH then [SubVerify] else []) in
  if mysql then
    (if only_default m then [] else [SubQuery]) ++ [SubPrepared; SubDecoder] ++ core ++ [SubQuery; SubEncoder]
  else [SubDecoder] ++ core ++ [SubEncoder].

(** * which member of the chain accepts a setting (every other member hands the value on unchanged) *)
(* BasicColumnEncryptionSetting.OnlyEncryption *)
Definition only_encryption (c : st_col) : bool :=
  N.eqb (N.land (col_mask c) (N.lor SM_MASKING (N.lor SM_TOKENIZATION SM_SEARCH))) 0.

Definition stage_accepts (s : stage) (c : st_col) : bool :=
  match s with
  | StTokenize => sc_token c           (* IsTokenized(): token_type <> "" *)
  | StEncrypt => only_encryption c     (* crypto.EncryptHandler *)
  | StSearch => sc_search c            (* IsSearchable() *)
  | StMask => sc_mask c                (* GetMaskingPattern() <> "" *)
  | StReencrypt => false               (* re-encrypts AcraStructs found in the value; a fresh plaintext holds none *)
  end.

(* a fresh plaintext written to a column with this setting leaves the chain changed iff a member accepted it *)
Definition forwarded_changed (chain : list stage) (c : st_col) : bool :=
  existsb (fun s => stage_accepts s c) chain.

(* the stages a setting needs *)
Definition needs (c : st_col) : list stage :=
  (if sc_token c then [StTokenize] else []) ++ (if sc_search c then [StSearch] else [])
  ++ (if sc_mask c then [StMask] else []) ++ (if only_encryption c then [StEncrypt] else []).

(* the read-side subscribers a setting needs *)
Definition needs_subs (c : st_col) : list subscriber :=
  (if sc_token c then [SubToken] else []) ++ (if sc_search c then [SubHmac; SubVerify] else []) ++ [SubDetector].

(** the (seeded) alternative the theorems exclude: the mask of the LAST table only *)
Definition last_table_mask (cfg : config) : N :=
  match rev cfg with t :: _ => table_mask t | [] => 0 end.
