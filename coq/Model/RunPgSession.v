(** Replay of observations of the REAL PostgreSQL proxy (in-process rig, scripted client and fake
    back end) on the session model.  Used by the correspondence check of C05 (domain c05q).
    Statement identifiers are [seq * 8 + class]; class 0 = table without settings, 1..5 = int32
    column with default value, 6..7 = int32 column with response_on_fail: error. *)
From Coq Require Import List Bool NArith.
From Acra Require Import Lib.Bytes Lib.Outcome.
From Acra Require Export Model.PgSession.
Import ListNotations.
Local Open Scope N_scope.

Inductive expected := XOk (vals : list bytes) | XErr | XPanic.

Definition class (s : N) : N := N.land s 7.
Definition strict (s : N) : bool := 6 <=? class s.

Definition CQ := ClientQuery.
Definition DR := DbDataRow.
Definition DC := DbComplete.
Definition DZ := DbReady.
Definition DO := DbOther.
Definition T := true.
Definition F := false.

Inductive op := OpSession (evs : list event).

Definition n8 (n : N) : bytes := le_enc 8 n.
Definition cls (o : option N) : byte := match o with Some s => n2b (class s) | None => x00 end.

(** what the harness can see of one output.  A decodable value passes unchanged under every
    setting, so for [bad = false] the settings are not observable (0xee). *)
Definition enc_out (o : out) : bytes :=
  match o with
  | ToDb s => x01 :: n8 s
  | ToClientError => [x02]
  | RowToClient st bad => [x03; if bad then cls st else xee]
  | RowFailed st => [x04; cls st]
  | PassToClient => [x05]
  | Skipped => [x06]
  end.

Definition run (o : op) : expected :=
  match o with
  | OpSession evs =>
      let '(st, os) := run_session strict init evs in
      XOk (map enc_out os ++ [x07 :: flat_map n8 (pending st)])
  end.

Fixpoint list_bytes_eqb (a b : list bytes) : bool :=
  match a, b with
  | [], [] => true
  | x :: a', y :: b' => bytes_eqb x y && list_bytes_eqb a' b'
  | _, _ => false
  end.

Definition expected_eqb (a b : expected) : bool :=
  match a, b with
  | XOk x, XOk y => list_bytes_eqb x y
  | XErr, XErr => true
  | XPanic, XPanic => true
  | _, _ => false
  end.

Fixpoint mismatches_from (i : nat) (cs : list (op * expected)) : list (nat * expected) :=
  match cs with
  | [] => []
  | (o, e) :: rest =>
      let m := run o in
      if expected_eqb m e then mismatches_from (S i) rest else (i, m) :: mismatches_from (S i) rest
  end.
