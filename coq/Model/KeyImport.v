(** File name -> owner context on the v1 IMPORT path (C07, "bound to its owner" for every write path).

    keystore/filesystem/filesystem_backup.go, byte level, as the code is written:
      isPublic / isPrivate            strings.HasSuffix(".pub" / ".pub.old"), the poison-record name
      getContextFromFilename          if-chain of strings.HasSuffix + slice fname[:len(fname)-len(suffix)]
                                      (a slice out of range is [Panic]), filepath.Base, the two poison
                                      names, ".old"
      KeyBackuper.Import              per key of the opened bundle: private => Encrypt(content,
                                      getContextFromFilename(name)) under the keystore's master key,
                                      WriteFile(filepath.Join(privateFolder, name)); public => written as is
    [isHistoricalFilename] (time.Parse of the base name against a layout) is NOT modelled: it is an
    input ([historical]) that the harness obtains from the real function.
    The suffixes come from Gen/KsConsts.v, the poison names / purposes from Gen/KeyImportConsts.v, both
    regenerated from the compiled acra packages on every run.
    The v1 key store state machine (Generate* / Get* / CopyFile / Reset) is Model/KeyAtRest.v; here its
    histories are extended with Import.  No proofs here (Proofs/KeyImport.v). *)
From Acra Require Import Lib.Bytes Lib.Outcome Crypto.Interface Gen.KsConsts Gen.KeyImportConsts
  Model.Path Model.KeyAtRest Model.Backup.

(** ---------- filepath.Base ---------- *)
(** on the reversed path: trailing separators are dropped, then the bytes up to the next separator
    are the last element *)
Fixpoint drop_seps (r : bytes) : bytes :=
  match r with
  | c :: r' => if byte_eqb c SEP then drop_seps r' else r
  | [] => []
  end.
Fixpoint take_to_sep (r : bytes) : bytes :=
  match r with
  | c :: r' => if byte_eqb c SEP then [] else c :: take_to_sep r'
  | [] => []
  end.
(** filepath.Base: "" -> ".", only separators -> "/", else the last element *)
Definition base (p : bytes) : bytes :=
  if nilb p then dot
  else let r := drop_seps (rev p) in
       if nilb r then [SEP] else rev (take_to_sep r).

(** ---------- strings.HasSuffix + slice ---------- *)
(** [ends_with] (Model/Backup.v) is strings.HasSuffix.  fname[:len(fname)-len(suffix)]: the index is an
    int; negative (suffix longer than the name) is a run-time panic *)
Definition cut_suffix (s suf : bytes) : res bytes :=
  if Nat.leb (length suf) (length s) then Ok (firstn (length s - length suf) s) else Panic.

(** ---------- isPrivate ---------- *)
Definition is_private_file (historical : bool) (fname : bytes) : bool :=
  let fname := if historical then base (dir fname) else fname in
  if bytes_eqb fname POISON_KEY_FILENAME then true
  else negb (is_public_name fname).

(** ---------- getContextFromFilename: (purpose, context bytes) ---------- *)
(** the part after filepath.Base: ".old", then the if-chain over the key-kind suffixes *)
Definition ctx_of_base_name (fname : bytes) : res (bytes * bytes) :=
  do fname <- (if ends_with fname SUFFIX_OLD then cut_suffix fname SUFFIX_OLD else Ok fname);
  if ends_with fname SUFFIX_HMAC then
    do c <- cut_suffix fname SUFFIX_HMAC; Ok (CTX_PURPOSE_HMAC, c)
  else if ends_with fname SUFFIX_SERVER then
    do c <- cut_suffix fname SUFFIX_SERVER; Ok (CTX_PURPOSE_SERVER, c)
  else if ends_with fname SUFFIX_TRANSLATOR then
    do c <- cut_suffix fname SUFFIX_TRANSLATOR; Ok (CTX_PURPOSE_TRANSLATOR, c)
  else if ends_with fname SUFFIX_STORAGE then
    do c <- cut_suffix fname SUFFIX_STORAGE; Ok (CTX_PURPOSE_STORAGE, c)
  else if ends_with fname (SUFFIX_STORAGE ++ SUFFIX_SYM) then
    do c <- cut_suffix fname (SUFFIX_STORAGE ++ SUFFIX_SYM); Ok (CTX_PURPOSE_STORAGE_SYM, c)
  else Ok (CTX_PURPOSE_OTHER, fname).

Definition get_context_from_filename (historical : bool) (fname : bytes) : res (bytes * bytes) :=
  let fname := if historical then dir fname else fname in
  if bytes_eqb fname POISON_KEY_FILENAME then Ok (PURPOSE_POISON_KEY_PAIR, fname)
  else if bytes_eqb fname POISON_SYM_KEY_FILENAME then
    do c <- cut_suffix fname SUFFIX_SYM; Ok (PURPOSE_POISON_SYM_KEY, c)
  else ctx_of_base_name (base fname).

(** the bytes the key encryptor uses as associated data (keystore.GetKeyContextFromContext): the
    purpose is dropped *)
Definition file_ctx (historical : bool) (fname : bytes) : res bytes :=
  do pc <- get_context_from_filename historical fname; Ok (snd pc).

(** ---------- KeyBackuper.Import ---------- *)
(** one key of an opened bundle; [ik_hist] = isHistoricalFilename(name), observed *)
Record ikey := { ik_name : bytes; ik_content : bytes; ik_hist : bool }.
Definition mk_ikey := Build_ikey.

Definition ctx_kctx (c : bytes) : kctx := {| kc_purpose := []; kc_client := Some c; kc_context := None |}.

(** the loop of Import: events written so far, rest of the tape, result.  A key that cannot be
    encrypted stops the loop; what was written before stays (as in the code). *)
Fixpoint import_loop (m d : bytes) (tape : list bytes) (keys : list ikey) : list event * (list bytes * res bytes) :=
  match keys with
  | [] => ([], (tape, Ok []))
  | k :: r =>
      let path := join2 d (ik_name k) in
      if is_private_file (ik_hist k) (ik_name k) then
        match file_ctx (ik_hist k) (ik_name k) with
        | Ok c =>
            match tape with
            | n :: tape' =>
                match key_encrypt m (ctx_kctx c) n (ik_content k) with
                | Some t => let '(es, rest) := import_loop m d tape' r in ((SFile path, t) :: es, rest)
                | None => ([], (tape', Err E_ENCRYPT))
                end
            | [] => ([], (tape, Err E_TAPE))
            end
        | Err e => ([], (tape, Err e))
        | Panic => ([], (tape, Panic))
        end
      else
        let '(es, rest) := import_loop m d tape r in ((SFile path, Plain (ik_content k)) :: es, rest)
  end.

(** ---------- histories of the v1 key store with Import ---------- *)
Inductive iop :=
| IK (o : kop)                    (* an operation of Model/KeyAtRest.v *)
| IImport (keys : list ikey).     (* KeyBackuper.Import of an opened bundle (private folder = key directory) *)

Definition istep (C : crypto) (g : cfg) (s : st) (tape : list bytes) (o : iop) : outcome :=
  match o with
  | IK o => step C g s tape o
  | IImport keys =>
      let '(es, (tape', r)) := import_loop (master g) (key_dir g) tape keys in
      {| o_st := apply_events C s es; o_tape := tape'; o_res := r; o_events := es |}
  end.

Fixpoint irun_hist (C : crypto) (g : cfg) (s : st) (tape : list bytes) (ops : list iop) : list outcome :=
  match ops with
  | [] => []
  | o :: r => let x := istep C g s tape o in x :: irun_hist C g (o_st x) (o_tape x) r
  end.
Definition itrace (C : crypto) (g : cfg) (s : st) (tape : list bytes) (ops : list iop) : list event :=
  flat_map o_events (irun_hist C g s tape ops).
