(** Replay of implementation observations on the keystore write model (C08 fault scenarios,
    C17 schedules). *)
From Acra Require Export Lib.Bytes Lib.Outcome Gen.KswConsts Model.KeystoreWrite Model.KeystoreSerial.
Local Open Scope Z_scope.

Inductive expected := XOk (vals : list bytes) | XErr | XPanic.

(** scenario steps: [slot] designates one of the key ring objects held by the process *)
Inductive kop :=
| KOpen (slot : nat) (rid : N)        (* slot := OpenKeyRingRW rid *)
| KRing (slot : nat) (o : wop)        (* AddKey/SetCurrent/SetState/DestroyKey on that object *)
| KGen (rid ord : N)                  (* open + AddKey + SetCurrent (generate/import) *)
| KDestroyCur (rid : N).              (* open + CurrentKey + DestroyKey *)

Inductive op :=
| Scenario (hist : list (kop * fault)) (faulted : kop) (f : fault) (follow : kop)
| Sched (hist : list (kop * fault)) (progs : list (list hop)) (sched : list (nat * N))
| SchedX (hist : list (kop * fault)) (progs : list (list xop)) (sched : list (nat * N)).

(** ** encoding of observations: sequences of 64-bit little-endian numbers *)
Definition encN (n : N) : bytes := le_enc 8 n.
Definition encZ (z : Z) : bytes := le_enc 8 (Z.to_N (z mod 18446744073709551616)).
Definition enc_nat (n : nat) : bytes := encN (N.of_nat n).

Definition enc_ring (r : ring) : bytes :=
  encZ (r_cur r) ++ enc_nat (length (r_keys r)) ++
  flat_map (fun k => encZ (k_seq k) ++ encN (k_state k) ++ encN (k_ord k)) (r_keys r).

Definition file_rank (n : fname) : N :=
  match n with
  | FRing r => 2 * r
  | FRingNew r => 2 * r + 1
  | _ => 0
  end%N.

Fixpoint insert_sorted (x : fname * content) (l : storage) : storage :=
  match l with
  | [] => [x]
  | y :: t => if (file_rank (fst x) <=? file_rank (fst y))%N then x :: l else y :: insert_sorted x t
  end.
Definition sort_storage (st : storage) : storage := fold_right insert_sorted [] st.

Definition enc_file (e : fname * content) : bytes :=
  match e with
  | (FRing r, CRing true rg) => encN 0 ++ encN r ++ encN 1 ++ enc_ring rg
  | (FRing r, _) => encN 0 ++ encN r ++ encN 0
  | (FRingNew r, CRing true rg) => encN 1 ++ encN r ++ encN 1 ++ enc_ring rg
  | (FRingNew r, _) => encN 1 ++ encN r ++ encN 0
  | _ => encN 99
  end.
Definition enc_storage (st : storage) : bytes := flat_map enc_file (sort_storage st).

Definition enc_res (r : res Z) : bytes :=
  match r with Ok z => encN 0 ++ encZ z | Err _ => encN 1 | Panic => encN 3 end.

(** ** the process: storage + key ring objects *)
Definition slots := list (option hring).
Definition get_slot (s : slots) (i : nat) : option hring := match nth_error s i with Some (Some h) => Some h | _ => None end.
Fixpoint set_slot (s : slots) (i : nat) (h : hring) : slots :=
  match s, i with
  | [], _ => []
  | _ :: t, O => Some h :: t
  | x :: t, S i' => x :: set_slot t i' h
  end.
Definition no_slots : slots := [None; None; None].

(** the program of a scenario step and what it does to the slots *)
Definition kop_prog (s : slots) (o : kop) : prog (res Z * slots) :=
  match o with
  | KOpen i rid =>
      exe r <- open_key_ring_rw rid;
      Done (match fst r with Ok _ => (Ok 0, set_slot s i (snd r)) | e => (err_of e, s) end)
  | KRing i w =>
      match get_slot s i with
      | Some h => exe r <- ring_op h w; Done (fst r, set_slot s i (snd r))
      | None => Done (Err E_GENERIC, s)
      end
  | KGen rid ord => exe r <- gen_key rid ord; Done (match r with Ok _ => Ok 0 | e => e end, s)
  | KDestroyCur rid => exe r <- destroy_current rid; Done (match r with Ok _ => Ok 0 | e => e end, s)
  end.

(** history: every step may itself carry a fault; a crash is followed by a fresh process *)
Fixpoint run_hist (st : storage) (s : slots) (h : list (kop * fault)) : storage * slots :=
  match h with
  | [] => (st, s)
  | (o, f) :: rest =>
      match exec (kop_prog s o) f st 0 with
      | Ret (_, s') st' _ => run_hist st' s' rest
      | Crash st' => run_hist st' no_slots rest
      end
  end.

Fixpoint insert_pair (x : N * Z) (l : list (N * Z)) : list (N * Z) :=
  match l with
  | [] => [x]
  | y :: t => if (fst x <=? fst y)%N then x :: l else y :: insert_pair x t
  end.
Definition sort_pairs (l : list (N * Z)) : list (N * Z) := fold_right insert_pair [] l.

Definition enc_list_keys (r : res (list (N * Z))) : bytes :=
  match r with
  | Ok l => encN 0 ++ enc_nat (length l) ++ flat_map (fun p => encN (fst p) ++ encZ (snd p)) (sort_pairs l)
  | Err _ => encN 1
  | Panic => encN 3
  end.

Definition slot_view (s : slots) (o : kop) : bytes :=
  match o with
  | KRing i _ | KOpen i _ =>
      match get_slot s i with
      | Some h => encN 1 ++ enc_nat (length (h_log h)) ++ enc_ring (h_data h)
      | None => encN 0
      end
  | _ => encN 0
  end.

(** C08 scenario: history without faults; one operation with the fault; then recovery = fresh
    process: storage dump, ListKeys, a follow-up operation, storage dump *)
Definition run_scenario (hist : list (kop * fault)) (o : kop) (f : fault) (follow : kop) : expected :=
  let '(st0, s0) := run_hist [] no_slots hist in
  let '(outcome, view, st1) :=
    match exec (kop_prog s0 o) f st0 0 with
    | Ret (r, s1) st1 k => (enc_res r ++ enc_nat k, slot_view s1 o, st1)
    | Crash st1 => (encN 2, encN 0, st1)
    end in
  let lk := match exec list_keys None st1 0 with Ret r _ _ => enc_list_keys r | Crash _ => encN 2 end in
  let '(fo, st2) :=
    match exec (kop_prog no_slots follow) None st1 0 with
    | Ret (r, _) st2 _ => (enc_res r, st2)
    | Crash st2 => (encN 2, st2)
    end in
  XOk [outcome; view; enc_storage st1; lk; fo; enc_storage st2].

(** C17 schedule: history; then handles WITHOUT a key ring object (the rings they open may not
    exist yet) run their programs under the granted sequence of steps. Every granted step carries
    the back-end call the implementation made ([call_tag]): the replay counts the steps where the
    model's handle is not about to make that very call (or cannot step), so a change of the lock
    scope of an operation is a disagreement even when the final state happens to be the same. *)
Definition call_tag (c : bcall) : N :=
  match c with
  | BLock => 0 | BUnlock => 1 | BRLock => 2 | BRUnlock => 3
  | BGet _ => 4 | BPut _ _ => 5 | BRemove _ => 6 | BRename _ _ => 7 | BList => 8
  | _ => 9
  end%N.

Fixpoint grun_tr (g : gstate) (sched : list (nat * N)) (bad : nat) : gstate * nat :=
  match sched with
  | [] => (g, bad)
  | (i, tag) :: rest =>
      let agree :=
        match nth_error (g_hs g) i with
        | Some h => match head_call (settled h) with Some c => N.eqb (call_tag c) tag | None => false end
        | None => false
        end in
      match gstep g i with
      | Some g' => grun_tr g' rest (if agree then bad else S bad)
      | None => grun_tr g rest (S bad)
      end
  end.

Definition enc_view (hr : option hring) : bytes :=
  match hr with Some h => encN 1 ++ enc_ring (h_data h) | None => encN 0 end.

Definition obs_handle (h : handle) : bytes :=
  enc_nat (length (hd_todo (settled h))) ++ flat_map enc_res (rev (hd_out (settled h))) ++ enc_view (hd_ring (settled h)).

Definition run_sched (hist : list (kop * fault)) (progs : list (list hop)) (sched : list (nat * N)) : expected :=
  let '(st0, _) := run_hist [] no_slots hist in
  let hs := map (fun p => mk_handle None p None []) progs in
  let '(g, bad) := grun_tr (mk_g st0 LFree hs) sched 0 in
  XOk (enc_nat bad :: enc_storage (g_st g) :: map obs_handle (g_hs g)).

(** C17 schedule over the EXTENDED alphabet (Model/KeystoreSerial.v): writers and readers
    (OpenKeyRing, ListKeys) are all handles of the generic machine; same call-tag discipline *)
Definition enc_rids (l : list (N * Z)) : bytes :=
  enc_nat (length l) ++ flat_map (fun p => encN (fst p)) (sort_pairs l).
Definition enc_xres (r : xres) : bytes :=
  match r with
  | XZ z => enc_res z
  | XKeys (Ok l) => encN 0 ++ enc_rids l
  | XKeys (Err _) => encN 1
  | XKeys Panic => encN 3
  end.

Fixpoint xrun_tr (g : xstate') (sched : list (nat * N)) (bad : nat) : xstate' * nat :=
  match sched with
  | [] => (g, bad)
  | (i, tag) :: rest =>
      let agree := match xnext_call xop_prog g i with Some c => N.eqb (call_tag c) tag | None => false end in
      match xstep xop_prog g i with
      | Some g' => xrun_tr g' rest (if agree then bad else S bad)
      | None => xrun_tr g rest (S bad)
      end
  end.

Definition obs_xhandle (h : xhandle') : bytes :=
  let h' := xsettled xop_prog h in
  enc_nat (length (xh_todo h')) ++ flat_map enc_xres (rev (xh_out h')) ++ enc_view (xh_loc h').

Definition run_schedx (hist : list (kop * fault)) (progs : list (list xop)) (sched : list (nat * N)) : expected :=
  let '(st0, _) := run_hist [] no_slots hist in
  let '(g, bad) := xrun_tr (mk_x st0 LFree (map xfresh progs)) sched 0 in
  XOk (enc_nat bad :: enc_storage (x_st g) :: map obs_xhandle (x_hs g)).

Definition run (o : op) : expected :=
  match o with
  | Scenario hist x f follow => run_scenario hist x f follow
  | Sched hist progs sched => run_sched hist progs sched
  | SchedX hist progs sched => run_schedx hist progs sched
  end.

Fixpoint list_bytes_eqb (a b : list bytes) : bool :=
  match a, b with
  | [], [] => true
  | x :: a', y :: b' => bytes_eqb x y && list_bytes_eqb a' b'
  | _, _ => false
  end.

Definition expected_eqb (a b : expected) : bool :=
  match a, b with
  | XOk x, XOk y => list_bytes_eqb x y
  | XErr, XErr => true
  | XPanic, XPanic => true
  | _, _ => false
  end.

Fixpoint mismatches_from (i : nat) (cs : list (op * expected)) : list (nat * expected) :=
  match cs with
  | [] => []
  | (o, e) :: rest =>
      let m := run o in
      if expected_eqb m e then mismatches_from (S i) rest else (i, m) :: mismatches_from (S i) rest
  end.
Definition mismatches := mismatches_from 0.
