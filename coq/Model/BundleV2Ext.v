(** KeyStore.ExportKeyRings / ImportKeyRings of keystore v2 end to end (C18 extension):
    keystore/v2/keystore/filesystem/keyStore.go ExportKeyRings, ImportKeyRings and export.go
    encryptAndSignKeyRings / decryptAndVerifyKeyRings, composed from the ring layer
    (Model/KeyRingV2Ext.v), the DER layout of EncryptedKeys (Model/DerV2Ext.v) and the sealed and
    signed container (Model/Notary.v: [bundle_term], [open_bundle]; the DER of the outer
    SignedContainer around the ciphertext is the harness', its payload bytes are what is signed).
    No proofs here (Proofs/BundleV2Ext.v). *)
From Coq Require Import List NArith ZArith Bool.
From Acra Require Import Lib.Bytes Lib.Outcome Crypto.Interface Gen.KsConsts Gen.X18Consts
  Model.KeyAtRest Model.Notary Model.DerV2Ext Model.KeyRingV2Ext.
Import ListNotations.

Section Bundle.
  Variable mac : bytes -> bytes -> bytes.
  Variable C : crypto.

  (** the plaintext of the bundle and its sealed form (fresh access encryption key, one nonce) *)
  Definition export_bundle (master : bytes) (b : backend) (mode : N) (paths : list bytes)
             (enc_key nonce : bytes) : res (bytes * content) :=
    do rs <- export_rings C master b mode paths;
    match bundle_term enc_key nonce (der_rings rs) with
    | Some t => Ok (der_rings rs, t)
    | None => Err E_ENCRYPT
    end.

  Definition imp_fail (b : backend) (tape : list bytes) (e : res unit) : imp :=
    {| im_b := b; im_tape := tape; im_events := []; im_res := e |}.

  (** ImportKeyRings: verify, decrypt, decode, then ring by ring *)
  Definition import_bundle (algs sigs : list (bytes * bytes)) (enc_key payload enc : bytes)
             (master : bytes) (deleg : ring -> ring -> decision) (b : backend) (tape : list bytes) : imp :=
    match open_bundle mac C algs sigs enc_key payload enc with
    | Ok ser =>
        match parse_rings ser with
        | Some rs => import_rings C master deleg b tape rs
        | None => imp_fail b tape (Err E_PARSE)
        end
    | Err e => imp_fail b tape (Err e)
    | Panic => imp_fail b tape Panic
    end.
End Bundle.
