(** Replay of implementation observations of domain c07open (C07: stored bytes changed while the key
    store is open) on Model/RingStore.v (keystore v2, HMAC-SHA-256 signatures) and on the v1 state
    machine of Model/KeyAtRest.v extended with an adversary write ([K1Poke]). *)
From Coq Require Import List NArith ZArith Bool.
From Acra Require Import Lib.Bytes Lib.Outcome Lib.Sha256 Crypto.Interface Crypto.Stub Gen.KsConsts Model.Notary.
From Acra Require Export Model.Path Model.KeyAtRest.
From Acra Require Export Model.RingStore.
Import ListNotations.

Inductive expected := XOk (vals : list bytes) | XErr | XPanic.

(** long byte strings are written in chunks (Coq parses a number literal in quadratic time) *)
Definition hbs (l : list N) : bytes := flat_map hb l.

(** ---- keystore v2 ---- *)
(** a history step as the harness writes it: payloads are named by their index in the payload table *)
Inductive hop :=
| HOp (o : rop)
| HArm (n : nat) (p : bytes) (pidx : N) (sigs : list (bytes * bytes))
| HArmGarbage (n : nat) (p : bytes).

(** ---- keystore v1: a history step or an adversary write to a stored key file ---- *)
Inductive kop1 :=
| K1 (o : kop)
| K1Poke (k : v1kind) (id : bytes) (data : bytes).

Inductive op :=
| RingHist (key : bytes) (ptab : list (bytes * option ringv)) (enctape : list N) (ops : list hop)
| V1Open (master cachekey dir : bytes) (tape : list bytes) (ops : list kop1).

Definition n8 (n : nat) : bytes := le_enc 8 (N.of_nat n).
Definition flag (b : bool) : bytes := [if b then x01 else x00].
Definition algs1 (key : bytes) : list (bytes * bytes) := [(SHA256_OID, key)].

Section Tab.
  Variable ptab : list (bytes * option ringv).

  Fixpoint tab_find (t : list (bytes * option ringv)) (pl : bytes) : option ringv :=
    match t with
    | [] => None
    | (b, v) :: r => if bytes_eqb b pl then v else tab_find r pl
    end.
  Definition tab_decode (pl : bytes) : option ringv := tab_find ptab pl.

  Fixpoint tab_index (t : list (bytes * option ringv)) (pl : bytes) (i : nat) : nat :=
    match t with
    | [] => 999
    | (b, _) :: r => if bytes_eqb b pl then i else tab_index r pl (S i)
    end.
  Definition pidx (pl : bytes) : bytes := n8 (tab_index ptab pl 0).
  Definition tab_payload (i : N) : bytes := match nth_error ptab (N.to_nat i) with Some (b, _) => b | None => [] end.

  Definition sig_vals (sg : list (bytes * bytes)) : list bytes :=
    n8 (length sg) :: flat_map (fun a => [fst a; snd a]) sg.

  Definition ev_vals (e : ev) : list bytes :=
    match e with
    | EGet p None => [[x10]; p; [x00]]
    | EGet p (Some SGarbage) => [[x10]; p; [x01]]
    | EGet p (Some (SParsed pl sg)) => [x10] :: p :: [x02] :: pidx pl :: sig_vals sg
    | ECheck ctx pl sg ok => [[x11]; ctx; pidx pl; sg; flag ok]
    | ESign ctx pl sg => [[x12]; ctx; pidx pl; sg]
    | EPut p pl sg => [x13] :: p :: pidx pl :: sig_vals sg
    end.

  Definition outcome_vals (o : outcome) : list bytes :=
    (match o_res o with
     | Ok v => [x00] :: n8 (length v) :: v
     | Err _ => [[x01]]
     | Panic => [[x02]]
     end) ++ n8 (length (o_evs o)) :: flat_map ev_vals (o_evs o).

  Definition to_rop (h : hop) : rop :=
    match h with
    | HOp o => o
    | HArm n p i sg => RArm n p (SParsed (tab_payload i) sg)
    | HArmGarbage n p => RArm n p SGarbage
    end.
End Tab.

Definition run_ring (key : bytes) (ptab : list (bytes * option ringv)) (enctape : list N) (ops : list hop) : list bytes :=
  flat_map (outcome_vals ptab)
    (run_hist hmac_sha256 (algs1 key) (tab_decode ptab)
       (rinit (map (tab_payload ptab) enctape)) (map (to_rop ptab) ops)).

(** ---- v1 ---- *)
Definition step1 (C : crypto) (g : cfg) (s : st) (tape : list bytes) (o : kop1) : KeyAtRest.outcome :=
  match o with
  | K1 k => KeyAtRest.step C g s tape k
  | K1Poke k id data =>
      {| KeyAtRest.o_st := {| KeyAtRest.files := put (priv_path g k id) data (KeyAtRest.files s); cache := cache s |};
         o_tape := tape; KeyAtRest.o_res := Ok []; o_events := [] |}
  end.
Fixpoint run_hist1 (C : crypto) (g : cfg) (s : st) (tape : list bytes) (ops : list kop1) : list KeyAtRest.outcome :=
  match ops with
  | [] => []
  | o :: r => let x := step1 C g s tape o in x :: run_hist1 C g (KeyAtRest.o_st x) (o_tape x) r
  end.

Definition ev1_vals (e : event) : list bytes :=
  match e with
  | (SFile p, t) => [[x00]; p; encode Stub t]
  | (SCache n, t) => [[x01]; n; encode Stub t]
  end.
Definition outcome1_vals (o : KeyAtRest.outcome) : list bytes :=
  (match KeyAtRest.o_res o with
   | Ok v => [[x00]; v]
   | Err _ => [[x01]; []]
   | Panic => [[x02]; []]
   end) ++ n8 (length (o_events o)) :: flat_map ev1_vals (o_events o).

Definition run (o : op) : expected :=
  match o with
  | RingHist key ptab enctape ops => XOk (run_ring key ptab enctape ops)
  | V1Open m ck d tape ops =>
      XOk (flat_map outcome1_vals (run_hist1 Stub {| master := m; cache_key := ck; key_dir := d |} st0 tape ops))
  end.

Fixpoint list_bytes_eqb (a b : list bytes) : bool :=
  match a, b with
  | [], [] => true
  | x :: a', y :: b' => bytes_eqb x y && list_bytes_eqb a' b'
  | _, _ => false
  end.

Definition expected_eqb (a b : expected) : bool :=
  match a, b with
  | XOk x, XOk y => list_bytes_eqb x y
  | XErr, XErr => true
  | XPanic, XPanic => true
  | _, _ => false
  end.

Fixpoint mismatches_from (i : nat) (cs : list (op * expected)) : list (nat * expected) :=
  match cs with
  | [] => []
  | (o, e) :: rest =>
      let m := run o in
      if expected_eqb m e then mismatches_from (S i) rest else (i, m) :: mismatches_from (S i) rest
  end.
Definition mismatches := mismatches_from 0.
