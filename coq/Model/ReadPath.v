(** Executable model of WHICH IDENTITY the transparent write path and the transparent read path of AcraServer
    act under (part of C02), on top of the models of the stages themselves:

      write  encryptor/{postgresql,mysql}/queryDataEncryptor.go  QueryDataEncryptor.encryptWithColumnSettings
               clientID := columnSetting.ClientID(); if len(clientID) == 0 { clientID = accessContext.GetClientID() }
               return encryptor.encryptor.EncryptWithClientID(clientID, data, columnSetting)      (ChainDataEncryptor)
             pseudonymization/queryDataEncryptor.go            TokenEncryptor.EncryptWithClientID
               tokenContext := common.TokenContext{ClientID: clientID}                            (no additional context)

      read   pseudonymization/data_encoder.go                  TokenProcessor.OnColumn
               tokenContext := common.TokenContext{ClientID: accessContext.GetClientID(),
                                                   AdditionalContext: accessContext.GetAdditionalContext()}
             crypto/decryptor.go DecryptHandler.OnCryptoEnvelope, masking/dataProcessor.go Processor.Process,
             hmac/dataProcessor.go Processor.Process            keys of accessContext.GetClientID()
             (decryptor/base/accessContext.go: the access context of the CONNECTION; zone-less: no additional context)

    i.e. the WRITE path protects for the client_id of the column if the encryptor config names one, otherwise for the
    connection; the READ path reveals under the identity of the connection and never looks at the client_id of the
    column.  The stages are the ones of Model/FullChain.v (envelopes, search, masking, detector) and
    Model/IsoTokens.v (pseudoanonymizer over the encrypting token storage, which acra-server always installs).
    Token type modelled: bytes.  No proofs here. *)
From Acra Require Import Lib.Bytes Lib.Outcome Lib.GoSlice Lib.Sha256 Crypto.Interface Gen.Consts Gen.MaskConsts
  Gen.IsoTokenConsts Model.Envelope Model.EnvelopeOld Model.Masking Model.Search Model.SearchExt Model.Bytea
  Model.LegacyChain Model.FullChain Model.IsoTokens.

(** what a column processor does with the value *)
Inductive rp_kind :=
| RpTok (consistent : bool)          (* token_type: bytes ; consistent_tokenization *)
| RpEnc (fs : fc_setting).           (* encryption / search / masking: the record of Model/FullChain.v *)

(** the part of config.ColumnEncryptionSetting the two paths read *)
Record rp_setting := {
  rp_cid : bytes;                     (* ClientID(): [] = no client_id in the encryptor config *)
  rp_kind_of : rp_kind
}.

(** keystore view: identity -> what it resolves to; an identity that is not listed has no keys *)
Definition rp_keys := list (bytes * keyset).
Definition no_keys : keyset := Build_keyset None [] [] None.
Fixpoint rp_keyset (K : rp_keys) (id : bytes) : keyset :=
  match K with
  | [] => no_keys
  | (id', ks) :: r => if bytes_eqb id' id then ks else rp_keyset r id
  end.
(* the symmetric keys the token storage encryptor looks up (storage.NewSCellEncryptor over the same keystore) *)
Definition rp_tokkeys (K : rp_keys) : keystore := map (fun p => (fst p, ks_syms (snd p))) K.

(** * identity selection *)
(* QueryDataEncryptor.encryptWithColumnSettings (and the tokenize-query observers) *)
Definition rp_write_id (s : rp_setting) (conn : bytes) : bytes :=
  if is_nil (rp_cid s) then conn else rp_cid s.
(* every read-path processor: base.AccessContextFromContext(ctx).GetClientID() *)
Definition rp_read_id (s : option rp_setting) (conn : bytes) : bytes := conn.

(* TokenContext of a zone-less identity *)
Definition rp_tc (id : bytes) : token_context := Build_token_context id [].

(* a tokenized setting as the other stages see it: not searchable, no masking pattern, OnlyEncryption() = false *)
Definition fs_tokenized : fc_setting := Build_fc_setting true false false (Build_mask_setting [] 0%Z [] 0).
Definition rp_fs (s : rp_setting) : fc_setting :=
  match rp_kind_of s with RpTok _ => fs_tokenized | RpEnc fs => fs end.

Section ReadPath.
Variable C : crypto.

(** * write path: identity selection ; ChainDataEncryptor.  The token store is the state. *)
Definition rp_write_as (sch : fc_schema) (K : rp_keys) (st : store) (s : rp_setting) (id : bytes)
           (tape : list bytes) (data : bytes) : store * res bytes :=
  match rp_kind_of s with
  | RpTok consistent =>
      (* TokenEncryptor tokenizes; the later encryptors hand a tokenized setting's value on unchanged
         (EncryptHandler / ReEncryptHandler: !OnlyEncryption(); search: !IsSearchable(); masking: no pattern) *)
      step C true (rp_tokkeys K) st (TTokenize consistent (rp_tc id) tape data)
  | RpEnc fs => (st, fc_write C sch fs (rp_keyset K id) tape data)
  end.

Definition rp_write (sch : fc_schema) (K : rp_keys) (st : store) (s : rp_setting) (conn : bytes)
           (tape : list bytes) (data : bytes) : store * res bytes :=
  rp_write_as sch K st s (rp_write_id s conn) tape data.

(** * read path, parameterised by the identity the processors act under *)
(* pseudonymization.TokenProcessor.OnColumn *)
Definition rp_token_processor_as (K : rp_keys) (st : store) (s : option rp_setting) (id : bytes) (data : bytes)
  : res bytes :=
  match s with
  | Some s' =>
      match rp_kind_of s' with
      | RpTok _ => deanonymize C true (rp_tokkeys K) st (rp_tc id) data
      | RpEnc _ => Ok data
      end
  | None => Ok data
  end.

(* the subscribers between the database's decoder and encoder:
   [TokenProcessor] ; [hmac.Processor] ; detector(DecryptHandler(processor)) ; [hmac.Processor.Verifier()] *)
Definition rp_read_core_as (sch : fc_schema) (K : rp_keys) (st : store) (s : option rp_setting) (id : bytes)
           (col : bytes) : res (bytes * bool) :=
  do d <- (if fc_tok sch then rp_token_processor_as K st s id col else Ok col);
  fc_read_core C sch (option_map rp_fs s) (rp_keyset K id) d.

Definition rp_token_processor (K : rp_keys) (st : store) (s : option rp_setting) (conn : bytes) :=
  rp_token_processor_as K st s (rp_read_id s conn).
Definition rp_read_core (sch : fc_schema) (K : rp_keys) (st : store) (s : option rp_setting) (conn : bytes) :=
  rp_read_core_as sch K st s (rp_read_id s conn).

(** PgProxy.onColumnDecryption: decoder ; core ; encoder.
    A tokenized column (token_type: bytes) has data type bytes = bytea: ByteaDataTypeEncoder.Decode / Encode
    (response_on_fail = ciphertext); the other settings of this model carry no data type (Model/FullChain.v). *)
Definition rp_is_tok (s : option rp_setting) : bool :=
  match s with Some s' => match rp_kind_of s' with RpTok _ => true | RpEnc _ => false end | None => false end.

Definition rp_read_pg (sch : fc_schema) (K : rp_keys) (st : store) (s : option rp_setting) (conn : bytes)
           (binary : bool) (data : bytes) : res bytes :=
  let core := rp_read_core sch K st s conn in
  if rp_is_tok s then
    if binary then (do r <- core data; Ok (fst r))
    else
      let run (d : bytes) : res bytes :=
        do r <- core d; Ok (if is_nil (fst r) then fst r else pg_encode_hex (fst r)) in
      match decode_escaped data with
      | Ok d => run d
      | Err e => if N.eqb e E_OCTAL then run data else Err e
      | Panic => Panic
      end
  else
    let run (d : bytes) (encoded : option bytes) : res bytes :=
      match core d with
      | Ok (out, decrypted) =>
          Ok (if is_nil out then out
              else if decrypted then (if binary then out else pg_encode_hex out)
              else match encoded with Some e => e | None => out end)
      | Err e => Err e
      | Panic => Panic
      end in
    match decode_escaped data with
    | Ok d => run d (Some data)
    | Err e => if N.eqb e E_OCTAL then run data None else Err e
    | Panic => Panic
    end.

(** * histories: the writes of any connections through any settings, in order *)
Record rp_w := { w_setting : rp_setting; w_conn : bytes; w_tape : list bytes; w_data : bytes }.

Fixpoint rp_store_from (sch : fc_schema) (K : rp_keys) (st : store) (ws : list rp_w) : store :=
  match ws with
  | [] => st
  | w :: r => rp_store_from sch K (fst (rp_write sch K st (w_setting w) (w_conn w) (w_tape w) (w_data w))) r
  end.
Definition rp_store (sch : fc_schema) (K : rp_keys) (ws : list rp_w) : store := rp_store_from sch K init_store ws.

End ReadPath.
