(** Replay of implementation observations (sqlparser Parse/String/Tokenizer, sqltypes.EncodeSQL,
    encryptor/mysql UpdateExpressionValue) on the C13 model.  Every op carries what the Go code
    produced; [run] answers [XOk []] iff the model produces the same. *)
From Acra Require Import Lib.Bytes Lib.Outcome Gen.Prec. (* Lib.Outcome: imported by every generated case file *)
From Acra Require Export Model.SqlExpr.

Inductive expected := XOk (vals : list bytes) | XErr | XPanic.

Inductive op :=
| OPrint (e : expr) (ts : list tok)            (* ts = Tokenizer(String(e)) in Go *)
| OParse (ts : list tok) (r : option expr)     (* r = exported Parse(text), ts = Tokenizer(text) *)
| OWf (e : expr) (b : bool)                    (* b = Go: Parse(String(e)) is structurally e *)
| OSubst (e : expr) (path : list nat) (e' : expr) (* e' = tree after the real UpdateExpressionValue at path *)
| OEsc (v txt : bytes)                         (* txt = EncodeSQL(v) *)
| OScan (txt : bytes) (r : option (bytes * bytes)). (* Tokenizer on txt (starting at the opening quote): value, rest *)

Definition kw_tag (k : kw) : N :=
  match k with
  | KAnd => 0 | KOr => 1 | KNot => 2 | KIs => 3 | KNull => 4 | KTrue => 5 | KFalse => 6 | KBetween => 7
  | KIn => 8 | KLike => 9 | KEscape => 10 | KRegexp => 11 | KDiv => 12 | KMod => 13 | KBinary => 14
  | KUBinary => 15 | KEq => 16 | KLt => 17 | KGt => 18 | KLe => 19 | KGe => 20 | KNe => 21 | KNse => 22
  | KBitOr => 23 | KBitAnd => 24 | KShl => 25 | KShr => 26 | KPlus => 27 | KMinus => 28 | KStar => 29
  | KSlash => 30 | KPercent => 31 | KCaret => 32 | KTilde => 33 | KBang => 34 | KLParen => 35
  | KRParen => 36 | KComma => 37 | KDot => 38
  end%N.

Definition tok_eqb (a b : tok) : bool :=
  match a, b with
  | TLit t v, TLit t' v' => N.eqb t t' && bytes_eqb v v'
  | TId n, TId n' => bytes_eqb n n'
  | TK k, TK k' => N.eqb (kw_tag k) (kw_tag k')
  | _, _ => false
  end.

Fixpoint list_eqb {A} (eq : A -> A -> bool) (a b : list A) : bool :=
  match a, b with
  | [], [] => true
  | x :: a', y :: b' => eq x y && list_eqb eq a' b'
  | _, _ => false
  end.

Definition binop_tag (o : binop) : N :=
  match o with BBitAnd => 0 | BBitOr => 1 | BBitXor => 2 | BPlus => 3 | BMinus => 4 | BMult => 5 | BDiv => 6
             | BIntDiv => 7 | BMod => 8 | BShl => 9 | BShr => 10 end%N.
Definition unop_tag (o : unop) : N :=
  match o with UPlus => 0 | UMinus => 1 | UTilda => 2 | UBang => 3 | UBinary => 4 | UUBinary => 5 end%N.
Definition cmpop_tag (o : cmpop) : N :=
  match o with CEq => 0 | CLt => 1 | CGt => 2 | CLe => 3 | CGe => 4 | CNe => 5 | CNse => 6 | CIn => 7 | CNotIn => 8
             | CLike => 9 | CNotLike => 10 | CRegexp => 11 | CNotRegexp => 12 end%N.
Definition issuf_tag (s : issuf) : N :=
  match s with IsNull => 0 | IsNotNull => 1 | IsTrue => 2 | IsNotTrue => 3 | IsFalse => 4 | IsNotFalse => 5 end%N.

Fixpoint expr_eqb (a b : expr) {struct a} : bool :=
  match a, b with
  | EAnd l r, EAnd l' r' | EOr l r, EOr l' r' => expr_eqb l l' && expr_eqb r r'
  | ENot x, ENot x' | EParen x, EParen x' => expr_eqb x x'
  | ECmp o l r, ECmp o' l' r' => N.eqb (cmpop_tag o) (cmpop_tag o') && expr_eqb l l' && expr_eqb r r'
  | ECmpEsc o l r c, ECmpEsc o' l' r' c' =>
      N.eqb (cmpop_tag o) (cmpop_tag o') && expr_eqb l l' && expr_eqb r r' && expr_eqb c c'
  | ERange n l x y, ERange n' l' x' y' => Bool.eqb n n' && expr_eqb l l' && expr_eqb x x' && expr_eqb y y'
  | EIs s x, EIs s' x' => N.eqb (issuf_tag s) (issuf_tag s') && expr_eqb x x'
  | EBin o l r, EBin o' l' r' => N.eqb (binop_tag o) (binop_tag o') && expr_eqb l l' && expr_eqb r r'
  | EUn o x, EUn o' x' => N.eqb (unop_tag o) (unop_tag o') && expr_eqb x x'
  | ELit t v, ELit t' v' => N.eqb t t' && bytes_eqb v v'
  | ENull, ENull => true
  | EBool x, EBool y => Bool.eqb x y
  | ECol q n, ECol q' n' => list_eqb bytes_eqb q q' && bytes_eqb n n'
  | ETuple xs, ETuple ys =>
      (fix go (l m : list expr) {struct l} : bool :=
         match l, m with [], [] => true | x :: l', y :: m' => expr_eqb x y && go l' m' | _, _ => false end) xs ys
  | EFunc n xs, EFunc n' ys =>
      bytes_eqb n n' &&
      (fix go (l m : list expr) {struct l} : bool :=
         match l, m with [], [] => true | x :: l', y :: m' => expr_eqb x y && go l' m' | _, _ => false end) xs ys
  | _, _ => false
  end.

Definition oexpr_eqb (a b : option expr) : bool :=
  match a, b with Some x, Some y => expr_eqb x y | None, None => true | _, _ => false end.

Definition agree (b : bool) : expected := if b then XOk [] else XErr.

(** model side of "does this tree survive print -> parse" *)
Definition roundtrips (e : expr) : bool := oexpr_eqb (parse (print e)) (Some e).

Definition run (o : op) : expected :=
  match o with
  | OPrint e ts => agree (list_eqb tok_eqb (print e) ts)
  | OParse ts r => agree (oexpr_eqb (parse ts) r)
  | OWf e b =>
      (* WF trees round-trip in the model (the theorem, executed); Go agrees with the model's
         round-trip verdict; and a tree Go round-trips is WF (WF = what the yacc parser builds) *)
      agree (Bool.eqb (roundtrips e) b && (implb (wf e) (roundtrips e)) && implb b (wf e))
  | OSubst e path e' =>
      match lit_at path e, lit_at path e' with
      | Some (told, _), Some (t', v') =>
          agree (oexpr_eqb (subst path t' v' e) (Some e')
                 && implb (wf e && subst_ok told t' v') (wf e' && roundtrips e'))
      | _, _ => XErr
      end
  | OEsc v txt => agree (bytes_eqb (encode_sql v) txt)
  | OScan txt r =>
      agree (match decode_sql txt, r with
             | Some (v, rest), Some (v', rest') => bytes_eqb v v' && bytes_eqb rest rest'
             | None, None => true
             | _, _ => false
             end)
  end.

Definition expected_eqb (a b : expected) : bool :=
  match a, b with
  | XOk x, XOk y => list_eqb bytes_eqb x y
  | XErr, XErr => true
  | XPanic, XPanic => true
  | _, _ => false
  end.

Fixpoint mismatches_from (i : nat) (cs : list (op * expected)) : list (nat * expected) :=
  match cs with
  | [] => []
  | (o, e) :: rest =>
      let m := run o in
      if expected_eqb m e then mismatches_from (S i) rest else (i, m) :: mismatches_from (S i) rest
  end.
Definition mismatches := mismatches_from 0.
