(** Replay of implementation observations on the redaction model (C16).
    [Norm t]: t = the real parse tree converted to the generic tree; expected = canonical bytes of the tree
    the real walk (sqlparser.Redact with prefix ValueMask, as run by HandleRawSQLQuery) leaves behind. *)
From Coq Require Import List NArith Bool.
From Acra Require Import Lib.Bytes Lib.Outcome.
From Acra Require Export Gen.SqlSchema Model.SqlRedact.
Import ListNotations.
Local Open Scope N_scope.

Inductive expected := XOk (vals : list bytes) | XErr | XPanic.

(** [Norm t]: the tree as a term; [NormS b]: the tree in the harness's wire form (fast to elaborate) *)
(** [NormC inb outb]: both trees in wire form, cut into short chunks (a long hex literal is slow to read);
    the answer is 01 when the model's tree equals the implementation's, else the model's tree *)
Inductive op := Norm (t : tree) | NormS (b : bytes) | NormC (inb outb : list bytes).

Definition len2 (b : bytes) : bytes :=
  let n := N.of_nat (length b) in [n2b (n / 256); n2b (n mod 256)].

Fixpoint ser (t : tree) : bytes :=
  match t with
  | Node ty a kids =>
      [n2b (ty / 256); n2b (ty mod 256)] ++
      (match a with
       | ANone => [x00]
       | AVal vt val _ => [x01; n2b vt] ++ len2 val ++ val
       | AOp b => [x02; if b then x01 else x00]
       | AList nm => [x03] ++ len2 nm ++ nm
       end) ++ ser_kids kids
  end
with ser_kids (ks : forest) : bytes :=
  match ks with
  | FNil => [x00]
  | FCons f k r => [x01; n2b f] ++ ser k ++ ser_kids r
  end.

(** wire form of an input tree: as [ser], an SQLVal also carries its ok flag: 01 vt ok len2 val *)
Definition take_lv (b : bytes) : option (bytes * bytes) :=
  match b with
  | h :: l :: rest =>
      let n := N.to_nat (b2n h * 256 + b2n l) in
      if Nat.leb n (length rest) then Some (firstn n rest, skipn n rest) else None
  | _ => None
  end.

Definition parse_attr (b : bytes) : option (attr * bytes) :=
  match b with
  | t :: rest =>
      match b2n t with
      | 0 => Some (ANone, rest)
      | 1 => match rest with
             | vt :: ok :: rest1 =>
                 match take_lv rest1 with
                 | Some (v, rest2) => Some (AVal (b2n vt) v (negb (b2n ok =? 0)), rest2)
                 | None => None
                 end
             | _ => None
             end
      | 2 => match rest with f :: rest1 => Some (AOp (negb (b2n f =? 0)), rest1) | _ => None end
      | 3 => match take_lv rest with Some (v, rest2) => Some (AList v, rest2) | None => None end
      | _ => None
      end
  | [] => None
  end.

Fixpoint deser (fuel : nat) (b : bytes) : option (tree * bytes) :=
  match fuel with
  | O => None
  | S n =>
      match b with
      | h :: l :: rest =>
          match parse_attr rest with
          | Some (a, rest1) =>
              match deser_kids n rest1 with
              | Some (ks, rest2) => Some (Node (b2n h * 256 + b2n l) a ks, rest2)
              | None => None
              end
          | None => None
          end
      | _ => None
      end
  end
with deser_kids (fuel : nat) (b : bytes) : option (forest * bytes) :=
  match fuel with
  | O => None
  | S n =>
      match b with
      | t :: rest =>
          if b2n t =? 0 then Some (FNil, rest)
          else match rest with
               | f :: rest1 =>
                   match deser n rest1 with
                   | Some (k, rest2) =>
                       match deser_kids n rest2 with
                       | Some (r, rest3) => Some (FCons (b2n f) k r, rest3)
                       | None => None
                       end
                   | None => None
                   end
               | [] => None
               end
      | [] => None
      end
  end.

Definition run (o : op) : expected :=
  match o with
  | Norm t => XOk [ser (redact VALUE_MASK t)]
  | NormS b =>
      match deser (S (length b)) b with
      | Some (t, []) => XOk [ser (redact VALUE_MASK t)]
      | _ => XErr
      end
  | NormC inb outb =>
      let b := concat inb in
      match deser (S (length b)) b with
      | Some (t, []) =>
          let m := ser (redact VALUE_MASK t) in
          if bytes_eqb m (concat outb) then XOk [[x01]] else XOk [m]
      | _ => XErr
      end
  end.

Fixpoint list_bytes_eqb (a b : list bytes) : bool :=
  match a, b with
  | [], [] => true
  | x :: a', y :: b' => bytes_eqb x y && list_bytes_eqb a' b'
  | _, _ => false
  end.

Definition expected_eqb (a b : expected) : bool :=
  match a, b with
  | XOk x, XOk y => list_bytes_eqb x y
  | XErr, XErr => true
  | XPanic, XPanic => true
  | _, _ => false
  end.

(** indices (from 0) of the cases on which model and implementation differ, with the model's answer *)
Fixpoint mismatches_from (i : nat) (cs : list (op * expected)) : list (nat * expected) :=
  match cs with
  | [] => []
  | (o, e) :: rest =>
      let m := run o in
      if expected_eqb m e then mismatches_from (S i) rest else (i, m) :: mismatches_from (S i) rest
  end.
