(** From a statement tree to the ABSTRACT STATEMENT FORM the C04 session model takes as its input
    (Model/Proxy.v: [stmt], [config]), for the statement shapes that model covers: one table without alias,
    plain string literals as values, select / RETURNING lists of plain columns and `*`.

    [abstract_of d t]        the abstract statement of a tree
    [to_proxy_cfg cc cfg]    the abstract configuration of a resolution configuration; [cc sid] = the envelope
                             parameters (CProt ..) of setting number sid
    Properties/C04_resolution.v shows that the column parameters the abstract model applies to the values of
    [abstract_of d t] ([Proxy.insert_columns], [Proxy.col_setting]) are the settings the statement analysis
    selects for the same literals.  No proofs in this file. *)
From Coq Require Import String.
From Coq Require Import List Bool NArith ZArith Arith.
From Acra Require Import Lib.Bytes Lib.Outcome Model.Proxy Model.ColumnResolveSpec.
Import ListNotations.
Local Open Scope nat_scope.

Fixpoint opt_all {A} (l : list (option A)) : option (list A) :=
  match l with
  | [] => Some []
  | None :: _ => None
  | Some x :: tl => option_map (cons x) (opt_all tl)
  end.

(** a plain string literal *)
Definition str_lit (e : tree) : option bytes :=
  if isk K_SQLVal e && N.eqb (sv_type e) VT_StrVal then Some (sv_val e) else None.

Section A.
Variable d : dialect.

(** a select / RETURNING item: `*` or an unqualified column without alias *)
Definition abs_item (it : tree) : option sel_item :=
  if isk K_StarExpr it then
    (if tn_empty (fld "TableName" it) then Some SStar else None)
  else if isk K_AliasedExpr it && isk K_ColName (fld "Expr" it) && ci_empty (fld "As" it)
          && tn_empty (fld "Qualifier" (fld "Expr" it)) then Some (SCol (vfc_col d (fld "Name" (fld "Expr" it))))
  else None.

(** one table, no alias *)
Definition abs_table (te : list tree) : option bytes :=
  match te with
  | [a] => if isk K_AliasedTableExpr a && isk K_TableName (fld "Expr" a) && ti_empty (fld "As" a)
           then Some (vfc_tab d (tn_name (fld "Expr" a))) else None
  | _ => None
  end.

Definition abs_set (e : tree) : option (bytes * bytes) :=
  if tn_empty (fld "Qualifier" (fld "Name" e))
  then option_map (fun v => (vfc_col d (fld "Name" (fld "Name" e)), v)) (str_lit (fld "Expr" e))
  else None.

Definition abstract_of (t : tree) : option stmt :=
  match tkind t with
  | K_Insert =>
      let rows := fld "Rows" t in
      if nonempty (tkids (fld "OnDup" t)) || negb (isk K_Values rows) then None else
      match opt_all (map (fun tup => opt_all (map str_lit (tkids tup))) (tkids rows)),
            opt_all (map abs_item (tkids (fld "Returning" t))) with
      | Some rs, Some ret =>
          let cs := tkids (fld "Columns" t) in
          Some (Insert (vfc_tab d (tn_name (fld "Table" t)))
                       (if nonempty cs then Some (map (vfc_col d) cs) else None) rs ret)
      | _, _ => None
      end
  | K_Update =>
      if nonempty (tkids (fld "From" t)) || negb (is_nil (fld "Where" t)) then None else
      match abs_table (tkids (fld "TableExprs" t)),
            opt_all (map abs_set (tkids (fld "Exprs" t))),
            opt_all (map abs_item (tkids (fld "Returning" t))) with
      | Some tbl, Some sets, Some ret => Some (Update tbl sets None ret)
      | _, _, _ => None
      end
  | K_Select =>
      if negb (is_nil (fld "Where" t)) then None else
      match abs_table (tkids (fld "From" t)), opt_all (map abs_item (tkids (fld "SelectExprs" t))) with
      | Some tbl, Some items => Some (Select items tbl None)
      | _, _ => None
      end
  | _ => None
  end.

End A.

(** the abstract configuration: per table its `columns`, each with the envelope parameters of its setting *)
Definition col_cc (cc : N -> colcfg) (s : rtable) (c : bytes) : colcfg :=
  match col_setting s c with Some sid => cc sid | None => CPlain end.

Definition to_proxy_cfg (cc : N -> colcfg) (cfg : rcfg) : config :=
  map (fun s => (rt_name s, map (fun c => (c, col_cc cc s c)) (rt_cols s))) cfg.

(** a configuration the abstract model can express: distinct table names, every encrypted column is listed *)
Definition cfg_regular (cfg : rcfg) : Prop :=
  NoDup (map rt_name cfg) /\
  forall s, In s cfg -> forall c sid, col_setting s c = Some sid -> In c (rt_cols s).
