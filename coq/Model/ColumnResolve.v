(** Executable model of the STATEMENT ANALYSIS of the SQL proxy on sqlparser trees (encryptor/mysql:
    queryDataEncryptor.go, utils.go; encryptor/base: query_data_item.go, config/{schemaStore,tableSchema}.go;
    sqlparser/ast.go: ColIdent / TableIdent spellings), over the generic tree form of the REAL ASTs
    (Model/CensorTree.v; kinds and field names regenerated from the sources into Gen/CensorKinds.v, SQLVal type
    numbers into Gen/ColumnResolveConsts.v).

      [impl_write d cfg t]     QueryDataEncryptor.OnQuery of the ENCRYPTING instance: the literals handed to the
                               encryptor (path of the SQLVal node in the tree, setting), in call order, and the
                               placeholder numbers registered for ParameterDescription
      [impl_bind d cfg t n]    QueryDataEncryptor.OnBind with n bound values: the parameters encrypted and with
                               which setting, or the error
      [impl_read d cfg t]      OnQuery of the SETTINGS-ONLY instance (encryptor == nil): the per-result-column
                               settings left in querySelectSettings (SELECT: ParseQuerySettings /
                               MapColumnsToAliases / FindColumnInfo / findTableName; RETURNING: onReturning)

    The model is the FIXED code (patches/fix_mysql_column_resolution.diff).  [Panic] = a Go run-time panic (nil
    dereference, failed type assertion, index out of range).  A setting is identified by a number (its position
    in the configuration); a dialect is the package-level dialect of sqlparser.
    Not modelled: the literal coder (Decode is assumed to succeed on the literal; C04_mysql owns it) and the
    encryption itself.  No proofs in this file. *)
From Coq Require Import String.
From Coq Require Import List Bool NArith ZArith Arith.
From Acra Require Import Lib.Bytes Lib.Outcome.
From Acra Require Export Model.CensorTree Gen.ColumnResolveConsts.
Import ListNotations.
Local Open Scope nat_scope.

(** * Field access by NAME, resolved against the regenerated schema *)

Fixpoint cr_index_of (n : string) (fs : list string) : option nat :=
  match fs with
  | [] => None
  | f :: tl => if String.eqb f n then Some 0 else option_map S (cr_index_of n tl)
  end.

Definition fnum (k : kind) (n : string) : nat :=
  match cr_index_of n (kind_fields k) with Some i => i | None => 0 end.

Definition kidn (i : nat) (t : tree) : tree := nth i (tkids t) tnil.
Definition fld (n : string) (t : tree) : tree := kidn (fnum (tkind t) n) t.
Definition isk (k : kind) (t : tree) : bool := kind_eqb (tkind t) k.
Definition empty (b : bytes) : bool := match b with [] => true | _ => false end.
Definition nonempty {A} (l : list A) : bool := match l with [] => false | _ => true end.

(** every (kind, field) the model names; Properties/C04_resolution.v checks that the generated schema knows them *)
Definition used_fields : list (kind * string) :=
  [(K_Insert, "Table"); (K_Insert, "Columns"); (K_Insert, "Rows"); (K_Insert, "OnDup"); (K_Insert, "Returning");
   (K_Update, "TableExprs"); (K_Update, "Exprs"); (K_Update, "From"); (K_Update, "Returning");
   (K_Delete, "TableExprs"); (K_Delete, "Targets"); (K_Delete, "Returning");
   (K_Select, "SelectExprs"); (K_Select, "From");
   (K_TableName, "Name"); (K_TableName, "Qualifier"); (K_TableIdent, "v"); (K_TableIdent, "lowered"); (K_TableIdent, "quote");
   (K_ColIdent, "val"); (K_ColIdent, "lowered"); (K_ColIdent, "quote");
   (K_ColName, "Name"); (K_ColName, "Qualifier"); (K_SQLVal, "Type"); (K_SQLVal, "Val");
   (K_UpdateExpr, "Name"); (K_UpdateExpr, "Expr"); (K_ParenExpr, "Expr"); (K_UnaryExpr, "Operator"); (K_UnaryExpr, "Expr");
   (K_AliasedTableExpr, "Expr"); (K_AliasedTableExpr, "As"); (K_ParenTableExpr, "Exprs");
   (K_JoinTableExpr, "LeftExpr"); (K_JoinTableExpr, "RightExpr"); (K_Subquery, "Select"); (K_ParenSelect, "Select");
   (K_AliasedExpr, "Expr"); (K_AliasedExpr, "As"); (K_StarExpr, "TableName")]%string.

Definition fields_known : bool :=
  forallb (fun kf => match cr_index_of (snd kf) (kind_fields (fst kf)) with Some _ => true | None => false end) used_fields.

(** * Identifiers (sqlparser/ast.go) *)

Inductive dialect := DMysql (case_sensitive_tables : bool) | DPg.

(** an integer label is zero *)
Definition lab_zero (t : tree) : bool := forallb (fun b => N.eqb (b2n b) 0) (tlab t).

(** TableIdent = [quote; v; lowered] *)
Definition ti_v (t : tree) : bytes := tlab (fld "v" t).
Definition ti_empty (t : tree) : bool := empty (ti_v t).                  (* IsEmpty *)
Definition ti_lowered (t : tree) : bytes :=                               (* Lowered: cached or computed *)
  let v := ti_v t in let l := tlab (fld "lowered" t) in
  if empty v then [] else if empty l then lower v else l.
Definition ti_quoted (t : tree) : bool := negb (lab_zero (fld "quote" t)).
Definition vfc_tab (d : dialect) (t : tree) : bytes :=                    (* ValueForConfig *)
  match d with
  | DMysql cs => if cs then ti_v t else ti_lowered t
  | DPg => if ti_quoted t then ti_v t else ti_lowered t
  end.

(** ColIdent = [val; lowered; quote; unquote] *)
Definition ci_val (t : tree) : bytes := tlab (fld "val" t).
Definition ci_empty (t : tree) : bool := empty (ci_val t).
Definition ci_lowered (t : tree) : bytes :=
  let v := ci_val t in let l := tlab (fld "lowered" t) in
  if empty v then [] else if empty l then lower v else l.
Definition ci_quoted (t : tree) : bool := negb (lab_zero (fld "quote" t)).
Definition vfc_col (d : dialect) (t : tree) : bytes :=
  match d with
  | DMysql _ => ci_lowered t
  | DPg => if ci_quoted t then ci_val t else ci_lowered t
  end.
Definition ci_equal_string (t : tree) (s : bytes) : bool := bytes_eqb (ci_lowered t) (lower s).   (* EqualString *)

(** TableName = [Name; Qualifier]; IsEmpty = Name.IsEmpty *)
Definition tn_name (t : tree) : tree := fld "Name" t.
Definition tn_empty (t : tree) : bool := ti_empty (tn_name t).

(** * Configuration (encryptor/base/config): table name, `columns`, `encrypted` (column, setting number).
      The schemas and the encrypted columns live in Go maps filled in file order: a later entry with the same
      name replaces an earlier one. *)

Definition rtable := (bytes * list bytes * list (bytes * N))%type.
Definition rt_name (s : rtable) : bytes := fst (fst s).
Definition rt_cols (s : rtable) : list bytes := snd (fst s).
Definition rt_enc (s : rtable) : list (bytes * N) := snd s.
Definition rcfg := list rtable.

Fixpoint lookup_last {A} (k : bytes) (l : list (bytes * A)) : option A :=
  match l with
  | [] => None
  | (k', v) :: tl =>
      match lookup_last k tl with
      | Some x => Some x
      | None => if bytes_eqb k k' then Some v else None
      end
  end.

Definition get_schema (cfg : rcfg) (name : bytes) : option rtable :=     (* GetTableSchema *)
  lookup_last name (map (fun s => (rt_name s, s)) cfg).
Definition col_setting (s : rtable) (c : bytes) : option N := lookup_last c (rt_enc s).   (* GetColumnEncryptionSettings *)
Definition lists_col (s : rtable) (c : bytes) : bool := existsb (bytes_eqb c) (rt_cols s).
Definition knows_col (s : rtable) (c : bytes) : bool :=                    (* schemaKnowsColumn *)
  match col_setting s c with Some _ => true | None => lists_col s c end.

(** * strconv.Atoi / placeholders *)

Definition digit (b : byte) : option Z :=
  let n := b2n b in if (48 <=? n)%N && (n <=? 57)%N then Some (Z.of_N n - 48)%Z else None.

Fixpoint digits (acc : Z) (s : bytes) : option Z :=
  match s with
  | [] => Some acc
  | b :: tl => match digit b with Some x => digits (acc * 10 + x)%Z tl | None => None end
  end.

Definition MIN64 : Z := (- 2 ^ 63)%Z.
Definition MAX64 : Z := (2 ^ 63 - 1)%Z.

(** optional sign, at least one digit, nothing else; the value must fit an int (64 bit) *)
Definition atoi (s : bytes) : option Z :=
  let '(neg, body) :=
    match s with
    | b :: tl => if N.eqb (b2n b) 45 then (true, tl) else if N.eqb (b2n b) 43 then (false, tl) else (false, s)
    | [] => (false, s)
    end in
  match body with
  | [] => None
  | _ => match digits 0 body with
         | Some z => let v := if neg then (- z)%Z else z in
                     if (MIN64 <=? v)%Z && (v <=? MAX64)%Z then Some v else None
         | None => None
         end
  end.

(** index-- on an int *)
Definition dec64 (z : Z) : Z := if (z =? MIN64)%Z then MAX64 else (z - 1)%Z.

Definition trim_prefix (p s : bytes) : bytes := if starts_with p s then skipn (length p) s else s.

Definition lit (s : string) : bytes := bytes_of_string s.

(** SQLVal = [Type; Val; CastType; unknown] *)
Definition sv_type (t : tree) : N := be_dec (tlab (fld "Type" t)).
Definition sv_val (t : tree) : bytes := tlab (fld "Val" t).

Definition ph_prefix (ty : N) : option bytes :=
  if N.eqb ty VT_ValArg then Some (lit ":v") else if N.eqb ty VT_PgPlaceholder then Some (lit "$") else None.

(** ParsePlaceholderIndex: [None] = an error (not a placeholder, or its text is not a number) *)
Definition ph_index (v : tree) : option Z :=
  match ph_prefix (sv_type v) with
  | Some p => option_map dec64 (atoi (trim_prefix p (sv_val v)))
  | None => None
  end.

(** * Values: unwrapValue / UpdateExpressionValue *)

Definition is_space (b : byte) : bool :=
  let n := b2n b in N.eqb n 32 || ((9 <=? n)%N && (n <=? 13)%N).
Fixpoint drop_space (s : bytes) : bytes :=
  match s with b :: tl => if is_space b then drop_space tl else s | [] => [] end.
Definition trim_space (s : bytes) : bytes := rev (drop_space (rev (drop_space s))).

Definition is_binary_op (op : tree) : bool := bytes_eqb (trim_space (tlab op)) (lit "_binary").

(** unwrapValue: the node below parentheses / a _binary introducer directly in front of a value, with its
    relative path *)
Fixpoint unwrap (t : tree) (u : unit) {struct t} : list nat * tree :=
  let '(T k _ cs) := t in
  match k with
  | K_ParenExpr =>
      let i := fnum K_ParenExpr "Expr" in
      let '(p, r) := nth i (map unwrap cs) (fun _ => ([], tnil)) u in (i :: p, r)
  | K_UnaryExpr =>
      let i := fnum K_UnaryExpr "Expr" in
      let e := nth i cs tnil in
      if isk K_SQLVal e && is_binary_op (nth (fnum K_UnaryExpr "Operator") cs tnil) then ([i], e) else ([], t)
  | _ => ([], t)
  end.

(** the literal types UpdateExpressionValue processes ... *)
Definition uev_type (ty : N) : bool :=
  N.eqb ty VT_StrVal || N.eqb ty VT_HexVal || N.eqb ty VT_PgEscapeString || N.eqb ty VT_IntVal ||
  N.eqb ty VT_HexNum || N.eqb ty VT_BitVal.
(** ... and the MySQL DBDataCoder decodes (any other: ErrUnsupportedExpression = leave unchanged) *)
Definition coder_type (ty : N) : bool :=
  N.eqb ty VT_IntVal || N.eqb ty VT_StrVal || N.eqb ty VT_HexVal || N.eqb ty VT_HexNum || N.eqb ty VT_BitVal.

(** a literal the encryptor callback is invoked on: empty data is left alone *)
Definition enc_literal (v : tree) : bool :=
  isk K_SQLVal v && uev_type (sv_type v) && coder_type (sv_type v) && negb (empty (sv_val v)).

(** UpdateExpressionValue: relative path of the literal that is replaced *)
Fixpoint uev (t : tree) (u : unit) {struct t} : option (list nat) :=
  let '(T k _ cs) := t in
  match k with
  | K_UnaryExpr =>
      let i := fnum K_UnaryExpr "Expr" in
      let e := nth i cs tnil in
      if isk K_SQLVal e && is_binary_op (nth (fnum K_UnaryExpr "Operator") cs tnil)
      then (if enc_literal e then Some [i] else None) else None
  | K_ParenExpr =>
      let i := fnum K_ParenExpr "Expr" in
      option_map (cons i) (nth i (map uev cs) (fun _ => None) u)
  | K_SQLVal => if enc_literal t then Some [] else None
  | _ => None
  end.

(** * Write path, text protocol *)

Inductive sel :=
| SLit (path : list nat) (sid : N)     (* the literal at [path] was encrypted with setting sid *)
| SBind (i : Z) (sid : N).              (* bindPlaceholders[i] = setting *)

(** encryptExpression; [pp] = path of the expression *)
Definition enc_expr (pp : list nat) (e : tree) (s : rtable) (col : bytes) : list sel :=
  match col_setting s col with
  | None => []
  | Some sid =>
      let v := snd (unwrap e tt) in
      (if isk K_SQLVal v then match ph_index v with Some i => [SBind i sid] | None => [] end else [])
      ++ match uev e tt with Some p => [SLit (pp ++ p) sid] | None => [] end
  end.

Fixpoint mapi_from {A B} (i : nat) (f : nat -> A -> B) (l : list A) : list B :=
  match l with [] => [] | x :: tl => f i x :: mapi_from (S i) f tl end.
Definition mapi {A B} (f : nat -> A -> B) (l : list A) : list B := mapi_from 0 f l.

(** GetTablesWithAliases: (TableName, As) of every plain table of the table expressions, in order *)
Fixpoint tables_of (t : tree) (u : unit) {struct t} : res (list (tree * tree)) :=
  let '(T k _ cs) := t in
  let sub := map tables_of cs in
  let at_ i := nth i sub (fun _ => Ok []) u in
  match k with
  | K_AliasedTableExpr =>
      let e := nth (fnum K_AliasedTableExpr "Expr") cs tnil in
      if is_nil e then Panic                    (* statement.Expr.(sqlparser.SimpleTableExpr) on nil *)
      else if isk K_TableName e then Ok [(e, nth (fnum K_AliasedTableExpr "As") cs tnil)] else Ok []
  | K_ParenTableExpr => at_ (fnum K_ParenTableExpr "Exprs")
  | K_TableExprs =>
      fold_right (fun f acc => do l <- f u; do r <- acc; Ok (l ++ r)) (Ok []) sub
  | K_JoinTableExpr =>
      do l <- at_ (fnum K_JoinTableExpr "LeftExpr");
      do r <- at_ (fnum K_JoinTableExpr "RightExpr");
      Ok (l ++ r)
  | _ => Ok []
  end.

Fixpoint tables_of_list (ts : list tree) : res (list (tree * tree)) :=
  match ts with
  | [] => Ok []
  | t :: tl => do l <- tables_of t tt; do r <- tables_of_list tl; Ok (l ++ r)
  end.

Section Cfg.
Variable d : dialect.
Variable cfg : rcfg.

Definition tab_schema (tn : tree) : option rtable := get_schema cfg (vfc_tab d (tn_name tn)).

Definition has_tables (tabs : list (tree * tree)) : bool :=          (* hasTablesToEncrypt *)
  existsb (fun ta => match tab_schema (fst ta) with Some _ => true | None => false end) tabs.

(** NewAliasToTableMapFromTables (later entries replace earlier ones: [lookup_last]) *)
Definition alias_map (tabs : list (tree * tree)) : list (bytes * bytes) :=
  map (fun ta => let n := vfc_tab d (tn_name (fst ta)) in
                 (if ti_empty (snd ta) then n else vfc_tab d (snd ta), n)) tabs.

Fixpoint first_knowing (tabs : list (tree * tree)) (col : bytes) : option rtable :=
  match tabs with
  | [] => None
  | ta :: tl =>
      match tab_schema (fst ta) with
      | Some s => if knows_col s col then Some s else first_knowing tl col
      | None => first_knowing tl col
      end
  end.

(** updateTarget: schema (if configured) and column name of a SET target; [name] = the *ColName, [upd] = the
    updated tables (tables[:updated]), [tabs] = all tables of the statement *)
Definition upd_target (name : tree) (upd tabs : list (tree * tree)) : res (option rtable * bytes) :=
  if is_nil name then Panic else
  let col := vfc_col d (fld "Name" name) in
  let q := fld "Qualifier" name in
  if negb (tn_empty q) then
    Ok (match lookup_last (vfc_tab d (tn_name q)) (alias_map tabs) with
        | Some tname => get_schema cfg tname
        | None => None
        end, col)
  else
    match first_knowing upd col with
    | Some s => Ok (Some s, col)
    | None => match tabs with
              | [] => Panic                      (* tables[0] *)
              | ta :: _ => Ok (tab_schema (fst ta), col)
              end
    end.

(** encryptUpdateExpressions; [pp] = path of the UpdateExprs / OnDup node *)
Fixpoint upd_exprs (pp : list nat) (k : nat) (es : list tree) (upd tabs : list (tree * tree)) : res (list sel) :=
  match es with
  | [] => Ok []
  | e :: tl =>
      if is_nil e then Panic else               (* expr.Name on a nil *UpdateExpr *)
      do tg <- upd_target (fld "Name" e) upd tabs;
      let here := match fst tg with
                  | Some s => enc_expr (pp ++ [k; fnum K_UpdateExpr "Expr"]) (fld "Expr" e) s (snd tg)
                  | None => []
                  end in
      do rest <- upd_exprs pp (S k) tl upd tabs;
      Ok (here ++ rest)
  end.

Definition insert_cols (t : tree) (s : rtable) : list bytes :=
  let cs := tkids (fld "Columns" t) in
  if nonempty cs then map (vfc_col d) cs else rt_cols s.

(** encryptInsertQuery *)
Definition impl_insert (t : tree) : res (list sel) :=
  let table := fld "Table" t in
  match tab_schema table with
  | None => Ok []
  | Some s =>
      let cols := insert_cols t s in
      let rows := fld "Rows" t in
      let fr := fnum K_Insert "Rows" in
      let vals :=
        if nonempty cols && isk K_Values rows then
          concat (mapi (fun i tup =>
            concat (mapi (fun j v => match nth_error cols j with
                                     | Some c => enc_expr [fr; i; j] v s c
                                     | None => []
                                     end) (tkids tup))) (tkids rows))
        else [] in
      let od := tkids (fld "OnDup" t) in
      do dup <- (if nonempty od then upd_exprs [fnum K_Insert "OnDup"] 0 od [(table, tnil)] [(table, tnil)] else Ok []);
      Ok (vals ++ dup)
  end.

(** encryptUpdateQuery *)
Definition impl_update (t : tree) : res (list sel) :=
  let te := tkids (fld "TableExprs" t) in
  if negb (nonempty te) then Ok [] else
  do upd <- tables_of_list te;
  do fr <- tables_of_list (tkids (fld "From" t));
  let tabs := upd ++ fr in
  if negb (has_tables tabs) then Ok [] else
  if negb (nonempty upd) then Ok [] else
  upd_exprs [fnum K_Update "Exprs"] 0 (tkids (fld "Exprs" t)) upd tabs.

(** onDelete of the encrypting instance: no value is touched *)
Definition impl_delete_w (t : tree) : res (list sel) :=
  let te := tkids (fld "TableExprs" t) in
  if negb (nonempty te) then Ok [] else
  do _ <- tables_of_list (te ++ tkids (fld "Targets" t));
  Ok [].

Definition impl_write (t : tree) : res (list sel) :=
  match tkind t with
  | K_Insert => impl_insert t
  | K_Update => impl_update t
  | K_Delete => impl_delete_w t
  | _ => Ok []
  end.

(** * Write path, bound values (OnBind) *)

Definition E_ATOI : N := 20.           (* strconv.Atoi failed on the placeholder text *)
Definition E_INVALID_PH : N := 21.     (* base.ErrInvalidPlaceholder *)
Definition E_INCONSISTENT : N := 22.   (* ErrInconsistentPlaceholder *)

Fixpoint zassoc {A} (i : Z) (l : list (Z * A)) : option A :=
  match l with
  | [] => None
  | (j, v) :: tl => if (i =? j)%Z then Some v else zassoc i tl
  end.

(** updatePlaceholderMap: placeholder index -> name of its column *)
Definition upd_phmap (n : nat) (pm : list (Z * bytes)) (v : tree) (col : bytes) : res (list (Z * bytes)) :=
  match ph_prefix (sv_type v) with
  | None => Ok pm
  | Some p =>
      match atoi (trim_prefix p (sv_val v)) with
      | None => Err E_ATOI
      | Some z =>
          let i := dec64 z in
          if (i <? 0)%Z || (Z.of_nat n <=? i)%Z then Err E_INVALID_PH else
          match zassoc i pm with
          | Some c => if bytes_eqb c col then Ok pm else Err E_INCONSISTENT
          | None => Ok ((i, col) :: pm)
          end
      end
  end.

(** rows of VALUES: the placeholders of the first len(columns) values of every tuple *)
Fixpoint bind_tuple (n : nat) (cols : list bytes) (vs : list tree) (pm : list (Z * bytes)) : res (list (Z * bytes)) :=
  match vs, cols with
  | v :: vs', c :: cols' =>
      let x := snd (unwrap v tt) in
      do pm' <- (if isk K_SQLVal x then upd_phmap n pm x c else Ok pm);
      bind_tuple n cols' vs' pm'
  | _, _ => Ok pm
  end.

Fixpoint bind_rows (n : nat) (cols : list bytes) (rows : list tree) (pm : list (Z * bytes)) : res (list (Z * bytes)) :=
  match rows with
  | [] => Ok pm
  | r :: tl => do pm' <- bind_tuple n cols (tkids r) pm; bind_rows n cols tl pm'
  end.

Fixpoint bind_ondup (n : nat) (tname : bytes) (es : list tree) (pm : list (Z * bytes)) : res (list (Z * bytes)) :=
  match es with
  | [] => Ok pm
  | e :: tl =>
      if is_nil e then Panic else
      let name := fld "Name" e in
      if is_nil name then Panic else
      let q := fld "Qualifier" name in
      if negb (tn_empty q) && negb (bytes_eqb (vfc_tab d (tn_name q)) tname) then bind_ondup n tname tl pm else
      let x := snd (unwrap (fld "Expr" e) tt) in
      do pm' <- (if isk K_SQLVal x then upd_phmap n pm x (vfc_col d (fld "Name" name)) else Ok pm);
      bind_ondup n tname tl pm'
  end.

(** sorted by index, one entry per index *)
Fixpoint zinsert {A} (i : Z) (v : A) (l : list (Z * A)) : list (Z * A) :=
  match l with
  | [] => [(i, v)]
  | (j, w) :: tl => if (i <? j)%Z then (i, v) :: l else if (i =? j)%Z then (i, v) :: tl else (j, w) :: zinsert i v tl
  end.
Definition zsort {A} (l : list (Z * A)) : list (Z * A) := fold_right (fun iv acc => zinsert (fst iv) (snd iv) acc) [] l.

(** encryptInsertValues: the parameters that are encrypted *)
Definition bind_insert (t : tree) (n : nat) : res (list (Z * N)) :=
  let table := fld "Table" t in
  match tab_schema table with
  | None => Ok []
  | Some s =>
      let cols := insert_cols t s in
      let rows := fld "Rows" t in
      do pm1 <- (if isk K_Values rows then bind_rows n cols (tkids rows) [] else Ok []);
      do pm2 <- bind_ondup n (vfc_tab d (tn_name table)) (tkids (fld "OnDup" t)) pm1;
      Ok (zsort (flat_map (fun ic => match col_setting s (snd ic) with Some sid => [(fst ic, sid)] | None => [] end) pm2))
  end.

(** encryptUpdateValues: placeholder -> "table.column" must be unique; the settings of the encrypted ones *)
Fixpoint bind_update_exprs (n : nat) (es : list tree) (upd tabs : list (tree * tree))
    (pm : list (Z * bytes)) (st : list (Z * N)) : res (list (Z * N)) :=
  match es with
  | [] => Ok st
  | e :: tl =>
      if is_nil e then Panic else
      let x := snd (unwrap (fld "Expr" e) tt) in
      if negb (isk K_SQLVal x) then bind_update_exprs n tl upd tabs pm st else
      do tg <- upd_target (fld "Name" e) upd tabs;
      let key := (match fst tg with Some s => rt_name s | None => [] end) ++ lit "." ++ snd tg in
      do pm' <- upd_phmap n pm x key;
      let st' := match fst tg with
                 | Some s => match col_setting s (snd tg), ph_index x with
                             | Some sid, Some i => (i, sid) :: st
                             | _, _ => st
                             end
                 | None => st
                 end in
      bind_update_exprs n tl upd tabs pm' st'
  end.

Definition bind_update (t : tree) (n : nat) : res (list (Z * N)) :=
  do upd <- tables_of_list (tkids (fld "TableExprs" t));
  do fr <- tables_of_list (tkids (fld "From" t));
  let tabs := upd ++ fr in
  if negb (nonempty upd) || negb (has_tables tabs) then Ok [] else
  do st <- bind_update_exprs n (tkids (fld "Exprs" t)) upd tabs [] [];
  Ok (zsort st).

Definition impl_bind (t : tree) (n : nat) : res (list (Z * N)) :=
  match tkind t with
  | K_Insert => bind_insert t n
  | K_Update => bind_update t n
  | _ => Ok []
  end.

(** * Read path *)

Definition E_NOTFOUND : N := 10.       (* errNotFoundtable *)
Definition E_NOTSUPP : N := 11.        (* errNotSupported *)
Definition E_MATCHED : N := 12.        (* errTableAlreadyMatched *)
Definition E_NOTMATCHED : N := 13.     (* errAliasedTableNotMatched *)
Definition E_EMPTY : N := 14.          (* errEmptyTableExprs *)
Definition E_UNSUPPORTED : N := 15.    (* base.ErrUnsupportedExpression *)
Definition E_MORE1 : N := 16.          (* "more than 1 table without alias" *)
Definition E_UNKNOWN_TABLE : N := 17.  (* "error to collect settings for unknown table" *)

Definition at_expr (t : tree) : tree := fld "Expr" t.
Definition at_as (t : tree) : tree := fld "As" t.

Definition non_aliased_name (a : tree) : option bytes :=       (* getNonAliasedName *)
  if negb (ti_empty (at_as a)) then None
  else if isk K_TableName (at_expr a) then Some (vfc_tab d (tn_name (at_expr a))) else None.

Definition aliased_name (a : tree) : option bytes :=           (* getAliasedName *)
  if negb (isk K_TableName (at_expr a)) then None
  else if ti_empty (at_as a) then None else Some (vfc_tab d (at_as a)).

(** getJoinFirstTableWithoutAlias *)
Fixpoint join_first (t : tree) (u : unit) {struct t} : option bytes :=
  let '(T k _ cs) := t in
  match k with
  | K_JoinTableExpr =>
      let i := fnum K_JoinTableExpr "LeftExpr" in
      let l := nth i cs tnil in
      if isk K_AliasedTableExpr l then non_aliased_name l
      else if isk K_JoinTableExpr l then nth i (map join_first cs) (fun _ => None) u
      else None
  | _ => None
  end.

(** getFirstTableWithoutAlias *)
Fixpoint first_plain_loop (from : list tree) (name : bytes) : res bytes :=
  match from with
  | [] => if empty name then Err E_NOTFOUND else Ok name
  | e :: tl =>
      if isk K_AliasedTableExpr e then
        match non_aliased_name e with
        | Some n => if empty name then first_plain_loop tl n else Err E_MORE1
        | None => first_plain_loop tl name
        end
      else first_plain_loop tl name
  end.

Definition first_table_without_alias (from : list tree) : res bytes :=
  match from with
  | [] => Err E_EMPTY
  | f0 :: _ =>
      if isk K_JoinTableExpr f0 then
        match join_first f0 tt with Some n => Ok n | None => Err E_NOTFOUND end
      else first_plain_loop from []
  end.

(** getMatchedTable *)
Fixpoint matched_loop (from : list tree) (col : bytes) (found : bytes) : res bytes :=
  match from with
  | [] => if empty found then Err E_NOTMATCHED else Ok found
  | e :: tl =>
      if negb (isk K_AliasedTableExpr e) then matched_loop tl col found else
      if negb (isk K_TableName (at_expr e)) then Err E_UNSUPPORTED else
      match tab_schema (at_expr e) with
      | None => matched_loop tl col found
      | Some s =>
          if knows_col s col then
            match (if ti_empty (at_as e) then non_aliased_name e else aliased_name e) with
            | None => Err E_UNSUPPORTED
            | Some n => if empty found then matched_loop tl col n else Err E_MATCHED
            end
          else matched_loop tl col found
      end
  end.

Definition matched_table (from : list tree) (col : bytes) : res bytes :=
  match from with
  | [] => Err E_EMPTY
  | f0 :: _ =>
      if isk K_JoinTableExpr f0 then
        match join_first f0 tt with Some n => Ok n | None => Err E_NOTFOUND end
      else matched_loop from col []
  end.

(** first result without error *)
Fixpoint first_ok {A} (rs : list (res A)) : res A :=
  match rs with
  | [] => Err E_NOTFOUND
  | Ok x :: _ => Ok x
  | Panic :: _ => Panic
  | Err _ :: tl => first_ok tl
  end.

(** findTableName: (column name, table name) *)
Fixpoint ftn (t : tree) (alias col : bytes) {struct t} : res (bytes * bytes) :=
  let '(T k _ cs) := t in
  let sub := map ftn cs in
  let at_ i := nth i sub (fun _ _ => Err E_NOTFOUND) in
  match k with
  | K_TableExprs => first_ok (map (fun f => f alias col) sub)
  | K_TableName =>
      if bytes_eqb alias (vfc_tab d (nth (fnum K_TableName "Name") cs tnil)) then Ok (col, alias) else Err E_NOTFOUND
  | K_AliasedTableExpr =>
      let ie := fnum K_AliasedTableExpr "Expr" in
      let e := nth ie cs tnil in
      let a := nth (fnum K_AliasedTableExpr "As") cs tnil in
      if ti_empty a then at_ ie alias col
      else if bytes_eqb (vfc_tab d a) alias then
        (if isk K_TableName e then at_ ie (vfc_tab d (tn_name e)) col else at_ ie [] col)
      else Err E_NOTFOUND
  | K_Subquery => at_ (fnum K_Subquery "Select") alias col
  | K_ParenSelect => at_ (fnum K_ParenSelect "Select") alias col
  | K_ParenTableExpr => at_ (fnum K_ParenTableExpr "Exprs") alias col
  | K_Union => Err E_NOTSUPP
  | K_JoinTableExpr =>
      match at_ (fnum K_JoinTableExpr "LeftExpr") alias col with
      | Err e => if N.eqb e E_NOTFOUND then at_ (fnum K_JoinTableExpr "RightExpr") alias col else Err e
      | r => r
      end
  | K_Select =>
      let ifrom := fnum K_Select "From" in
      let from := tkids (nth ifrom cs tnil) in
      (fix loop (es : list tree) : res (bytes * bytes) :=
         match es with
         | [] => Err E_NOTFOUND
         | e :: tl =>
             if negb (isk K_AliasedExpr e) then loop tl else
             let a := at_as e in
             let x := at_expr e in
             if ci_empty a then
               if negb (isk K_ColName x) then loop tl else
               if negb (ci_equal_string (fld "Name" x) col) then loop tl else
               if tn_empty (fld "Qualifier" x) then
                 match first_table_without_alias from with
                 | Ok ft => Ok (col, ft)
                 | _ => loop tl
                 end
               else at_ ifrom (vfc_tab d (tn_name (fld "Qualifier" x))) (vfc_col d (fld "Name" x))
             else if ci_equal_string a alias || (empty alias && ci_equal_string a col) then
               if negb (isk K_ColName x) then loop tl else
               if empty (ti_v (tn_name (fld "Qualifier" x))) then
                 match first_table_without_alias from with
                 | Ok ft => at_ ifrom ft (vfc_col d (fld "Name" x))
                 | Err er => Err er
                 | Panic => Panic
                 end
               else at_ ifrom (vfc_tab d (tn_name (fld "Qualifier" x))) (vfc_col d (fld "Name" x))
             else loop tl
         end) (tkids (nth (fnum K_Select "SelectExprs") cs tnil))
  | _ => Err E_NOTFOUND
  end.

(** findTableName on a sqlparser.TableExprs value *)
Definition ftn_list (from : list tree) (alias col : bytes) : res (bytes * bytes) :=
  first_ok (map (fun t => ftn t alias col) from).

(** ColumnInfo: Name, Table, Alias *)
Definition colinfo := (bytes * bytes * bytes)%type.

(** FindColumnInfo *)
Definition find_column_info (from : list tree) (cn : tree) : res colinfo :=
  let alias := vfc_tab d (tn_name (fld "Qualifier" cn)) in
  let col := vfc_col d (fld "Name" cn) in
  do alias' <- (if empty alias then matched_table from col else Ok alias);
  do nt <- ftn_list from alias' col;
  Ok (fst nt, snd nt, alias').

(** parseJoinTablesInfo / getRightJoinTableInfo: tables in collection order, alias map *)
Definition jstate := (list bytes * list (bytes * bytes))%type.
Inductive jres := JFail | JOk (st : jstate) | JNoJoin.

Definition alias_or_name (a : tree) : bytes :=
  if ti_empty (at_as a) then vfc_tab d (tn_name (at_expr a)) else vfc_tab d (at_as a).

Fixpoint first_join_idx (i : nat) (cs : list tree) : option nat :=
  match cs with
  | [] => None
  | c :: tl => if isk K_JoinTableExpr c then Some i else first_join_idx (S i) tl
  end.

Fixpoint pjoin (t : tree) (st : jstate) {struct t} : jres :=
  let '(T k _ cs) := t in
  let sub := map pjoin cs in
  match k with
  | K_JoinTableExpr =>
      let il := fnum K_JoinTableExpr "LeftExpr" in
      let ir := fnum K_JoinTableExpr "RightExpr" in
      let l := nth il cs tnil in
      let r := nth ir cs tnil in
      (* getRightJoinTableInfo *)
      let right :=
        match (if isk K_ParenTableExpr r then nth ir sub (fun _ => JNoJoin) st else JNoJoin) with
        | JNoJoin =>
            if negb (isk K_AliasedTableExpr r) then JFail else
            if negb (isk K_TableName (at_expr r)) then JFail else
            let al := alias_or_name r in
            let n := vfc_tab d (tn_name (at_expr r)) in
            match lookup_last al (snd st) with
            | Some _ => JOk st
            | None => JOk (fst st ++ [n], snd st ++ [(al, n)])
            end
        | x => x
        end in
      match right with
      | JOk st1 =>
          if isk K_AliasedTableExpr l then
            if isk K_Subquery (at_expr l) then JOk st1 else
            if negb (isk K_TableName (at_expr l)) then JFail else
            let n := vfc_tab d (tn_name (at_expr l)) in
            JOk (fst st1 ++ [n], snd st1 ++ [(alias_or_name l, n)])
          else if isk K_JoinTableExpr l then nth il sub (fun _ => JFail) st1
          else JFail
      | _ => JFail
      end
  | K_ParenTableExpr => nth (fnum K_ParenTableExpr "Exprs") sub (fun _ => JNoJoin) st
  | K_TableExprs =>
      match first_join_idx 0 cs with
      | Some i => match nth i sub (fun _ => JFail) st with JNoJoin => JFail | x => x end
      | None => JNoJoin
      end
  | _ => JNoJoin
  end.

(** getTableNameWithoutAliases *)
Definition table_name_without_aliases (e : tree) : res bytes :=
  if negb (isk K_AliasedTableExpr e) then Err E_NOTFOUND
  else if negb (isk K_TableName (at_expr e)) then Err E_NOTFOUND
  else Ok (vfc_tab d (tn_name (at_expr e))).

Definition STAR : bytes := lit "*".

Record sctx := { cx_from : list tree; cx_tabs : list bytes; cx_aliases : list (bytes * bytes) }.
Definition no_ctx : sctx := {| cx_from := []; cx_tabs := []; cx_aliases := [] |}.

Definition star_info (cx : sctx) (star : tree) : res (list (option colinfo)) :=
  let sname := tn_name (fld "TableName" star) in
  if nonempty (cx_tabs cx) then
    if negb (ti_empty sname) then
      match lookup_last (vfc_tab d sname) (cx_aliases cx) with
      | Some jt => Ok [Some (STAR, jt, STAR)]
      | None => Err E_UNSUPPORTED
      end
    else Ok (map (fun t => Some (STAR, t, STAR)) (rev (cx_tabs cx)))
  else if negb (ti_empty sname) then
    do nt <- ftn_list (cx_from cx) (vfc_tab d sname) (vfc_tab d sname); Ok [Some (STAR, snd nt, STAR)]
  else
    (fix all (from : list tree) : res (list (option colinfo)) :=
       match from with
       | [] => Ok []
       | f :: tl => do n <- table_name_without_aliases f; do rest <- all tl; Ok (Some (STAR, n, STAR) :: rest)
       end) (cx_from cx).

(** MapColumnsToAliases; every node kind handles its own part, [cx] comes from the enclosing SELECT *)
Fixpoint mca (t : tree) (cx : sctx) {struct t} : res (list (option colinfo)) :=
  let '(T k _ cs) := t in
  let sub := map mca cs in
  match k with
  | K_Select =>
      let from := tkids (nth (fnum K_Select "From") cs tnil) in
      match from with
      | [] => Panic                                         (* selectQuery.From[0] *)
      | f0 :: _ =>
          do j <- (if isk K_JoinTableExpr f0 then
                     match pjoin f0 ([], []) with JOk st => Ok st | _ => Err E_UNSUPPORTED end
                   else Ok ([], []));
          let ise := fnum K_Select "SelectExprs" in
          if is_nil (nth ise cs tnil) then Ok []
          else nth ise sub (fun _ => Ok []) {| cx_from := from; cx_tabs := fst j; cx_aliases := snd j |}
      end
  | K_SelectExprs =>
      fold_right (fun f acc => do l <- f cx; do r <- acc; Ok (l ++ r)) (Ok []) sub
  | K_AliasedExpr =>
      let ie := fnum K_AliasedExpr "Expr" in
      let x := nth ie cs tnil in
      if isk K_Subquery x && isk K_Select (fld "Select" x) then
        let ses := tkids (fld "SelectExprs" (fld "Select" x)) in
        match ses with
        | [one] => if isk K_StarExpr one then Err E_UNSUPPORTED else nth ie sub (fun _ => Ok [None]) cx
        | _ => Err E_UNSUPPORTED
        end
      else if isk K_ColName x then
        match find_column_info (cx_from cx) x with
        | Ok info => Ok [Some info]
        | Err _ => Ok [None]
        | Panic => Panic
        end
      else Ok [None]
  | K_Subquery => nth (fnum K_Subquery "Select") sub (fun _ => Ok [None]) cx
  | K_StarExpr => star_info cx t
  | _ => Ok [None]
  end.

(** a result column's setting: (setting, table, column, alias) *)
Definition item := (N * bytes * bytes * bytes)%type.

(** ParseQuerySettings *)
Definition expand_info (ci : option colinfo) : list (option item) :=
  match ci with
  | None => [None]
  | Some (name, table, alias) =>
      match get_schema cfg table with
      | None => [None]
      | Some s =>
          if bytes_eqb name STAR then
            map (fun c => match col_setting s c with Some sid => Some (sid, table, c, []) | None => None end) (rt_cols s)
          else [match col_setting s name with Some sid => Some (sid, table, name, alias) | None => None end]
      end
  end.

Inductive rout :=
| RNone                                 (* querySelectSettings stays nil *)
| RItems (l : list (option item)).

Definition read_select (t : tree) : res rout :=
  do cols <- mca t no_ctx;
  Ok (RItems (flat_map expand_info cols)).

(** onReturning; [from] = the table expressions handed to it *)
Fixpoint ret_star (from : list tree) : res (list (option item)) :=
  match from with
  | [] => Ok []
  | e :: tl =>
      if negb (isk K_AliasedTableExpr e) then ret_star tl else
      if negb (isk K_TableName (at_expr e)) then ret_star tl else
      let tname := vfc_tab d (tn_name (at_expr e)) in
      match get_schema cfg tname with
      | None => Err E_UNKNOWN_TABLE
      | Some s =>
          do rest <- ret_star tl;
          Ok (map (fun c => match col_setting s c with Some sid => Some (sid, tname, c, []) | None => None end) (rt_cols s) ++ rest)
      end
  end.

Definition ret_item (from : list tree) (it : tree) : res (option item) :=
  if isk K_AliasedExpr it && isk K_ColName (at_expr it) then
    match find_column_info from (at_expr it) with
    | Ok (name, table, _) =>
        match get_schema cfg table with
        | None => Ok None
        | Some s => Ok (match col_setting s name with Some sid => Some (sid, table, name, []) | None => None end)
        end
    | Err _ => Ok None
    | Panic => Panic
    end
  else Ok None.

Fixpoint ret_items (from : list tree) (its : list tree) : res (list (option item)) :=
  match its with
  | [] => Ok []
  | it :: tl => do x <- ret_item from it; do rest <- ret_items from tl; Ok (x :: rest)
  end.

Definition on_returning (ret : list tree) (from : list tree) : res rout :=
  match ret with
  | [] => Ok RNone
  | r0 :: _ =>
      if isk K_StarExpr r0 then do l <- ret_star from; Ok (RItems l)
      else do l <- ret_items from ret; Ok (RItems l)
  end.

(** the AliasedTableExpr built around the table of an INSERT: only Expr is set *)
Definition mk_aliased (table : tree) : tree :=
  T K_AliasedTableExpr []
    (mapi (fun i _ => if Nat.eqb i (fnum K_AliasedTableExpr "Expr") then table else tnil) (kind_fields K_AliasedTableExpr)).

Definition read_insert (t : tree) : res rout :=
  let table := fld "Table" t in
  match tab_schema table with
  | None => Ok RNone
  | Some _ => on_returning (tkids (fld "Returning" t)) [mk_aliased table]
  end.

Definition read_update (t : tree) : res rout :=
  let te := tkids (fld "TableExprs" t) in
  if negb (nonempty te) then Ok RNone else
  let from := te ++ tkids (fld "From" t) in
  do upd <- tables_of_list te;
  do fr <- tables_of_list (tkids (fld "From" t));
  if negb (has_tables (upd ++ fr)) then Ok RNone else on_returning (tkids (fld "Returning" t)) from.

Definition read_delete (t : tree) : res rout :=
  let te := tkids (fld "TableExprs" t) in
  if negb (nonempty te) then Ok RNone else
  let from := te ++ tkids (fld "Targets" t) in
  do tabs <- tables_of_list from;
  if negb (has_tables tabs) then Ok RNone else on_returning (tkids (fld "Returning" t)) from.

Definition impl_read (t : tree) : res rout :=
  match tkind t with
  | K_Select => read_select t
  | K_Insert => read_insert t
  | K_Update => read_update t
  | K_Delete => read_delete t
  | _ => Ok RNone
  end.

End Cfg.
