(** Model of cmd/acra-translator/grpc_api/tls_service.go: what client id the wrapped service receives for an
    RPC arriving on a connection whose transport identity is [conn] (None: no identity can be extracted)
    with a request carrying the client id field [forged].  The per-RPC facts come from Gen/TlsWrapper.v
    (go/ast over the real file, regenerated on every run).  No proofs here. *)
From Acra Require Import Lib.Bytes Lib.Outcome Gen.TlsWrapper.

(** the shape every method of TLSDecryptServiceWrapper must have for the override to hold *)
Definition row_overrides (r : tls_row) : bool :=
  rpc_defined r && rpc_id_from_conn r && rpc_err_checked r && rpc_assigned r && rpc_deleg_ok r
  && bytes_eqb (rpc_delegates r) (rpc_name r).

Fixpoint find_rpc (name : bytes) (rows : list tls_row) : option tls_row :=
  match rows with
  | [] => None
  | r :: rest => if bytes_eqb (rpc_name r) name then Some r else find_rpc name rest
  end.

(** client id seen by the wrapped service; [Err] = the service is not reached *)
Definition tls_seen_in (rows : list tls_row) (name : bytes) (conn : option bytes) (forged : bytes) : res bytes :=
  match find_rpc name rows with
  | None => Err E_GENERIC                       (* no such RPC *)
  | Some r =>
      if negb (rpc_defined r) then Err E_GENERIC  (* Unimplemented*Server answers codes.Unimplemented *)
      else if row_overrides r then
        match conn with
        | None => Err E_GENERIC                 (* getClientID failed: returned before delegation *)
        | Some id => Ok id                      (* request.ClientId = clientID; delegate *)
        end
      else Ok forged                            (* a method that delegates without (a sound) override *)
  end.

Definition tls_seen := tls_seen_in tls_rpcs.
