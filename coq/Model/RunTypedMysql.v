(** Replay of implementation observations on the MySQL typed-column model (C19, MySQL side).
    Outcomes are [XOk (status :: values)]: status [00] = a value / accepted, [01] = base.EncodingError (error
    packet for the statement), [02] = any other error (the statement fails, connection-level),
    [03] = (nil, nil) of a type encoder, [04] = base_mysql.ErrConvertToDataType. *)
From Acra Require Export Lib.Bytes Lib.Outcome Gen.TypedConsts Gen.TypedMysqlConsts Model.Typed Model.MysqlWire Model.TypedMysql.
Local Open Scope N_scope.

Inductive expected := XOk (vals : list bytes) | XErr | XPanic.

Inductive op :=
| MLe (bits : N) (s : bytes)                         (* strconv.ParseInt(s,10,bits) then binary.Write little endian *)
| MLeDec (data : bytes)                              (* binary.Read intN little endian (N = 8 * len) then AppendInt *)
| MEnc (s : setting) (binary decrypted : bool) (data : bytes)      (* registered encoder .Encode *)
| MDec (id : N) (data : bytes)                                     (* registered encoder .Decode *)
| MFail (s : setting) (binary : bool)                              (* registered encoder .EncodeOnFail *)
| MValid (id : N) (d : bytes)                                      (* registered encoder .ValidateDefaultValue *)
| MDecP (s : setting) (ci : colinfo) (data : bytes)                (* DataDecoderProcessor.OnColumn *)
| MEncP (s : setting) (ci : colinfo) (decrypted : bool) (data : bytes)   (* DataEncoderProcessor.OnColumn *)
| MCell (s : setting) (ci : colinfo) (revealed : option bytes) (stored : bytes)   (* decoder, reveal, encoder *)
| MField (os : option setting) (cd : coldef)                       (* updateFieldEncodedType + Dump *)
| MRow (s : setting) (binary : bool) (cd0 : coldef) (revealed : option bytes) (row : bytes)
                                                     (* updateFieldEncodedType, process{Text,Binary}DataRow, Dump *)
| MRows (s : setting) (binary : bool) (cd0 : coldef) (rows : list (option bytes * bytes)).
                                                     (* the rows of one result set, then the column definition *)

Definition st (n : N) : bytes := [n2b n].
Definition flag (b : bool) : bytes := [if b then x01 else x00].
Definition opt_bytes (o : option bytes) : list bytes := match o with Some v => [flag true; v] | None => [flag false] end.

Definition err_status (e : N) : expected :=
  if e =? E_ENCODING then XOk [st 1]
  else if e =? E_CONVERT then XOk [st 4]
  else if e =? E_UNMODELLED then XErr
  else XOk [st 2].
Definition canon {A} (f : A -> list bytes) (r : res A) : expected :=
  match r with Ok a => XOk (st 0 :: f a) | Err e => err_status e | Panic => XPanic end.

Definition enc_vals (o : option bytes) : expected :=
  match o with Some v => XOk [st 0; v] | None => XOk [st 3] end.

Definition cd_vals (cd : coldef) : list bytes := [my_dump_tail cd; [n2b (cd_origin cd)]; flag (cd_changed cd)].

Definition run (o : op) : expected :=
  match o with
  | MLe bits s =>
      match parse_int bits s with
      | Some z => XOk [st 0; le_of_int (N.to_nat (bits / 8)) z]
      | None => XOk [st 2]
      end
  | MLeDec data => XOk [print_int (int_of_le data)]
  | MEnc s binary decrypted data =>
      match my_encoder_for (s_type_id s) with
      | Some k => match my_type_encode k s binary decrypted data with
                  | Ok o => enc_vals o
                  | Err e => err_status e
                  | Panic => XPanic
                  end
      | None => XErr
      end
  | MDec id data =>
      match my_encoder_for id with
      | Some k => XOk (opt_bytes (my_type_decode k data))
      | None => XErr
      end
  | MFail s binary =>
      match my_encoder_for (s_type_id s) with
      | Some k => canon opt_bytes (my_encode_on_fail k s binary)
      | None => XErr
      end
  | MValid id d =>
      match my_encoder_for id with
      | Some k => XOk [flag (validate_default k d)]
      | None => XErr
      end
  | MDecP s ci data => canon (fun v => [v]) (my_decoder s ci data)
  | MEncP s ci decrypted data => canon (fun cv => [flag (fst cv); snd cv]) (my_encoder s ci decrypted data)
  | MCell s ci revealed stored =>
      match my_cell_value s ci stored with
      | Ok seen => match my_cell s ci (fun _ => revealed) stored with
                   | Ok cv => XOk [st 0; seen; flag (fst cv); snd cv]
                   | Err e => match err_status e with XOk l => XOk (l ++ [seen]) | x => x end
                   | Panic => XPanic
                   end
      | Err e => err_status e
      | Panic => XPanic
      end
  | MField os cd => XOk (cd_vals (my_update_field os cd))
  | MRow s binary cd0 revealed row =>
      canon (fun oc => fst oc :: cd_vals (snd oc)) (my_row s binary cd0 (fun _ => revealed) row)
  | MRows s binary cd0 rows =>
      canon (fun oc => fst oc ++ cd_vals (snd oc))
            (my_result_set s binary cd0 (map (fun rr => ((fun _ : bytes => fst rr), snd rr)) rows))
  end.

Fixpoint list_bytes_eqb (a b : list bytes) : bool :=
  match a, b with
  | [], [] => true
  | x :: a', y :: b' => bytes_eqb x y && list_bytes_eqb a' b'
  | _, _ => false
  end.

Definition expected_eqb (a b : expected) : bool :=
  match a, b with
  | XOk x, XOk y => list_bytes_eqb x y
  | XErr, XErr => true
  | XPanic, XPanic => true
  | _, _ => false
  end.

Fixpoint mismatches_from (i : nat) (cs : list (op * expected)) : list (nat * expected) :=
  match cs with
  | [] => []
  | (o, e) :: rest =>
      let m := run o in
      if expected_eqb m e then mismatches_from (S i) rest else (i, m) :: mismatches_from (S i) rest
  end.
Definition mismatches := mismatches_from 0.
