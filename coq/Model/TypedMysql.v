(** C19, MySQL side — executable model of type-aware column delivery:
    decryptor/mysql/types/{long,long_long,string,blob}.go (Encode / Decode / EncodeOnFail / encodeDefault /
    ValidateDefaultValue), decryptor/mysql/data_encoder.go (DataDecoderProcessor, DataEncoderProcessor:
    encodeText / encodeBinary / decodeBinary, the roll-back to the origin type on ErrConvertToDataType and the
    binary-protocol re-encoding that refuses a value with a statement error),
    decryptor/mysql/type_conversion.go (TypeConfigurations, updateFieldEncodedType, mapEncryptedTypeToField),
    and of decryptor/mysql/response_proxy.go the per-cell part of processTextDataRow / processBinaryDataRow /
    extractData for a one-column row, the rows of one result set sharing the column definition (QueryResponseHandler),
    and the fixed-length tail of ColumnDescription.Dump (column_field.go).
    Text protocol: every value is a length-encoded string; binary protocol: little-endian fixed-width integers,
    length-encoded strings for everything else.  NOT modelled: FLOAT / DOUBLE re-encoding ([E_UNMODELLED]).
    NO proofs here. *)
From Acra Require Import Lib.Bytes Lib.Outcome Gen.TypedConsts Gen.TypedMysqlConsts Model.Typed Model.MysqlWire.
Local Open Scope N_scope.

Definition E_CONVERT : N := 30.     (* base_mysql.ErrConvertToDataType: "keep the value, roll the type back" *)
Definition E_UNMODELLED : N := 98.  (* FLOAT / DOUBLE columns, encoders of a kind this model does not know *)

(** two's complement, [w] bytes little endian (binary.LittleEndian.PutUintNN(uintNN(v)), binary.Write of intNN) *)
Definition le_of_int (w : nat) (z : Z) : bytes := le_enc w (Z.to_N (z mod 2 ^ Z.of_nat (8 * w))).
Definition int_of_le (bs : bytes) : Z :=
  let n := le_dec bs in
  let m := 256 ^ N.of_nat (length bs) in
  if 2 * n <? m then Z.of_N n else (Z.of_N n - Z.of_N m)%Z.

(** base_mysql.PutLengthEncodedString of a non-nil slice *)
Definition lenenc (d : bytes) : bytes := put_lenenc_string (Some d).

Definition my_encoder_for := encoder_for MY_ENCODERS.

(** * decryptor/mysql/types: the four registered encoders (kinds as in Model/Typed.v:
    TInt4 = TypeLong, TInt8 = TypeLongLong, TText = TypeString, TBytea = TypeBlob) *)

(** encodeDefault: [Ok None] = Go's nil value *)
Definition my_encode_default (k : tykind) (binary : bool) (d : bytes) : res (option bytes) :=
  match k with
  | TInt4 | TInt8 =>
      match parse_int (int_bits k) d with
      | None => Err E_GENERIC
      | Some z => Ok (Some (if binary then le_of_int (int_width k) z else lenenc d))
      end
  | TText => Ok (Some (lenenc d))
  | TBytea =>
      match b64_decode d with
      | None => Ok None
      | Some v => Ok (Some (lenenc v))
      end
  end.

(** EncodeOnFail *)
Definition my_encode_on_fail (k : tykind) (s : setting) (binary : bool) : res (option bytes) :=
  match s_policy s with
  | PEmpty | PCiphertext => Ok None
  | PDefault => match s_default s with None => Ok None | Some d => my_encode_default k binary d end
  | PError => Err E_ENCODING
  | PBad => Err E_GENERIC
  end.

(** the "not decrypted" branch shared by the four Encode methods: a nil value becomes ErrConvertToDataType *)
Definition my_unrevealed (k : tykind) (s : setting) (binary : bool) : res (option bytes) :=
  match my_encode_on_fail k s binary with
  | Err e => Err e
  | Panic => Panic
  | Ok (Some v) => Ok (Some v)
  | Ok None => Err E_CONVERT
  end.

(** Encode: [Ok None] = (nil, nil), [Err E_CONVERT] = (nil, ErrConvertToDataType) *)
Definition my_type_encode (k : tykind) (s : setting) (binary decrypted : bool) (data : bytes) : res (option bytes) :=
  match k with
  | TInt4 | TInt8 =>
      match parse_int (int_bits k) data with
      | Some z => Ok (Some (if binary then le_of_int (int_width k) z else lenenc data))
      | None => if decrypted then Ok None else my_unrevealed k s binary
      end
  | TText | TBytea => if decrypted then Ok (Some (lenenc data)) else my_unrevealed k s binary
  end.

(** Decode of the four encoders returns (nil, nil, nil): the processor goes on with its own decoding *)
Definition my_type_decode (k : tykind) (data : bytes) : option bytes := None.

(** * decryptor/mysql/data_encoder.go *)

(** base.ColumnInfo as Handler.onColumnDecryption builds it: protocol, field.Type, field.originType *)
Record colinfo := mk_ci { ci_binary : bool; ci_type : N; ci_origin : N }.

(** the integer cases of the two type switches: (bits of ParseInt, bytes on the wire) *)
Definition my_int_class (t : N) : option (N * nat) :=
  if t =? MY_T_TINY then Some (8, 1%nat)
  else if (t =? MY_T_SHORT) || (t =? MY_T_YEAR) then Some (16, 2%nat)
  else if (t =? MY_T_INT24) || (t =? MY_T_LONG) then Some (32, 4%nat)
  else if t =? MY_T_LONGLONG then Some (64, 8%nat)
  else None.
Definition my_is_float (t : N) : bool := (t =? MY_T_FLOAT) || (t =? MY_T_DOUBLE).

(** encodeBinary, the switch after the type-aware step (data is not empty here) *)
Definition my_reencode_binary (t : N) (data : bytes) : res bytes :=
  if t =? MY_T_NULL then Err E_GENERIC                     (* "NULL not kept NULL" *)
  else match my_int_class t with
       | Some (bits, w) =>
           match parse_int bits data with
           | Some z => Ok (le_of_int w z)
           | None => Err E_GENERIC                          (* strconv error: the statement fails *)
           end
       | None => if my_is_float t then Err E_UNMODELLED else Ok (lenenc data)
       end.

(** the type-aware step of encodeText / encodeBinary *)
Definition my_encode_step (s : setting) (binary decrypted : bool) (data : bytes) : res (option bytes) :=
  match lookup (s_type_id s) MY_ENCODERS with
  | None => Ok None
  | Some c => match kind_of_code c with
              | None => Err E_UNMODELLED
              | Some k => my_type_encode k s binary decrypted data
              end
  end.

(** DataEncoderProcessor.OnColumn (column info present): the delivered bytes and whether the context was
    marked "error converting to the data type" (the row handler then rolls the column type back) *)
Definition my_encoder (s : setting) (ci : colinfo) (decrypted : bool) (data : bytes) : res (bool * bytes) :=
  match data with
  | [] => Ok (false, [x00])
  | _ =>
      match my_encode_step s (ci_binary ci) decrypted data with
      | Panic => Panic
      | Ok (Some v) => Ok (false, v)
      | Ok None =>
          if ci_binary ci then do v <- my_reencode_binary (ci_type ci) data; Ok (false, v)
          else Ok (false, lenenc data)
      | Err e =>
          if e =? E_CONVERT then
            if ci_binary ci then do v <- my_reencode_binary (ci_origin ci) data; Ok (true, v)
            else Ok (true, lenenc data)
          else Err e
      end
  end.

(** decodeBinary: binary.Read of intN from the head of the value, strconv.AppendInt *)
Definition my_decode_binary (ci : colinfo) (data : bytes) : res bytes :=
  let t := if ci_origin ci =? 0 then ci_type ci else ci_origin ci in
  match my_int_class t with
  | Some (_, w) => if (length data <? w)%nat then Ok data else Ok (print_int (int_of_le (firstn w data)))
  | None => if my_is_float t then Err E_UNMODELLED else Ok data
  end.

(** DataDecoderProcessor.OnColumn (column info present) *)
Definition my_decoder (s : setting) (ci : colinfo) (data : bytes) : res bytes :=
  match match my_encoder_for (s_type_id s) with Some k => my_type_decode k data | None => None end with
  | Some d => Ok d
  | None => if ci_binary ci then my_decode_binary ci data else Ok data
  end.

(** One non-NULL cell: decode subscriber, the reveal step (any function of the decoded bytes), encode
    subscriber.  ColumnDecryptionObserver.OnColumnDecryption stops at the first error. *)
Definition my_cell (s : setting) (ci : colinfo) (reveal : bytes -> option bytes) (stored : bytes) : res (bool * bytes) :=
  do d <- my_decoder s ci stored;
  match reveal d with
  | Some p => my_encoder s ci true p
  | None => my_encoder s ci false d
  end.
Definition my_cell_value (s : setting) (ci : colinfo) (stored : bytes) : res bytes := my_decoder s ci stored.

(** * decryptor/mysql/type_conversion.go, column_field.go: the column definition *)
Record coldef := mk_cd {
  cd_type : N; cd_origin : N; cd_changed : bool;
  cd_charset : N; cd_length : N; cd_flag : N; cd_decimal : N }.

Fixpoint lookup3 (k : N) (t : list (N * (N * N * N))) : option (N * N * N) :=
  match t with
  | [] => None
  | (a, b) :: r => if a =? k then Some b else lookup3 k r
  end.

(** updateFieldEncodedType for a column that has the setting [s] ([None]: no table schema / no setting) *)
Definition my_update_field (os : option setting) (cd : coldef) : coldef :=
  match os with
  | None => cd
  | Some s =>
      match lookup (s_type_id s) MY_ENCODERS with      (* mapEncryptedTypeToField *)
      | None => cd
      | Some _ =>
          let t := s_type_id s mod 256 in               (* base_mysql.Type(newFieldType) *)
          match lookup3 t MY_TYPE_CONFIGS with
          | None => cd
          | Some (cs, len, dec) =>
              let fl := cd_flag cd in
              let fl' := if (N.land fl MY_BLOB_FLAG =? MY_BLOB_FLAG) &&
                            existsb (fun ft => ft =? s_type_id s mod 65536) MY_SPECIFIC_TYPES
                         then N.ldiff fl MY_BLOB_FLAG else fl in
              mk_cd t (cd_type cd) true cs len fl' dec
          end
      end
  end.

(** process*DataRow: "rollback type changing in case of error converting to data type" *)
Definition my_rollback (converted : bool) (cd : coldef) : coldef :=
  if converted then mk_cd (cd_origin cd) (cd_origin cd) (cd_changed cd) (cd_charset cd) (cd_length cd) (cd_flag cd) (cd_decimal cd)
  else cd.

Definition ci_of (binary : bool) (cd : coldef) : colinfo := mk_ci binary (cd_type cd) (cd_origin cd).

(** the fixed-length tail of ColumnDescription.Dump: 0x0c, charset, column length, type, flags, decimals, filler *)
Definition my_dump_tail (cd : coldef) : bytes :=
  x0c :: le_enc 2 (cd_charset cd) ++ le_enc 4 (cd_length cd) ++ [n2b (cd_type cd)] ++ le_enc 2 (cd_flag cd)
      ++ [n2b (cd_decimal cd)] ++ [x00; x00].

(** * response_proxy.go: a data row with ONE column *)

(** the types extractData reads as a length-encoded string *)
Definition my_is_lenenc_type (t : N) : bool :=
  existsb (N.eqb t)
    [MY_T_DECIMAL; MY_T_NEWDECIMAL; MY_T_BIT; MY_T_ENUM; MY_T_SET; MY_T_GEOMETRY; MY_T_DATE; MY_T_NEWDATE;
     MY_T_TIMESTAMP; MY_T_DATETIME; MY_T_TIME; MY_T_VARCHAR; MY_T_TINYBLOB; MY_T_MEDIUMBLOB; MY_T_LONGBLOB;
     MY_T_BLOB; MY_T_VARSTRING; MY_T_STRING].

(** rowData[pos:pos+w] of a fixed-width value; extractData first checks the width of every type of
    base_mysql.NumericTypesStorageBytes (all integer and float types, Gen/WireMysqlConsts.v MY_NUMERIC_STORAGE)
    against the rest of the row: a row that ends inside the value is ErrMalformPacket, not a slice panic *)
Definition my_slice (data : bytes) (pos w : nat) : res bytes :=
  if (pos + w <=? length data)%nat then Ok (sub pos w data) else Err E_MALFORMED.

(** extractData *)
Definition my_extract (pos : nat) (row : bytes) (cd : coldef) : res bytes :=
  let t := if cd_changed cd then cd_origin cd else cd_type cd in
  if t =? MY_T_NULL then Ok []
  else match my_int_class t with
       | Some (_, w) => my_slice row pos w
       | None =>
           if my_is_float t then my_slice row pos (if t =? MY_T_FLOAT then 4%nat else 8%nat)
           else if my_is_lenenc_type t then
             (if (pos <=? length row)%nat then
                do vn <- lenenc_string (skipn pos row);
                match fst vn with Some v => Ok v | None => Err E_UNMODELLED end   (* 0xfb inside a binary row: a nil value, not modelled *)
              else Panic)
           else Err E_GENERIC
       end.

Definition with_prefix (pre : bytes) (cd : coldef) (r : res (bool * bytes)) : res (bytes * coldef) :=
  do cv <- r; Ok (pre ++ snd cv, my_rollback (fst cv) cd).

(** processTextDataRow, one field *)
Definition my_text_row (s : setting) (cd : coldef) (reveal : bytes -> option bytes) (row : bytes) : res (bytes * coldef) :=
  do vn <- lenenc_string row;
  match fst vn with
  | None => Ok (firstn (snd vn) row, cd)          (* SQL NULL: copied, not processed *)
  | Some value => with_prefix [] cd (my_cell s (ci_of false cd) reveal value)
  end.

(** processBinaryDataRow, one field: header byte, NULL bitmap of (1 + 7 + 2) / 8 = 1 byte, bit 2 = the field *)
Definition my_binary_row (s : setting) (cd : coldef) (reveal : bytes -> option bytes) (row : bytes) : res (bytes * coldef) :=
  match row with
  | [] => Panic
  | b0 :: _ =>
      if b2n b0 =? MY_EOF_PACKET then Ok (row, cd)
      else if negb (b2n b0 =? MY_OK_PACKET) then Err E_MALFORMED
      else match row with
           | _ :: bm :: _ =>
               if N.land (b2n bm) 4 =? 0 then
                 do value <- my_extract 2 row cd;
                 with_prefix (firstn 2 row) cd (my_cell s (ci_of true cd) reveal value)
               else Ok (firstn 2 row, cd)
           | _ => Panic
           end
  end.

(** updateFieldEncodedType on the column definition the database sent, then the row *)
Definition my_row (s : setting) (binary : bool) (cd0 : coldef) (reveal : bytes -> option bytes) (row : bytes) : res (bytes * coldef) :=
  let cd := my_update_field (Some s) cd0 in
  if binary then my_binary_row s cd reveal row else my_text_row s cd reveal row.

(** A result set with ONE column (QueryResponseHandler): the rows are processed in order with the SAME column
    description, which is sent to the client after the last row (all packets are buffered), so a roll-back asked
    by one row describes every row.  Each row comes with its own reveal function. *)
Fixpoint my_rows_from (s : setting) (binary : bool) (cd : coldef) (rs : list ((bytes -> option bytes) * bytes))
  : res (list bytes * coldef) :=
  match rs with
  | [] => Ok ([], cd)
  | (rv, row) :: rest =>
      do oc <- (if binary then my_binary_row s cd rv row else my_text_row s cd rv row);
      do tl <- my_rows_from s binary (snd oc) rest;
      Ok (fst oc :: fst tl, snd tl)
  end.
Definition my_result_set (s : setting) (binary : bool) (cd0 : coldef) (rs : list ((bytes -> option bytes) * bytes))
  : res (list bytes * coldef) := my_rows_from s binary (my_update_field (Some s) cd0) rs.
