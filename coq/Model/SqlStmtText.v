(** C13_statements model, part 3: TEXT.
    [pp]     the Format methods of sqlparser/ast_methods.go as lists of pieces (tokens, identifiers, raw names,
             single spaces) — twin of every format string, byte for byte once rendered;
    [render] the bytes of a piece list: formatID / ColIdent / TableIdent quoting per dialect, SQLVal spellings
             ('..' with sqltypes escapes, X'..', B'..', E'..', ? for bind variables), operator and keyword texts;
    [stext]  = String(statement);
    [lex]    twin of Tokenizer.Scan (token.go) for text without comments: identifiers and keywords, quoted
             identifiers of both dialects, numbers (integral, float, 0x), strings with escapes, X'' B'' E'',
             bind variables (:name, ::cast, ? numbered, $n), operators.
    No proofs here. *)
From Acra Require Import Lib.Bytes Gen.Prec Gen.SqlWords Model.SqlStmt.
From Acra Require Model.SqlExpr.
From Coq Require Import Arith.

Inductive piece :=
| PS                  (* one space *)
| PT (t : tok)        (* a token that is not an identifier *)
| PI (i : ident)      (* ColIdent / TableIdent through %v *)
| PR (v : bytes).     (* a name printed raw (%s) *)

(* ---------- Format methods ---------- *)
Definition sp (w : word) : list piece := [PS; PT (TW w); PS].
Fixpoint words (ws : list word) : list piece :=
  match ws with [] => [] | [w] => [PT (TW w)] | w :: ws' => PT (TW w) :: PS :: words ws' end.

Definition pp_bin (o : binop) : piece := PT (bin_tok o).
Definition pp_cmp (o : cmpop) : list piece :=
  match o with
  | CNotIn => words [W_not; W_in] | CNotLike => words [W_not; W_like] | CNotILike => words [W_not; W_ilike]
  | CNotRegexp => words [W_not; W_regexp]
  | _ => map PT (cmp_toks o)
  end.
Definition pp_is (s : issuf) : list piece :=
  match s with
  | IsNull => words [W_is; W_null] | IsNotNull => words [W_is; W_not; W_null]
  | IsTrue => words [W_is; W_true] | IsNotTrue => words [W_is; W_not; W_true]
  | IsFalse => words [W_is; W_false] | IsNotFalse => words [W_is; W_not; W_false]
  end.
Definition pp_between (neg : bool) : list piece := if neg then words [W_not; W_between] else words [W_between].
Definition pp_jk (k : jkind) : list piece :=
  match k with
  | JJoin => words [W_join] | JStraight => words [W_straight_join]
  | JLeft => words [W_left; W_join] | JRight => words [W_right; W_join]
  | JNatural => words [W_natural; W_join]
  | JNaturalLeft => words [W_natural; W_left; W_join] | JNaturalRight => words [W_natural; W_right; W_join]
  end.
Definition pp_ut (u : utype) : list piece :=
  match u with UUnion => words [W_union] | UAll => words [W_union; W_all] | UDistinct => words [W_union; W_distinct] end.
Definition pp_dir (d : odir) : list piece :=
  match d with
  | DAsc => words [W_asc] | DDesc => words [W_desc]
  | DAscNF => words [W_asc; W_nulls; W_first] | DAscNL => words [W_asc; W_nulls; W_last]
  | DDescNF => words [W_desc; W_nulls; W_first] | DDescNL => words [W_desc; W_nulls; W_last]
  end.
Definition pp_lock (l : lockk) : list piece :=
  match l with
  | LkNone => []
  | LkForUpdate => PS :: words [W_for; W_update]
  | LkShare => PS :: words [W_lock; W_in; W_share; W_mode]
  end.
Definition pp_lit (t : N) (v : bytes) (casts : list bytes) : list piece :=
  map PT (lit_toks t v) ++ map (fun c => PT (TCast c)) casts.
Fixpoint pp_qual (q : list ident) : list piece :=
  match q with [] => [] | a :: q' => PI a :: PT (TP PDot) :: pp_qual q' end.
Definition pp_col (q : list ident) (n : ident) : list piece := pp_qual q ++ [PI n].
Definition pp_tname (q n : ident) : list piece := (if id_empty q then [] else [PI q; PT (TP PDot)]) ++ [PI n].
Definition pp_alias (a : ident) : list piece := if id_empty a then [] else sp W_as ++ [PI a].
Fixpoint pp_idlist (l : list ident) : list piece :=
  match l with [] => [] | [a] => [PI a] | a :: l' => PI a :: PT (TP PComma) :: PS :: pp_idlist l' end.
Definition pp_columns (l : list ident) : list piece := PT (TP PLParen) :: pp_idlist l ++ [PT (TP PRParen)].
Definition pp_ctype (c : ctype) : list piece :=
  match c with
  | CT ty None _ => [PR ty]
  | CT ty (Some l) None => [PR ty; PT (TP PLParen); PT (TLit VT_IntVal l); PT (TP PRParen)]
  | CT ty (Some l) (Some s) =>
      [PR ty; PT (TP PLParen); PT (TLit VT_IntVal l); PT (TP PComma); PS; PT (TLit VT_IntVal s); PT (TP PRParen)]
  end.
Definition is_un (e : expr) : bool := match e with EUn _ _ => true | _ => false end.
Definition pp_un (o : unop) : list piece :=
  match o with UBinary | UUBinary => [PT (un_tok o); PS] | _ => [PT (un_tok o)] end.
Definition comma : list piece := [PT (TP PComma); PS].

Fixpoint pp (e : expr) : list piece :=
  match e with
  | EAnd l r => pp l ++ sp W_and ++ pp r
  | EOr l r => pp l ++ sp W_or ++ pp r
  | ENot x => PT (TW W_not) :: PS :: pp x
  | ECmp op l r => pp l ++ PS :: pp_cmp op ++ PS :: pp r
  | ECmpEsc op l r esc => pp l ++ PS :: pp_cmp op ++ PS :: pp r ++ sp W_escape ++ pp esc
  | ERange neg l a b => pp l ++ PS :: pp_between neg ++ PS :: pp a ++ sp W_and ++ pp b
  | EIs s x => pp x ++ PS :: pp_is s
  | EExists q => PT (TW W_exists) :: PS :: PT (TP PLParen) :: pp_sel q ++ [PT (TP PRParen)]
  | EBin op l r => pp l ++ PS :: pp_bin op :: PS :: pp r
  | EUn op x => pp_un op ++ (if is_un x then [PS] else []) ++ pp x
  | ECollate x cs => pp x ++ sp W_collate ++ [PR cs]
  | ELit t v casts => pp_lit t v casts
  | ENull => [PT (TW W_null)]
  | EBool b => [PT (TW (if b then W_true else W_false))]
  | EDefault => [PT (TW W_default)]
  | ECol q n => pp_col q n
  | EParen x => PT (TP PLParen) :: pp x ++ [PT (TP PRParen)]
  | ETuple xs => PT (TP PLParen) :: pp_exprs xs ++ [PT (TP PRParen)]
  | ESubq q => PT (TP PLParen) :: pp_sel q ++ [PT (TP PRParen)]
  | EFunc q n d args =>
      (if id_empty q then [] else [PI q; PT (TP PDot)]) ++
      PR n :: PT (TP PLParen) :: (if d then [PT (TW W_distinct); PS] else []) ++ pp_selexprs args ++ [PT (TP PRParen)]
  | ECase x ws el =>
      PT (TW W_case) :: PS :: (match x with NoE => [] | SomeE y => pp y ++ [PS] end) ++ pp_whens ws
      ++ (match el with NoE => [] | SomeE y => PT (TW W_else) :: PS :: pp y ++ [PS] end) ++ [PT (TW W_end)]
  | EConvert x ty => PT (TW W_convert) :: PT (TP PLParen) :: pp x ++ comma ++ pp_ctype ty ++ [PT (TP PRParen)]
  | EConvertUsing x cs => PT (TW W_convert) :: PT (TP PLParen) :: pp x ++ sp W_using ++ [PR cs; PT (TP PRParen)]
  | EInterval x unit => PT (TW W_interval) :: PS :: pp x ++ (match unit with [] => [] | _ => [PS; PR unit] end)
  | EValuesFunc q n => PT (TW W_values) :: PT (TP PLParen) :: pp_col q n ++ [PT (TP PRParen)]
  end
with pp_exprs (xs : exprs) : list piece :=
  match xs with
  | XNil => []
  | XCons x XNil => pp x
  | XCons x xs' => pp x ++ comma ++ pp_exprs xs'
  end
with pp_whens (ws : whens) : list piece :=
  match ws with
  | WNil => []
  | WCons c v ws' => PT (TW W_when) :: PS :: pp c ++ sp W_then ++ pp v ++ PS :: pp_whens ws'
  end
with pp_selexpr (s : selexpr) : list piece :=
  match s with
  | SStar q => pp_qual q ++ [PT (TP PStar)]
  | SAliased x a => pp x ++ pp_alias a
  end
with pp_selexprs (xs : selexprs) : list piece :=
  match xs with
  | SNil => []
  | SCons x SNil => pp_selexpr x
  | SCons x xs' => pp_selexpr x ++ comma ++ pp_selexprs xs'
  end
with pp_sel (s : sel) : list piece :=
  match s with
  | Select d xs from wh gb hv ob lm lk =>
      PT (TW W_select) :: PS :: (if d then [PT (TW W_distinct); PS] else []) ++ pp_selexprs xs ++ sp W_from ++ pp_texprs from
      ++ (match wh with NoE => [] | SomeE x => sp W_where ++ pp x end)
      ++ (match gb with XNil => [] | _ => PS :: words [W_group; W_by] ++ PS :: pp_exprs gb end)
      ++ (match hv with NoE => [] | SomeE x => sp W_having ++ pp x end)
      ++ pp_orders true ob ++ pp_lim lm ++ pp_lock lk
  | Union ty l r ob lm lk =>
      pp_sel l ++ PS :: pp_ut ty ++ PS :: pp_sel r ++ pp_orders true ob ++ pp_lim lm ++ pp_lock lk
  | ParenSel s' => PT (TP PLParen) :: pp_sel s' ++ [PT (TP PRParen)]
  end
with pp_texpr (t : texpr) : list piece :=
  match t with
  | TTable q n a => pp_tname q n ++ pp_alias a
  | TSubq s a => PT (TP PLParen) :: pp_sel s ++ PT (TP PRParen) :: pp_alias a
  | TParen ts => PT (TP PLParen) :: pp_texprs ts ++ [PT (TP PRParen)]
  | TJoin l k r c => pp_texpr l ++ PS :: pp_jk k ++ PS :: pp_texpr r ++ pp_jcond c
  end
with pp_texprs (ts : texprs) : list piece :=
  match ts with
  | TNil => []
  | TCons t TNil => pp_texpr t
  | TCons t ts' => pp_texpr t ++ comma ++ pp_texprs ts'
  end
with pp_jcond (c : jcond) : list piece :=
  match c with
  | JNone => []
  | JOn x => sp W_on ++ pp x
  | JUsing cols => sp W_using ++ pp_columns cols
  end
with pp_orders (first : bool) (os : orders) : list piece :=
  match os with
  | ONil => []
  | OCons x d os' =>
      (if first then PS :: words [W_order; W_by] ++ [PS] else comma) ++ pp x ++
      (match x with
       | ENull => []
       | EFunc _ n _ _ => if bytes_eqb (lower n) x_rand then [] else PS :: pp_dir d
       | _ => PS :: pp_dir d
       end) ++ pp_orders false os'
  end
with pp_lim (l : lim) : list piece :=
  match l with
  | LNone => []
  | LOnly c => sp W_limit ++ pp c
  | LOffset c o => sp W_limit ++ pp c ++ sp W_offset ++ pp o
  | LComma o c => sp W_limit ++ pp o ++ comma ++ pp c
  | LAll => sp W_limit ++ [PT (TW W_all)]
  | LAllOffset o => sp W_limit ++ PT (TW W_all) :: sp W_offset ++ pp o
  end.

Fixpoint pp_updates (us : updates) : list piece :=
  match us with
  | UNil => []
  | UCons q n x UNil => pp_col q n ++ PS :: PT (TP PEq) :: PS :: pp x
  | UCons q n x us' => pp_col q n ++ PS :: PT (TP PEq) :: PS :: pp x ++ comma ++ pp_updates us'
  end.
Fixpoint pp_rows (rs : rows) : list piece :=
  match rs with
  | RNil => []
  | RCons r RNil => PT (TP PLParen) :: pp_exprs r ++ [PT (TP PRParen)]
  | RCons r rs' => PT (TP PLParen) :: pp_exprs r ++ PT (TP PRParen) :: comma ++ pp_rows rs'
  end.
Definition pp_irows (r : irows) : list piece :=
  match r with IValues rs => PT (TW W_values) :: PS :: pp_rows rs | ISelect s => pp_sel s end.
Definition pp_dup (us : updates) : list piece :=
  match us with UNil => [] | _ => PS :: words [W_on; W_duplicate; W_key; W_update] ++ PS :: pp_updates us end.
Definition pp_ret (r : selexprs) : list piece :=
  match r with SNil => [] | _ => sp W_returning ++ pp_selexprs r end.
Definition pp_where (o : oexpr) : list piece := match o with NoE => [] | SomeE x => sp W_where ++ pp x end.
Definition pp_ins_head (repl ign : bool) (tq tn : ident) : list piece :=
  PT (TW (if repl then W_replace else W_insert)) :: PS :: (if ign then [PT (TW W_ignore); PS] else [])
  ++ PT (TW W_into) :: PS :: pp_tname tq tn.

Definition pp_stmt (s : stmt) : list piece :=
  match s with
  | SSelect q => pp_sel q
  | SInsert repl ign tq tn cols r dup ret =>
      pp_ins_head repl ign tq tn ++ (match cols with [] => [] | _ => pp_columns cols end)
      ++ PS :: pp_irows r ++ pp_dup dup ++ pp_ret ret
  | SInsertDefault repl ign tq tn => pp_ins_head repl ign tq tn ++ PS :: words [W_default; W_values]
  | SUpdate ts set from wh ob lm ret =>
      PT (TW W_update) :: PS :: pp_texprs ts ++ sp W_set ++ pp_updates set
      ++ (match from with TNil => [] | _ => sp W_from ++ pp_texprs from end)
      ++ pp_where wh ++ pp_orders true ob ++ pp_lim lm ++ pp_ret ret
  | SDelete ts wh ob lm ret =>
      PT (TW W_delete) :: PS :: PT (TW W_from) :: PS :: pp_texprs ts ++ pp_where wh ++ pp_orders true ob
      ++ pp_lim lm ++ pp_ret ret
  | SDeleteMulti targets ts wh ret =>
      PT (TW W_delete) :: PS :: PT (TW W_from) :: PS :: pp_texprs targets ++ PS :: PT (TW W_using) :: PS :: PS :: pp_texprs ts
      ++ pp_where wh ++ pp_ret ret
  end.

(* ---------- rendering ---------- *)
Definition x_sp : byte := x20.
Definition x_bq : byte := x60.
Definition punct_text (p : punct) : bytes :=
  match p with
  | PEq => [x3d] | PLt => [x3c] | PGt => [x3e] | PLe => [x3c; x3d] | PGe => [x3e; x3d] | PNe => [x21; x3d]
  | PNse => [x3c; x3d; x3e] | PBitOr => [x7c] | PBitAnd => [x26] | PShl => [x3c; x3c] | PShr => [x3e; x3e]
  | PPlus => [x2b] | PMinus => [x2d] | PStar => [x2a] | PSlash => [x2f] | PPercent => [x25] | PCaret => [x5e]
  | PTilde => [x7e] | PBang => [x21] | PLParen => [x28] | PRParen => [x29] | PComma => [x2c] | PDot => [x2e]
  end.
Definition x_value_mask : bytes := [x72; x65; x70; x6c; x61; x63; x65; x64]. (* sqlparser.ValueMask, checked by the replay *)

(** SQLVal.Format *)
Definition lit_text (t : N) (v : bytes) : bytes :=
  if N.eqb t VT_StrVal then SqlExpr.encode_sql v
  else if N.eqb t VT_HexVal then x58 :: x_sq :: v ++ [x_sq]
  else if N.eqb t VT_BitVal then x42 :: x_sq :: v ++ [x_sq]
  else if N.eqb t VT_PgEscapeString then x45 :: x_sq :: SqlExpr.escape_body v ++ [x_sq]
  else if N.eqb t VT_ValArg then
    match v with
    | c :: r => if byte_eqb c x3a && negb (starts_with x_value_mask r) then [x3f] else v
    | [] => v
    end
  else v.

Section Dialect.
Variable pg : bool.

Definition id_quote : byte := if pg then x_dq else x_bq.
Fixpoint double_quote (q : byte) (v : bytes) : bytes :=
  match v with [] => [] | c :: v' => if byte_eqb c q then c :: c :: double_quote q v' else c :: double_quote q v' end.
Definition format_id (v : bytes) : bytes :=
  if must_escape pg v then id_quote :: double_quote id_quote v ++ [id_quote] else v.
(** ColIdent.FormatForDialect / TableIdent.FormatForDialect *)
Definition ident_text (i : ident) : bytes :=
  match i with
  | Id QNone v => format_id v
  | Id QDq v => x_dq :: v ++ [x_dq]
  | Id QSq v => x_sq :: v ++ [x_sq]
  end.
Definition tok_text (t : tok) : bytes :=
  match t with
  | TLit t v => lit_text t v
  | TId n => format_id n
  | TDq n => x_dq :: n ++ [x_dq]
  | TCast c => c
  | TP p => punct_text p
  | TW w => word_text w
  | TKw s => s
  end.
Definition piece_text (p : piece) : bytes :=
  match p with PS => [x_sp] | PT t => tok_text t | PI i => ident_text i | PR v => v end.
Definition render (ps : list piece) : bytes := flat_map piece_text ps.
Definition stext (s : stmt) : bytes := render (pp_stmt s).

(** the tokens of a piece list (= what the tokenizer returns for the rendered text, see Proofs) *)
Definition piece_toks (p : piece) : list tok :=
  match p with PS => [] | PT t => [t] | PI i => [id_tok pg i] | PR v => [raw_tok v] end.
Definition toks (ps : list piece) : list tok := flat_map piece_toks ps.

(* ---------- the tokenizer ---------- *)
Definition is_blank (c : byte) : bool := byte_eqb c x20 || byte_eqb c x0a || byte_eqb c x0d || byte_eqb c x09.
Definition is_hexdigit (c : byte) : bool :=
  let n := b2n c in ((48 <=? n) && (n <=? 57) || (97 <=? n) && (n <=? 102) || (65 <=? n) && (n <=? 70))%N.
Definition is_bit (c : byte) : bool := byte_eqb c x30 || byte_eqb c x31.
Fixpoint span (p : byte -> bool) (s : bytes) : bytes * bytes :=
  match s with
  | c :: s' => if p c then let (a, r) := span p s' in (c :: a, r) else ([], s)
  | [] => ([], [])
  end.
Definition head_is (p : byte -> bool) (s : bytes) : bool := match s with c :: _ => p c | [] => false end.
Definition is_ex (c : byte) : bool := byte_eqb c x65 || byte_eqb c x45.
Definition is_xx (c : byte) : bool := byte_eqb c x78 || byte_eqb c x58.
Definition is_sign (c : byte) : bool := byte_eqb c x2b || byte_eqb c x2d.

(** scanNumber: the exponent part and the final "a letter cannot follow a number" *)
Definition num_exponent (t : N) (buf s : bytes) : option (N * bytes * bytes) :=
  let '(t, buf, s) :=
    match s with
    | c :: s1 =>
        if is_ex c then
          let '(sg, s2) := match s1 with d :: s2 => if is_sign d then ([d], s2) else ([], s1) | [] => ([], s1) end in
          let (ds, s3) := span is_digit s2 in (VT_FloatVal, buf ++ c :: sg ++ ds, s3)
        else (t, buf, s)
    | [] => (t, buf, s)
    end in
  if head_is is_letter s then None else Some (t, buf, s).
Definition lex_number (seen_dot : bool) (s : bytes) : option (N * bytes * bytes) :=
  if seen_dot then
    let (ds, s1) := span is_digit s in num_exponent VT_FloatVal (x2e :: ds) s1
  else
    let hexnum :=
      match s with
      | z :: x :: s2 =>
          if byte_eqb z x30 && is_xx x then
            let (hs, s3) := span is_hexdigit s2 in
            Some (if head_is is_letter s3 then None else Some (VT_HexNum, z :: x :: hs, s3))
          else None
      | _ => None
      end in
    match hexnum with
    | Some r => r
    | None =>
        let (ds, s1) := span is_digit s in
        match s1 with
        | c :: s2 =>
            if byte_eqb c x2e then
              let (fs, s3) := span is_digit s2 in num_exponent VT_FloatVal (ds ++ c :: fs) s3
            else num_exponent VT_IntVal ds s1
        | [] => num_exponent VT_IntVal ds s1
        end
    end.

(** scanString after the opening delimiter (as Model.SqlExpr.scan_string, any delimiter) *)
Fixpoint scan_str (delim : byte) (first : bool) (acc : bytes) (s : bytes) : option (bytes * bytes) :=
  match s with
  | [] => None
  | c :: s1 =>
      if byte_eqb c x_bsl then
        match s1 with
        | [] => None
        | d :: s2 =>
            if first && is_xx d then scan_str delim false (acc ++ [c; d]) s2
            else scan_str delim false (acc ++ [match SqlExpr.assoc_byte SQL_DECODE_MAP d with Some o => o | None => d end]) s2
        end
      else if byte_eqb c delim then
        match s1 with
        | d :: s2 => if byte_eqb d delim then scan_str delim false (acc ++ [delim]) s2 else Some (acc, s1)
        | [] => Some (acc, [])
        end
      else scan_str delim first (acc ++ [c]) s1
  end.
(** scanLiteralIdentifier after the opening quote *)
Fixpoint scan_qid (q : byte) (acc : bytes) (s : bytes) : option (bytes * bytes) :=
  match s with
  | [] => None
  | c :: s1 =>
      if byte_eqb c q then
        match s1 with
        | d :: s2 => if byte_eqb d q then scan_qid q (acc ++ [q]) s2 else Some (acc, s1)
        | [] => Some (acc, [])
        end
      else scan_qid q (acc ++ [c]) s1
  end.

Fixpoint dec_rev (f : nat) (n : N) : bytes :=
  match f with
  | O => []
  | S f' => if (n <? 10)%N then [n2b (48 + n)] else n2b (48 + n mod 10) :: dec_rev f' (n / 10)
  end.
Definition dec_of_N (n : N) : bytes := rev (dec_rev (S (N.to_nat (N.log2 n))) n).

(** one token; [nv] = Tokenizer.posVarIndex.  None = LEX_ERROR, a comment, or a token outside the model *)
Definition lex_one (nv : N) (s : bytes) : option (tok * N * bytes) :=
  match s with
  | [] => None
  | c :: s1 =>
      if is_letter c then
        if is_xx c && head_is (byte_eqb x_sq) s1 then
          let (hs, s2) := span is_hexdigit (tl s1) in
          match s2 with
          | q :: s3 => if byte_eqb q x_sq && Nat.even (length hs) then Some (TLit VT_HexVal hs, nv, s3) else None
          | [] => None
          end
        else if (byte_eqb c x62 || byte_eqb c x42) && head_is (byte_eqb x_sq) s1 then
          let (bs, s2) := span is_bit (tl s1) in
          match s2 with
          | q :: s3 => if byte_eqb q x_sq then Some (TLit VT_BitVal bs, nv, s3) else None
          | [] => None
          end
        else if is_ex c && head_is (byte_eqb x_sq) s1 then
          match scan_str x_sq true [] (tl s1) with
          | Some (v, r) => Some (TLit VT_PgEscapeString v, nv, r)
          | None => None
          end
        else
          let dbsys := byte_eqb c x40 && head_is (byte_eqb x40) s1 in
          let (w, r) := span (fun d => is_letter d || is_digit d || (dbsys && is_carat pg d)) s1 in
          let word := c :: w in
          let low := lower word in
          if mem_bytes low KEYWORDS then Some (kw_tok low, nv, r)
          else if bytes_eqb low x_dual then Some (TId low, nv, r)
          else Some (TId word, nv, r)
      else if is_digit c then
        match lex_number false s with Some (t, v, r) => Some (TLit t v, nv, r) | None => None end
      else if byte_eqb c x3a then           (* ':' bind variable / '::' cast *)
        let '(pre, s2, cast) := match s1 with d :: s2 => if byte_eqb d x3a then ([c; d], s2, true) else ([c], s1, false) | [] => ([c], s1, false) end in
        if head_is is_letter s2 then
          let (w, r) := span (fun d => is_letter d || is_digit d || byte_eqb d x2e) s2 in
          Some (if cast then TCast (pre ++ w) else TLit VT_ValArg (pre ++ w), nv, r)
        else None
      else
        let one (p : punct) := Some (TP p, nv, s1) in
        let two (p : punct) (r : bytes) := Some (TP p, nv, r) in
        let n := b2n c in
        if (n =? 61)%N then one PEq else if (n =? 44)%N then one PComma else if (n =? 40)%N then one PLParen
        else if (n =? 41)%N then one PRParen else if (n =? 43)%N then one PPlus else if (n =? 42)%N then one PStar
        else if (n =? 37)%N then one PPercent else if (n =? 94)%N then one PCaret else if (n =? 126)%N then one PTilde
        else if (n =? 38)%N then match s1 with d :: r => if byte_eqb d c then Some (TW W_and, nv, r) else one PBitAnd | [] => one PBitAnd end
        else if (n =? 124)%N then match s1 with d :: r => if byte_eqb d c then Some (TW W_or, nv, r) else one PBitOr | [] => one PBitOr end
        else if (n =? 63)%N then Some (TLit VT_ValArg (x3a :: x76 :: dec_of_N (nv + 1)), (nv + 1)%N, s1)
        else if (n =? 46)%N then
          if head_is is_digit s1 then match lex_number true s1 with Some (t, v, r) => Some (TLit t v, nv, r) | None => None end
          else one PDot
        else if (n =? 47)%N then
          match s1 with d :: _ => if byte_eqb d x2f || byte_eqb d x2a then None else one PSlash | [] => one PSlash end
        else if (n =? 45)%N then
          match s1 with d :: _ => if byte_eqb d x2d || byte_eqb d x3e then None else one PMinus | [] => one PMinus end
        else if (n =? 60)%N then
          match s1 with
          | d :: r =>
              if byte_eqb d x3e then two PNe r
              else if byte_eqb d x3c then two PShl r
              else if byte_eqb d x3d then match r with e :: r' => if byte_eqb e x3e then two PNse r' else two PLe r | [] => two PLe r end
              else one PLt
          | [] => one PLt
          end
        else if (n =? 62)%N then
          match s1 with
          | d :: r => if byte_eqb d x3d then two PGe r else if byte_eqb d x3e then two PShr r else one PGt
          | [] => one PGt
          end
        else if (n =? 33)%N then
          match s1 with d :: r => if byte_eqb d x3d then two PNe r else one PBang | [] => one PBang end
        else if (n =? 36)%N then
          match lex_number false s1 with
          | Some (t, v, r) => if N.eqb t VT_IntVal then Some (TLit VT_PgPlaceholder (c :: v), nv, r) else None
          | None => None
          end
        else if byte_eqb c id_quote then
          match scan_qid c [] s1 with
          | Some ([], _) => None
          | Some (v, r) => Some (if pg then TDq v else TId v, nv, r)
          | None => None
          end
        else if byte_eqb c x_sq then
          match scan_str c true [] s1 with Some (v, r) => Some (TLit VT_StrVal v, nv, r) | None => None end
        else if byte_eqb c x_dq then          (* MySQL, ANSI mode off: a string literal *)
          match scan_str c true [] s1 with Some (v, r) => Some (TDq v, nv, r) | None => None end
        else None
  end.

Fixpoint lex_go (f : nat) (nv : N) (s : bytes) : option (list tok) :=
  match f with
  | O => None
  | S f' =>
      let (_, s1) := span is_blank s in
      match s1 with
      | [] => Some []
      | _ =>
          match lex_one nv s1 with
          | Some (t, nv', r) => match lex_go f' nv' r with Some ts => Some (t :: ts) | None => None end
          | None => None
          end
      end
  end.
Definition lex (s : bytes) : option (list tok) := lex_go (S (length s)) 0 s.
End Dialect.
