(** Replay of implementation observations on the masking model (C11), instantiated with [Stub]. *)
From Acra Require Import Lib.Bytes Lib.Outcome Lib.Sha256 Crypto.Interface Crypto.Stub Gen.Consts Gen.MaskConsts
  Model.Envelope Model.RunEnvelope Model.Masking.
Export RunEnvelope(expected, XOk, XErr, XPanic, mk_ks).

Definition mk_ms := Build_mask_setting.

Inductive op :=
| MaskValidate (s : mask_setting)
| MaskEnc (id : bytes) (ks : keyset) (tape : list bytes) (s : mask_setting) (data : bytes)
| MaskProcess (s : option mask_setting) (ks : keyset) (data : bytes)
| MaskRead (s : option mask_setting) (ks : keyset) (col : bytes).

Definition run (o : op) : expected :=
  match o with
  | MaskValidate s => if validate_masking_params s then XOk [] else XErr
  | MaskEnc id ks tape s data => canon1 (mask_encryptor Stub (idb id) ks tape s data)
  | MaskProcess s ks data => canon1 (masking_processor s (registry_process Stub ks) registry_match data)
  | MaskRead s ks col =>
      match masked_read Stub s ks col with
      | Ok (out, ch) => XOk [out; flag ch] | Err _ => XErr | Panic => XPanic end
  end.

Fixpoint mismatches_from (i : nat) (cs : list (op * expected)) : list (nat * expected) :=
  match cs with
  | [] => []
  | (o, e) :: rest =>
      let m := run o in
      if expected_eqb m e then mismatches_from (S i) rest else (i, m) :: mismatches_from (S i) rest
  end.
Definition mismatches := mismatches_from 0.
