(** Executable model of the MySQL proxy's session state around AcraCensor (C05, MySQL path), AFTER the
    fix [fix_mysql_censored_session].
    Anchors: decryptor/mysql/response_proxy.go (Handler.ProxyClientConnection: the command switch, the censor
    branch, sendCommandError; handleStatementExecute; ProxyDatabaseConnection; QueryResponseHandler,
    PreparedStatementResponseHandler, ResetStatementResponseHandler), decryptor/mysql/prepared_statements.go
    (PreparedStatementRegistry, PreparedStatementFieldTracker.ParamsTrackHandler / ColumnsTrackHandler),
    decryptor/mysql/protocol.go (ProtocolState), decryptor/mysql/error.go (NewQueryInterruptedError),
    encryptor/mysql/queryDataEncryptor.go (querySelectSettings: OnQuery / SetQueryEncryptionSettings / OnColumn).

    A statement is an identifier [N]; the censor verdict for it is an input of the command (computed by
    Model/Censor.v in the composition theorems, by the real AcraCensor in the harness).  A result set
    (column count, definitions, rows, terminator) is ONE database event: QueryResponseHandler reads all
    of it from the database connection in one call.  No proofs in this file. *)
From Coq Require Import List Bool NArith.
From Acra Require Import Lib.Bytes Gen.MysqlSessionConsts Gen.WireMysqlConsts.
Import ListNotations.
Local Open Scope N_scope.

(** * The answer to a censored command, byte for byte *)

(** NewQueryInterruptedError *)
Definition interrupted_error (protocol41 : bool) (msg : bytes) : bytes :=
  n2b MY_ERR :: le_enc 2 MYS_ER_QUERY_INTERRUPTED
  ++ (if protocol41 then MYS_SQLSTATE_MARKER :: MYS_ER_QUERY_INTERRUPTED_STATE else []) ++ msg.

(** wire packets a command of [len] payload bytes takes (Packet.readPacket: parts of 2^24-1 bytes and a last shorter one) *)
Definition wire_parts (len : N) : N := len / MY_MAX_PAYLOAD + 1.

(** sequence id of the answer: id of the command's last packet + 1, as a byte *)
Definition answer_seq (first_seq parts : N) : N := N.land (first_seq + parts) 255.

(** sendCommandError: a fresh packet (Packet.SetData + Dump for a payload below 2^24-1 bytes) *)
Definition command_error_packet (protocol41 : bool) (msg : bytes) (first_seq cmd_len : N) : bytes :=
  let payload := interrupted_error protocol41 msg in
  le_enc 3 (N.of_nat (length payload)) ++ [n2b (answer_seq first_seq (wire_parts cmd_len))] ++ payload.

(** * Session state machine *)

(** installed ResponseHandler *)
Inductive rh :=
| HDefault                       (* defaultResponseHandler *)
| HQuery                         (* QueryResponseHandler *)
| HPrep                          (* PreparedStatementResponseHandler *)
| HParams (seen np nc : N)       (* PreparedStatementFieldTracker.ParamsTrackHandler *)
| HCols (seen nc : N)            (* PreparedStatementFieldTracker.ColumnsTrackHandler *)
| HReset.                        (* ResetStatementResponseHandler *)

Inductive cmd :=
| CQuery (s : N) (denied : bool)       (* COM_QUERY; verdict of AcraCensor.HandleQuery *)
| CPrepare (s : N) (denied : bool)     (* COM_STMT_PREPARE *)
| CExecute (id : option N)             (* COM_STMT_EXECUTE; None = packet too short for a statement id *)
| CClose (id : N)
| CReset (id : N)
| CLongData (id : N)
| COther                               (* COM_INIT_DB, COM_PING, ...: "not supported now", forwarded *)
| CQuit.

(** a command as it arrives: sequence id of its first wire packet, number of wire packets *)
Record cpacket := CP { c_cmd : cmd; c_seq : N; c_parts : N }.

Definition cmd_code (c : cmd) : N :=
  match c with
  | CQuery _ _ => MYS_COM_QUERY
  | CPrepare _ _ => MYS_COM_STMT_PREPARE
  | CExecute _ => MYS_COM_STMT_EXECUTE
  | CClose _ => MYS_COM_STMT_CLOSE
  | CReset _ => MYS_COM_STMT_RESET
  | CLongData _ => MYS_COM_STMT_SEND_LONG_DATA
  | COther => MYS_COM_OTHER
  | CQuit => MYS_COM_QUIT
  end.

Inductive fwd :=
| FQuery (s : N) | FPrepare (s : N) | FExecute (id : N) | FClose (id : N) | FReset (id : N)
| FLongData (id : N) | FOther | FQuit.

Inductive out :=
| ToDb (f : fwd) (seq parts : N)       (* the command is written to the database connection *)
| ErrToClient (seq : N)                (* ONE QueryInterruptedError packet with this sequence id, nothing to the database *)
| Pass                                 (* database packet forwarded as it is *)
| PassDef                              (* parameter / column definition forwarded by a field tracker *)
| RowToClient (settings : option N) (binary bad : bool)   (* row decoded with the settings of that statement *)
| RowRaw (bad : bool)                  (* row forwarded unprocessed: no QueryResponseHandler installed *)
| RowFailed (settings : option N)      (* EncodingError: ERR to the client instead of the result set *)
| SessionClosed.                       (* the proxy goroutine returns an error: both connections are closed *)

Record state := St {
  handler : rh;
  curcmd : N;                    (* currentCommand *)
  cur : option N;                (* statement whose column settings are in force (querySelectSettings) *)
  pparse : option N;             (* ProtocolState.pendingParse (+ pendingQuerySettings) *)
  registry : list (N * N);       (* PreparedStatementRegistry: statement id -> statement *)
  closed : bool
}.
Definition init : state := St HDefault 0 None None [] false.

Fixpoint lookup (id : N) (r : list (N * N)) : option N :=
  match r with
  | [] => None
  | (k, v) :: tl => if N.eqb k id then Some v else lookup id tl
  end.
Definition remove (id : N) (r : list (N * N)) : list (N * N) :=
  filter (fun kv => negb (N.eqb (fst kv) id)) r.

Definition set_handler (st : state) (h : rh) : state :=
  St h (curcmd st) (cur st) (pparse st) (registry st) (closed st).
Definition close_session (st : state) : state :=
  St (handler st) (curcmd st) (cur st) (pparse st) (registry st) true.

(** ** Client side: one iteration of the loop of ProxyClientConnection *)
Definition client_step (st0 : state) (p : cpacket) : state * list out :=
  if closed st0 then (st0, []) else
  let st := St (handler st0) (cmd_code (c_cmd p)) (cur st0) (pparse st0) (registry st0) false in
  let seq := c_seq p in let parts := c_parts p in
  let refuse := [ErrToClient (answer_seq seq parts)] in
  match c_cmd p with
  | CQuit => (close_session st, [ToDb FQuit seq parts])
  | CQuery s denied =>
      if denied then (st, refuse)
      else (St HQuery (curcmd st) (Some s) (pparse st) (registry st) false, [ToDb (FQuery s) seq parts])
  | CPrepare s denied =>
      if denied then (St (handler st) (curcmd st) (cur st) None (registry st) false, refuse)
      else (St HPrep (curcmd st) (Some s) (Some s) (registry st) false, [ToDb (FPrepare s) seq parts])
  | CExecute None => (close_session st, [SessionClosed])
  | CExecute (Some id) =>
      if N.eqb id MYS_DIRECT_ID then
        match pparse st with
        | None => (st, refuse)
        | Some s => (St (handler st) (curcmd st) (Some s) (pparse st) (registry st) false, [ToDb (FExecute id) seq parts])
        end
      else
        let cur' := match lookup id (registry st) with Some s => Some s | None => cur st end in
        (St HQuery (curcmd st) cur' (pparse st) (registry st) false, [ToDb (FExecute id) seq parts])
  | CClose id =>
      (St (handler st) (curcmd st) (cur st) (pparse st) (remove id (registry st)) false, [ToDb (FClose id) seq parts])
  | CLongData id => (st, [ToDb (FLongData id) seq parts])
  | CReset id => (set_handler st HReset, [ToDb (FReset id) seq parts])
  | COther => (st, [ToDb FOther seq parts])
  end.

(** ** Database side: one iteration of the loop of ProxyDatabaseConnection *)
Inductive dpkt :=
| DOk | DErr | DEof
| DPrepOk (id np nc : N)         (* COM_STMT_PREPARE_OK *)
| DDef                           (* parameter / column definition *)
| DResult (rows : list bool).    (* a complete result set; per row: value not decodable as the configured type *)

Section Step.
  Variable strict : N -> bool.   (* the settings of the statement answer an undecodable value with an error *)
  Variable depeof : bool.        (* CLIENT_DEPRECATE_EOF *)

  Definition fails (settings : option N) (bad : bool) : bool :=
    bad && match settings with Some s => strict s | None => false end.

  (** QueryResponseHandler on a result set: everything is buffered; an EncodingError replaces the whole answer *)
  Definition process_rows (settings : option N) (binary : bool) (rows : list bool) : list out :=
    if existsb (fails settings) rows then [RowFailed settings]
    else Pass :: map (RowToClient settings binary) rows.

  Definition after_params (nc : N) : rh := if 0 <? nc then HCols 0 nc else HQuery.

  Definition db_step (st0 : state) (d : dpkt) : state * list out :=
    if closed st0 then (st0, []) else
    (* if packet.IsErr() { handler.resetQueryHandler() } *)
    let st := match d with DErr => set_handler st0 HDefault | _ => st0 end in
    match handler st with
    | HDefault =>
        (st, match d with DResult rows => Pass :: map RowRaw rows | _ => [Pass] end)
    | HQuery =>
        let st1 := set_handler st HDefault in
        match d with
        | DResult rows => (st1, process_rows (cur st) (N.eqb (curcmd st) MYS_COM_STMT_EXECUTE) rows)
        | DDef => (close_session st1, [SessionClosed])
        | _ => (st1, [Pass])
        end
    | HPrep =>
        match d, pparse st with
        | DPrepOk id np nc, Some s =>
            (St (if 0 <? np then HParams 0 np nc else if 0 <? nc then HCols 0 nc else HDefault)
                (curcmd st) (cur st) (pparse st)
                ((id, s) :: registry st) false, [Pass])
        | _, _ => (close_session st, [SessionClosed])
        end
    | HParams seen np nc =>
        match d with
        | DEof => (set_handler st (after_params nc), [Pass])
        | DDef =>
            (set_handler st (if depeof && (np <=? seen + 1) then after_params nc else HParams (seen + 1) np nc), [PassDef])
        | _ => (close_session st, [SessionClosed])
        end
    | HCols seen nc =>
        match d with
        | DEof => (set_handler st HQuery, [Pass])
        | DDef => (set_handler st (if depeof && (nc <=? seen + 1) then HQuery else HCols (seen + 1) nc), [PassDef])
        | _ => (close_session st, [SessionClosed])
        end
    | HReset => (set_handler st HDefault, [Pass])
    end.

  Fixpoint db_run (st : state) (ds : list dpkt) : state * list out :=
    match ds with
    | [] => (st, [])
    | d :: tl =>
        let '(st1, o1) := db_step st d in
        let '(st2, o2) := db_run st1 tl in
        (st2, o1 ++ o2)
    end.

  (** one exchange as the harness observes it: a command, then the packets the database answered with *)
  Definition exchange (st : state) (p : cpacket) (ds : list dpkt) : state * list out :=
    let '(st1, o1) := client_step st p in
    let '(st2, o2) := db_run st1 ds in
    (st2, o1 ++ o2).

  Fixpoint run_session (st : state) (evs : list (cpacket * list dpkt)) : state * list out :=
    match evs with
    | [] => (st, [])
    | (p, ds) :: tl =>
        let '(st1, o1) := exchange st p ds in
        let '(st2, o2) := run_session st1 tl in
        (st2, o1 ++ o2)
    end.

  (** * Proxy + a MySQL server that answers what it receives (half-duplex: one exchange at a time) *)

  Variable nparams : N -> N.     (* placeholders of a statement *)
  Variable ncols : N -> N.       (* result columns of a statement; 0 = no result set *)

  (** what the database does with a statement it is asked to run / prepare *)
  Inductive choice := ChOk | ChErr | ChRows (rows : list bool).

  Record backend := BE { bstmts : list (N * N); nextid : N; lastprep : N }.
  Definition be_init : backend := BE [] 0 0.

  Definition defs (n : N) : list dpkt :=
    if 0 <? n then repeat DDef (N.to_nat n) ++ (if depeof then [] else [DEof]) else [].

  Definition run_answer (ch : choice) : list dpkt :=
    match ch with ChOk => [DOk] | ChErr => [DErr] | ChRows rows => [DResult rows] end.

  (** answer of the server to one forwarded command; [option N] = the statement whose rows it sends *)
  Definition be_answer (b : backend) (f : fwd) (ch : choice) : backend * list dpkt * option N :=
    match f with
    | FQuery s => (b, run_answer ch, Some s)
    | FPrepare s =>
        match ch with
        | ChErr => (BE (bstmts b) (nextid b) 0, [DErr], None)
        | _ => let id := nextid b + 1 in
               (BE ((id, s) :: bstmts b) id id,
                DPrepOk id (nparams s) (ncols s) :: defs (nparams s) ++ defs (ncols s), None)
        end
    | FExecute id =>
        let id' := if N.eqb id MYS_DIRECT_ID then lastprep b else id in
        match lookup id' (bstmts b) with
        | Some s => (b, run_answer ch, Some s)
        | None => (b, [DErr], None)
        end
    | FClose id => (BE (remove id (bstmts b)) (nextid b) (lastprep b), [], None)
    | FReset id => (b, match lookup id (bstmts b) with Some _ => [DOk] | None => [DErr] end, None)
    | FLongData _ => (b, [], None)
    | FOther => (b, [DOk], None)
    | FQuit => (b, [], None)
    end.

  Definition forwarded_of (os : list out) : list fwd :=
    flat_map (fun o => match o with ToDb f _ _ => [f] | _ => [] end) os.

  (** observation: a row sent by the database for statement [producer] reached the client decoded with
      [settings] ([RawObs]: not decoded at all) *)
  Inductive obs := RowObs (producer : N) (settings : option N) | RawObs (producer : N) | Other (o : out).

  Definition observe (producer : option N) (o : out) : obs :=
    match producer, o with
    | Some p, RowToClient st _ _ => RowObs p st
    | Some p, RowFailed st => RowObs p st
    | Some p, RowRaw _ => RawObs p
    | _, _ => Other o
    end.

  Record sys := Sys { proxy : state; be : backend }.
  Definition sys_init : sys := Sys init be_init.

  Definition sys_step (y : sys) (e : cpacket * choice) : sys * list obs :=
    let '(p, ch) := e in
    let '(st1, o1) := client_step (proxy y) p in
    match forwarded_of o1 with
    | f :: _ =>
        let '(b1, ds, producer) := be_answer (be y) f ch in
        let '(st2, o2) := db_run st1 ds in
        (Sys st2 b1, map Other o1 ++ map (observe producer) o2)
    | [] => (Sys st1 (be y), map Other o1)
    end.

  Fixpoint sys_run (y : sys) (evs : list (cpacket * choice)) : sys * list obs :=
    match evs with
    | [] => (y, [])
    | e :: tl =>
        let '(y1, o1) := sys_step y e in
        let '(y2, o2) := sys_run y1 tl in
        (y2, o1 ++ o2)
    end.
End Step.

(** * The code before the fix (for the refutation witnesses) *)

(** client side before the fix: ERR in the command's own packet (its sequence id); COM_STMT_CLOSE leaves the
    registry alone; COM_STMT_EXECUTE does not put the statement's settings back in force; id -1 without a
    pending statement dereferences nil (the connection goroutine panics); a rejected PREPARE keeps the pending one *)
Definition client_step_pinned (st0 : state) (p : cpacket) : state * list out :=
  if closed st0 then (st0, []) else
  let st := St (handler st0) (cmd_code (c_cmd p)) (cur st0) (pparse st0) (registry st0) false in
  let seq := c_seq p in let parts := c_parts p in
  match c_cmd p with
  | CQuery s true => (st, [ErrToClient seq])
  | CPrepare s true => (st, [ErrToClient seq])
  | CExecute (Some id) =>
      if N.eqb id MYS_DIRECT_ID then
        match pparse st with
        | None => (close_session st, [SessionClosed])
        | Some s => (st, [ToDb (FExecute id) seq parts])
        end
      else (St HQuery (curcmd st) (cur st) (pparse st) (registry st) false, [ToDb (FExecute id) seq parts])
  | CClose id => (st, [ToDb (FClose id) seq parts])
  | _ => client_step st0 p
  end.

Definition sys_step_pinned (strict : N -> bool) (depeof : bool) (nparams ncols : N -> N)
           (y : sys) (e : cpacket * choice) : sys * list obs :=
  let '(p, ch) := e in
  let '(st1, o1) := client_step_pinned (proxy y) p in
  match forwarded_of o1 with
  | f :: _ =>
      let '(b1, ds, producer) := be_answer depeof nparams ncols (be y) f ch in
      let '(st2, o2) := db_run strict depeof st1 ds in
      (Sys st2 b1, map Other o1 ++ map (observe producer) o2)
  | [] => (Sys st1 (be y), map Other o1)
  end.

Fixpoint sys_run_pinned (strict : N -> bool) (depeof : bool) (nparams ncols : N -> N)
         (y : sys) (evs : list (cpacket * choice)) : sys * list obs :=
  match evs with
  | [] => (y, [])
  | e :: tl =>
      let '(y1, o1) := sys_step_pinned strict depeof nparams ncols y e in
      let '(y2, o2) := sys_run_pinned strict depeof nparams ncols y1 tl in
      (y2, o1 ++ o2)
  end.
