(** Replay of implementation observations of the C06 data domain (harness c06data.go): one case =
    one history of keystore operations, listings, protect / reveal / search operations run on the
    REAL keystore v1 (in-memory Storage) / v2 (in-memory backend) with the REAL registry handlers,
    replayed on the composed model (Model/KeyDataExt.v) with the stand-in crypto instance. *)
From Coq Require Import List NArith ZArith Bool.
From Acra Require Export Lib.Bytes Lib.Outcome Crypto.Interface Crypto.Stub Gen.KeyStates Model.KeySpec
  Model.KeystoreV1 Model.KeystoreV2 Model.Envelope Model.KeyDataExt.
Import ListNotations.

Inductive expected := XOk (vals : list bytes) | XErr | XPanic.

Definition kmtab := list (N * (bytes * bytes)).
Fixpoint km_of (t : kmtab) (k : N) : bytes * bytes :=
  match t with
  | [] => ([], [])
  | (k', v) :: r => if (k =? k')%N then v else km_of r k
  end.

Inductive op :=
| V1Data (cache_size : Z) (km : kmtab) (ops : list dop)
| V2Data (km : kmtab) (ops : list dop).

Definition mode_of (z : Z) : cmode := if (z =? CACHE_WITHOUT)%Z then NoCache else Lru (Z.to_nat z).

(** raw result of one step as the harness writes it: tag byte, then the numbers (8 bytes LE each)
    or the bytes *)
Definition enc_out (o : dout) : bytes :=
  match o with
  | DN (Ok l) => x00 :: flat_map (le_enc 8) l
  | DB (Ok b) => x00 :: b
  | DN (Err _) | DB (Err _) => [x01]
  | DN Panic | DB Panic => [x02]
  end.

Definition run (o : op) : expected :=
  match o with
  | V1Data z t ops =>
      XOk (map enc_out (d_run Stub (km_of t) (v1_sys (mode_of z)) (d_init (v1_sys (mode_of z)) v1_init) ops))
  | V2Data t ops => XOk (map enc_out (d_run Stub (km_of t) v2_sys (d_init v2_sys v2_init) ops))
  end.

Fixpoint list_bytes_eqb (a b : list bytes) : bool :=
  match a, b with
  | [], [] => true
  | x :: a', y :: b' => bytes_eqb x y && list_bytes_eqb a' b'
  | _, _ => false
  end.

Definition expected_eqb (a b : expected) : bool :=
  match a, b with
  | XOk x, XOk y => list_bytes_eqb x y
  | XErr, XErr => true
  | XPanic, XPanic => true
  | _, _ => false
  end.

Fixpoint mismatches_from (i : nat) (cs : list (op * expected)) : list (nat * expected) :=
  match cs with
  | [] => []
  | (o, e) :: rest =>
      let m := run o in
      if expected_eqb m e then mismatches_from (S i) rest else (i, m) :: mismatches_from (S i) rest
  end.
Definition mismatches := mismatches_from 0.
