(** Executable model of acra's tokenization (pseudonymization/tokenizer.go, random.go, utils.go,
    dataTokenizer.go, common/common.go, common/tokenTypes.go, storage/memory.go).  NO proofs here.

    Values of the typed API are represented by their [encodeToBytes] form (int32 = 4 bytes LE,
    int64 = 8 bytes LE, string/e-mail/bytes = the bytes themselves); this is a bijection with the
    Go values, the fixed-width conversions are written out where Go performs them.

    A tokenize call is a *process* of atomic storage steps ([pstep]); the sequential functions are
    the process run alone to completion ([run_solo]), concurrent executions are schedules
    ([run_sched]).  The store is an association list keyed by (context hash, id) with
    insert-if-absent [st_save]; metadata times are not modelled, the disabled flag is. *)
From Acra Require Import Lib.Bytes Lib.Outcome Lib.Sha256 Gen.TokenConsts.
Local Open Scope N_scope.

(** error classes *)
Definition E_NOTFOUND : N := 20.
Definition E_DISABLED : N := 21.
Definition E_EXISTS : N := 22.
Definition E_GENERATION : N := 23.   (* ErrGenerationRandomValue *)
Definition E_MISMATCH : N := 24.     (* ErrDataTypeMismatch *)
Definition E_TAPE : N := 25.         (* random source exhausted / draw of unexpected size (model artefact) *)
Definition E_SYNTAX : N := 26.
Definition E_RANGE : N := 27.
Definition E_PROTO : N := 28.

(** ** token types and contexts *)
Inductive ttype := TInt32 | TInt64 | TStr | TBytes | TEmail.
Definition type_num (ty : ttype) : N :=
  match ty with TInt32 => TT_INT32 | TInt64 => TT_INT64 | TStr => TT_STRING | TBytes => TT_BYTES | TEmail => TT_EMAIL end.
Definition ttype_eqb (a b : ttype) : bool :=
  match a, b with
  | TInt32, TInt32 | TInt64, TInt64 | TStr, TStr | TBytes, TBytes | TEmail, TEmail => true
  | _, _ => false
  end.

Record ctxinfo := mkc { cl : bytes; ac : bytes }.   (* TokenContext{ClientID, AdditionalContext} *)

Definition is_nil (b : bytes) : bool := match b with [] => true | _ :: _ => false end.
(* literals written inline in generateDataID / AggregateTokenContextToBytes *)
Definition CLIENT_LIT : bytes := [x63; x6c; x69; x65; x6e; x74].   (* "client" *)
Definition ZONE_LIT : bytes := [x7a; x6f; x6e; x65].               (* "zone" *)
Definition ctx_tail (c : ctxinfo) : bytes :=
  if is_nil (ac c) then CLIENT_LIT ++ cl c else ZONE_LIT ++ ac c.
(** common.AggregateTokenContextToBytes *)
Definition agg_ctx (c : ctxinfo) : bytes := sha256 (ctx_tail c).

(** ** decimal text (strconv.Itoa / FormatInt / ParseInt base 10) *)
Fixpoint dec_rev (fuel : nat) (n : N) : bytes :=   (* least significant digit first *)
  match fuel with
  | O => []
  | S f => n2b (48 + n mod 10) :: (if n <? 10 then [] else dec_rev f (n / 10))
  end.
Definition dec_of_N (n : N) : bytes := rev (dec_rev (S (N.to_nat (N.log2 n))) n).
Definition format_int (z : Z) : bytes :=
  if (z <? 0)%Z then x2d :: dec_of_N (Z.to_N (- z)) else dec_of_N (Z.to_N z).

Definition digit_of (b : byte) : option N :=
  let n := b2n b in if (48 <=? n) && (n <=? 57) then Some (n - 48) else None.
Fixpoint parse_digits (s : bytes) (acc : N) : option N :=
  match s with
  | [] => Some acc
  | b :: r => match digit_of b with Some d => parse_digits r (10 * acc + d) | None => None end
  end.
(** strconv.ParseInt(s, 10, bits): optional sign, at least one digit, digits only, range check *)
Definition parse_int (bits : N) (s : bytes) : res Z :=
  match s with
  | [] => Err E_SYNTAX
  | b :: r =>
      let '(neg, ds) := if byte_eqb b x2b then (false, r) else if byte_eqb b x2d then (true, r) else (false, s) in
      if is_nil ds then Err E_SYNTAX else
      match parse_digits ds 0 with
      | None => Err E_SYNTAX
      | Some n =>
          let cutoff := 2 ^ (bits - 1) in
          if neg then (if cutoff <? n then Err E_RANGE else Ok (- Z.of_N n)%Z)
          else (if cutoff <=? n then Err E_RANGE else Ok (Z.of_N n))
      end
  end.

(** int32(i)/uint32 conversions and utils.go encodeInt32/decodeInt32 *)
Definition enc_int (w : nat) (z : Z) : bytes := le_enc w (Z.to_N (z mod 2 ^ (8 * Z.of_nat w))%Z).
Definition dec_int (w : nat) (bs : bytes) : Z :=
  let n := le_dec (firstn w bs) in
  let half := 2 ^ (8 * N.of_nat w - 1) in
  if n <? half then Z.of_N n else (Z.of_N n - Z.of_N (2 * half))%Z.

(** ** generateDataID and the two key spaces *)
Definition generate_data_id (data : bytes) (c : ctxinfo) (ty : ttype) : bytes :=
  sha256 (TOK_DELIM ++ data ++ ctx_tail c ++ TOK_DELIM ++ dec_of_N (type_num ty)).
Definition key_for_hash (k : bytes) : bytes := TOK_HASH_PREFIX ++ k.
Definition key_for_token (k : bytes) : bytes := TOK_TOKEN_PREFIX ++ k.
Definition hkey (v : bytes) (c : ctxinfo) (ty : ttype) : bytes := key_for_hash (generate_data_id v c ty).
Definition tkey (t : bytes) (c : ctxinfo) (ty : ttype) : bytes := key_for_token (generate_data_id t c ty).

(** ** common.EncodeTokenValue / TokenValueFromData (protobuf: 1 = bytes value, 2 = varint type;
    the parser covers exactly these two fields, which is all the tokenizer ever stores) *)
Fixpoint varint_enc (fuel : nat) (n : N) : bytes :=
  match fuel with
  | O => []
  | S f => if n <? 128 then [n2b n] else n2b (128 + n mod 128) :: varint_enc f (n / 128)
  end.
Definition varint (n : N) : bytes := varint_enc (S (N.to_nat (N.log2 n))) n.
Fixpoint varint_dec (bs : bytes) : option (N * bytes) :=
  match bs with
  | [] => None
  | b :: r =>
      if b2n b <? 128 then Some (b2n b, r)
      else match varint_dec r with
           | Some (m, r') => Some (b2n b - 128 + 128 * m, r')
           | None => None
           end
  end.
Definition encode_token_value (v : bytes) (ty : N) : bytes :=
  (if is_nil v then [] else x0a :: varint (N.of_nat (length v)) ++ v) ++
  (if ty =? 0 then [] else x10 :: varint ty).
Fixpoint decode_fields (fuel : nat) (bs : bytes) (v : bytes) (ty : N) : res (bytes * N) :=
  match bs with
  | [] => Ok (v, ty)
  | tag :: r =>
      match fuel with
      | O => Err E_OUT_OF_FUEL
      | S f =>
          if byte_eqb tag x0a then
            match varint_dec r with
            | None => Err E_PROTO
            | Some (n, r') =>
                if N.of_nat (length r') <? n then Err E_PROTO
                else decode_fields f (skipn (N.to_nat n) r') (firstn (N.to_nat n) r') ty
            end
          else if byte_eqb tag x10 then
            match varint_dec r with
            | None => Err E_PROTO
            | Some (n, r') => decode_fields f r' v n
            end
          else Err E_PROTO
      end
  end.
Definition decode_token_value (bs : bytes) : res (bytes * N) := decode_fields (S (length bs)) bs [] 0.

(** ** token store (storage/memory.go; boltdb.go has the same observable behaviour) *)
Record entry := mke { e_ctx : bytes; e_id : bytes; e_data : bytes; e_dis : bool }.
Definition store := list entry.
Definition key_match (c id : bytes) (e : entry) : bool := bytes_eqb c (e_ctx e) && bytes_eqb id (e_id e).
Fixpoint lookup (c id : bytes) (s : store) : option entry :=
  match s with
  | [] => None
  | e :: r => if key_match c id e then Some e else lookup c id r
  end.
(** Save: insert-if-absent ([SaveExists] = ErrTokenExists; a disabled entry still exists).
    [enc] = the store is wrapped by WrapStorageWithEncryption: the wrapper is transparent at this
    interface (AcraBlock round trip, C01/C03) except that Secure Cell refuses to encrypt an empty
    message, so saving empty data fails before the store is consulted. *)
Inductive save_res := SaveOk | SaveExists | SaveErr.
Definition st_save (enc : bool) (c id d : bytes) (s : store) : store * save_res :=
  if enc && is_nil d then (s, SaveErr) else
  match lookup c id s with
  | Some _ => (s, SaveExists)
  | None => (s ++ [mke c id d false], SaveOk)
  end.
Definition st_get (c id : bytes) (s : store) : res bytes :=
  match lookup c id s with
  | None => Err E_NOTFOUND
  | Some e => if e_dis e then Err E_DISABLED else Ok (e_data e)
  end.

(** VisitMetadata: the callback sees (data length, disabled flag) only *)
Inductive action := AContinue | AEnable | ADisable | ARemove.
Definition apply_action (a : action) (e : entry) : option entry :=
  match a with
  | AContinue => Some e
  | AEnable => Some (mke (e_ctx e) (e_id e) (e_data e) false)
  | ADisable => Some (mke (e_ctx e) (e_id e) (e_data e) true)
  | ARemove => None
  end.
Fixpoint visit (f : nat -> bool -> action) (s : store) : store :=
  match s with
  | [] => []
  | e :: r => match apply_action (f (length (e_data e)) (e_dis e)) e with
              | Some e' => e' :: visit f r
              | None => visit f r
              end
  end.

(** ** random values from the tape (random.go over math/rand with the crypto source) *)
Definition tape := list bytes.
(** crypto/rand.Read of [n] bytes = the next chunk; a zero-length read draws nothing *)
Definition draw (n : nat) (t : tape) : res (bytes * tape) :=
  match n with
  | O => Ok ([], t)
  | _ => match t with
         | [] => Err E_TAPE
         | c :: r => if Nat.eqb (length c) n then Ok (c, r) else Err E_TAPE
         end
  end.
(** Rand.Int31 over cryptoRandomSource: 8 bytes big endian, top bit cleared, >> 32 *)
Definition int31 (t : tape) : res (N * tape) :=
  do (c, t') <- draw 8 t;
  Ok (N.shiftr (N.land (be_dec c) 9223372036854775807) 32, t').
(** Rand.Int31n (= Intn for n < 2^31): power of two -> mask, else rejection sampling.
    Each iteration consumes one chunk; the fuel is the tape length + 1. *)
Fixpoint int31n_loop (fuel : nat) (n max : N) (t : tape) : res (N * tape) :=
  match fuel with
  | O => Err E_TAPE
  | S f => do (v, t') <- int31 t;
           if max <? v then int31n_loop f n max t' else Ok (v mod n, t')
  end.
Definition int31n (n : N) (t : tape) : res (N * tape) :=
  if n =? 0 then Panic
  else if N.land n (n - 1) =? 0 then (do (v, t') <- int31 t; Ok (N.land v (n - 1), t'))
  else int31n_loop (S (length t)) n (2147483647 - 2147483648 mod n) t.

Definition nthb (i : N) (l : bytes) : byte := nth (N.to_nat i) l x00.
(** randomString *)
Fixpoint random_string (n : nat) (t : tape) : res (bytes * tape) :=
  match n with
  | O => Ok ([], t)
  | S n' => do (i, t1) <- int31n (N.of_nat (length TOK_CHARSET)) t;
            do (r, t2) <- random_string n' t1;
            Ok (nthb i TOK_CHARSET :: r, t2)
  end.
Fixpoint set_nth (i : nat) (b : byte) (l : bytes) : bytes :=
  match l, i with
  | [], _ => []
  | _ :: r, O => b :: r
  | x :: r, S i' => x :: set_nth i' b r
  end.
(** The two length thresholds of randomEmail are inline literals of the Go code (len("a@b.cc") after the
    fix, len("a@b.cdef")); Gen/TokenConsts.v carries their values MEASURED on the compiled code on every
    run, so a change of either literal moves the model with the code and the shape proof has to hold
    for the new value (Proofs/TokensShape.v: email_min_is_shortest_email, email_long_leaves_room). *)
Definition EMAIL_MIN : nat := TOK_EMAIL_MIN.
Definition EMAIL_LONG : nat := TOK_EMAIL_LONG.
(** randomEmail (with the short-length fix: below EMAIL_MIN a plain random string) *)
Definition random_email (n : nat) (t : tape) : res (bytes * tape) :=
  if Nat.ltb n EMAIL_MIN then random_string n t else
  let tlds := if Nat.ltb n EMAIL_LONG then TOK_CC_TLDS else TOK_GENERIC_TLDS ++ TOK_CC_TLDS in
  do (i, t1) <- int31n (N.of_nat (length tlds)) t;
  let tld := nth (N.to_nat i) tlds [] in
  if Nat.ltb n (length tld) then Panic else      (* buf[:nonTLDlen] with a negative bound *)
  let m := (n - length tld)%nat in
  do (s, t2) <- random_string m t1;
  Ok (set_nth (Nat.div m 2) x40 s ++ tld, t2).

(** anonymizer.AnonymizeInt32/Int64/Bytes/Str/Email: a fresh value shaped like [v] *)
Definition gen_value (ty : ttype) (v : bytes) (t : tape) : res (bytes * tape) :=
  match ty with
  | TInt32 => draw 4 t
  | TInt64 => draw 8 t
  | TBytes => draw (length v) t
  | TStr => random_string (length v) t
  | TEmail => random_email (length v) t
  end.

(** bytesToGolangValue followed by the representation of the result (decodeInt32 reads 4 bytes
    and panics on shorter data) *)
Definition bytes_to_value (d : bytes) (ty : ttype) : res bytes :=
  match ty with
  | TInt32 => if Nat.ltb (length d) 4 then Panic else Ok (firstn 4 d)
  | TInt64 => if Nat.ltb (length d) 8 then Panic else Ok (firstn 8 d)
  | _ => Ok d
  end.

(** ** a tokenize call as a process of atomic storage steps *)
Inductive mode := Random | Consistent.
Record call := mkcall { c_mode : mode; c_ty : ttype; c_ctx : ctxinfo; c_val : bytes }.

Inductive pst :=
| PGet (tried : bool)                  (* next: storage.Get(h.key)           [AnonymizeConsistently] *)
| PGen (tried : bool) (more : nat)     (* next: generate + storage.Save(t.key) [generateNewValue loop], [left]+1 iterations left *)
| PSaveH (tried : bool) (tok : bytes)  (* next: storage.Save(h.key, token)   [AnonymizeConsistently] *)
| PDone (r : res bytes).

Definition gen_start (tried : bool) : pst :=
  match TOK_LOOP_LIMIT with O => PDone (Err E_GENERATION) | S k => PGen tried k end.
Definition pinit (c : call) : pst :=
  match c_mode c with Consistent => PGet false | Random => gen_start false end.

Section WithStoreKind.
Variable enc : bool.   (* store wrapped with encryption? *)

Definition pstep (c : call) (st : store * tape) (p : pst) : (store * tape) * pst :=
  let '(s, t) := st in
  let cx := agg_ctx (c_ctx c) in
  match p with
  | PDone _ => (st, p)
  | PGet tried =>
      match st_get cx (hkey (c_val c) (c_ctx c) (c_ty c)) s with
      | Ok d => (st, PDone (bytes_to_value d (c_ty c)))
      | _ => (st, gen_start tried)
      end
  | PGen tried more =>
      match gen_value (c_ty c) (c_val c) t with
      | Ok (tok, t') =>
          let '(s', r) := st_save enc cx (tkey tok (c_ctx c) (c_ty c))
                                  (encode_token_value (c_val c) (type_num (c_ty c))) s in
          match r with
          | SaveOk => ((s', t'), match c_mode c with Consistent => PSaveH tried tok | Random => PDone (Ok tok) end)
          | SaveExists => ((s', t'), match more with O => PDone (Err E_GENERATION) | S k => PGen tried k end)
          | SaveErr => ((s', t'), PDone (Err E_GENERIC))
          end
      | Err e => (st, PDone (Err e))
      | Panic => (st, PDone Panic)
      end
  | PSaveH tried tok =>
      let '(s', r) := st_save enc cx (hkey (c_val c) (c_ctx c) (c_ty c)) tok s in
      match r with
      | SaveOk => ((s', t), PDone (Ok tok))
      | SaveExists => if tried then ((s', t), PDone (Err E_EXISTS)) else ((s', t), PGet true)
      | SaveErr => ((s', t), PDone (Err E_GENERIC))
      end
  end.

Definition pdone (p : pst) : bool := match p with PDone _ => true | _ => false end.
Definition presult (p : pst) : res bytes := match p with PDone r => r | _ => Err E_OUT_OF_FUEL end.

Fixpoint run_solo (fuel : nat) (c : call) (st : store * tape) (p : pst) : (store * tape) * pst :=
  match fuel with
  | O => (st, p)
  | S f => if pdone p then (st, p) else let '(st', p') := pstep c st p in run_solo f c st' p'
  end.
(** at most 2 Gets, 2 h-Saves and 2*limit t-Saves per call *)
Definition SOLO_FUEL : nat := 2 * TOK_LOOP_LIMIT + 4.

(** pseudoanonymizer.Anonymize / AnonymizeConsistently *)
Definition tokenize (c : call) (s : store) (t : tape) : store * res bytes :=
  let '((s', _), p) := run_solo SOLO_FUEL c (s, t) (pinit c) in (s', presult p).

(** pseudoanonymizer.Deanonymize: any storage error (unknown, disabled) returns the token as is *)
Definition deanonymize (s : store) (c : ctxinfo) (ty : ttype) (tok : bytes) : res bytes :=
  match st_get (agg_ctx c) (tkey tok c ty) s with
  | Ok data =>
      do (v, n) <- decode_token_value data;
      if n =? type_num ty then bytes_to_value v ty else Err E_MISMATCH
  | _ => Ok tok
  end.

(** ** concurrent calls: scheduler = list of process ids *)
Fixpoint step_nth (i : nat) (cs : list (call * pst)) (st : store * tape) : (store * tape) * list (call * pst) :=
  match cs with
  | [] => (st, [])
  | (c, p) :: r =>
      match i with
      | O => let '(st', p') := pstep c st p in (st', (c, p') :: r)
      | S i' => let '(st', r') := step_nth i' r st in (st', (c, p) :: r')
      end
  end.
Fixpoint run_sched (sched : list nat) (cs : list (call * pst)) (st : store * tape) : (store * tape) * list (call * pst) :=
  match sched with
  | [] => (st, cs)
  | i :: r => let '(st', cs') := step_nth i cs st in run_sched r cs' st'
  end.
(** after the schedule every unfinished call runs to completion, in order *)
Fixpoint drain (cs : list (call * pst)) (st : store * tape) : (store * tape) * list (call * pst) :=
  match cs with
  | [] => (st, [])
  | (c, p) :: r =>
      let '(st1, p') := run_solo SOLO_FUEL c st p in
      let '(st2, r') := drain r st1 in (st2, (c, p') :: r')
  end.
Definition run_concurrent (calls : list call) (sched : list nat) (s : store) (t : tape) : store * list (res bytes) :=
  let '(st1, cs1) := run_sched sched (map (fun c => (c, pinit c)) calls) (s, t) in
  let '((s2, _), cs2) := drain cs1 st1 in
  (s2, map (fun cp => presult (snd cp)) cs2).

(** ** DataTokenizer: text <-> typed conversion at the SQL boundary (after the bitSize fix) *)
Definition int_width (ty : ttype) : option nat :=
  match ty with TInt32 => Some 4%nat | TInt64 => Some 8%nat | _ => None end.
Definition dt_to_value (ty : ttype) (text : bytes) : res bytes :=
  match int_width ty with
  | Some w => do z <- parse_int (8 * N.of_nat w) text; Ok (enc_int w z)
  | None => Ok text
  end.
Definition dt_of_value (ty : ttype) (v : bytes) : bytes :=
  match int_width ty with
  | Some w => format_int (dec_int w v)
  | None => v
  end.
Definition dt_tokenize (m : mode) (ty : ttype) (c : ctxinfo) (text : bytes) (s : store) (t : tape) : store * res bytes :=
  match dt_to_value ty text with
  | Ok v => let '(s', r) := tokenize (mkcall m ty c v) s t in
            (s', do tok <- r; Ok (dt_of_value ty tok))
  | Err e => (s, Err e)
  | Panic => (s, Panic)
  end.
Definition dt_detokenize (ty : ttype) (c : ctxinfo) (text : bytes) (s : store) : res bytes :=
  do tok <- dt_to_value ty text;
  do v <- deanonymize s c ty tok;
  Ok (dt_of_value ty v).

End WithStoreKind.
