(** SPECIFICATION of SQL name resolution for the comparisons of a statement, over the statement type of
    Model/SearchResolve.v and independent of how the two front ends walk it (same rules as
    Model/ColumnResolveSpec.v of package x04col, which states them on the generic sqlparser trees):

    - a FROM list defines a SCOPE: one entry per table expression, left to right through JOIN trees, with the name
      it is visible under (its alias, else its table name) and what it is (a base table / a derived table);
    - q.c is column c of THE entry visible as q; an unqualified c is column c of THE ONLY entry that has a column c
      (for a base table the proxy knows the columns its configuration names: `columns` and the encrypted columns;
      a derived table has the columns of its select list);
    - a column of a derived table is whatever its select item denotes in the derived table's own scope;
    - a reference inside a sub-select is resolved in the sub-select's own scope first, then in the enclosing ones.

    [spec_cmp]: the setting with which a comparison has to be rewritten (searchable column on the left, a value
    of the supported shape or another searchable column on the right).  No proofs in this file. *)
From Coq Require Import List Bool NArith Arith.
From Acra Require Import Lib.Bytes Lib.Outcome.
From Acra Require Export Model.SearchResolve.
Import ListNotations.

Inductive source := SBase (tb : bytes) | SDer (s : sel).
Definition scope := list (bytes * source).

Definition vis (n a : bytes) : bytes := if empty a then n else a.

Fixpoint scope_t (t : tref) : scope :=
  match t with
  | TBase n a => [(vis n a, SBase n)]
  | TJoin l r _ => scope_t l ++ scope_t r
  | TDerived s a => [(a, SDer s)]
  end.

Fixpoint scope_f (f : flist) : scope :=
  match f with
  | FNil => []
  | FCons t tl => scope_t t ++ scope_f tl
  end.

Definition out_name (it : item) : bytes := if empty (it_as it) then it_c it else it_as it.

Section Spec.
Variable cfg : CR.rcfg.
Variable srch : list N.

Definition base_has (tb c : bytes) : bool :=
  match CR.get_schema cfg tb with Some s => CR.knows_col s c | None => false end.

(** [fuel] bounds the nesting of derived tables *)
Fixpoint resolve (fuel : nat) (sc : scope) (q c : bytes) : option (bytes * bytes) :=
  match fuel with
  | O => None
  | S k =>
      let has (e : bytes * source) : bool :=
        match snd e with
        | SBase tb => base_has tb c
        | SDer s => existsb (fun it => bytes_eqb (out_name it) c) (sel_items s)
        end in
      let via (e : bytes * source) : option (bytes * bytes) :=
        match snd e with
        | SBase tb => Some (tb, c)
        | SDer s =>
            match find (fun it => bytes_eqb (out_name it) c) (sel_items s) with
            | Some it => resolve k (scope_f (sel_from s)) (it_q it) (it_c it)
            | None => None
            end
        end in
      match (if empty q then filter has sc else filter (fun e => bytes_eqb (fst e) q) sc) with
      | [e] => via e
      | _ => None
      end
  end.

(** innermost scope first *)
Fixpoint resolve_in (fuel : nat) (scs : list scope) (q c : bytes) : option (bytes * bytes) :=
  match scs with
  | [] => None
  | sc :: outer => match resolve fuel sc q c with Some x => Some x | None => resolve_in fuel outer q c end
  end.

Definition setting_of (tc : option (bytes * bytes)) : option N :=
  match tc with
  | Some (tb, c) => match CR.get_schema cfg tb with Some s => CR.col_setting s c | None => None end
  | None => None
  end.

Definition srch_setting (fuel : nat) (scs : list scope) (e : expr) : option N :=
  match e with
  | ECol q c => match setting_of (resolve_in fuel scs q c) with
                | Some sid => if is_srch srch sid then Some sid else None
                | None => None
                end
  | _ => None
  end.

(** the comparison [l op r], read in the scopes [scs], must be rewritten, with this setting *)
Definition spec_cmp (d : dial) (fuel : nat) (scs : list scope) (op : cop) (l r : expr) : option N :=
  match srch_setting fuel scs l with
  | None => None
  | Some sid =>
      match r with
      | ECol _ _ => srch_setting fuel scs r
      | _ => if value_shape d r && value_op d op then Some sid else None
      end
  end.

End Spec.
