(** Executable model of the ROW LOOP of QueryResponseHandler (decryptor/mysql/response_proxy.go, text protocol),
    AFTER the fix [fix_mysql_err_after_rows]: packets are read from the database stream until
    isResultSetRowsEnd (EOF_Packet, or for CLIENT_DEPRECATE_EOF clients the OK_Packet with the 0xfe header) or
    IsErr; every other packet is a row: processTextDataRow ([tr], an arbitrary function here) + SetData.
    The answer written to the client is the Dump of every packet in order.  Result: (bytes for the client,
    rest of the database stream).  fuel = number of packets allowed (length of the stream + 1 suffices).
    No proofs in this file. *)
From Coq Require Import List NArith.
From Acra Require Import Lib.Bytes Lib.Outcome Lib.GoSlice Gen.WireMysqlConsts Model.MysqlWire Model.MysqlWireExt.
Import ListNotations.

Fixpoint rows_loop (maxp : N) (tr : bytes -> res bytes) (fuel : nat) (s : bytes) : res (bytes * bytes) :=
  match fuel with
  | O => Err E_OUT_OF_FUEL
  | S f =>
      do (p, s1) <- read_packet maxp s;
      do e <- is_rows_end maxp p;
      if e then Ok (dump maxp p, s1) else
      do er <- is_err p;
      if er then Ok (dump maxp p, s1) else
      do d <- tr (p_data p);
      do (o, r) <- rows_loop maxp tr f s1;
      Ok (dump maxp (set_data p d) ++ o, r)
  end.

Definition relay_rows (maxp : N) (tr : bytes -> res bytes) (s : bytes) : res (bytes * bytes) :=
  rows_loop maxp tr (S (length s)) s.

(** one protocol packet of less than [maxp] payload bytes on the wire *)
Definition frame (sp : byte * bytes) : bytes := le_enc 3 (lenN (snd sp)) ++ [fst sp] ++ snd sp.
Definition frames (l : list (byte * bytes)) : bytes := concat (map frame l).

(** a row packet as the protocol frames it below [maxp] bytes: not empty, does not start with 0xfe / 0xff *)
Definition row_ok (maxp : N) (sp : byte * bytes) : Prop :=
  exists b t, snd sp = b :: t /\ b2n b <> MY_EOF /\ b2n b <> MY_ERR /\ (lenN (snd sp) < maxp)%N.
