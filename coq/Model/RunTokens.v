(** Replay of implementation observations on the token model.  One case = one scenario (a history
    of operations on an initially empty store); the expected value is the flat list of the
    per-operation outcomes: [x00 :: value] = ok, [x01] = error, [x02] = panic. *)
From Acra Require Export Lib.Bytes Lib.Outcome Lib.Sha256 Gen.TokenConsts Model.Tokens.

Inductive expected := XOk (vals : list bytes) | XErr | XPanic.

Inductive sop :=
| Tok (m : mode) (ty : ttype) (c : ctxinfo) (v : bytes) (t : list bytes)     (* Anonymize / AnonymizeConsistently / TranslatorService.Tokenize *)
| Detok (ty : ttype) (c : ctxinfo) (tok : bytes)                             (* Deanonymize / TranslatorService.Detokenize *)
| DtTok (m : mode) (ty : ttype) (c : ctxinfo) (text : bytes) (t : list bytes) (* DataTokenizer.Tokenize *)
| DtDetok (ty : ttype) (c : ctxinfo) (text : bytes)                          (* DataTokenizer.Detokenize *)
| Conc (calls : list call) (sched : list nat) (t : list bytes)               (* concurrent calls under a schedule *)
| Visit (lens : list nat) (all : bool) (a_en a_dis : action)                 (* VisitMetadata maintenance *)
| Dump.                                                                      (* store contents *)

Inductive op := Scenario (enc : bool) (ops : list sop).

Definition enc_res (r : res bytes) : bytes :=
  match r with Ok v => x00 :: v | Err _ => [x01] | Panic => [x02] end.

Definition visit_fn (lens : list nat) (all : bool) (a_en a_dis : action) (len : nat) (dis : bool) : action :=
  if all || existsb (Nat.eqb len) lens then (if dis then a_dis else a_en) else AContinue.

Definition dump_entry (e : entry) : bytes :=
  e_ctx e ++ e_id e ++ [if e_dis e then x01 else x00] ++ e_data e.

Definition sstep (enc : bool) (s : store) (o : sop) : store * list bytes :=
  match o with
  | Tok m ty c v t => let '(s', r) := tokenize enc (mkcall m ty c v) s t in (s', [enc_res r])
  | Detok ty c tok => (s, [enc_res (deanonymize s c ty tok)])
  | DtTok m ty c text t => let '(s', r) := dt_tokenize enc m ty c text s t in (s', [enc_res r])
  | DtDetok ty c text => (s, [enc_res (dt_detokenize ty c text s)])
  | Conc calls sched t => let '(s', rs) := run_concurrent enc calls sched s t in (s', map enc_res rs)
  | Visit lens all a_en a_dis => (visit (visit_fn lens all a_en a_dis) s, [])
  | Dump => (s, map dump_entry s)
  end.

Fixpoint run_ops (enc : bool) (s : store) (ops : list sop) : list bytes :=
  match ops with
  | [] => []
  | o :: r => let '(s', out) := sstep enc s o in out ++ run_ops enc s' r
  end.

Definition run (o : op) : expected := match o with Scenario enc ops => XOk (run_ops enc [] ops) end.

Fixpoint list_bytes_eqb (a b : list bytes) : bool :=
  match a, b with
  | [], [] => true
  | x :: a', y :: b' => bytes_eqb x y && list_bytes_eqb a' b'
  | _, _ => false
  end.
Definition expected_eqb (a b : expected) : bool :=
  match a, b with
  | XOk x, XOk y => list_bytes_eqb x y
  | XErr, XErr => true
  | XPanic, XPanic => true
  | _, _ => false
  end.

Fixpoint mismatches_from (i : nat) (cs : list (op * expected)) : list (nat * expected) :=
  match cs with
  | [] => []
  | (o, e) :: rest =>
      let m := run o in
      if expected_eqb m e then mismatches_from (S i) rest else (i, m) :: mismatches_from (S i) rest
  end.
Definition mismatches := mismatches_from 0.
