(** Replay of observations of the REAL PostgreSQL proxy driven through the extended query protocol
    (in-process rig, scripted client and recording fake back end) on the model Model/PgPrepared.v.
    Used by the correspondence check of C05 (domain c05prep).
    Statement identifiers are [seq * 8 + class] as in RunPgSession; statement names 0..3 stand for
    "", s1, s2, s3 and portal names 0..2 for "", p1, p2. *)
From Coq Require Import List Bool NArith.
From Acra Require Import Lib.Bytes Lib.Outcome.
From Acra Require Export Model.PgPrepared.
Import ListNotations.
Local Open Scope N_scope.

Inductive expected := XOk (vals : list bytes) | XErr | XPanic.

Definition class (s : N) : N := N.land s 7.
Definition strict (s : N) : bool := 6 <=? class s.

Definition CQ := ClientQuery.
Definition CP := ClientParse.
Definition CB := ClientBind.
Definition CE := ClientExecute.
Definition CO := ClientOther.
Definition DR := DbDataRow.
Definition DC := DbComplete.
Definition DZ := DbReady.
Definition DO := DbOther.
Definition T := true.
Definition F := false.

Inductive op := OpSession (evs : list event).

Definition n8 (n : N) : bytes := le_enc 8 n.
Definition cls (o : option N) : byte := match o with Some s => n2b (class s) | None => x00 end.

(** what the harness can see of one output (a decodable value passes unchanged under every setting:
    0xee).  For a Bind: the statement handed to the recording OnBind observer; for an Execute: the
    statement of the pending query packet queued last. *)
Definition enc_out (o : out) : bytes :=
  match o with
  | ToDb s => x01 :: n8 s
  | ToClientError => [x02]
  | RowToClient st bad => [x03; if bad then cls st else xee]
  | RowFailed st => [x04; cls st]
  | PassToClient => [x05]
  | Skipped => [x06]
  | ToDbParse nm s => x08 :: n2b nm :: n8 s
  | ToDbBind p nm seen => x09 :: n2b p :: n2b nm :: n8 seen
  | ToDbExecute p queued => x0a :: n2b p :: n8 queued
  | ToDbOther => [x0b]
  | SessionError => [x0c]
  | Dropped => [x0d]
  end.

Definition enc_opt (o : option N) : bytes := match o with Some s => x01 :: n8 s | None => [x00] end.

Definition stmt_names : list N := [0; 1; 2; 3].
Definition portal_names : list N := [0; 1; 2].

Definition run (o : op) : expected :=
  match o with
  | OpSession evs =>
      let '(st, os) := run_session strict init evs in
      XOk (map enc_out os
           ++ [x07 :: flat_map (fun q => n8 (qtext q)) (pending st);
               x0e :: flat_map (fun nm => enc_opt (reg_text st nm)) stmt_names;
               x0f :: flat_map (fun p => enc_opt (cursor_text st p)) portal_names])
  end.

Fixpoint list_bytes_eqb (a b : list bytes) : bool :=
  match a, b with
  | [], [] => true
  | x :: a', y :: b' => bytes_eqb x y && list_bytes_eqb a' b'
  | _, _ => false
  end.

Definition expected_eqb (a b : expected) : bool :=
  match a, b with
  | XOk x, XOk y => list_bytes_eqb x y
  | XErr, XErr => true
  | XPanic, XPanic => true
  | _, _ => false
  end.

Fixpoint mismatches_from (i : nat) (cs : list (op * expected)) : list (nat * expected) :=
  match cs with
  | [] => []
  | (o, e) :: rest =>
      let m := run o in
      if expected_eqb m e then mismatches_from (S i) rest else (i, m) :: mismatches_from (S i) rest
  end.
