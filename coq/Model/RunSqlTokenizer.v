(** Replay of the REAL tokenizer's behaviour (domain c14tok) on the checked model Model/SqlTokenizer.v.
    One op = one tokenizer (dialect, default dialect, SQL text in chunks) and a script of calls on it:
    0 Scan | 1 ForceEOF=true | 2 ForceEOF=false | 3 multi=true | 4 multi=false | 5 Error() re-sync | 6 reset().
    Expected: the concatenation of one record per call (see [observe]), cut into chunks.
    A panic of any call makes the whole op XPanic. *)
From Coq Require Import List NArith ZArith Bool.
From Acra Require Import Lib.Bytes Lib.Outcome Lib.GoSlice.
From Acra Require Export Gen.SqlKeywords Model.SqlTokenizer.
Import ListNotations.
Local Open Scope N_scope.

Inductive expected := XOk (vals : list bytes) | XErr | XPanic.
Inductive op := Tok (d ddef : N) (sql : list bytes) (script : list N) | TokBatch (d ddef : N) (inputs : list (list bytes)).

Definition dialect_of (n : N) : dialect :=
  match n with 0 => DMySQL | 1 => DMySQLAnsi | _ => DPostgres end.

Definition zenc (w : nat) (z : Z) : bytes := be_enc w (Z.to_N z).
Definition bit (b : bool) (v : N) : N := if b then v else 0.

(** one call: token type (2 bytes BE), Position (2), lastChar (2), bufPos (2), posVarIndex mod 256 (1),
    flags (1: ForceEOF, 2: multi, 4: nested tokenizer) [, nested Position (2), lastChar (2), bufPos (2), length (2)],
    the token's bytes; the record is preceded by its length (2 bytes) *)
Definition observe (t : tkn) (tok : Z) (val : bytes) : bytes :=
  let r :=
    zenc 2 tok ++ zenc 2 (t_pos t) ++ be_enc 2 (t_last t) ++ zenc 2 (t_bufpos t) ++ zenc 1 (t_pvi t)
    ++ [n2b (bit (t_feof t) 1 + bit (t_multi t) 2 + bit (match t_special t with Some _ => true | None => false end) 4)]
    ++ match t_special t with
       | Some s => zenc 2 (t_pos s) ++ be_enc 2 (t_last s) ++ zenc 2 (t_bufpos s) ++ zenc 2 (len (t_buf s))
       | None => []
       end
    ++ val in
  be_enc 2 (N.of_nat (length r)) ++ r.

Definition step (t : tkn) (code : N) : res (tkn * Z * bytes) :=
  match code with
  | 0 => Scan t
  | 1 => Ok (set_feof t true, 0%Z, [])
  | 2 => Ok (set_feof t false, 0%Z, [])
  | 3 => Ok (set_multi t true, 0%Z, [])
  | 4 => Ok (set_multi t false, 0%Z, [])
  | 5 => do t' <- error_resync t; Ok (t', 0%Z, [])
  | _ => Ok (reset t, 0%Z, [])
  end.

Fixpoint run_script (t : tkn) (script : list N) (acc : list bytes) : res (list bytes) :=
  match script with
  | [] => Ok (rev acc)
  | c :: rest =>
      do (t', tok, val) <- step t c;
      run_script t' rest (observe t' tok val :: acc)
  end.

Definition to_expected (r : res (list bytes)) : expected :=
  match r with Ok l => XOk l | Err _ => XErr | Panic => XPanic end.

(** Scan until token 0 (at most [calls] calls), then once more *)
Fixpoint run_stream (calls : nat) (t : tkn) (acc : list bytes) : res (list bytes) :=
  match calls with
  | O => Ok (rev acc)
  | S c =>
      do (t', tok, val) <- Scan t;
      let acc' := observe t' tok val :: acc in
      if (tok =? 0)%Z then do (t'', tok2, val2) <- Scan t'; Ok (rev (observe t'' tok2 val2 :: acc'))
      else run_stream c t' acc'
  end.

(** FNV-1a (64 bit) of a byte string, folded to 32 bits: the digest under which the record stream of a short
    text is compared (reading the records themselves as Coq literals costs far more than computing them) *)
Definition FNV_PRIME : N := 1099511628211.
Definition FNV_OFFSET : N := 14695981039346656037.
Definition MASK64 : N := 18446744073709551615.
Definition fnv1a (b : bytes) : N :=
  fold_left (fun h c => N.land (FNV_PRIME * N.lxor h (b2n c)) MASK64) b FNV_OFFSET.
Definition digest32 (b : bytes) : bytes :=
  let h := fnv1a b in be_enc 4 (N.lxor (N.shiftr h 32) (N.land h 4294967295)).

(** [TokBatch]: several short texts, each scanned to its end by a tokenizer of its own ([run_stream] with
    [length + 2] calls); per text: number of records mod 256 (1 byte) and the digest of the record stream (4) *)
Fixpoint run_batch (d dd : dialect) (inputs : list bytes) : res (list bytes) :=
  match inputs with
  | [] => Ok []
  | i :: rest =>
      do l <- run_stream (length i + 2) (fresh d dd i) [];
      do r <- run_batch d dd rest;
      Ok ((n2b (N.of_nat (length l)) :: digest32 (concat l)) :: r)
  end.

Definition run (o : op) : expected :=
  match o with
  | Tok d dd sql script => to_expected (run_script (fresh (dialect_of d) (dialect_of dd) (concat sql)) script [])
  | TokBatch d dd inputs => to_expected (run_batch (dialect_of d) (dialect_of dd) (map (@concat byte) inputs))
  end.

Fixpoint list_bytes_eqb (a b : list bytes) : bool :=
  match a, b with
  | [], [] => true
  | x :: a', y :: b' => bytes_eqb x y && list_bytes_eqb a' b'
  | _, _ => false
  end.

Definition expected_eqb (a b : expected) : bool :=
  match a, b with
  | XOk x, XOk y => bytes_eqb (concat x) (concat y)   (* chunking of the record stream is irrelevant *)
  | XErr, XErr => true
  | XPanic, XPanic => true
  | _, _ => false
  end.

(** indices (from 0) of the cases on which model and implementation differ, with the model's answer *)
Fixpoint mismatches_from (i : nat) (cs : list (op * expected)) : list (nat * expected) :=
  match cs with
  | [] => []
  | (o, e) :: rest =>
      let m := run o in
      if expected_eqb m e then mismatches_from (S i) rest else (i, m) :: mismatches_from (S i) rest
  end.
