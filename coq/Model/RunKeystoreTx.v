(** Replay of implementation observations on the recovery model (C08, domain c08tx): whole histories of
    operations with SEVERAL faults each and re-opens in between; the directory's open protocol. *)
From Acra Require Export Lib.Bytes Lib.Outcome Gen.KswConsts Model.KeystoreWrite Model.RunKeystoreWrite Model.KeystoreTx.
Local Open Scope Z_scope.

Inductive xop :=
| XK (o : kop)                                      (* the scenario steps of Model/RunKeystoreWrite.v *)
| XImport (l : list (N * ring)) (d : decision)      (* ImportKeyRings *)
| XList.                                            (* ListKeys *)

Inductive tstep :=
| TOp (o : xop) (fs : fsched)
| TReopen.                                          (* a new process (key ring objects are gone) *)

Inductive op :=
| THist (steps : list tstep) (follow : kop)
| TDir (rw : bool) (m : dmeta).

Definition xop_prog (s : slots) (o : xop) : prog (res Z * slots) :=
  match o with
  | XK k => kop_prog s k
  | XImport l d =>
      exe r <- import_rings l d;
      Done (match r with Ok _ => Ok 0 | Err e => Err e | Panic => Panic end, s)
  | XList =>
      exe r <- list_keys;
      Done (match r with Ok l => Ok (Z.of_nat (length l)) | Err e => Err e | Panic => Panic end, s)
  end.

Definition xslot_view (s : slots) (o : xop) : bytes :=
  match o with XK k => slot_view s k | _ => encN 0 end.

(** one observation per step: outcome, calls made, view of the key ring object, storage dump *)
Fixpoint run_steps (st : storage) (s : slots) (steps : list tstep) : list bytes * storage :=
  match steps with
  | [] => ([], st)
  | TReopen :: rest =>
      let (obs, st') := run_steps st no_slots rest in (encN 9 :: obs, st')
  | TOp o fs :: rest =>
      match execm (xop_prog s o) fs st 0 with
      | Ret (r, s1) st1 k =>
          let (obs, st') := run_steps st1 s1 rest in
          ((enc_res r ++ enc_nat k ++ xslot_view s1 o ++ enc_storage st1) :: obs, st')
      | Crash st1 =>
          let (obs, st') := run_steps st1 no_slots rest in
          ((encN 2 ++ enc_storage st1) :: obs, st')
      end
  end.

Definition run_thist (steps : list tstep) (follow : kop) : expected :=
  let (obs, st1) := run_steps [] no_slots steps in
  let lk := match exec list_keys None st1 0 with Ret r _ _ => enc_list_keys r | Crash _ => encN 2 end in
  let '(fo, st2) :=
    match exec (kop_prog no_slots follow) None st1 0 with
    | Ret (r, _) st2 _ => (enc_res r, st2)
    | Crash st2 => (encN 2, st2)
    end in
  XOk (obs ++ [lk; fo; enc_storage st2]).

Definition enc_dmeta (m : dmeta) : bytes :=
  encN (if dm_root m then 1 else 0) ++
  encN (match dm_version m with None => 0 | Some VFull => 1 | Some VPart => 2 | Some VOther => 3 end) ++
  enc_nat (dm_tmps m) ++ encN (if dm_lock m then 1 else 0).

(** a fault-free open (fixed code) of a directory in state [m] *)
Definition run_tdir (rw : bool) (m : dmeta) : expected :=
  let (r, m') := oexec (if rw then open_dir_rw true else open_dir_ro) [] m 0 in
  XOk [match r with Some (Ok _) => encN 0 | Some _ => encN 1 | None => encN 2 end; enc_dmeta m'].

Definition run (o : op) : expected :=
  match o with
  | THist steps follow => run_thist steps follow
  | TDir rw m => run_tdir rw m
  end.

Fixpoint mismatches_from (i : nat) (cs : list (op * expected)) : list (nat * expected) :=
  match cs with
  | [] => []
  | (o, e) :: rest =>
      let m := run o in
      if expected_eqb m e then mismatches_from (S i) rest else (i, m) :: mismatches_from (S i) rest
  end.
Definition mismatches := mismatches_from 0.
