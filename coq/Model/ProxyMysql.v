(** MySQL-specific steps between the statement text and the value the abstract session model
    (Model/Proxy.v) works on.  No proofs here.

    1. VALUES tuples: encryptor/mysql.encryptInsertQuery has no length test at all: position j of EVERY tuple
       is processed with the setting of column j while j < len(columns) ([protect_rows_my]; the PostgreSQL
       encryptor skips a tuple longer than the column list, [protect_rows]).
    2. Literal coding: encryptor/mysql/dbDataCoder.go [DBDataCoder.Decode] / [Encode] and
       utils.go [UpdateExpressionValue] ([coder_decode], [coder_encode], [update_value]);
       sqlparser SQLVal.Format ([format_lit], string literals through [encode_sql] of Model/SqlExpr.v).
    3. What a MySQL server reads from such a literal ([my_read_literal]): MySQL reference manual, "String
       Literals" (escape table below), "Hexadecimal Literals" (X'..' needs an even number of digits, 0x..
       is padded with a leading zero), "Bit-Value Literals".  This is the specification side; its Go twin
       is the fake back end's lexer harness/myrig/sql.go. *)
From Acra Require Import Lib.Bytes Lib.Outcome Crypto.Interface Gen.Prec Model.SqlExpr Model.Bytea Model.Envelope Model.Proxy.
Local Open Scope N_scope.

(** * 1. VALUES tuples *)
Section RowsMy.
Variable C : crypto.
Variable cfg : config.
Variable kr : keyring.
Variable conn : bytes.

(* [protect_list] gives positions beyond the column list the setting CPlain (hd CPlain []): exactly
   `if j >= len(columnsName) { continue }` *)
Fixpoint protect_rows_my (ccs : list colcfg) (tapes : list (list bytes)) (rows : list (list bytes))
  : res (list (list bytes)) :=
  match rows with
  | [] => Ok []
  | r :: rows' =>
      do r' <- protect_list C kr conn ccs (firstn (length r) tapes) r;
      do rest <- protect_rows_my ccs (skipn (length r) tapes) rows';
      Ok (r' :: rest)
  end.

Definition proxy_write_my (st : stmt) (tapes : list (list bytes)) : res stmt :=
  match st with
  | Insert tbl cols rows ret =>
      match insert_columns cfg tbl cols with
      | None => Ok st
      | Some ccs => do rows' <- protect_rows_my ccs tapes rows; Ok (Insert tbl cols rows' ret)
      end
  | _ => proxy_write C cfg kr conn st tapes
  end.

(* the statements MySQL executes: every tuple has exactly as many values as the column list *)
Definition rows_fit (ccs : list colcfg) (rows : list (list bytes)) : Prop :=
  forall r, In r rows -> (length r <= length ccs)%nat.
End RowsMy.

(** * 2. literal coding *)
Definition E_UNSUPPORTED : N := 42.  (* base.ErrUnsupportedExpression *)
Definition E_SYNTAX : N := 43.       (* the server rejects the literal *)

Definition hexnum_prefix : bytes := [x30; x78].   (* hexNumPrefix = "0x" *)
Definition bslash_x : bytes := [x5c; x78].        (* sqltypes.hexPrefix *)

(* bytes.ToUpper on the output of hex.Encode *)
Definition upper_byte (c : byte) : byte :=
  if (97 <=? b2n c) && (b2n c <=? 122) then n2b (b2n c - 32) else c.
Definition to_upper (s : bytes) : bytes := map upper_byte s.

(* decodeBitLiteral (fix_mysql_literal_spellings): the digits as one big-endian number in (len+7)/8 bytes *)
Fixpoint bits_acc (bits : bytes) (acc : N) : res N :=
  match bits with
  | [] => Ok acc
  | c :: r =>
      if byte_eqb c x30 then bits_acc r (2 * acc)
      else if byte_eqb c x31 then bits_acc r (2 * acc + 1)
      else Err E_UNSUPPORTED
  end.
Definition decode_bits (bits : bytes) : res bytes :=
  do n <- bits_acc bits 0; Ok (be_enc (Nat.div (length bits + 7) 8) n).

(* DBDataCoder.Decode on SQLVal{Type: k, Val: v} *)
Definition pad_even (d : bytes) : bytes := if Nat.odd (length d) then x30 :: d else d.
Definition coder_decode (k : N) (v : bytes) : res bytes :=
  if (k =? VT_IntVal) || (k =? VT_StrVal) then Ok v
  else if k =? VT_HexVal then hex_decode v
  else if k =? VT_HexNum then
    if starts_with hexnum_prefix v then hex_decode (pad_even (skipn 2 v)) else Ok v
  else if k =? VT_BitVal then decode_bits v
  else Err E_UNSUPPORTED.

Section Encode.
Variable utf8_valid : bytes -> bool.   (* unicode/utf8.Valid *)
Variable is_atoi : bytes -> bool.      (* strconv.Atoi succeeds *)

(* DBDataCoder.Encode: new (Type, Val) of the SQLVal *)
Definition coder_encode (k : N) (data : bytes) : res (N * bytes) :=
  if k =? VT_IntVal then Ok (if is_atoi data then (VT_IntVal, data) else (VT_HexVal, hex_encode data))
  else if k =? VT_StrVal then Ok (if utf8_valid data then (VT_StrVal, data) else (VT_HexVal, hex_encode data))
  else if (k =? VT_HexVal) || (k =? VT_BitVal) then Ok (VT_HexVal, hex_encode data)
  else if k =? VT_HexNum then Ok (VT_HexNum, hexnum_prefix ++ to_upper (hex_encode data))
  else Err E_UNSUPPORTED.

Definition coded_kind (k : N) : bool :=
  (k =? VT_StrVal) || (k =? VT_HexVal) || (k =? VT_IntVal) || (k =? VT_HexNum) || (k =? VT_BitVal).

(* UpdateExpressionValue on a literal: decode, updateFunc, encode; the literal stays when updateFunc returns
   its input (ErrUpdateLeaveDataUnchanged) or the kind is not a data literal (placeholders, floats) *)
Definition update_value (f : bytes -> res bytes) (k : N) (v : bytes) : res (N * bytes) :=
  if coded_kind k then
    match coder_decode k v with
    | Ok raw =>
        do new <- f raw;
        if bytes_eqb new raw then Ok (k, v) else coder_encode k new
    | Err e => if e =? E_UNSUPPORTED then Ok (k, v) else Err e    (* -> ErrUpdateLeaveDataUnchanged *)
    | Panic => Panic
    end
  else Ok (k, v).
End Encode.

(* SQLVal.Format (sqlparser/ast_methods.go) for the literal kinds *)
Definition format_lit (k : N) (v : bytes) : bytes :=
  if k =? VT_StrVal then encode_sql v
  else if k =? VT_HexVal then x58 :: x27 :: v ++ [x27]
  else if k =? VT_BitVal then x42 :: x27 :: v ++ [x27]
  else v.

(** * 3. the MySQL server's reading of one literal *)
Definition MYSQL_ESCAPES : list (byte * byte) :=
  [(x30, x00); (x27, x27); (x22, x22); (x62, x08); (x6e, x0a); (x72, x0d); (x74, x09); (x5a, x1a); (x5c, x5c)].

(* body of a string quoted with [q]; returns the value and the text after the closing quote *)
Fixpoint my_scan (q : byte) (acc : bytes) (s : bytes) : option (bytes * bytes) :=
  match s with
  | [] => None
  | c :: s1 =>
      if byte_eqb c x5c then
        match s1 with
        | [] => None
        | d :: s2 =>
            if byte_eqb d x25 || byte_eqb d x5f then my_scan q (acc ++ [c; d]) s2     (* \% \_ keep the backslash *)
            else my_scan q (acc ++ [match assoc_byte MYSQL_ESCAPES d with Some o => o | None => d end]) s2
        end
      else if byte_eqb c q then
        match s1 with
        | d :: s2 => if byte_eqb d q then my_scan q (acc ++ [q]) s2 else Some (acc, s1)
        | [] => Some (acc, [])
        end
      else my_scan q (acc ++ [c]) s1
  end.

Definition strip_quote (s : bytes) : option bytes :=
  match s with
  | [] => None
  | _ => if byte_eqb (last s x00) x27 then Some (removelast s) else None
  end.

Definition my_read_literal (s : bytes) : res bytes :=
  match s with
  | [] => Err E_SYNTAX
  | c :: s1 =>
      if byte_eqb c x27 || byte_eqb c x22 then
        match my_scan c [] s1 with Some (v, []) => Ok v | _ => Err E_SYNTAX end
      else match s1 with
      | d :: s2 =>
          if (byte_eqb c x58 || byte_eqb c x78) && byte_eqb d x27 then          (* X'..' *)
            match strip_quote s2 with
            | Some h => match hex_decode h with Ok o => Ok o | _ => Err E_SYNTAX end
            | None => Err E_SYNTAX
            end
          else if (byte_eqb c x42 || byte_eqb c x62) && byte_eqb d x27 then     (* B'..' *)
            match strip_quote s2 with
            | Some h => match decode_bits h with Ok o => Ok o | _ => Err E_SYNTAX end
            | None => Err E_SYNTAX
            end
          else if byte_eqb c x30 && byte_eqb d x78 then                         (* 0x.. *)
            match s2 with
            | [] => Err E_SYNTAX
            | _ => match hex_decode (pad_even s2) with Ok o => Ok o | _ => Err E_SYNTAX end
            end
          else Ok s                                                             (* a number: its digits *)
      | [] => Ok s
      end
  end.

(** the spellings a client can use for the bytes [x] *)
Fixpoint byte_bits_from (k : nat) (n : N) : bytes :=   (* k digits, most significant first *)
  match k with
  | O => []
  | S k' => (if N.testbit n (N.of_nat k') then x31 else x30) :: byte_bits_from k' n
  end.
Definition byte_bits (b : byte) : bytes := byte_bits_from 8 (b2n b).
Definition bits_of (x : bytes) : bytes := flat_map byte_bits x.
