(** Replay of implementation observations of the C18 extension (keystore v2 export/import at key
    granularity, DER layout, v1-to-v2 migration) on the models, instantiated with the stand-in crypto. *)
From Coq Require Import List NArith ZArith Bool.
From Acra Require Import Lib.Bytes Lib.Outcome Crypto.Interface Crypto.Stub Gen.KsConsts Gen.X18Consts.
From Acra Require Export Model.KeyAtRest Model.DerV2Ext Model.KeyRingV2Ext Model.MigrateV2Ext.
Import ListNotations.

Inductive expected := XOk (vals : list bytes) | XErr | XPanic.

Definition mk_kdata := Build_kdata.
Definition mk_xfile := Build_xfile.

(** queries to a ring through api.KeyRing *)
Inductive query :=
| QCurrent | QAll
| QState (seq : Z) | QSince (seq : Z) | QUntil (seq : Z) | QFormats (seq : Z)
| QPublic (seq format : Z) | QPrivate (seq format : Z) | QSymmetric (seq format : Z).

(** one import target of a [KPlan]: its history, delegate (0 default, 1 overwrite, 2 skip), the nonces of
    the import, the rings to read raw and the rings to read through the getters afterwards *)
Record ktarget := mk_ktarget {
  kt_master : bytes; kt_tape : list bytes; kt_ops : list rop; kt_deleg : N; kt_itape : list bytes;
  kt_probes : list bytes; kt_views : list (bytes * list query) }.

Inductive op :=
(** history on an empty store; raw stored rings at [probes] *)
| KHist (master : bytes) (tape : list bytes) (ops : list rop) (probes : list bytes)
(** history, then exportKeyRings + EncryptedKeys.Marshal: the DER plaintext of the bundle *)
| KExport (master : bytes) (tape : list bytes) (ops : list rop) (mode : N) (paths : list bytes)
(** target history, then ImportKeyRings of the DER plaintext [der] (0 default delegate, 1 overwrite, 2 skip) *)
| KImport (master : bytes) (tape : list bytes) (ops : list rop) (deleg : N) (itape : list bytes) (der : bytes) (probes : list bytes)
(** the same, then the getters of ring [path] *)
| KImportView (master : bytes) (tape : list bytes) (ops : list rop) (deleg : N) (itape : list bytes) (der : bytes) (path : bytes) (qs : list query)
(** history, then the getters of ring [path] *)
| KView (master : bytes) (tape : list bytes) (ops : list rop) (path : bytes) (qs : list query)
(** source history, exportKeyRings in [mode], EncryptedKeys.Marshal / Unmarshal (the rings in DER SET
    order), then for each target: target history, ImportKeyRings, raw stored rings, getters of the imported
    rings — the composition the C18_v2*_identity theorems speak about, with no implementation bytes in
    between (one op per export so that the histories are written once) *)
(** history on an empty store: results, raw stored rings at [probes], getters of the rings in [views] *)
| KHistViews (master : bytes) (tape : list bytes) (ops : list rop) (probes : list bytes) (views : list (bytes * list query))
| KPlan (smaster : bytes) (stape : list bytes) (sops : list rop) (mode : N) (paths : list bytes) (targets : list ktarget)
(** asn1.UnmarshalEncryptedKeys on a real plaintext, re-serialized by the model *)
| KDerRoundTrip (der : bytes)
(** acra-keys migrate: v1 file tree (enumeration order) into an empty v2 store *)
| KMigrate (v1master v2master : bytes) (aux : list (bytes * (bytes * bytes * bytes))) (files : list xfile) (probes : list bytes).

Definition xhb (l : list N) : bytes := flat_map hb l.
Fixpoint chunk (fuel : nat) (s : bytes) : list bytes :=
  match fuel with
  | O => []
  | S f => match s with [] => [] | _ => firstn 64 s :: chunk f (skipn 64 s) end
  end.
Definition chunk64 (s : bytes) : list bytes := chunk (length s) s.

Definition z8 (z : Z) : bytes := le_enc 8 (Z.to_N (z mod 2 ^ 64)%Z).
Definition n8 (n : nat) : bytes := le_enc 8 (N.of_nat n).

Definition kdata_vals (d : kdata) : list bytes := [z8 (kd_format d); kd_pub d; kd_priv d; kd_sym d].
Definition key_vals (k : rkey) : list bytes :=
  [z8 (k_seq k); z8 (k_state k); k_since k; k_until k; n8 (length (k_data k))] ++ flat_map kdata_vals (k_data k).
Definition ring_vals (r : ring) : list bytes :=
  [r_purpose r; z8 (r_current r); n8 (length (r_keys r))] ++ flat_map key_vals (r_keys r).
Definition probe_vals (b : backend) (p : bytes) : list bytes :=
  match b_get p b with
  | Some r => [x01] :: ring_vals r
  | None => [[x00]]
  end.

Definition res_vals (r : res Z) : list bytes :=
  match r with Ok z => [[x00]; z8 z] | Err _ => [[x01]; []] | Panic => [[x02]; []] end.

Fixpoint run_hist (master : bytes) (s : hst) (ops : list rop) : hst * list bytes :=
  match ops with
  | [] => (s, [])
  | o :: r => let (s1, x) := rstep Stub master s o in
              let (s2, xs) := run_hist master s1 r in (s2, res_vals x ++ xs)
  end.
Definition h0 (tape : list bytes) : hst := {| h_b := []; h_tape := tape |}.

Definition deleg_of (n : N) : ring -> ring -> decision :=
  match n with 0%N => deleg_default | 1%N => deleg_overwrite | _ => deleg_skip end.

Definition resb (r : res bytes) : list bytes :=
  match r with Ok b => [[x00]; b] | Err _ => [[x01]; []] | Panic => [[x02]; []] end.
Definition query_vals (v : vring) (q : query) : list bytes :=
  match q with
  | QCurrent => res_vals (g_current v)
  | QAll => n8 (length (g_all_keys v)) :: map z8 (g_all_keys v)
  | QState s => res_vals (g_state v s)
  | QSince s => resb (g_since v s)
  | QUntil s => resb (g_until v s)
  | QFormats s => match g_formats v s with Ok l => [x00] :: n8 (length l) :: map z8 l | _ => [[x01]] end
  | QPublic s f => resb (g_public v s f)
  | QPrivate s f => resb (g_private v s f)
  | QSymmetric s f => resb (g_symmetric v s f)
  end.
Definition view_vals (master : bytes) (b : backend) (path : bytes) (qs : list query) : list bytes :=
  match store_view Stub master b path with
  | Some v => [x01] :: flat_map (query_vals v) qs
  | None => [[x00]]
  end.

Definition imp_vals (i : imp) : list bytes :=
  (match im_res i with Ok _ => [x00] | Err _ => [x01] | Panic => [x02] end)
  :: n8 (length (im_events i)) :: flat_map (fun e => fst e :: ring_vals (snd e)) (im_events i).

(** verdict and number of writes only (the written rings themselves: [imp_vals], domain c18v2) *)
Definition imp_head (i : imp) : list bytes :=
  [[match im_res i with Ok _ => x00 | Err _ => x01 | Panic => x02 end]; n8 (length (im_events i))].

Definition run (o : op) : expected :=
  match o with
  | KHist master tape ops probes =>
      let (s, xs) := run_hist master (h0 tape) ops in
      XOk (xs ++ flat_map (probe_vals (h_b s)) probes)
  | KExport master tape ops mode paths =>
      let (s, _) := run_hist master (h0 tape) ops in
      match export_rings Stub master (h_b s) mode paths with
      | Ok rs => XOk (chunk64 (der_rings rs))
      | Err _ => XErr
      | Panic => XPanic
      end
  | KImport master tape ops dl itape der probes =>
      let (s, _) := run_hist master (h0 tape) ops in
      match parse_rings der with
      | None => XErr
      | Some rs =>
          let i := import_rings Stub master (deleg_of dl) (h_b s) itape rs in
          XOk (imp_vals i ++ flat_map (probe_vals (im_b i)) probes)
      end
  | KImportView master tape ops dl itape der path qs =>
      let (s, _) := run_hist master (h0 tape) ops in
      match parse_rings der with
      | None => XErr
      | Some rs =>
          let i := import_rings Stub master (deleg_of dl) (h_b s) itape rs in
          XOk (view_vals master (im_b i) path qs)
      end
  | KHistViews master tape ops probes views =>
      let (s, xs) := run_hist master (h0 tape) ops in
      XOk (xs ++ flat_map (probe_vals (h_b s)) probes ++
           flat_map (fun pq => view_vals master (h_b s) (fst pq) (snd pq)) views)
  | KPlan smaster stape sops mode paths targets =>
      let (s, _) := run_hist smaster (h0 stape) sops in
      match export_rings Stub smaster (h_b s) mode paths with
      | Ok rs =>
          XOk (n8 (length (chunk64 (der_rings rs))) :: chunk64 (der_rings rs) ++
               flat_map (fun t =>
                 let (tg, _) := run_hist (kt_master t) (h0 (kt_tape t)) (kt_ops t) in
                 let i := import_rings Stub (kt_master t) (deleg_of (kt_deleg t)) (h_b tg) (kt_itape t) (sorted_rings rs) in
                 imp_head i ++ flat_map (probe_vals (im_b i)) (kt_probes t) ++
                 flat_map (fun pq => view_vals (kt_master t) (im_b i) (fst pq) (snd pq)) (kt_views t)) targets)
      | Err _ => XErr
      | Panic => XPanic
      end
  | KView master tape ops path qs =>
      let (s, _) := run_hist master (h0 tape) ops in
      XOk (view_vals master (h_b s) path qs)
  | KDerRoundTrip der =>
      match parse_rings der with
      | Some rs => XOk (chunk64 (der_rings rs) ++ [n8 (length rs)])
      | None => XErr
      end
  | KMigrate m1 m2 aux files probes =>
      let r := migrate_from Stub m1 m2 (aux_of aux) files [] in
      XOk ([[if mg_ok r then x00 else x01]] ++ flat_map (probe_vals (mg_b r)) probes)
  end.

Fixpoint list_bytes_eqb (a b : list bytes) : bool :=
  match a, b with
  | [], [] => true
  | x :: a', y :: b' => bytes_eqb x y && list_bytes_eqb a' b'
  | _, _ => false
  end.
Definition expected_eqb (a b : expected) : bool :=
  match a, b with
  | XOk x, XOk y => list_bytes_eqb x y
  | XErr, XErr => true
  | XPanic, XPanic => true
  | _, _ => false
  end.
Fixpoint mismatches_from (i : nat) (cs : list (op * expected)) : list (nat * expected) :=
  match cs with
  | [] => []
  | (o, e) :: rest =>
      let m := run o in
      if expected_eqb m e then mismatches_from (S i) rest else (i, m) :: mismatches_from (S i) rest
  end.
Definition mismatches := mismatches_from 0.
