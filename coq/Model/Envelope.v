(** Executable model of acra's envelope layer (acrastruct/, acrablock/, crypto/, hmac/hash.go,
    the translator operations of cmd/acra-translator/common/service.go).  No proofs here. *)
From Acra Require Import Lib.Bytes Lib.Outcome Lib.Sha256 Crypto.Interface Gen.Consts.

Definition nthb (i : nat) (s : bytes) : byte := nth i s x00.

(** the keys a client identity resolves to (newest first); the keystore itself is C02/C06 *)
Record keyset := {
  ks_pub : option bytes;      (* GetClientIDEncryptionPublicKey *)
  ks_privs : list bytes;      (* GetServerDecryptionPrivateKeys *)
  ks_syms : list bytes;       (* GetClientIDSymmetricKeys; head = GetClientIDSymmetricKey *)
  ks_hmac : option bytes      (* GetHMACSecretKey *)
}.

Section Envelope.
Variable C : crypto.

(** * AcraStruct (acrastruct/utils.go) *)
Definition as_tag : bytes := repeat_bytes AS_TAG_SYMBOL AS_TAG_LEN.
Definition as_key_block : nat := AS_PUBKEY_LEN + AS_SMSG_LEN.
Definition as_min : nat := AS_TAG_LEN + as_key_block + AS_DATALEN_SIZE.

(* GetDataLengthFromAcraStruct; callers guarantee length >= as_min *)
Definition as_data_length (data : bytes) : Z :=
  int_of_u64 (le_dec (sub (as_min - AS_DATALEN_SIZE) AS_DATALEN_SIZE data)).

(* ValidateAcraStructLength = nil *)
Definition as_validate (data : bytes) : bool :=
  if Nat.ltb (length data) as_min then false
  else if negb (bytes_eqb (firstn AS_TAG_LEN data) as_tag) then false
  else Z.eqb (as_data_length data) (Z.of_nat (length data - as_min)).

Definition as_decrypt (data priv ctx : bytes) : res bytes :=
  if negb (as_validate data) then Err E_GENERIC
  else
    let inner := skipn AS_TAG_LEN data in
    let pub := firstn AS_PUBKEY_LEN inner in
    match msg_unwrap C priv pub (sub AS_PUBKEY_LEN AS_SMSG_LEN inner) with
    | None => Err E_GENERIC
    | Some symkey =>
        of_option E_GENERIC (cell_decrypt C symkey ctx (skipn (as_key_block + AS_DATALEN_SIZE) inner))
    end.

(* DecryptRotatedAcrastruct *)
Fixpoint as_decrypt_rotated (data : bytes) (privs : list bytes) (ctx : bytes) : res bytes :=
  match privs with
  | [] => Err E_GENERIC
  | p :: rest =>
      match as_decrypt data p ctx with
      | Ok x => Ok x
      | Panic => Panic
      | Err e => match rest with [] => Err e | _ => as_decrypt_rotated data rest ctx end
      end
  end.

(* CreateAcrastruct; tape = [seed32; key32; wrap nonce; seal nonce] in draw order *)
Definition as_create (tape : list bytes) (data pub ctx : bytes) : res bytes :=
  match tape with
  | seed :: dkey :: rest =>
      let '(epriv, epub) := keypair C seed in
      match rest with
      | wn :: rest2 =>
        match msg_wrap C epriv pub wn dkey with
        | None => Err E_GENERIC
        | Some ek =>
          if is_nil data then Err E_GENERIC else
          match rest2 with
          | sn :: _ =>
            match cell_encrypt C dkey ctx sn data with
            | None => Err E_GENERIC
            | Some ed => Ok (as_tag ++ epub ++ ek ++ le_enc AS_DATALEN_SIZE (N.of_nat (length ed)) ++ ed)
            end
          | [] => Err E_GENERIC
          end
        end
      | [] => Err E_GENERIC   (* Wrap failed before drawing: invalid keys *)
      end
  | _ => Err E_GENERIC
  end.

(** * AcraBlock (acrablock/acrablock.go) *)
Definition ab_tag : bytes := repeat_bytes AS_TAG_SYMBOL AB_TAG_SIZE.
Definition ab_key_id (key ctx : bytes) : bytes := firstn AB_KEY_ID_SIZE (sha256 (key ++ ctx)).

(* ExtractAcraBlockFromData: (n, block) *)
Definition ab_extract (data : bytes) : res (nat * bytes) :=
  if Nat.ltb (length data) AB_MIN_SIZE then Err E_GENERIC
  else
    let tag_ok := bytes_eqb (firstn AB_TAG_SIZE data) ab_tag in
    let rest := le_dec (sub AB_REST_LEN_POS AB_REST_LEN_SIZE data) in
    let len_ok := (N.leb (N.of_nat (AB_MIN_SIZE - AB_TAG_SIZE)) rest)
                  && (N.leb rest (N.of_nat (length data - AB_TAG_SIZE))) in
    let kek_ok := byte_eqb (nthb AB_KEK_TYPE_POS data) AB_KEK_TYPE_SECURE_CELL in
    let det_ok := byte_eqb (nthb AB_DATA_TYPE_POS data) AB_DATA_TYPE_SECURE_CELL in
    if tag_ok && len_ok && kek_ok && det_ok
    then let n := AB_TAG_SIZE + N.to_nat rest in Ok (n, firstn n data)
    else Err E_GENERIC.

Fixpoint ab_find_key (keys : list bytes) (ctx block_id ek : bytes) : option bytes :=
  match keys with
  | [] => None
  | k :: rest =>
      if bytes_eqb (ab_key_id k ctx) block_id then
        match cell_decrypt C k ctx ek with
        | Some dk => Some dk
        | None => ab_find_key rest ctx block_id ek
        end
      else ab_find_key rest ctx block_id ek
  end.

(* AcraBlock.Decrypt *)
Definition ab_decrypt (b : bytes) (keys : list bytes) (ctx : bytes) : res bytes :=
  if Nat.ltb (length b) AB_MIN_SIZE then Err E_GENERIC
  else
    let ksz := N.to_nat (le_dec (sub AB_DEK_LEN_POS AB_DEK_LEN_SIZE b)) in
    if Nat.ltb (length b) (AB_MIN_SIZE + ksz) then Err E_GENERIC
    else if negb (byte_eqb (nthb AB_KEK_TYPE_POS b) AB_KEK_TYPE_SECURE_CELL
                  && byte_eqb (nthb AB_DATA_TYPE_POS b) AB_DATA_TYPE_SECURE_CELL) then Err E_GENERIC
    else
      let ek := sub AB_ENC_KEY_POS ksz b in
      let ed := skipn (AB_MIN_SIZE + ksz) b in
      match ab_find_key keys ctx (sub AB_KEY_ID_POS AB_KEY_ID_SIZE b) ek with
      | None => Err E_GENERIC
      | Some dk => of_option E_GENERIC (cell_decrypt C dk ctx ed)
      end.

(* CreateAcraBlock; tape = [dek32; data nonce; key nonce] *)
Definition ab_create (tape : list bytes) (data key ctx : bytes) : res bytes :=
  match tape with
  | dek :: rest =>
      if is_nil data then Err E_GENERIC else
      match rest with
      | n1 :: rest2 =>
        match cell_encrypt C dek ctx n1 data with
        | None => Err E_GENERIC
        | Some ed =>
          if is_nil key then Err E_GENERIC else
          match rest2 with
          | n2 :: _ =>
            match cell_encrypt C key ctx n2 dek with
            | None => Err E_GENERIC
            | Some ek =>
                let total := AB_MIN_SIZE + length ed + length ek in
                Ok (ab_tag ++ le_enc AB_REST_LEN_SIZE (N.of_nat (total - AB_TAG_SIZE))
                      ++ [AB_KEK_TYPE_SECURE_CELL] ++ ab_key_id key ctx ++ [AB_DATA_TYPE_SECURE_CELL]
                      ++ le_enc AB_DEK_LEN_SIZE (N.of_nat (length ek)) ++ ek ++ ed)
            end
          | [] => Err E_GENERIC
          end
        end
      | [] => Err E_GENERIC
      end
  | [] => Err E_GENERIC
  end.

(** * Serialized container (crypto/registry_handler.go) *)
Definition sc_tag : bytes := repeat_bytes SC_TAG_SYMBOL SC_TAG_SIZE.

Definition known_envelope (id : byte) : bool :=
  byte_eqb id ENVELOPE_ID_ACRASTRUCT || byte_eqb id ENVELOPE_ID_ACRABLOCK.

Definition sc_serialize (enc : bytes) (id : byte) : res bytes :=
  if is_nil enc then Err E_GENERIC
  else Ok (sc_tag ++ le_enc SC_LEN_SIZE (N.of_nat (SC_MIN_SIZE + length enc)) ++ [id] ++ enc).

(* validateSerializedContainer *)
Definition sc_validate (data : bytes) : option byte :=
  if Nat.leb (length data) SC_MIN_SIZE then None
  else if negb (bytes_eqb (firstn SC_TAG_SIZE data) sc_tag) then None
  else let id := nthb (SC_TAG_SIZE + SC_LEN_SIZE) data in
       if known_envelope id then Some id else None.

(* matchOldContainer: (envelope id, length) *)
Definition match_old (data : bytes) : option (byte * Z) :=
  if as_validate data then Some (ENVELOPE_ID_ACRASTRUCT, (as_data_length data + Z.of_nat as_min)%Z)
  else match ab_extract data with
       | Ok (n, _) => Some (ENVELOPE_ID_ACRABLOCK, Z.of_nat n)
       | _ => None
       end.

Inductive env_kind := EnvNew (id : byte) | EnvOld (id : byte) | EnvNone.
Definition envelope_kind (data : bytes) : env_kind :=
  match sc_validate data with
  | Some id => EnvNew id
  | None => match match_old data with Some (id, _) => EnvOld id | None => EnvNone end
  end.

Definition M64N : N := 18446744073709551616.
(* getSerializedContainerLength: uint64 subtraction wraps *)
Definition sc_internal_length (enc : bytes) : option N :=
  let len := le_dec (sub SC_TAG_SIZE SC_LEN_SIZE enc) in
  let internal := ((len + M64N - N.of_nat SC_MIN_SIZE) mod M64N)%N in
  if N.ltb (N.of_nat (length enc - SC_MIN_SIZE)) internal then None else Some internal.

(* DeserializeEncryptedData: (internal, envelope id) *)
Definition sc_deserialize (enc : bytes) : res (bytes * byte) :=
  match envelope_kind enc with
  | EnvOld id => Ok (enc, id)
  | EnvNone => Err E_GENERIC
  | EnvNew id =>
      match sc_internal_length enc with
      | None => Err E_GENERIC
      | Some n => Ok (firstn (N.to_nat n) (skipn SC_MIN_SIZE enc), id)
      end
  end.

(* ExtractSerializedContainer: (n, container) *)
Definition sc_extract (data : bytes) : res (nat * bytes) :=
  match sc_validate data with
  | Some _ =>
      let len := le_dec (sub SC_TAG_SIZE SC_LEN_SIZE data) in
      if N.leb len (N.of_nat SC_MIN_SIZE) || N.ltb (N.of_nat (length data)) len then Err E_GENERIC
      else Ok (N.to_nat len, data)
  | None =>
      match match_old data with
      | Some (id, n) => do s <- sc_serialize data id; Ok (Z.to_nat n, s)
      | None => Err E_GENERIC
      end
  end.

(** * Handlers (crypto/acrastruct.go, crypto/acrablock.go, RegistryHandler) *)
Definition handler_match (id : byte) (data : bytes) : bool :=
  if byte_eqb id ENVELOPE_ID_ACRASTRUCT then as_validate data else is_ok (ab_extract data).

Definition registry_match (data : bytes) : bool :=
  match sc_deserialize data with
  | Ok (internal, id) => handler_match id internal
  | _ => false
  end.

Definition handler_encrypt (id : byte) (ks : keyset) (tape : list bytes) (data : bytes) : res bytes :=
  if byte_eqb id ENVELOPE_ID_ACRASTRUCT then
    if as_validate data then Ok data else
    match ks_pub ks with
    | None => Err E_GENERIC
    | Some pub => as_create tape data pub []
    end
  else
    if is_ok (ab_extract data) then Ok data else
    match ks_syms ks with
    | [] => Err E_GENERIC
    | key :: _ => ab_create tape data key []
    end.

Definition handler_decrypt (id : byte) (ks : keyset) (data : bytes) : res bytes :=
  if byte_eqb id ENVELOPE_ID_ACRASTRUCT then
    if negb (as_validate data) then Err E_GENERIC
    else if is_nil (ks_privs ks) then Err E_GENERIC
    else as_decrypt_rotated data (ks_privs ks) []
  else
    match ab_extract data with
    | Ok (_, block) =>
        if is_nil (ks_syms ks) then Err E_GENERIC
        else match ab_decrypt block (ks_syms ks) [] with
             | Ok x => Ok x
             | Err _ => Err E_DECRYPTION
             | Panic => Panic
             end
    | Err e => Err e
    | Panic => Panic
    end.

(* RegistryHandler.EncryptWithHandler *)
Definition encrypt_with_handler (id : byte) (ks : keyset) (tape : list bytes) (data : bytes) : res bytes :=
  if handler_match id data || registry_match data then Ok data
  else do enc <- handler_encrypt id ks tape data; sc_serialize enc id.

(* RegistryHandler.DecryptWithHandler *)
Definition decrypt_with_handler (id : byte) (ks : keyset) (data : bytes) : res bytes :=
  do p <- sc_deserialize data;
  let '(internal, _) := p in
  if negb (handler_match id internal) then Err E_GENERIC
  else handler_decrypt id ks internal.

(* RegistryHandler.Process *)
Definition registry_process (ks : keyset) (data : bytes) : res bytes :=
  match envelope_kind data with
  | EnvNone => Err E_GENERIC
  | EnvNew id | EnvOld id => decrypt_with_handler id ks data
  end.

(* crypto.DecryptHandler.OnCryptoEnvelope with an arbitrary processor: errors are swallowed *)
Definition decrypt_handler (proc : bytes -> res bytes) (container : bytes) : res bytes :=
  match proc container with
  | Ok x => Ok x
  | Err _ => Ok container
  | Panic => Panic
  end.

(** * EnvelopeDetector.OnColumn *)
(* run the callbacks on one container: None = advance one byte; Some p = emit p, advance n *)
Fixpoint run_callbacks (cbs : list (bytes -> res bytes)) (container : bytes) : res (option bytes) :=
  match cbs with
  | [] => Ok None
  | cb :: rest =>
      match cb container with
      | Panic => Panic
      | Err e => if N.eqb e E_DECRYPTION then run_callbacks rest container else Err e
      | Ok p => if bytes_eqb p container then run_callbacks rest container else Ok (Some p)
      end
  end.

Fixpoint scan (fuel : nat) (cbs : list (bytes -> res bytes)) (rest out : bytes) (changed : bool)
  : res (bytes * bool) :=
  match fuel with
  | O => Err E_OUT_OF_FUEL
  | S f =>
      match index_of sc_tag rest with
      | None => Ok (out ++ rest, changed)
      | Some i =>
          let out1 := out ++ firstn i rest in
          let r := skipn i rest in
          match sc_extract r with
          | Panic => Panic
          | Err _ => scan f cbs (skipn 1 r) (out1 ++ firstn 1 r) changed
          | Ok (n, container) =>
              match run_callbacks cbs container with
              | Panic => Panic
              | Err e => Err e
              | Ok None => scan f cbs (skipn 1 r) (out1 ++ firstn 1 r) changed
              | Ok (Some p) => scan f cbs (skipn n r) (out1 ++ p) true
              end
          end
      end
  end.

(* returns (output, changed); on a callback error Go returns the input and the error *)
Definition on_column (cbs : list (bytes -> res bytes)) (inb : bytes) : res (bytes * bool) :=
  if Nat.ltb (length inb) SC_MIN_SIZE || is_nil cbs then Ok (inb, false)
  else scan (S (length inb)) cbs inb [] false.

(** * hmac/hash.go *)
Definition generate_hmac (key data : bytes) : bytes := HMAC_FUNC_SHA256 :: hmac_sha256 key data.

(* ExtractHashAndData *)
Definition extract_hash (data : bytes) : option (bytes * bytes) :=
  match data with
  | [] => None
  | f :: _ =>
      if negb (byte_eqb f HMAC_FUNC_SHA256) then None
      else if Nat.ltb (length data) HMAC_HASH_SIZE then None
      else Some (firstn HMAC_HASH_SIZE data, skipn HMAC_HASH_SIZE data)
  end.

Definition hash_is_equal (hash data : bytes) (ks : keyset) : bool :=
  match ks_hmac ks with
  | None => false
  | Some key => bytes_eqb (skipn 1 hash) (hmac_sha256 key data)
  end.

(** * Translator operations (cmd/acra-translator/common/service.go), clientID non-empty *)
Definition tr_encrypt (id : byte) ks tape data := encrypt_with_handler id ks tape data.
Definition tr_decrypt (id : byte) ks data := decrypt_with_handler id ks data.

(* returns [encrypted; hash] *)
Definition tr_encrypt_searchable (id : byte) (ks : keyset) tape data : res (bytes * bytes) :=
  match ks_hmac ks with
  | None => Err E_GENERIC
  | Some hk => do enc <- encrypt_with_handler id ks tape data; Ok (enc, generate_hmac hk data)
  end.

(* hash = None models a nil hash argument *)
Definition tr_decrypt_searchable (id : byte) (ks : keyset) (data : bytes) (hash : option bytes) : res bytes :=
  let to_decrypt := match hash with Some h => h ++ data | None => data end in
  match extract_hash to_decrypt with
  | None => Err E_GENERIC
  | Some (hpart, cdata) =>
      match decrypt_with_handler id ks cdata with
      | Ok dec => if hash_is_equal hpart dec ks then Ok dec else Err E_GENERIC
      | Err e => Err e
      | Panic => Panic
      end
  end.

End Envelope.
