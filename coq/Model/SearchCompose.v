(** Evaluation semantics of the statement type of Model/SearchResolve.v ([sel / flist / tref / cond / expr]) over a
    database of named tables, restricted to ROW SELECTION of SELECT / UPDATE / DELETE:

      the rows a statement selects = the joined rows (one row of every base table of the FROM list, left to right
      through JOIN trees) that satisfy every ON condition and the WHERE condition.

    - a row is an association list column name -> cell; a joined row ([env]) is the list of its entries
      (visible name = alias, else table name; table name; row);
    - a column reference q.c is cell c of THE entry visible as q, an unqualified c is cell c of THE ONLY entry whose
      table has a column c ([base_has]: the columns the configuration names) -- the rule of Model/SearchResolveSpec.v
      ([ents_match] is [resolve] with the row kept, Proofs/SearchCompose.v [resolve_env]); a reference a database
      would reject (no / several candidates) evaluates to the empty string;
    - the database evaluates what it receives LITERALLY: substr(e, 1, 33) is [substr 1 HASHN], casts and
      convert(.., binary) are the identity on bytes (as in Model/SearchExt.v), `=`/`<=>` is equality of byte strings
      (NULLs are not modelled), `<>` its negation, LIKE and every other operator are PARAMETERS ([like], [oop]);
      an expression [EOther n] is a parameter [oth n] that does not depend on the row;
    - JOIN = INNER JOIN; every ON condition is evaluated on the complete joined row (for a statement a database
      accepts - an ON condition names tables of its own JOIN only, visible names are distinct - this is the nested
      evaluation); sub-selects and derived tables are OUTSIDE (they evaluate to false / no rows and are excluded by the
      decidable premise [flat_s] of the theorems).

    The same evaluator is used for the plaintext side (the statement as written, on the plaintext database) and for
    the stored side (the statement HashQuery.OnQuery produced, on the stored database); the plaintext side reads a
    searched value of a comparison that the SPECIFICATION marks as searchable as the plaintext it stands for
    ([rv] = [rv_plain]; the stored side takes the value as it is, [rv_id]).  No proofs in this file. *)
From Coq Require Import List Bool NArith Arith.
From Acra Require Import Lib.Bytes Lib.Outcome Model.Search Model.SearchResolveSpec.
Import ListNotations.

Definition row := list (bytes * bytes).
Definition rcell (r : row) (c : bytes) : bytes :=
  match find (fun kv => bytes_eqb (fst kv) c) r with Some kv => snd kv | None => [] end.

Record ent := mk_ent { e_vis : bytes; e_tb : bytes; e_row : row }.
Definition env := list ent.

Definition db := list (bytes * list row).
Definition tbl (b : db) (n : bytes) : list row :=
  match find (fun kv => bytes_eqb (fst kv) n) b with Some kv => snd kv | None => [] end.

Definition cross (a b : list env) : list env := flat_map (fun x => map (fun y => x ++ y) b) a.

(** the joined rows of a FROM list *)
Fixpoint rows_t (b : db) (t : tref) : list env :=
  match t with
  | TBase n a => map (fun r => [mk_ent (vis n a) n r]) (tbl b n)
  | TJoin l r _ => cross (rows_t b l) (rows_t b r)
  | TDerived _ _ => []
  end.
Fixpoint rows_f (b : db) (f : flist) : list env :=
  match f with
  | FNil => [[]]
  | FCons t tl => cross (rows_t b t) (rows_f b tl)
  end.

(** the statement has no sub-select and no derived table *)
Fixpoint flat_c (c : cond) : bool :=
  match c with
  | CTrue | CCmp _ _ _ => true
  | CAnd a b | COr a b => flat_c a && flat_c b
  | CNot a | CParen a => flat_c a
  | CExists _ | CIn _ _ | CCmpSub _ _ _ => false
  end.
Fixpoint flat_t (t : tref) : bool :=
  match t with TBase _ _ => true | TJoin l r on => flat_t l && flat_t r && flat_c on | TDerived _ _ => false end.
Fixpoint flat_f (f : flist) : bool :=
  match f with FNil => true | FCons t tl => flat_t t && flat_f tl end.
Definition flat_s (s : sel) : bool := flat_f (sel_from s) && flat_c (sel_where s).

Section Eval.
Variable cfg : CR.rcfg.
Variable like oop : bytes -> bytes -> bool.     (* LIKE; any other operator *)
Variable oth : N -> bytes.                      (* any other (row independent) expression *)

Definition ents_match (e : env) (q c : bytes) : list ent :=
  if empty q then filter (fun x => base_has cfg (e_tb x) c) e else filter (fun x => bytes_eqb (e_vis x) q) e.

Definition cell_of (e : env) (q c : bytes) : bytes :=
  match ents_match e q c with [x] => rcell (e_row x) c | _ => [] end.

Definition op_sem (op : cop) (a b : bytes) : bool :=
  match op with
  | OpEq | OpNse => bytes_eqb a b
  | OpNe => negb (bytes_eqb a b)
  | OpLike => like a b
  | OpNLike => negb (like a b)
  | OpOther => oop a b
  end.

Section Env.
Variable binds : list bytes.
Variable rv : cop -> expr -> expr -> bytes -> bytes.   (* how the right operand's value is read *)
Variable e : env.

Fixpoint ev_e (x : expr) : bytes :=
  match x with
  | ECol q c => cell_of e q c
  | EVal (VLit v) => v
  | EVal (VPar i) => nth i binds []
  | ECast y | EConv y => ev_e y
  | ESubstr y => substr 1 HASHN (ev_e y)
  | EOther n => oth n
  end.

Fixpoint ev_c (c : cond) : bool :=
  match c with
  | CTrue => true
  | CCmp op l r => op_sem op (ev_e l) (rv op l r (ev_e r))
  | CAnd a b => ev_c a && ev_c b
  | COr a b => ev_c a || ev_c b
  | CNot a => negb (ev_c a)
  | CParen a => ev_c a
  | CExists _ | CIn _ _ | CCmpSub _ _ _ => false
  end.

(** every ON condition of the FROM list holds *)
Fixpoint on_t (t : tref) : bool :=
  match t with TJoin l r on => on_t l && on_t r && ev_c on | _ => true end.
Fixpoint on_f (f : flist) : bool :=
  match f with FNil => true | FCons t tl => on_t t && on_f tl end.

Definition sat (s : sel) : bool := on_f (sel_from s) && ev_c (sel_where s).
End Env.

(** one flag per joined row, and the selected joined rows *)
Definition select_flags (binds : list bytes) (rv : cop -> expr -> expr -> bytes -> bytes) (b : db) (s : sel) : list bool :=
  map (fun e => sat binds rv e s) (rows_f b (sel_from s)).
Definition select_rows (binds : list bytes) (rv : cop -> expr -> expr -> bytes -> bytes) (b : db) (s : sel) : list env :=
  filter (fun e => sat binds rv e s) (rows_f b (sel_from s)).

End Eval.

Definition rv_id (op : cop) (l r : expr) (v : bytes) : bytes := v.

(** the plaintext side: the searched value of a comparison column-op-value that the SPECIFICATION of name resolution
    marks as searchable stands for [mean value] (an envelope of the owner stands for its content) *)
Definition rv_plain (cfg : CR.rcfg) (srch : list N) (d : dial) (mean : bytes -> bytes) (from : flist)
  (op : cop) (l r : expr) (v : bytes) : bytes :=
  match r with
  | ECol _ _ => v
  | _ => match spec_cmp cfg srch d 1 [scope_f from] op l r with Some _ => mean v | None => v end
  end.

(** placeholders of an expression *)
Fixpoint params_e (x : expr) : list nat :=
  match x with
  | EVal (VPar i) => [i]
  | ECast y | ESubstr y | EConv y => params_e y
  | _ => []
  end.

(** the configured setting of column c of table tb *)
Definition setting (cfg : CR.rcfg) (tb c : bytes) : option N := setting_of cfg (Some (tb, c)).

(** a column reference that does not denote a protected column (or denotes nothing) *)
Definition clear_ref (cfg : CR.rcfg) (from : flist) (q c : bytes) : bool :=
  match setting_of cfg (resolve cfg 1 (scope_f from) q c) with None => true | Some _ => false end.
Fixpoint clear_e (cfg : CR.rcfg) (from : flist) (x : expr) : bool :=
  match x with
  | ECol q c => clear_ref cfg from q c
  | ECast y | ESubstr y | EConv y => clear_e cfg from y
  | _ => true
  end.
