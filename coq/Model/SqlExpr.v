(** C13 model: the EXPRESSION fragment of acra's SQL parser/printer (sqlparser/sql.y, ast.go,
    ast_methods.go, token.go:scanString, dependency/sqltypes/value.go:encodeBytesSQL).

    Node kinds INSIDE the model (everything else of the grammar is only under the differential
    oracle of the harness):
      AndExpr OrExpr NotExpr ComparisonExpr(= < > <= >= != <=> in, not in, like, not like [escape],
      regexp, not regexp) RangeCond(between, not between) IsExpr(6 suffixes) BinaryExpr(& | ^ + - * /
      div % << >>) UnaryExpr(+ - ~ ! binary _binary) SQLVal(every ValType, CastType empty) NullVal
      BoolVal ColName(0-2 qualifiers) ParenExpr ValTuple FuncExpr(unqualified, not DISTINCT, plain
      expression arguments).
    The printer produces TOKENS (what sqlparser's Tokenizer returns for the text the Format methods
    print); text is modelled for string literals only ([escape_body]/[scan_string]).
    The parser is a precedence-climbing parser whose levels come from Gen/Prec.v (= the
    %left/%right table of sql.y).  No proofs here. *)
From Acra Require Import Lib.Bytes Gen.Prec.
From Coq Require Import Arith.

(* ---------- tokens ---------- *)
Inductive kw :=
| KAnd | KOr | KNot | KIs | KNull | KTrue | KFalse | KBetween | KIn | KLike | KEscape | KRegexp
| KDiv | KMod | KBinary | KUBinary
| KEq | KLt | KGt | KLe | KGe | KNe | KNse
| KBitOr | KBitAnd | KShl | KShr | KPlus | KMinus | KStar | KSlash | KPercent | KCaret
| KTilde | KBang | KLParen | KRParen | KComma | KDot.

Inductive tok :=
| TLit (t : N) (v : bytes)   (* SINGLE_QUOTE_STRING/INTEGRAL/FLOAT/HEXNUM/HEX/VALUE_ARG/BIT_LITERAL/PG_ESCAPE_STRING/DOLLAR_SIGN, t = the ValType it becomes *)
| TId (n : bytes)            (* ID (quoting is the tokenizer's business) *)
| TK (k : kw).

(* ---------- AST ---------- *)
Inductive binop := BBitAnd | BBitOr | BBitXor | BPlus | BMinus | BMult | BDiv | BIntDiv | BMod | BShl | BShr.
Inductive unop := UPlus | UMinus | UTilda | UBang | UBinary | UUBinary.
Inductive cmpop := CEq | CLt | CGt | CLe | CGe | CNe | CNse | CIn | CNotIn | CLike | CNotLike | CRegexp | CNotRegexp.
Inductive issuf := IsNull | IsNotNull | IsTrue | IsNotTrue | IsFalse | IsNotFalse.

Inductive expr :=
| EAnd (l r : expr)
| EOr (l r : expr)
| ENot (x : expr)
| ECmp (op : cmpop) (l r : expr)
| ECmpEsc (op : cmpop) (l r esc : expr)
| ERange (neg : bool) (l from to : expr)
| EIs (s : issuf) (x : expr)
| EBin (op : binop) (l r : expr)
| EUn (op : unop) (x : expr)
| ELit (t : N) (v : bytes)
| ENull
| EBool (b : bool)
| ECol (q : list bytes) (n : bytes)
| EParen (x : expr)
| ETuple (xs : list expr)
| EFunc (n : bytes) (args : list expr).

(* ---------- levels (2 * yacc level, so that ESCAPE can sit between comparison and value level) ---------- *)
Definition L_OR := 2 * PREC_OR.
Definition L_AND := 2 * PREC_AND.
Definition L_NOT := 2 * PREC_NOT.
Definition L_BETWEEN := 2 * PREC_BETWEEN.
Definition L_CMP := 2 * PREC_EQ.
Definition L_ESC := S L_CMP.
Definition L_VAL := S L_ESC.            (* lowest level of a value_expression operand *)
Definition L_UNARY := 2 * PREC_UNARY.
Definition L_ATOM := 2 * PREC_LEVELS + 2.
Definition L_TOP := S L_ATOM.

Definition binprec (o : binop) : nat :=
  2 * match o with
      | BBitAnd => PREC_BITAND | BBitOr => PREC_BITOR | BBitXor => PREC_CARET
      | BPlus => PREC_PLUS | BMinus => PREC_MINUS | BMult => PREC_STAR | BDiv => PREC_SLASH
      | BIntDiv => PREC_DIV | BMod => PREC_PERCENT | BShl => PREC_SHIFT_LEFT | BShr => PREC_SHIFT_RIGHT
      end.

Definition assoc_left (a : assoc) : bool := match a with ALeft => true | _ => false end.
Definition assoc_right (a : assoc) : bool := match a with ARight => true | _ => false end.

(** what the climbing parser below assumes about the yacc table; [parse] refuses to run otherwise *)
Definition prec_sane : bool :=
  forallb assoc_left [ASSOC_OR; ASSOC_AND; ASSOC_BETWEEN; ASSOC_EQ; ASSOC_LT; ASSOC_GT; ASSOC_LE; ASSOC_GE; ASSOC_NE;
                      ASSOC_NULL_SAFE_EQUAL; ASSOC_IS; ASSOC_LIKE; ASSOC_REGEXP; ASSOC_IN; ASSOC_BITOR; ASSOC_BITAND;
                      ASSOC_SHIFT_LEFT; ASSOC_SHIFT_RIGHT; ASSOC_PLUS; ASSOC_MINUS; ASSOC_STAR; ASSOC_SLASH; ASSOC_DIV;
                      ASSOC_PERCENT; ASSOC_MOD; ASSOC_CARET]
  && forallb assoc_right [ASSOC_NOT; UASSOC_PLUS; UASSOC_MINUS; UASSOC_TILDE; UASSOC_BANG; UASSOC_BINARY; UASSOC_UNDERSCORE_BINARY]
  && forallb (Nat.eqb PREC_UNARY) [UPREC_PLUS; UPREC_MINUS; UPREC_TILDE; UPREC_BANG; UPREC_BINARY; UPREC_UNDERSCORE_BINARY]
  && forallb (Nat.eqb PREC_EQ) [PREC_LT; PREC_GT; PREC_LE; PREC_GE; PREC_NE; PREC_NULL_SAFE_EQUAL; PREC_IS; PREC_LIKE; PREC_REGEXP; PREC_IN]
  && (PREC_PERCENT =? PREC_MOD)
  && (PREC_OR <? PREC_AND) && (PREC_AND <? PREC_NOT) && (PREC_NOT <? PREC_BETWEEN) && (PREC_BETWEEN <=? PREC_EQ)
  && forallb (fun p => (PREC_EQ <? p) && (p <? PREC_UNARY)) BINARY_RULE_PRECS
  && (PREC_UNARY <=? PREC_LEVELS).

(* ---------- printer (Format methods, as tokens) ---------- *)
Definition x_minus : byte := x2d.
Definition is_int (t : N) : bool := N.eqb t VT_IntVal.

Definition bin_tok (o : binop) : kw :=
  match o with
  | BBitAnd => KBitAnd | BBitOr => KBitOr | BBitXor => KCaret | BPlus => KPlus | BMinus => KMinus
  | BMult => KStar | BDiv => KSlash | BIntDiv => KDiv | BMod => KPercent | BShl => KShl | BShr => KShr
  end.
Definition un_tok (o : unop) : kw :=
  match o with UPlus => KPlus | UMinus => KMinus | UTilda => KTilde | UBang => KBang | UBinary => KBinary | UUBinary => KUBinary end.
Definition cmp_toks (o : cmpop) : list tok :=
  match o with
  | CEq => [TK KEq] | CLt => [TK KLt] | CGt => [TK KGt] | CLe => [TK KLe] | CGe => [TK KGe] | CNe => [TK KNe] | CNse => [TK KNse]
  | CIn => [TK KIn] | CNotIn => [TK KNot; TK KIn] | CLike => [TK KLike] | CNotLike => [TK KNot; TK KLike]
  | CRegexp => [TK KRegexp] | CNotRegexp => [TK KNot; TK KRegexp]
  end.
Definition is_toks (s : issuf) : list tok :=
  match s with
  | IsNull => [TK KIs; TK KNull] | IsNotNull => [TK KIs; TK KNot; TK KNull]
  | IsTrue => [TK KIs; TK KTrue] | IsNotTrue => [TK KIs; TK KNot; TK KTrue]
  | IsFalse => [TK KIs; TK KFalse] | IsNotFalse => [TK KIs; TK KNot; TK KFalse]
  end.

(** SQLVal.Format: the text of an IntVal "-5" is scanned back as '-' INTEGRAL *)
Definition lit_toks (t : N) (v : bytes) : list tok :=
  if is_int t then
    match v with
    | c :: v' => if byte_eqb c x_minus then [TK KMinus; TLit t v'] else [TLit t v]
    | [] => [TLit t v]
    end
  else [TLit t v].

Fixpoint col_toks (q : list bytes) (n : bytes) : list tok :=
  match q with
  | [] => [TId n]
  | a :: q' => TId a :: TK KDot :: col_toks q' n
  end.

Fixpoint print (e : expr) : list tok :=
  match e with
  | EAnd l r => print l ++ TK KAnd :: print r
  | EOr l r => print l ++ TK KOr :: print r
  | ENot x => TK KNot :: print x
  | ECmp op l r => print l ++ cmp_toks op ++ print r
  | ECmpEsc op l r esc => print l ++ cmp_toks op ++ print r ++ TK KEscape :: print esc
  | ERange neg l a b => print l ++ (if neg then [TK KNot; TK KBetween] else [TK KBetween]) ++ print a ++ TK KAnd :: print b
  | EIs s x => print x ++ is_toks s
  | EBin op l r => print l ++ TK (bin_tok op) :: print r
  | EUn op x => TK (un_tok op) :: print x
  | ELit t v => lit_toks t v
  | ENull => [TK KNull]
  | EBool b => [TK (if b then KTrue else KFalse)]
  | ECol q n => col_toks q n
  | EParen x => TK KLParen :: print x ++ [TK KRParen]
  | ETuple xs =>
      TK KLParen ::
      (fix pl (l : list expr) : list tok :=
         match l with [] => [] | [x] => print x | x :: l' => print x ++ TK KComma :: pl l' end) xs
      ++ [TK KRParen]
  | EFunc n args =>
      TId n :: TK KLParen ::
      (fix pl (l : list expr) : list tok :=
         match l with [] => [] | [x] => print x | x :: l' => print x ++ TK KComma :: pl l' end) args
      ++ [TK KRParen]
  end.

Fixpoint print_list (l : list expr) : list tok :=
  match l with [] => [] | [x] => print x | x :: l' => print x ++ TK KComma :: print_list l' end.

(* ---------- levels of nodes and what the yacc parser can build (WF) ---------- *)
Definition level (e : expr) : nat :=
  match e with
  | EOr _ _ => L_OR | EAnd _ _ => L_AND | ENot _ => L_NOT
  | ECmp _ _ _ | ECmpEsc _ _ _ _ | ERange _ _ _ _ | EIs _ _ => L_BETWEEN
  | EBin op _ _ => binprec op
  | EUn _ _ => L_UNARY
  | _ => L_ATOM
  end.

(** bound on the precedence of an infix token that may FOLLOW the printed form without being
    absorbed by its right-most operand *)
Definition rbound (e : expr) : nat :=
  match e with
  | EOr _ _ => S L_OR | EAnd _ _ => S L_AND | ENot _ => S L_NOT
  | ECmp _ _ _ | ECmpEsc _ _ _ _ | ERange _ _ _ _ => L_ESC
  | EBin op _ _ => S (binprec op)
  | _ => L_TOP
  end.

Definition is_v (e : expr) : bool := L_VAL <=? level e.   (* value_expression (not a boolean node) *)
Definition is_intlit (e : expr) : bool := match e with ELit t _ => is_int t | _ => false end.
Definition is_like (o : cmpop) : bool := match o with CLike | CNotLike => true | _ => false end.
Definition is_in (o : cmpop) : bool := match o with CIn | CNotIn => true | _ => false end.

(** IntVal payload: what '-'? INTEGRAL gives: decimal digits (non-empty), at most one leading '-'
    (the grammar folds '-' INTEGRAL into the literal) *)
Definition is_digit (c : byte) : bool := (48 <=? b2n c)%N && (b2n c <=? 57)%N.
Definition nonempty_digits (v : bytes) : bool :=
  match v with [] => false | _ => forallb is_digit v end.
Definition wf_lit (t : N) (v : bytes) : bool :=
  if is_int t then
    match v with
    | [] => false
    | c :: v' => if byte_eqb c x_minus then nonempty_digits v' else nonempty_digits v
    end
  else true.

Fixpoint wf (e : expr) : bool :=
  match e with
  | EOr l r => wf l && wf r && (L_OR <=? level l) && (S L_OR <=? level r)
  | EAnd l r => wf l && wf r && (L_AND <=? level l) && (S L_AND <=? level r)
  | ENot x => wf x && (L_NOT <=? level x)
  | ECmp op l r =>
      wf l && is_v l &&
      (if is_in op then
         match r with ETuple xs => negb (match xs with [] => true | _ => false end) && forallb wf xs | _ => false end
       else wf r && is_v r)
  | ECmpEsc op l r esc => is_like op && wf l && wf r && wf esc && is_v l && is_v r && is_v esc
  | ERange _ l a b => wf l && wf a && wf b && is_v l && is_v a && is_v b
  | EIs _ x => wf x && (L_BETWEEN <=? level x)
  | EBin op l r => wf l && wf r && (binprec op <=? level l) && (S (binprec op) <=? level r)
  | EUn op x => wf x && (L_UNARY <=? level x) &&
                match op with UPlus | UMinus => negb (is_intlit x) | _ => true end
  | ELit t v => wf_lit t v
  | ENull | EBool _ => true
  | ECol q _ => length q <=? 2
  | EParen x => wf x
  | ETuple xs => (2 <=? length xs) && forallb wf xs
  | EFunc _ args => forallb wf args
  end.

(* ---------- parser ---------- *)
Definition kw_eqb (a b : kw) : bool :=
  match a, b with
  | KAnd, KAnd | KOr, KOr | KNot, KNot | KIs, KIs | KNull, KNull | KTrue, KTrue | KFalse, KFalse
  | KBetween, KBetween | KIn, KIn | KLike, KLike | KEscape, KEscape | KRegexp, KRegexp | KDiv, KDiv
  | KMod, KMod | KBinary, KBinary | KUBinary, KUBinary | KEq, KEq | KLt, KLt | KGt, KGt | KLe, KLe
  | KGe, KGe | KNe, KNe | KNse, KNse | KBitOr, KBitOr | KBitAnd, KBitAnd | KShl, KShl | KShr, KShr
  | KPlus, KPlus | KMinus, KMinus | KStar, KStar | KSlash, KSlash | KPercent, KPercent
  | KCaret, KCaret | KTilde, KTilde | KBang, KBang | KLParen, KLParen | KRParen, KRParen
  | KComma, KComma | KDot, KDot => true
  | _, _ => false
  end.

Definition binop_of (k : kw) : option binop :=
  match k with
  | KBitAnd => Some BBitAnd | KBitOr => Some BBitOr | KCaret => Some BBitXor | KPlus => Some BPlus
  | KMinus => Some BMinus | KStar => Some BMult | KSlash => Some BDiv | KDiv => Some BIntDiv
  | KPercent => Some BMod | KMod => Some BMod | KShl => Some BShl | KShr => Some BShr
  | _ => None
  end.
Definition simple_cmp_of (k : kw) : option cmpop :=
  match k with
  | KEq => Some CEq | KLt => Some CLt | KGt => Some CGt | KLe => Some CLe | KGe => Some CGe
  | KNe => Some CNe | KNse => Some CNse | KRegexp => Some CRegexp
  | _ => None
  end.

(** precedence of the infix/postfix construct starting at the head of [ts] (None: no such construct) *)
Definition tokprec (ts : list tok) : option nat :=
  match ts with
  | TK k :: ts' =>
      match binop_of k with
      | Some o => Some (binprec o)
      | None =>
          match k with
          | KAnd => Some L_AND | KOr => Some L_OR
          | KEq | KLt | KGt | KLe | KGe | KNe | KNse | KRegexp | KIn | KLike | KIs => Some L_CMP
          | KBetween => Some L_BETWEEN
          | KEscape => Some L_ESC
          | KNot => match ts' with TK KBetween :: _ => Some L_BETWEEN | _ => Some L_CMP end
          | _ => None
          end
      end
  | _ => None
  end.

(** column_name: sql_id | table_id '.' id | table_id '.' id '.' id *)
Fixpoint pcol (acc : list bytes) (n : bytes) (ts : list tok) : option (list bytes * bytes * list tok) :=
  match ts with
  | TK KDot :: ts1 =>
      match ts1 with
      | TId m :: ts2 => if length acc <? 2 then pcol (acc ++ [n]) m ts2 else None
      | _ => None
      end
  | _ => Some (acc, n, ts)
  end.

(** '-' value_expression %prec UNARY  /  '+' value_expression %prec UNARY  (sql.y actions) *)
Definition fold_minus (x : expr) : option expr :=
  match x with
  | ELit t v =>
      if is_int t then
        match v with
        | [] => None (* num.Val[0] would panic; INTEGRAL tokens are never empty *)
        | c :: v' => if byte_eqb c x_minus then Some (ELit t v') else Some (ELit t (x_minus :: v))
        end
      else Some (EUn UMinus x)
  | _ => Some (EUn UMinus x)
  end.
Definition fold_plus (x : expr) : expr := if is_intlit x then x else EUn UPlus x.

Definition is_suffix (ts : list tok) : option (issuf * list tok) :=
  match ts with
  | TK KNull :: r => Some (IsNull, r)
  | TK KTrue :: r => Some (IsTrue, r)
  | TK KFalse :: r => Some (IsFalse, r)
  | TK KNot :: TK KNull :: r => Some (IsNotNull, r)
  | TK KNot :: TK KTrue :: r => Some (IsNotTrue, r)
  | TK KNot :: TK KFalse :: r => Some (IsNotFalse, r)
  | _ => None
  end.

Definition PR := option (expr * list tok).

Fixpoint pexpr (f : nat) (min : nat) (ts : list tok) {struct f} : PR :=
  match f with
  | O => None
  | S f =>
      match ts with
      | TK KNot :: ts1 =>
          if min <=? L_NOT then
            match pexpr f L_NOT ts1 with
            | Some (x, ts2) => ploop f min (ENot x) ts2
            | None => None
            end
          else None
      | _ =>
          match punary f ts with
          | Some (lhs, ts1) => ploop f min lhs ts1
          | None => None
          end
      end
  end

with ploop (f : nat) (min : nat) (lhs : expr) (ts : list tok) {struct f} : PR :=
  match f with
  | O => None
  | S f =>
      match tokprec ts with
      | None => Some (lhs, ts)
      | Some p =>
          if p <? min then Some (lhs, ts) else
          match ts with
          | TK k :: ts1 =>
              match binop_of k with
              | Some o =>
                  if is_v lhs then
                    match pexpr f (S p) ts1 with
                    | Some (r, ts2) => ploop f min (EBin o lhs r) ts2
                    | None => None
                    end
                  else None
              | None =>
                  match k with
                  | KAnd =>
                      match pexpr f (S L_AND) ts1 with
                      | Some (r, ts2) => ploop f min (EAnd lhs r) ts2
                      | None => None
                      end
                  | KOr =>
                      match pexpr f (S L_OR) ts1 with
                      | Some (r, ts2) => ploop f min (EOr lhs r) ts2
                      | None => None
                      end
                  | KIs =>
                      match is_suffix ts1 with
                      | Some (s, ts2) => ploop f min (EIs s lhs) ts2
                      | None => None
                      end
                  | KEscape => None
                  | KNot =>
                      if is_v lhs then
                        match ts1 with
                        | TK k' :: ts2 =>
                            match k' with
                            | KIn | KLike | KRegexp | KBetween => pcond f min lhs true k' ts2
                            | _ => None
                            end
                        | _ => None
                        end
                      else None
                  | _ =>
                      if is_v lhs then pcond f min lhs false k ts1
                      else None
                  end
              end
          | _ => None
          end
      end
  end

(** conditions: lhs [NOT] (cmp|IN|LIKE|REGEXP|BETWEEN) ...   ([k] is the token after the optional NOT, consumed by ploop) *)
with pcond (f : nat) (min : nat) (lhs : expr) (neg : bool) (k : kw) (ts : list tok) {struct f} : PR :=
  match f with
  | O => None
  | S f =>
      match k with
      | KNot => None
      | KIn =>
          match ts with
          | TK KLParen :: ts1 =>
              match pargs f ts1 with
              | Some (xs, ts2) => ploop f min (ECmp (if neg then CNotIn else CIn) lhs (ETuple xs)) ts2
              | None => None
              end
          | _ => None
          end
      | KLike =>
          match pexpr f L_VAL ts with
          | Some (r, ts1) =>
              match ts1 with
              | TK KEscape :: ts2 =>
                  match pexpr f L_VAL ts2 with
                  | Some (esc, ts3) => ploop f min (ECmpEsc (if neg then CNotLike else CLike) lhs r esc) ts3
                  | None => None
                  end
              | _ => ploop f min (ECmp (if neg then CNotLike else CLike) lhs r) ts1
              end
          | None => None
          end
      | KBetween =>
          match pexpr f L_VAL ts with
          | Some (a, ts1) =>
              match ts1 with
              | TK KAnd :: ts2 =>
                  match pexpr f L_VAL ts2 with
                  | Some (b, ts3) => ploop f min (ERange neg lhs a b) ts3
                  | None => None
                  end
              | _ => None
              end
          | None => None
          end
      | _ =>
          match simple_cmp_of k with
          | Some o =>
              if neg && negb (kw_eqb k KRegexp) then None else
              match pexpr f L_VAL ts with
              | Some (r, ts1) => ploop f min (ECmp (if neg then CNotRegexp else o) lhs r) ts1
              | None => None
              end
          | None => None
          end
      end
  end

(** prefix operators and atoms (operand of a prefix operator = prefix/atom: %prec UNARY binds tighter
    than every infix operator of the fragment) *)
with punary (f : nat) (ts : list tok) {struct f} : PR :=
  match f with
  | O => None
  | S f =>
      match ts with
      | TLit t v :: ts1 => Some (ELit t v, ts1)
      | TId n :: ts1 =>
          match pcol [] n ts1 with
          | Some (q, n', ts2) =>
              match ts2 with
              | TK KLParen :: ts3 =>
                  match q with
                  | [] =>
                      match ts3 with
                      | TK KRParen :: ts4 => Some (EFunc n' [], ts4)
                      | _ => match pargs f ts3 with
                             | Some (xs, ts4) => Some (EFunc n' xs, ts4)
                             | None => None
                             end
                      end
                  | _ => None
                  end
              | _ => Some (ECol q n', ts2)
              end
          | None => None
          end
      | TK k :: ts1 =>
          match k with
          | KNull => Some (ENull, ts1)
          | KTrue => Some (EBool true, ts1)
          | KFalse => Some (EBool false, ts1)
          | KLParen =>
              match pargs f ts1 with
              | Some ([x], ts2) => Some (EParen x, ts2)
              | Some (xs, ts2) => Some (ETuple xs, ts2)
              | None => None
              end
          | KMinus =>
              match punary f ts1 with
              | Some (x, ts2) => match fold_minus x with Some y => Some (y, ts2) | None => None end
              | None => None
              end
          | KPlus =>
              match punary f ts1 with Some (x, ts2) => Some (fold_plus x, ts2) | None => None end
          | KTilde => match punary f ts1 with Some (x, ts2) => Some (EUn UTilda x, ts2) | None => None end
          | KBang => match punary f ts1 with Some (x, ts2) => Some (EUn UBang x, ts2) | None => None end
          | KBinary => match punary f ts1 with Some (x, ts2) => Some (EUn UBinary x, ts2) | None => None end
          | KUBinary => match punary f ts1 with Some (x, ts2) => Some (EUn UUBinary x, ts2) | None => None end
          | _ => None
          end
      | [] => None
      end
  end

(** expression_list ')' : one or more expressions separated by ',', consumes the ')' *)
with pargs (f : nat) (ts : list tok) {struct f} : option (list expr * list tok) :=
  match f with
  | O => None
  | S f =>
      match pexpr f 0 ts with
      | Some (x, ts1) =>
          match ts1 with
          | TK KComma :: ts2 =>
              match pargs f ts2 with
              | Some (xs, ts3) => Some (x :: xs, ts3)
              | None => None
              end
          | TK KRParen :: ts2 => Some ([x], ts2)
          | _ => None
          end
      | None => None
      end
  end.

Definition parse_fuel (ts : list tok) : nat := 8 * length ts + 8.

Definition parse (ts : list tok) : option expr :=
  if prec_sane then
    match pexpr (parse_fuel ts) 0 ts with
    | Some (e, []) => Some e
    | _ => None
    end
  else None.

(* ---------- value substitution (encryptor/mysql/utils.go:UpdateExpressionValue edits one SQLVal) ---------- *)
(** path = child indices from the root (fields in Format order; list elements by position) *)
Fixpoint nth_set {A} (i : nat) (f : A -> option A) (l : list A) : option (list A) :=
  match l, i with
  | [], _ => None
  | x :: l', O => match f x with Some y => Some (y :: l') | None => None end
  | x :: l', S i' => match nth_set i' f l' with Some r => Some (x :: r) | None => None end
  end.

Definition omap {A B} (f : A -> B) (o : option A) : option B := match o with Some a => Some (f a) | None => None end.

Fixpoint subst (path : list nat) (t' : N) (v' : bytes) (e : expr) {struct e} : option expr :=
  match path with
  | [] => match e with ELit _ _ => Some (ELit t' v') | _ => None end
  | i :: p =>
      let go := subst p t' v' in
      match e, i with
      | EAnd l r, 0 => omap (fun l' => EAnd l' r) (go l)
      | EAnd l r, 1 => omap (fun r' => EAnd l r') (go r)
      | EOr l r, 0 => omap (fun l' => EOr l' r) (go l)
      | EOr l r, 1 => omap (fun r' => EOr l r') (go r)
      | ENot x, 0 => omap ENot (go x)
      | ECmp op l r, 0 => omap (fun l' => ECmp op l' r) (go l)
      | ECmp op l r, 1 => omap (fun r' => ECmp op l r') (go r)
      | ECmpEsc op l r c, 0 => omap (fun l' => ECmpEsc op l' r c) (go l)
      | ECmpEsc op l r c, 1 => omap (fun r' => ECmpEsc op l r' c) (go r)
      | ECmpEsc op l r c, 2 => omap (fun c' => ECmpEsc op l r c') (go c)
      | ERange n l a b, 0 => omap (fun l' => ERange n l' a b) (go l)
      | ERange n l a b, 1 => omap (fun a' => ERange n l a' b) (go a)
      | ERange n l a b, 2 => omap (fun b' => ERange n l a b') (go b)
      | EIs s x, 0 => omap (EIs s) (go x)
      | EBin op l r, 0 => omap (fun l' => EBin op l' r) (go l)
      | EBin op l r, 1 => omap (fun r' => EBin op l r') (go r)
      | EUn op x, 0 => omap (EUn op) (go x)
      | EParen x, 0 => omap EParen (go x)
      | ETuple xs, _ => omap ETuple
          ((fix ns (i : nat) (l : list expr) {struct l} : option (list expr) :=
              match l, i with
              | [], _ => None
              | x :: l', O => omap (fun y => y :: l') (go x)
              | x :: l', S i' => omap (cons x) (ns i' l')
              end) i xs)
      | EFunc n xs, _ => omap (EFunc n)
          ((fix ns (i : nat) (l : list expr) {struct l} : option (list expr) :=
              match l, i with
              | [], _ => None
              | x :: l', O => omap (fun y => y :: l') (go x)
              | x :: l', S i' => omap (cons x) (ns i' l')
              end) i xs)
      | _, _ => None
      end
  end.

(** the literal at [path] *)
Fixpoint lit_at (path : list nat) (e : expr) {struct e} : option (N * bytes) :=
  match path with
  | [] => match e with ELit t v => Some (t, v) | _ => None end
  | i :: p =>
      match e, i with
      | EAnd l _, 0 | EOr l _, 0 | ECmp _ l _, 0 | ECmpEsc _ l _ _, 0 | ERange _ l _ _, 0 | EBin _ l _, 0 => lit_at p l
      | EAnd _ r, 1 | EOr _ r, 1 | ECmp _ _ r, 1 | ECmpEsc _ _ r _, 1 | EBin _ _ r, 1 => lit_at p r
      | ERange _ _ a _, 1 => lit_at p a
      | ECmpEsc _ _ _ c, 2 => lit_at p c
      | ERange _ _ _ b, 2 => lit_at p b
      | ENot x, 0 | EIs _ x, 0 | EUn _ x, 0 | EParen x, 0 => lit_at p x
      | ETuple xs, _ | EFunc _ xs, _ =>
          (fix ns (i : nat) (l : list expr) {struct l} : option (N * bytes) :=
             match l, i with
             | [], _ => None
             | x :: _, O => lit_at p x
             | _ :: l', S i' => ns i' l'
             end) i xs
      | _, _ => None
      end
  end.

(** a replacement is admissible where the old literal stood if it is well-formed and does not turn a
    non-integer operand of a prefix +/- into an integer (the grammar would fold the sign into it) *)
Definition subst_ok (told : N) (t' : N) (v' : bytes) : bool :=
  wf_lit t' v' && (negb (is_int t') || is_int told).

(* ---------- string literals as text (sqltypes.encodeBytesSQL / Tokenizer.scanString) ---------- *)
Definition x_quote : byte := x27.
Definition x_bslash : byte := x5c.

Fixpoint assoc_byte (m : list (byte * byte)) (c : byte) : option byte :=
  match m with
  | [] => None
  | (a, b) :: m' => if byte_eqb a c then Some b else assoc_byte m' c
  end.

(** body between the quotes: SQLEncodeMap[ch] == DontEscape ? ch : '\\' + SQLEncodeMap[ch] *)
Fixpoint escape_body (v : bytes) : bytes :=
  match v with
  | [] => []
  | c :: v' =>
      match assoc_byte SQL_ENCODE_MAP c with
      | Some e => x_bslash :: e :: escape_body v'
      | None => c :: escape_body v'
      end
  end.
(** encodeBytesSQL: a leading "\x" (PostgreSQL hex string, [hexPrefix]) is written verbatim *)
Definition enc_body (v : bytes) : bytes :=
  match v with
  | c :: d :: v' => if byte_eqb c x_bslash && byte_eqb d x78 then c :: d :: escape_body v' else escape_body v
  | _ => escape_body v
  end.
Definition encode_sql (v : bytes) : bytes := x_quote :: enc_body v ++ [x_quote].

Definition is_x (c : byte) : bool := byte_eqb c x78 || byte_eqb c x58.

(** scanString after the opening quote. [first] = no quote/backslash processed yet (Go: index == 0),
    in which case "\x" is kept verbatim (PostgreSQL hex strings).  Returns the value and the text
    after the closing quote; None = LEX_ERROR (unterminated). *)
Fixpoint scan_string (first : bool) (acc : bytes) (s : bytes) : option (bytes * bytes) :=
  match s with
  | [] => None
  | c :: s1 =>
      if byte_eqb c x_bslash then
        match s1 with
        | [] => None
        | d :: s2 =>
            if first && is_x d then scan_string false (acc ++ [c; d]) s2
            else scan_string false (acc ++ [match assoc_byte SQL_DECODE_MAP d with Some o => o | None => d end]) s2
        end
      else if byte_eqb c x_quote then
        match s1 with
        | d :: s2 => if byte_eqb d x_quote then scan_string false (acc ++ [x_quote]) s2 else Some (acc, s1)
        | [] => Some (acc, [])
        end
      else scan_string first (acc ++ [c]) s1
  end.

(** text of a literal -> value: opening quote then [scan_string] *)
Definition decode_sql (s : bytes) : option (bytes * bytes) :=
  match s with
  | c :: s1 => if byte_eqb c x_quote then scan_string true [] s1 else None
  | [] => None
  end.
