(** Replay of observations of the REAL in-process PostgreSQL proxy (harness domain c04portal: message-level
    scripted client, portal-capable fake back end) on [Model.ProxyPortal.rrun].
    One op = one session: the client messages in the order the proxy's client side handled them and the
    database messages in the order its database side handled them (per collected group: client messages
    first - the queue is a FIFO, so the observations do not depend on the interleaving), with two kinds of
    observation points: [PHead] where the back end started to answer an Execute / Query (hook
    VerifPendingEntries: head of pendingQueryPackets = the settings its rows are handled with) and
    [PQuiet] where nothing was in flight (the whole queue). *)
From Acra Require Import Lib.Bytes Lib.Outcome.
From Acra Require Export Model.ProxyPortal.

Inductive expected := XOk (vals : list bytes) | XErr | XPanic.

Inductive op := PSess (evs : list pevent).

(* short names for the case files *)
Definition PRow := PDb DRow.
Definition PTermC := PDb (DTerm false).
Definition PTermS := PDb (DTerm true).
Definition PErr := PDb DErr.
Definition PReady := PDb DReady.
Definition PDbO := PDb DOther.

Definition enc_settings (s : settings) : bytes :=
  [n2b (if s_ext s then 1 else 0); n2b (s_sid s); n2b (s_fid s)].

Definition enc_obs (o : pobs) : bytes :=
  match o with
  | OHead None => [n2b 0]
  | OHead (Some s) => n2b 1 :: enc_settings s
  | OQueue q => n2b 2 :: flat_map enc_settings q
  | ODead => [n2b 221]
  end.

Definition run (o : op) : expected :=
  match o with PSess evs => XOk (map enc_obs (rrun rinit evs)) end.

Fixpoint list_bytes_eqb (a b : list bytes) : bool :=
  match a, b with
  | [], [] => true
  | x :: a', y :: b' => bytes_eqb x y && list_bytes_eqb a' b'
  | _, _ => false
  end.

Definition expected_eqb (a b : expected) : bool :=
  match a, b with
  | XOk x, XOk y => list_bytes_eqb x y
  | XErr, XErr => true
  | XPanic, XPanic => true
  | _, _ => false
  end.

Fixpoint mismatches_from (i : nat) (cs : list (op * expected)) : list (nat * expected) :=
  match cs with
  | [] => []
  | (o, e) :: rest =>
      let m := run o in
      if expected_eqb m e then mismatches_from (S i) rest else (i, m) :: mismatches_from (S i) rest
  end.
Definition mismatches := mismatches_from 0.
