(** Executable model of the column path a PostgreSQL proxy of acra installs (decryptor/postgresql/proxy.go,
    proxyFactory.New; decryptor/mysql/proxy.go builds the same detector) for masked columns (C11) and poison
    records (C15) whose stored value is a RAW legacy AcraStruct / AcraBlock or a serialized container:

      subscribers (base.ColumnDecryptionObserver.OnColumnDecryption, in this order):
        PgSQLDataDecoderProcessor ; OldContainerDetectorWrapper ; PgSQLDataEncoderProcessor
      callbacks of the EnvelopeDetector behind the wrapper (EnvelopeDetector.AddCallback, in this order):
        OldContainerDetectorWrapper (callbacks[0], sets hasMatchedEnvelope)
        PoisonRecordDetector        (only when a callback storage with callbacks is configured)
        DecryptHandler(masking.Processor(RegistryHandler))   (RegistryHandler alone when no column is masked)

    crypto/envelope_detector.go : OldContainerDetectorWrapper.{OnColumn,OnAcraStruct,OnAcraBlock}, with the
       event trace of Model/Poison.v (a callback run is an event; the value handed on is the final event).
       The model is the FIXED wrapper (patches/fix_wrapper_acrablock_alias.diff): ProcessAcraBlocks gets its
       own output buffer, so the pure [raw_scan] is its exact reading for ANY callback (a masking pattern may
       be longer than the AcraBlock it replaces).
    decryptor/postgresql/pg_decryptor.go : onColumnDecryption (setting -> context), handleDataRow's column
       loop (which column gets which setting; NULL columns skipped; the first error ends the row).
    decryptor/postgresql/data_encoder.go : decoder / encoder subscribers for settings without data type id.
    No proofs here. *)
From Acra Require Import Lib.Bytes Lib.Outcome Lib.GoSlice Lib.Sha256 Crypto.Interface Gen.Consts Gen.MaskConsts
  Model.Envelope Model.EnvelopeOld Model.Masking Model.Poison Model.Bytea.

(** * EnvelopeDetector.OnCryptoEnvelope / OldContainerDetectorWrapper.OnAcraStruct,OnAcraBlock with events *)
Definition detector_on_envelope_ev (cbs : list ecb) (container : bytes) : list event * res bytes :=
  let '(ev, r) := run_callbacks_ev cbs container in
  (ev, match r with
       | Ok None => Ok container
       | Ok (Some p) => Ok p
       | Err e => Err e
       | Panic => Panic
       end).

Definition on_old_envelope_ev (id : byte) (cbs : list ecb) (env : bytes) : list event * res bytes :=
  match sc_serialize env id with
  | Ok ser =>
      let '(ev, r) := detector_on_envelope_ev cbs ser in
      (ev, match r with
           | Ok processed => if bytes_eqb processed ser then Ok env else Ok processed
           | Err e => Err e
           | Panic => Panic
           end)
  | Err e => ([], Err e)
  | Panic => ([], Panic)
  end.

(** * ProcessAcraStructs / ProcessAcraBlocks with an effectful processor *)
Section RawScanEv.
Variable tag : bytes.
Variable cand : bytes -> option nat.
Variable proc : bytes -> list event * res bytes.

Fixpoint raw_scan_ev (fuel : nat) (rest out : bytes) : list event * res bytes :=
  match fuel with
  | O => ([], Err E_OUT_OF_FUEL)
  | S f =>
      match index_of tag rest with
      | None => ([], Ok (out ++ rest))
      | Some i =>
          let out1 := out ++ firstn i rest in
          let r := skipn i rest in
          match cand r with
          | Some l =>
              let '(ev, pr) := proc (firstn l r) in
              match pr with
              | Panic => (ev, Panic)
              | Err e => (ev, Err e)
              | Ok p => prepend ev (raw_scan_ev f (skipn l r) (out1 ++ p))
              end
          | None => raw_scan_ev f (skipn 1 r) (out1 ++ firstn 1 r)
          end
      end
  end.
End RawScanEv.

Definition process_acrastructs_ev (proc : bytes -> list event * res bytes) (inb : bytes) : list event * res bytes :=
  if Nat.ltb (length inb) as_min then ([], Ok inb)
  else raw_scan_ev as_tag as_candidate proc (S (length inb)) inb [].

Definition process_acrablocks_ev (proc : bytes -> list event * res bytes) (inb : bytes) : list event * res bytes :=
  if Nat.ltb (length inb) AB_MIN_SIZE then ([], Ok inb)
  else raw_scan_ev ab_tag ab_candidate proc (S (length inb)) inb [].

(** * EnvelopeDetector.OnColumn with events and the wrapper's "matched" flag *)
Fixpoint scan_m_ev (fuel : nat) (cbs : list ecb) (rest out : bytes) (changed matched : bool)
  : list event * res (bytes * bool * bool) :=
  match fuel with
  | O => ([], Err E_OUT_OF_FUEL)
  | S f =>
      match index_of sc_tag rest with
      | None => ([], Ok (out ++ rest, changed, matched))
      | Some i =>
          let out1 := out ++ firstn i rest in
          let r := skipn i rest in
          match sc_extract r with
          | Panic => ([], Panic)
          | Err _ => scan_m_ev f cbs (skipn 1 r) (out1 ++ firstn 1 r) changed matched
          | Ok (n, container) =>
              let '(ev, rc) := run_callbacks_ev cbs container in
              match rc with
              | Panic => (ev, Panic)
              | Err e => (ev, Err e)
              | Ok None => prepend ev (scan_m_ev f cbs (skipn 1 r) (out1 ++ firstn 1 r) changed true)
              | Ok (Some p) => prepend ev (scan_m_ev f cbs (skipn n r) (out1 ++ p) true true)
              end
          end
      end
  end.

Definition on_column_m_ev (cbs : list ecb) (inb : bytes) : list event * res (bytes * bool * bool) :=
  if Nat.ltb (length inb) SC_MIN_SIZE || is_nil cbs then ([], Ok (inb, false, false))
  else scan_m_ev (S (length inb)) cbs inb [] false false.

(** * OldContainerDetectorWrapper.OnColumn: events, then (output, "decrypted" mark).  [cbs] = the whole
    callback list of the detector, wrapper first. *)
Definition on_column_old_ev (cbs : list ecb) (inb : bytes) : list event * res (bytes * bool) :=
  let '(ev0, r0) := on_column_m_ev cbs inb in
  match r0 with
  | Panic => (ev0, Panic)
  | Err e => (ev0, Err e)
  | Ok (newResult, changed, matched) =>
      if matched || negb (bytes_eqb newResult inb) then (ev0, Ok (newResult, changed))
      else
        let '(ev1, r1) := process_acrastructs_ev (on_old_envelope_ev ENVELOPE_ID_ACRASTRUCT cbs) inb in
        match r1 with
        | Panic => (ev0 ++ ev1, Panic)
        | Err e => (ev0 ++ ev1, Err e)
        | Ok out1 =>
            let '(ev2, r2) := process_acrablocks_ev (on_old_envelope_ev ENVELOPE_ID_ACRABLOCK cbs) out1 in
            (ev0 ++ ev1 ++ ev2,
             match r2 with
             | Ok out2 => Ok (out2, negb (bytes_eqb inb out2))
             | Err e => Err e
             | Panic => Panic
             end)
        end
  end.

(** * the callback list proxyFactory.New builds *)
(* decryptorDataProcessor: masking.Processor over the registry handler; with no setting in the context or an
   empty pattern it IS the registry handler, which is also what is installed when no column is masked *)
Definition legacy_proc (C : crypto) (s : option mask_setting) (ks : keyset) : bytes -> res bytes :=
  masking_processor s (registry_process C ks) registry_match.

Definition legacy_chain (C : crypto) (has_cb cb_err : bool) (pk : poison_keys) (s : option mask_setting) (ks : keyset)
  : list ecb :=
  lift wrapper_cb :: proxy_chain C has_cb cb_err pk (legacy_proc C s ks).

(** the wrapper as the proxies subscribe it *)
Definition legacy_read_ev (C : crypto) (has_cb cb_err : bool) (pk : poison_keys) (s : option mask_setting) (ks : keyset)
  (col : bytes) : list event * res (bytes * bool) :=
  on_column_old_ev (legacy_chain C has_cb cb_err pk s ks) col.

(** * column subscribers (base.ColumnDecryptionObserver).  The context facts the three subscribers share:
    the "decrypted" mark and the encoded value the decoder saved. *)
Record sub_ctx := { sx_decrypted : bool; sx_encoded : option bytes }.
Definition subscriber := sub_ctx -> bytes -> list event * res (sub_ctx * bytes).

(* OnColumnDecryption: every subscriber in order; the first error ends the notification *)
Fixpoint notify (subs : list subscriber) (ctx : sub_ctx) (data : bytes) : list event * res (sub_ctx * bytes) :=
  match subs with
  | [] => ([], Ok (ctx, data))
  | sub :: rest =>
      let '(ev, r) := sub ctx data in
      match r with
      | Ok (ctx', data') => prepend ev (notify rest ctx' data')
      | Err e => (ev, Err e)
      | Panic => (ev, Panic)
      end
  end.

(* PgSQLDataDecoderProcessor.OnColumn for a setting without data type id (also for "no setting": an empty
   BasicColumnEncryptionSetting answers OnlyEncryption() = true): the value is bytea text (hex or escape
   format) and is decoded; what does not decode as escape format is handed on as it is; a hex error ends the
   column *)
Definition sub_decoder : subscriber := fun ctx data =>
  ([], match decode_escaped data with
       | Ok d => Ok ({| sx_decrypted := sx_decrypted ctx; sx_encoded := Some data |}, d)
       | Err e => if N.eqb e E_OCTAL then Ok (ctx, data) else Err e
       | Panic => Panic
       end).

(* the container detector subscriber: OldContainerDetectorWrapper.OnColumn *)
Definition sub_detector (cbs : list ecb) : subscriber := fun ctx data =>
  let '(ev, r) := on_column_old_ev cbs data in
  (ev, match r with
       | Ok (out, changed) =>
           Ok ({| sx_decrypted := sx_decrypted ctx || changed; sx_encoded := sx_encoded ctx |}, out)
       | Err e => Err e
       | Panic => Panic
       end).

(* PgSQLDataEncoderProcessor.OnColumn for a setting without data type id *)
Definition sub_encoder (binary : bool) : subscriber := fun ctx data =>
  ([], Ok (ctx,
     if is_nil data then data
     else if sx_decrypted ctx then (if binary then data else pg_encode_hex data)
     else match sx_encoded ctx with Some e => e | None => data end)).

Definition pg_subscribers (cbs : list ecb) (binary : bool) : list subscriber :=
  [sub_decoder; sub_detector cbs; sub_encoder binary].

Definition ctx0 : sub_ctx := {| sx_decrypted := false; sx_encoded := None |}.

Definition drop_ctx (r : list event * res (sub_ctx * bytes)) : list event * res bytes :=
  (fst r, match snd r with Ok (_, d) => Ok d | Err e => Err e | Panic => Panic end).

(** * setting -> context, accessing client -> keys *)
(* keystore: client id -> keys; an unknown client has none *)
Definition key_store := list (bytes * keyset).
Definition no_keys : keyset := {| ks_pub := None; ks_privs := []; ks_syms := []; ks_hmac := None |}.
Fixpoint client_keys (store : key_store) (cid : bytes) : keyset :=
  match store with
  | [] => no_keys
  | (id, ks) :: rest => if bytes_eqb id cid then ks else client_keys rest cid
  end.

(* handleDataRow: encryptionSettings[i].Setting() when the list exists, is long enough and the entry is
   not nil *)
Definition setting_for (settings : option (list (option mask_setting))) (i : nat) : option mask_setting :=
  match settings with
  | None => None
  | Some l => match nth_error l i with Some (Some s) => Some s | _ => None end
  end.

(* PgProxy.onColumnDecryption for column [i]: the column's setting goes into the context, the keys are those of
   the ACCESSING client (the access context of the session), never those named by the setting *)
Definition pg_column_ev (C : crypto) (has_cb cb_err : bool) (pk : poison_keys) (store : key_store) (cid : bytes)
  (s : option mask_setting) (binary : bool) (data : bytes) : list event * res bytes :=
  drop_ctx (notify (pg_subscribers (legacy_chain C has_cb cb_err pk s (client_keys store cid)) binary) ctx0 data).

(* the column loop of handleDataRow: NULL columns are skipped, the first error ends the row (nothing of the
   row is sent on) *)
Fixpoint row_ev (f : nat -> bytes -> list event * res bytes) (i : nat) (cols : list (option bytes))
  : list event * res (list (option bytes)) :=
  match cols with
  | [] => ([], Ok [])
  | None :: rest =>
      let '(ev, r) := row_ev f (S i) rest in
      (ev, match r with Ok l => Ok (None :: l) | Err e => Err e | Panic => Panic end)
  | Some d :: rest =>
      let '(ev, r) := f i d in
      match r with
      | Ok d' =>
          let '(ev2, r2) := row_ev f (S i) rest in
          (ev ++ ev2, match r2 with Ok l => Ok (Some d' :: l) | Err e => Err e | Panic => Panic end)
      | Err e => (ev, Err e)
      | Panic => (ev, Panic)
      end
  end.

Definition pg_data_row (C : crypto) (has_cb cb_err : bool) (pk : poison_keys) (store : key_store) (cid : bytes)
  (settings : option (list (option mask_setting))) (binary : bool) (cols : list (option bytes))
  : list event * res (list (option bytes)) :=
  row_ev (fun i d => pg_column_ev C has_cb cb_err pk store cid (setting_for settings i) binary d) 0 cols.
