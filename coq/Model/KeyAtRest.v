(** Keys at rest (C07): what acra's keystores hand to storage, as content terms.
    v1: keystore/keystore.go (KeyContext, GetKeyContextFromContext, SCellKeyEncryptor) and
    keystore/filesystem/server_keystore.go (GenerateClientIDSymmetricKey, GenerateHmacKey,
    GenerateDataEncryptionKeys/SaveKeyPairWithFilename, readEncryptedKey/loadKeyAndCache,
    getPrivateKeyByFilename, getPublicKeyByFilename) with the id checks of
    patches/fix_v1_validate_id.diff.  History directories (<name>.old/…) belong to C06 and are not
    modelled: the file map holds the current file of each name.
    v2: keystore/v2/keystore/filesystem/{key.go,keyRing.go,keyStore.go}: the associated data of
    every encrypted key = store prefix, ring path, key kind, sequence number.
    No proofs here (Proofs/KeyAtRest.v). *)
From Acra Require Import Lib.Bytes Lib.Outcome Crypto.Interface Gen.KsConsts Model.Path.

(** what a byte string at rest IS: clear bytes, or a Secure Cell seal of [b] under [key] with
    associated data [ctx] (nonce explicit) *)
Inductive content := Plain (b : bytes) | Sealed (key ctx nonce b : bytes).

Definition encode (C : crypto) (t : content) : bytes :=
  match t with Plain b => b | Sealed k c n b => seal_enc C k c n b end.

(** keystore.KeyContext and GetKeyContextFromContext: the purpose is NOT part of the bytes *)
Record kctx := { kc_purpose : bytes; kc_client : option bytes; kc_context : option bytes }.
Definition kctx_bytes (k : kctx) : bytes :=
  match kc_client k with
  | Some c => c
  | None => match kc_context k with Some c => c | None => [] end
  end.

Definition v1_purpose (k : v1kind) : bytes :=
  match k with
  | KStoragePriv => PURPOSE_STORAGE_PRIVATE
  | KStoragePub => PURPOSE_STORAGE_PUBLIC
  | KStorageSym => PURPOSE_STORAGE_SYM
  | KHmac => PURPOSE_SEARCH_HMAC
  end.
(** keystore.NewClientIDKeyContext(purpose, id) *)
Definition v1_kctx (k : v1kind) (id : bytes) : kctx :=
  {| kc_purpose := v1_purpose k; kc_client := Some id; kc_context := None |}.

(** SCellKeyEncryptor.Encrypt / Decrypt *)
Definition key_encrypt (master : bytes) (kc : kctx) (nonce key : bytes) : option content :=
  if is_nil master || is_nil key then None else Some (Sealed master (kctx_bytes kc) nonce key).
Definition key_decrypt (C : crypto) (master : bytes) (kc : kctx) (data : bytes) : option bytes :=
  cell_decrypt C master (kctx_bytes kc) data.

(** ---------- v1 state machine ---------- *)
Record cfg := { master : bytes; cache_key : bytes; key_dir : bytes }.
Record st := { files : list (bytes * bytes); cache : list (bytes * bytes) }.
Definition st0 : st := {| files := []; cache := [] |}.

Inductive sink := SFile (path : bytes) | SCache (name : bytes).
Definition event := (sink * content)%type.

Fixpoint lookup (k : bytes) (m : list (bytes * bytes)) : option bytes :=
  match m with
  | [] => None
  | (k', v) :: r => if bytes_eqb k k' then Some v else lookup k r
  end.
Definition put (k v : bytes) (m : list (bytes * bytes)) : list (bytes * bytes) := (k, v) :: m.

Inductive kop :=
| GenSym (id : bytes)            (* GenerateClientIDSymmetricKey *)
| GenHmac (id : bytes)           (* GenerateHmacKey *)
| GenPair (id : bytes)           (* GenerateDataEncryptionKeys *)
| GetSym (id : bytes)            (* GetClientIDSymmetricKey *)
| GetHmac (id : bytes)           (* GetHMACSecretKey *)
| GetPriv (id : bytes)           (* GetServerDecryptionPrivateKey *)
| GetPub (id : bytes)            (* GetClientIDEncryptionPublicKey *)
| CopyFile (k1 : v1kind) (id1 : bytes) (k2 : v1kind) (id2 : bytes)  (* outside the keystore: file copied over another *)
| ResetCache.                    (* Reset *)

Definition E_NOT_FOUND : N := 22.
Definition E_TAPE : N := 23.
Definition E_ENCRYPT : N := 24.

(** result of one step: new state, rest of the tape, value or error, storage events in order *)
Record outcome := { o_st : st; o_tape : list bytes; o_res : res bytes; o_events : list event }.
Definition fail (s : st) (t : list bytes) (e : N) : outcome :=
  {| o_st := s; o_tape := t; o_res := Err e; o_events := [] |}.

Definition apply_event (C : crypto) (s : st) (e : event) : st :=
  match e with
  | (SFile p, t) => {| files := put p (encode C t) (files s); cache := cache s |}
  | (SCache n, t) => {| files := files s; cache := put n (encode C t) (cache s) |}
  end.
Definition apply_events (C : crypto) (s : st) (es : list event) : st := fold_left (apply_event C) es s.

Definition priv_path (g : cfg) (k : v1kind) (id : bytes) : bytes := v1_path (key_dir g) (v1_fname k id).

(** readEncryptedKey / getPrivateKeyByFilename / GetHMACSecretKey: cache, else file + master
    key, then cache under the cache key *)
Definition load_secret (C : crypto) (g : cfg) (s : st) (tape : list bytes) (k : v1kind) (id : bytes) : outcome :=
  if negb (validate_id id) then fail s tape E_INVALID_CLIENT_ID else
  let name := v1_fname k id in
  match lookup name (cache s) with
  | Some enc =>
      match key_decrypt C (cache_key g) (v1_kctx k id) enc with
      | Some key => {| o_st := s; o_tape := tape; o_res := Ok key; o_events := [] |}
      | None => fail s tape E_DECRYPTION
      end
  | None =>
      match lookup (priv_path g k id) (files s) with
      | None => fail s tape E_NOT_FOUND
      | Some enc =>
          match key_decrypt C (master g) (v1_kctx k id) enc with
          | None => fail s tape E_DECRYPTION
          | Some key =>
              match tape with
              | n :: tape' =>
                  match key_encrypt (cache_key g) (v1_kctx k id) n key with
                  | None => fail s tape' E_ENCRYPT
                  | Some t =>
                      let ev := [(SCache name, t)] in
                      {| o_st := apply_events C s ev; o_tape := tape'; o_res := Ok key; o_events := ev |}
                  end
              | [] => fail s tape E_TAPE
              end
          end
      end
  end.

Definition step (C : crypto) (g : cfg) (s : st) (tape : list bytes) (o : kop) : outcome :=
  match o with
  | GenSym id =>
      if negb (validate_id id) then fail s tape E_INVALID_CLIENT_ID else
      match tape with
      | key :: n :: tape' =>
          match key_encrypt (master g) (v1_kctx KStorageSym id) n key with
          | None => fail s tape' E_ENCRYPT
          | Some t =>
              let ev := [(SFile (priv_path g KStorageSym id), t)] in
              {| o_st := apply_events C s ev; o_tape := tape'; o_res := Ok []; o_events := ev |}
          end
      | _ => fail s tape E_TAPE
      end
  | GenHmac id =>
      if negb (validate_id id) then fail s tape E_INVALID_CLIENT_ID else
      match tape with
      | key :: n1 :: n2 :: tape' =>
          match key_encrypt (master g) (v1_kctx KHmac id) n1 key,
                key_encrypt (cache_key g) (v1_kctx KHmac id) n2 key with
          | Some t1, Some t2 =>
              let ev := [(SFile (priv_path g KHmac id), t1); (SCache (v1_fname KHmac id), t2)] in
              {| o_st := apply_events C s ev; o_tape := tape'; o_res := Ok []; o_events := ev |}
          | _, _ => fail s tape' E_ENCRYPT
          end
      | _ => fail s tape E_TAPE
      end
  | GenPair id =>
      if negb (validate_id id) then fail s tape E_INVALID_CLIENT_ID else
      match tape with
      | seed :: n1 :: n2 :: tape' =>
          let (priv, pub) := keypair C seed in
          match key_encrypt (master g) (v1_kctx KStoragePriv id) n1 priv,
                key_encrypt (cache_key g) (v1_kctx KStoragePriv id) n2 priv with
          | Some t1, Some t2 =>
              let ev := [(SFile (priv_path g KStoragePriv id), t1);
                         (SFile (priv_path g KStoragePub id), Plain pub);
                         (SCache (v1_fname KStoragePriv id), t2);
                         (SCache (v1_fname KStoragePub id), Plain pub)] in
              {| o_st := apply_events C s ev; o_tape := tape'; o_res := Ok []; o_events := ev |}
          | _, _ => fail s tape' E_ENCRYPT
          end
      | _ => fail s tape E_TAPE
      end
  | GetSym id => load_secret C g s tape KStorageSym id
  | GetHmac id => load_secret C g s tape KHmac id
  | GetPriv id => load_secret C g s tape KStoragePriv id
  | GetPub id =>
      if negb (validate_id id) then fail s tape E_INVALID_CLIENT_ID else
      let name := priv_path g KStoragePub id in   (* cached under the full path *)
      match lookup name (cache s) with
      | Some pub => {| o_st := s; o_tape := tape; o_res := Ok pub; o_events := [] |}
      | None =>
          match lookup name (files s) with
          | None => fail s tape E_NOT_FOUND
          | Some pub =>
              let ev := [(SCache name, Plain pub)] in
              {| o_st := apply_events C s ev; o_tape := tape; o_res := Ok pub; o_events := ev |}
          end
      end
  | CopyFile k1 id1 k2 id2 =>
      match lookup (priv_path g k1 id1) (files s) with
      | None => fail s tape E_NOT_FOUND
      | Some v => {| o_st := {| files := put (priv_path g k2 id2) v (files s); cache := cache s |};
                     o_tape := tape; o_res := Ok []; o_events := [] |}
      end
  | ResetCache => {| o_st := {| files := files s; cache := [] |}; o_tape := tape; o_res := Ok []; o_events := [] |}
  end.

(** a history: all outcomes in order *)
Fixpoint run_hist (C : crypto) (g : cfg) (s : st) (tape : list bytes) (ops : list kop) : list outcome :=
  match ops with
  | [] => []
  | o :: r => let x := step C g s tape o in x :: run_hist C g (o_st x) (o_tape x) r
  end.
Definition trace (C : crypto) (g : cfg) (s : st) (tape : list bytes) (ops : list kop) : list event :=
  flat_map o_events (run_hist C g s tape ops).
Fixpoint final_st (C : crypto) (g : cfg) (s : st) (tape : list bytes) (ops : list kop) : st :=
  match ops with
  | [] => s
  | o :: r => let x := step C g s tape o in final_st C g (o_st x) (o_tape x) r
  end.

(** ---------- v2: associated data of an encrypted key ---------- *)
Fixpoint dec_digits (fuel : nat) (n : N) (acc : bytes) : bytes :=
  match fuel with
  | O => acc
  | S f => let d := n2b (48 + n mod 10) in
           if (n <? 10)%N then d :: acc else dec_digits f (n / 10) (d :: acc)
  end.
(** fmt.Sprintf("%d", n) for n >= 0 *)
Definition decimal (n : N) : bytes := dec_digits 40 n [].

(** KeyStore.keyStoreContext(KeyRing.keyRingContext(privateKeyContext/symmetricKeyContext(seqnum))) *)
Definition v2_key_ctx (path : bytes) (private : bool) (seq : N) : bytes :=
  V2_CTX_BEFORE_PATH ++ path ++ (if private then V2_CTX_PRIVATE else V2_CTX_SYMMETRIC) ++ decimal seq.

Definition v2_encrypt_key (C : crypto) (master path : bytes) (private : bool) (seq : N) (nonce key : bytes) : option content :=
  key_encrypt master {| kc_purpose := []; kc_client := None; kc_context := Some (v2_key_ctx path private seq) |} nonce key.
