(** Replay of implementation observations (sqlparser Parse / String / Tokenizer on whole statements) on the
    C13_statements model.  Every op carries what the Go code produced; [run] answers [XOk []] iff the model
    produces the same. *)
From Acra Require Import Lib.Bytes Lib.Outcome Gen.Prec. (* Lib.Outcome: imported by every generated case file *)
From Acra Require Export Gen.SqlWords Model.SqlStmt Model.SqlStmtParse Model.SqlStmtText Model.SqlStmtSubst.

Inductive expected := XOk (vals : list bytes) | XErr | XPanic.

(** what Go's Parse answered for the printed text of a tree *)
Inductive goparse :=
| GSame                 (* structurally the tree that was printed *)
| GErr                  (* syntax error *)
| GOther (t : stmt)     (* another tree of the fragment *)
| GOut.                 (* another tree, outside the modelled fragment *)

Inductive op :=
| SRound (pg : bool) (t : stmt) (ts : list tok) (txt : list bytes) (g : goparse)
    (* ts = Tokenizer(String(t)), txt = String(t) in chunks, g = Parse(String(t)) *)
| SParse (pg : bool) (ts : list tok) (r : option stmt)     (* r = exported Parse(text), ts = Tokenizer(text) *)
| SSubst (pg : bool) (t : stmt) (i : nat) (ty' : N) (v' : bytes) (t' : stmt)
    (* t' = the tree after the real UpdateExpressionValue turned the i-th literal (print order) of t into (ty', v') *)
| SLex (pg : bool) (txt : list bytes) (ts : option (list tok)). (* the real Tokenizer on arbitrary text *)

Fixpoint list_eqb {A} (eq : A -> A -> bool) (a b : list A) : bool :=
  match a, b with
  | [], [] => true
  | x :: a', y :: b' => eq x y && list_eqb eq a' b'
  | _, _ => false
  end.
Definition opt_eqb {A} (eq : A -> A -> bool) (a b : option A) : bool :=
  match a, b with Some x, Some y => eq x y | None, None => true | _, _ => false end.

Definition tok_eqb (a b : tok) : bool :=
  match a, b with
  | TLit t v, TLit t' v' => N.eqb t t' && bytes_eqb v v'
  | TId n, TId n' | TDq n, TDq n' | TCast n, TCast n' | TKw n, TKw n' => bytes_eqb n n'
  | TP p, TP p' => punct_eqb p p'
  | TW w, TW w' => word_eqb w w'
  | _, _ => false
  end.

Definition quote_tag (q : quote) : N := match q with QNone => 0 | QDq => 1 | QSq => 2 end%N.
Definition ident_eqb (a b : ident) : bool :=
  match a, b with Id q v, Id q' v' => N.eqb (quote_tag q) (quote_tag q') && bytes_eqb v v' end.
Definition idents_eqb := list_eqb ident_eqb.

Definition binop_tag (o : binop) : N :=
  match o with BBitAnd => 0 | BBitOr => 1 | BBitXor => 2 | BPlus => 3 | BMinus => 4 | BMult => 5 | BDiv => 6
             | BIntDiv => 7 | BMod => 8 | BShl => 9 | BShr => 10 end%N.
Definition unop_tag (o : unop) : N :=
  match o with UPlus => 0 | UMinus => 1 | UTilda => 2 | UBang => 3 | UBinary => 4 | UUBinary => 5 end%N.
Definition cmpop_tag (o : cmpop) : N :=
  match o with CEq => 0 | CLt => 1 | CGt => 2 | CLe => 3 | CGe => 4 | CNe => 5 | CNse => 6 | CIn => 7 | CNotIn => 8
             | CLike => 9 | CNotLike => 10 | CILike => 11 | CNotILike => 12 | CRegexp => 13 | CNotRegexp => 14 end%N.
Definition issuf_tag (s : issuf) : N :=
  match s with IsNull => 0 | IsNotNull => 1 | IsTrue => 2 | IsNotTrue => 3 | IsFalse => 4 | IsNotFalse => 5 end%N.
Definition jkind_tag (k : jkind) : N :=
  match k with JJoin => 0 | JStraight => 1 | JLeft => 2 | JRight => 3 | JNatural => 4 | JNaturalLeft => 5 | JNaturalRight => 6 end%N.
Definition utype_tag (u : utype) : N := match u with UUnion => 0 | UAll => 1 | UDistinct => 2 end%N.
Definition odir_tag (d : odir) : N :=
  match d with DAsc => 0 | DDesc => 1 | DAscNF => 2 | DAscNL => 3 | DDescNF => 4 | DDescNL => 5 end%N.
Definition lockk_tag (l : lockk) : N := match l with LkNone => 0 | LkForUpdate => 1 | LkShare => 2 end%N.
Definition ctype_eqb (a b : ctype) : bool :=
  match a, b with CT t l s, CT t' l' s' => bytes_eqb t t' && opt_eqb bytes_eqb l l' && opt_eqb bytes_eqb s s' end.

Fixpoint expr_eqb (a b : expr) {struct a} : bool :=
  match a, b with
  | EAnd l r, EAnd l' r' | EOr l r, EOr l' r' => expr_eqb l l' && expr_eqb r r'
  | ENot x, ENot x' | EParen x, EParen x' => expr_eqb x x'
  | ECmp o l r, ECmp o' l' r' => N.eqb (cmpop_tag o) (cmpop_tag o') && expr_eqb l l' && expr_eqb r r'
  | ECmpEsc o l r c, ECmpEsc o' l' r' c' =>
      N.eqb (cmpop_tag o) (cmpop_tag o') && expr_eqb l l' && expr_eqb r r' && expr_eqb c c'
  | ERange n l x y, ERange n' l' x' y' => Bool.eqb n n' && expr_eqb l l' && expr_eqb x x' && expr_eqb y y'
  | EIs s x, EIs s' x' => N.eqb (issuf_tag s) (issuf_tag s') && expr_eqb x x'
  | EExists q, EExists q' | ESubq q, ESubq q' => sel_eqb q q'
  | EBin o l r, EBin o' l' r' => N.eqb (binop_tag o) (binop_tag o') && expr_eqb l l' && expr_eqb r r'
  | EUn o x, EUn o' x' => N.eqb (unop_tag o) (unop_tag o') && expr_eqb x x'
  | ECollate x c, ECollate x' c' | EConvertUsing x c, EConvertUsing x' c' | EInterval x c, EInterval x' c' =>
      expr_eqb x x' && bytes_eqb c c'
  | ELit t v cs, ELit t' v' cs' => N.eqb t t' && bytes_eqb v v' && list_eqb bytes_eqb cs cs'
  | ENull, ENull | EDefault, EDefault => true
  | EBool x, EBool y => Bool.eqb x y
  | ECol q n, ECol q' n' | EValuesFunc q n, EValuesFunc q' n' => idents_eqb q q' && ident_eqb n n'
  | ETuple xs, ETuple ys => exprs_eqb xs ys
  | EFunc q n d xs, EFunc q' n' d' ys => ident_eqb q q' && bytes_eqb n n' && Bool.eqb d d' && selexprs_eqb xs ys
  | ECase x ws el, ECase x' ws' el' => oexpr_eqb x x' && whens_eqb ws ws' && oexpr_eqb el el'
  | EConvert x ty, EConvert x' ty' => expr_eqb x x' && ctype_eqb ty ty'
  | _, _ => false
  end
with exprs_eqb (a b : exprs) {struct a} : bool :=
  match a, b with
  | XNil, XNil => true
  | XCons x xs, XCons y ys => expr_eqb x y && exprs_eqb xs ys
  | _, _ => false
  end
with oexpr_eqb (a b : oexpr) {struct a} : bool :=
  match a, b with NoE, NoE => true | SomeE x, SomeE y => expr_eqb x y | _, _ => false end
with whens_eqb (a b : whens) {struct a} : bool :=
  match a, b with
  | WNil, WNil => true
  | WCons c v ws, WCons c' v' ws' => expr_eqb c c' && expr_eqb v v' && whens_eqb ws ws'
  | _, _ => false
  end
with selexpr_eqb (a b : selexpr) {struct a} : bool :=
  match a, b with
  | SStar q, SStar q' => idents_eqb q q'
  | SAliased x i, SAliased x' i' => expr_eqb x x' && ident_eqb i i'
  | _, _ => false
  end
with selexprs_eqb (a b : selexprs) {struct a} : bool :=
  match a, b with
  | SNil, SNil => true
  | SCons x xs, SCons y ys => selexpr_eqb x y && selexprs_eqb xs ys
  | _, _ => false
  end
with sel_eqb (a b : sel) {struct a} : bool :=
  match a, b with
  | Select d xs fr wh gb hv ob lm lk, Select d' xs' fr' wh' gb' hv' ob' lm' lk' =>
      Bool.eqb d d' && selexprs_eqb xs xs' && texprs_eqb fr fr' && oexpr_eqb wh wh' && exprs_eqb gb gb'
      && oexpr_eqb hv hv' && orders_eqb ob ob' && lim_eqb lm lm' && N.eqb (lockk_tag lk) (lockk_tag lk')
  | Union ty l r ob lm lk, Union ty' l' r' ob' lm' lk' =>
      N.eqb (utype_tag ty) (utype_tag ty') && sel_eqb l l' && sel_eqb r r' && orders_eqb ob ob' && lim_eqb lm lm'
      && N.eqb (lockk_tag lk) (lockk_tag lk')
  | ParenSel s, ParenSel s' => sel_eqb s s'
  | _, _ => false
  end
with texpr_eqb (a b : texpr) {struct a} : bool :=
  match a, b with
  | TTable q n i, TTable q' n' i' => ident_eqb q q' && ident_eqb n n' && ident_eqb i i'
  | TSubq s i, TSubq s' i' => sel_eqb s s' && ident_eqb i i'
  | TParen ts, TParen ts' => texprs_eqb ts ts'
  | TJoin l k r c, TJoin l' k' r' c' =>
      texpr_eqb l l' && N.eqb (jkind_tag k) (jkind_tag k') && texpr_eqb r r' && jcond_eqb c c'
  | _, _ => false
  end
with texprs_eqb (a b : texprs) {struct a} : bool :=
  match a, b with
  | TNil, TNil => true
  | TCons x xs, TCons y ys => texpr_eqb x y && texprs_eqb xs ys
  | _, _ => false
  end
with jcond_eqb (a b : jcond) {struct a} : bool :=
  match a, b with
  | JNone, JNone => true
  | JOn x, JOn y => expr_eqb x y
  | JUsing c, JUsing c' => idents_eqb c c'
  | _, _ => false
  end
with orders_eqb (a b : orders) {struct a} : bool :=
  match a, b with
  | ONil, ONil => true
  | OCons x d os, OCons x' d' os' => expr_eqb x x' && N.eqb (odir_tag d) (odir_tag d') && orders_eqb os os'
  | _, _ => false
  end
with lim_eqb (a b : lim) {struct a} : bool :=
  match a, b with
  | LNone, LNone | LAll, LAll => true
  | LOnly x, LOnly x' | LAllOffset x, LAllOffset x' => expr_eqb x x'
  | LOffset x y, LOffset x' y' | LComma x y, LComma x' y' => expr_eqb x x' && expr_eqb y y'
  | _, _ => false
  end.

Fixpoint updates_eqb (a b : updates) : bool :=
  match a, b with
  | UNil, UNil => true
  | UCons q n x us, UCons q' n' x' us' => idents_eqb q q' && ident_eqb n n' && expr_eqb x x' && updates_eqb us us'
  | _, _ => false
  end.
Fixpoint rows_eqb (a b : rows) : bool :=
  match a, b with
  | RNil, RNil => true
  | RCons r rs, RCons r' rs' => exprs_eqb r r' && rows_eqb rs rs'
  | _, _ => false
  end.
Definition irows_eqb (a b : irows) : bool :=
  match a, b with
  | IValues r, IValues r' => rows_eqb r r'
  | ISelect s, ISelect s' => sel_eqb s s'
  | _, _ => false
  end.
Definition stmt_eqb (a b : stmt) : bool :=
  match a, b with
  | SSelect s, SSelect s' => sel_eqb s s'
  | SInsert r i q n c rw d rt, SInsert r' i' q' n' c' rw' d' rt' =>
      Bool.eqb r r' && Bool.eqb i i' && ident_eqb q q' && ident_eqb n n' && idents_eqb c c' && irows_eqb rw rw'
      && updates_eqb d d' && selexprs_eqb rt rt'
  | SInsertDefault r i q n, SInsertDefault r' i' q' n' =>
      Bool.eqb r r' && Bool.eqb i i' && ident_eqb q q' && ident_eqb n n'
  | SUpdate ts st fr wh ob lm rt, SUpdate ts' st' fr' wh' ob' lm' rt' =>
      texprs_eqb ts ts' && updates_eqb st st' && texprs_eqb fr fr' && oexpr_eqb wh wh' && orders_eqb ob ob'
      && lim_eqb lm lm' && selexprs_eqb rt rt'
  | SDelete ts wh ob lm rt, SDelete ts' wh' ob' lm' rt' =>
      texprs_eqb ts ts' && oexpr_eqb wh wh' && orders_eqb ob ob' && lim_eqb lm lm' && selexprs_eqb rt rt'
  | SDeleteMulti tg ts wh rt, SDeleteMulti tg' ts' wh' rt' =>
      texprs_eqb tg tg' && texprs_eqb ts ts' && oexpr_eqb wh wh' && selexprs_eqb rt rt'
  | _, _ => false
  end.
Definition ostmt_eqb := opt_eqb stmt_eqb.

Definition agree (b : bool) : expected := if b then XOk [] else XErr.

(** model side of "does this tree survive print -> parse" *)
Definition roundtrips (pg : bool) (t : stmt) : bool := ostmt_eqb (parse pg (print_stmt pg t)) (Some t).

(** short constructors for the generated case files *)
Definition I (h : N) : ident := Id QNone (hb h).
Definition Iq (h : N) : ident := Id QDq (hb h).
Definition Is (h : N) : ident := Id QSq (hb h).
Definition I0 : ident := no_id.

(** the replacement of the i-th literal by v' is admissible ([lit_adm] at that literal): substituting a marked
    value where it is not makes the two results differ *)
Definition adm_at (i : nat) (ty' : N) (v' : bytes) (t : stmt) : bool :=
  stmt_eqb (isub_stmt (fun k uc ty v cs => if Nat.eqb k i then (ty', if lit_adm uc ty v ty' v' cs then v' else v' ++ [x00; x00]) else (ty, v)) t)
           (isub_stmt (at_index i ty' v') t).

Definition run (o : op) : expected :=
  match o with
  | SRound pg t ts txt g =>
      let toks := print_stmt pg t in
      agree (list_eqb tok_eqb toks ts                         (* token printer = Tokenizer(String(t)) *)
             && bytes_eqb (stext pg t) (concat txt)           (* text printer = String(t), byte for byte *)
             && opt_eqb (list_eqb tok_eqb) (lex pg (concat txt)) (Some ts)  (* model lexer = Tokenizer on that text *)
             && implb (wf_stmt pg t) (roundtrips pg t)        (* the theorem, executed *)
             && match g with
                | GSame => wf_stmt pg t && ostmt_eqb (parse pg ts) (Some t)
                | GErr => negb (wf_stmt pg t) && ostmt_eqb (parse pg ts) None
                | GOther t' => negb (wf_stmt pg t) && ostmt_eqb (parse pg ts) (Some t')
                | GOut => negb (wf_stmt pg t)
                end)
  | SParse pg ts r => agree (ostmt_eqb (parse pg ts) r)
  | SSubst pg t i ty' v' t' =>
      agree (stmt_eqb (isub_stmt (at_index i ty' v') t) t'
             && implb (wf_stmt pg t && adm_at i ty' v' t) (wf_stmt pg t' && roundtrips pg t'))
  | SLex pg txt ts => agree (opt_eqb (list_eqb tok_eqb) (lex pg (concat txt)) ts)
  end.

Definition expected_eqb (a b : expected) : bool :=
  match a, b with
  | XOk x, XOk y => list_eqb bytes_eqb x y
  | XErr, XErr => true
  | XPanic, XPanic => true
  | _, _ => false
  end.

Fixpoint mismatches_from (i : nat) (cs : list (op * expected)) : list (nat * expected) :=
  match cs with
  | [] => []
  | (o, e) :: rest =>
      let m := run o in
      if expected_eqb m e then mismatches_from (S i) rest else (i, m) :: mismatches_from (S i) rest
  end.
Definition mismatches := mismatches_from 0.
