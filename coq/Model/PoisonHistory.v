(** Poison detection over HISTORIES (C15, long-lived detector objects).
    crypto.PoisonRecordDetector lives as long as a database connection (proxyFactory.New builds one per proxy) or as
    long as the process (NewTranslatorService builds one per service).  Model/Poison.v describes what happens for ONE
    value; here the same objects are fed a sequence of values while the keystore changes under them.

    State.  The struct is {processor; keyStore; callbacks} (Gen/PoisonDetectorState.v lists the declared fields and
    which methods write them, regenerated from the sources on every run):
      processor  the RegistryHandler: [registry_process] (it holds a reference to the keystore only);
      keyStore   a REFERENCE to the keystore: its contents are not part of the detector, they are an input of every
                 step ([pk] = the poison keys the keystore holds at that time; [ks] = the keys of the client of that
                 value), so that any keystore history - keys added, rotated, removed between two values - is a history
                 of inputs;
      callbacks  the callback storage, set once by SetPoisonRecordCallbacks before the first value:
                 [ds_has_cb] = HasCallbacks(), [ds_cb_err] = Call() returns an error.
    OnCryptoEnvelope has a value receiver and writes nothing: [hstep] returns the state it was given.  The state is
    threaded explicitly all the same, so that a detector that does remember something is a machine of the same type
    ([machine], [cached_machine] below) and `history independence' is a statement that can fail.   No proofs here. *)
From Acra Require Import Lib.Bytes Lib.Outcome Lib.Sha256 Crypto.Interface Gen.Consts Gen.MaskConsts
  Model.Envelope Model.Poison.

(** the detector's own state *)
Record det_state := { ds_has_cb : bool; ds_cb_err : bool }.

(** one value of a history, together with the environment at that time *)
Inductive hval :=
| HVEnvelope (pk : poison_keys) (c : bytes)                             (* PoisonRecordDetector.OnCryptoEnvelope *)
| HVColumn (pk : poison_keys) (ks : keyset) (col : bytes)               (* EnvelopeDetector.OnColumn of the proxy chain *)
| HVTranslate (id : byte) (ks : keyset) (pk : poison_keys) (data : bytes). (* TranslatorService.Decrypt / DecryptSym *)

(** what came back for one value *)
Inductive hres :=
| HREnvelope (r : res bytes)
| HRColumn (r : res (bytes * bool))
| HRTranslate (r : res bytes).

Definition hout : Type := list event * hres.

(** a long-lived detector: a state and a step function *)
Record machine (S : Type) := { m_step : S -> hval -> S * hout }.
Arguments m_step {S}.

Fixpoint run_machine {S} (M : machine S) (s : S) (h : list hval) : list hout :=
  match h with
  | [] => []
  | v :: t => let '(s', o) := m_step M s v in o :: run_machine M s' t
  end.

Fixpoint state_after {S} (M : machine S) (s : S) (h : list hval) : S :=
  match h with
  | [] => s
  | v :: t => state_after M (fst (m_step M s v)) t
  end.

(** history independence of a long-lived object started in [s0]: after ANY prefix it answers the next value (events
    and result) exactly as it would answer it first *)
Definition history_independent {S} (M : machine S) (s0 : S) : Prop :=
  forall (pre : list hval) (v : hval), snd (m_step M (state_after M s0 pre) v) = snd (m_step M s0 v).

(** * the code as it is *)
Definition hstep (C : crypto) (s : det_state) (v : hval) : det_state * hout :=
  match v with
  | HVEnvelope pk c =>
      let '(ev, r) := poison_detector C (ds_has_cb s) (ds_cb_err s) pk c in (s, (ev, HREnvelope r))
  | HVColumn pk ks col =>
      let '(ev, r) := on_column_ev (proxy_chain C (ds_has_cb s) (ds_cb_err s) pk (registry_process C ks)) col in
      (s, (ev, HRColumn r))
  | HVTranslate id ks pk data =>
      let '(ev, r) := tr_decrypt_ev C id ks (ds_has_cb s) (ds_cb_err s) pk data in (s, (ev, HRTranslate r))
  end.

Definition detector_machine (C : crypto) : machine det_state := {| m_step := hstep C |}.

Definition run_history (C : crypto) (s : det_state) (h : list hval) : list hout := run_machine (detector_machine C) s h.

(** the trace of ONE value given to a fresh object (Model/Poison.v): callback runs, then the final event *)
Definition hfinal (r : hres) : event :=
  match r with
  | HREnvelope (Ok x) | HRTranslate (Ok x) => Deliver x
  | HRColumn (Ok (x, _)) => Deliver x
  | _ => Abort
  end.

Definition trace_of (o : hout) : list event := fst o ++ [hfinal (snd o)].

Definition value_trace (C : crypto) (has_cb cb_err : bool) (v : hval) : list event :=
  match v with
  | HVEnvelope pk c => finish (fun x => x) (poison_detector C has_cb cb_err pk c)
  | HVColumn pk ks col => column_trace C has_cb cb_err pk ks col
  | HVTranslate id ks pk data => translator_trace C id ks has_cb cb_err pk data
  end.

(** the traces of a history, value by value *)
Definition history_traces (C : crypto) (s : det_state) (h : list hval) : list (list event) :=
  map trace_of (run_history C s h).

(** does the value hold bytes a poison key of the keystore AT THAT TIME opens? *)
Definition opens_in (C : crypto) (pk : poison_keys) (data : bytes) : Prop :=
  exists j n c d, sc_extract (skipn j data) = Ok (n, c) /\ poison_opens C pk c = Ok d.

Definition value_has_poison (C : crypto) (v : hval) : Prop :=
  match v with
  | HVEnvelope pk c => exists d, poison_opens C pk c = Ok d
  | HVColumn pk _ col => opens_in C pk col
  | HVTranslate _ _ pk data => opens_in C pk data
  end.

Fixpoint count_callback_events (ev : list event) : nat :=
  match ev with
  | [] => 0
  | Callback :: r => S (count_callback_events r)
  | _ :: r => count_callback_events r
  end.

(** * a detector that remembers: the class `negative cache'
    Once the keystore answered "no such keys" for a container the detector stops asking.  The answer is per envelope
    kind (GetPoisonPrivateKeys for an AcraStruct, GetPoisonSymmetricKeys for an AcraBlock); the memory is one flag. *)
Definition keys_missing (pk : poison_keys) (c : bytes) : bool :=
  match envelope_kind c with
  | EnvNew id | EnvOld id => if byte_eqb id ENVELOPE_ID_ACRASTRUCT then is_nil (pk_privs pk) else is_nil (pk_syms pk)
  | EnvNone => false
  end.

Definition cached_detector (C : crypto) (has_cb cb_err : bool) (pk : poison_keys) (flag : bool) (c : bytes)
  : bool * (list event * res bytes) :=
  if negb has_cb then (flag, ([], Ok c))
  else if flag then (flag, ([], Ok c))
  else (keys_missing pk c, poison_detector C has_cb cb_err pk c).

Definition cached_step (C : crypto) (s : det_state * bool) (v : hval) : (det_state * bool) * hout :=
  match v with
  | HVEnvelope pk c =>
      let '(fl, (ev, r)) := cached_detector C (ds_has_cb (fst s)) (ds_cb_err (fst s)) pk (snd s) c in
      ((fst s, fl), (ev, HREnvelope r))
  | _ => (s, snd (hstep C (fst s) v))   (* only the direct calls are needed for the counterexample *)
  end.

Definition cached_machine (C : crypto) : machine (det_state * bool) := {| m_step := cached_step C |}.
