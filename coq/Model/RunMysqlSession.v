(** Replay of observations of the REAL MySQL proxy (in-process rig harness/myrig/c05my_*.go: configured
    AcraCensor, packet-level scripted client, recording fake back end) on the model Model/MysqlSession.v.
    Used by the correspondence check of C05 (domain c05my).
    Statement identifiers are [seq * 8 + class] as in RunPgSession: class 0 = table without settings,
    1..5 = int32 column with response_on_fail: default_value (default 40 + class), 6..7 = int32 column with
    response_on_fail: error. *)
From Coq Require Import List Bool NArith.
From Acra Require Import Lib.Bytes Lib.Outcome Gen.MysqlSessionConsts.
From Acra Require Export Model.MysqlSession.
Import ListNotations.
Local Open Scope N_scope.

Inductive expected := XOk (vals : list bytes) | XErr | XPanic.

Definition class (s : N) : N := N.land s 7.
Definition strict (s : N) : bool := 6 <=? class s.

(** one step of a recorded session: an exchange (command + the packets the back end answered with) or a
    sample of the proxy's own bookkeeping (hook VerifX05mySessionState) *)
Inductive ev := Ex (c : cmd) (seq parts : N) (ds : list dpkt) | Sample.

Inductive op :=
| OpSession (depeof : bool) (evs : list ev)
| OpErrPacket (protocol41 : bool) (first_seq cmd_len : N).   (* the bytes of the answer to a censored command *)

Definition T := true.
Definition F := false.
Definition Q := CQuery.
Definition P := CPrepare.
Definition E (id : N) := CExecute (Some id).
Definition EShort := CExecute None.
Definition CL := CClose.
Definition RS := CReset.
Definition LD := CLongData.
Definition OT := COther.
Definition OKp := DOk.
Definition ERp := DErr.
Definition EFp := DEof.
Definition PO := DPrepOk.
Definition DF := DDef.
Definition RSet := DResult.

Definition n8 (n : N) : bytes := le_enc 8 n.
Definition cls (o : option N) : byte := match o with Some s => n2b (class s) | None => x00 end.
Definition bb (b : bool) : byte := if b then x01 else x00.

Definition enc_fwd (f : fwd) : bytes :=
  match f with
  | FQuery s => n2b MYS_COM_QUERY :: n8 s
  | FPrepare s => n2b MYS_COM_STMT_PREPARE :: n8 s
  | FExecute id => n2b MYS_COM_STMT_EXECUTE :: n8 id
  | FClose id => n2b MYS_COM_STMT_CLOSE :: n8 id
  | FReset id => n2b MYS_COM_STMT_RESET :: n8 id
  | FLongData id => n2b MYS_COM_STMT_SEND_LONG_DATA :: n8 id
  | FOther => n2b MYS_COM_OTHER :: n8 0
  | FQuit => n2b MYS_COM_QUIT :: n8 0
  end.

(** what the harness can see of one output (a decodable value passes unchanged under every setting: 0xee;
    the two kinds of forwarded packets are not told apart; an unprocessed row looks like a row processed
    without settings: only COM_STMT_EXECUTE -1 can meet the default handler, its rows are binary) *)
Definition enc_out (o : out) : bytes :=
  match o with
  | ToDb f seq parts => x01 :: enc_fwd f ++ [n2b seq; n2b parts]
  | ErrToClient seq => [x02; n2b seq]
  | RowToClient st bin bad => [x03; if bad then cls st else xee; bb bin]
  | RowFailed st => [x04; cls st]
  | Pass => [x05]
  | PassDef => [x05]
  | RowRaw bad => [x03; if bad then x00 else xee; x01]
  | SessionClosed => [x0c]
  end.

Definition rh_code (h : rh) : byte :=
  match h with
  | HDefault => x00 | HQuery => x01 | HPrep => x02 | HParams _ _ _ => x03 | HCols _ _ => x04 | HReset => x05
  end.

Definition enc_opt (o : option N) : bytes := match o with Some s => x01 :: n8 s | None => [x00] end.

Definition enc_state (st : state) : bytes :=
  x10 :: rh_code (handler st) :: n2b (curcmd st) :: bb (closed st) :: enc_opt (pparse st)
  ++ flat_map (fun kv => n8 (fst kv) ++ n8 (snd kv)) (registry st).

Fixpoint replay (depeof : bool) (st : state) (evs : list ev) : list bytes :=
  match evs with
  | [] => []
  | Sample :: tl => enc_state st :: replay depeof st tl
  | Ex c seq parts ds :: tl =>
      let '(st1, os) := exchange strict depeof st (CP c seq parts) ds in
      map enc_out os ++ replay depeof st1 tl
  end.

Definition run (o : op) : expected :=
  match o with
  | OpSession depeof evs => XOk (replay depeof init evs)
  | OpErrPacket p41 first_seq cmd_len =>
      XOk [command_error_packet p41 MYS_QUERY_INTERRUPTED_MESSAGE first_seq cmd_len]
  end.

Fixpoint list_bytes_eqb (a b : list bytes) : bool :=
  match a, b with
  | [], [] => true
  | x :: a', y :: b' => bytes_eqb x y && list_bytes_eqb a' b'
  | _, _ => false
  end.

Definition expected_eqb (a b : expected) : bool :=
  match a, b with
  | XOk x, XOk y => list_bytes_eqb x y
  | XErr, XErr => true
  | XPanic, XPanic => true
  | _, _ => false
  end.

Fixpoint mismatches_from (i : nat) (cs : list (op * expected)) : list (nat * expected) :=
  match cs with
  | [] => []
  | (o, e) :: rest =>
      let m := run o in
      if expected_eqb m e then mismatches_from (S i) rest else (i, m) :: mismatches_from (S i) rest
  end.
