(** Key-ring signatures (C07) and export bundles (C18) of keystore v2 over abstract payload bytes:
    keystore/v2/keystore/signature/notary.go (Sign/Verify/signData/verifySignatures/algorithmWithOID),
    keystore/v2/keystore/crypto/signature.go (SignSha256: HMAC over context ++ ": " ++ data),
    keystore/v2/keystore/filesystem/keyStore.go (keyRingSignatureContext, signKeyRing, verifyKeyRing)
    and export.go (encryptAndSignKeyRings / decryptAndVerifyKeyRings).  The DER container is
    decoded by the harness; the model sees (payload bytes, [(algorithm OID, signature)]).
    The MAC is a parameter ([mac key msg]); Run instantiates it with HMAC-SHA-256. *)
From Acra Require Import Lib.Bytes Lib.Outcome Crypto.Interface Gen.KsConsts Model.Path Model.KeyAtRest.

Definition E_NO_SIGNATURE : N := 30.
Definition E_SIGNATURE : N := 31.

Section Notary.
  Variable mac : bytes -> bytes -> bytes.

  (** SignSha256.Sign: hmac(context ++ ": " ++ data) *)
  Definition mac_input (ctx payload : bytes) : bytes := ctx ++ SIG_SEPARATOR ++ payload.
  Definition alg_sign (key payload ctx : bytes) : bytes := mac key (mac_input ctx payload).
  Definition alg_verify (key sg payload ctx : bytes) : bool := bytes_eqb (alg_sign key payload ctx) sg.

  (** algorithms the notary knows: (OID, key) *)
  Fixpoint find_alg (algs : list (bytes * bytes)) (oid : bytes) : option bytes :=
    match algs with
    | [] => None
    | (o, k) :: r => if bytes_eqb o oid then Some k else find_alg r oid
    end.

  Definition sign_data (algs : list (bytes * bytes)) (payload ctx : bytes) : list (bytes * bytes) :=
    map (fun a => (fst a, alg_sign (snd a) payload ctx)) algs.

  (** Notary.verifySignatures: unknown algorithms are skipped, a known one that fails rejects,
      at least one must have verified *)
  Fixpoint verify_sigs (algs sigs : list (bytes * bytes)) (payload ctx : bytes) (verified : bool) : res unit :=
    match sigs with
    | [] => if verified then Ok tt else Err E_NO_SIGNATURE
    | (oid, sg) :: r =>
        match find_alg algs oid with
        | Some key => if alg_verify key sg payload ctx then verify_sigs algs r payload ctx true
                      else Err E_SIGNATURE
        | None => verify_sigs algs r payload ctx verified
        end
    end.

  (** KeyStore.keyRingSignatureContext *)
  Definition ring_sig_ctx (path : bytes) : bytes := V2_SIG_CTX_BEFORE_PATH ++ path.

  Definition sign_ring (algs : list (bytes * bytes)) (path payload : bytes) := sign_data algs payload (ring_sig_ctx path).
  Definition verify_ring (algs sigs : list (bytes * bytes)) (path payload : bytes) : res unit :=
    verify_sigs algs sigs payload (ring_sig_ctx path) false.

  (** ---- export bundle (C18): payload carries the encrypted serialised rings ---- *)
  (** encryptAndSignKeyRings: [ser] = DER of the decrypted rings, [payload_of enc] = DER of the signed
      payload around the encrypted bytes (both by the harness) *)
  Definition bundle_term (enc_key nonce ser : bytes) : option content :=
    key_encrypt enc_key {| kc_purpose := []; kc_client := None; kc_context := Some V2_EXPORT_CTX |} nonce ser.

  (** decryptAndVerifyKeyRings: signature first, then decryption under the export context *)
  Definition open_bundle (C : crypto) (algs sigs : list (bytes * bytes)) (enc_key payload enc : bytes) : res bytes :=
    match verify_sigs algs sigs payload V2_EXPORT_CTX false with
    | Ok _ => match cell_decrypt C enc_key V2_EXPORT_CTX enc with
              | Some ser => Ok ser
              | None => Err E_DECRYPTION
              end
    | Err e => Err e
    | Panic => Panic
    end.
End Notary.
