(** Numbers of encoding/json as acra's audit-log JSON path sees them (C20, extension):

    - [parse_float]  : what [json.Unmarshal] into [interface{}] makes of a number literal:
                       [strconv.ParseFloat(lit, 64)], correctly rounded (nearest, ties to even), as
                       the 64 IEEE-754 bits; [None] = "value out of range" (Unmarshal fails).
    - [render_float] : what [json.Marshal(float64)] prints: the SHORTEST decimal that reads back to
                       the same float ([strconv.AppendFloat(f, fmt, -1, 64)]), 'f' layout unless
                       |f| < 1e-6 or |f| >= 1e21 ('e' layout, "e-07" shortened to "e-7").

    Exact arithmetic on [Z]; a float is its bit pattern [bits : N] (< 2^64).  Both functions are
    replayed byte for byte against Go (ops [NumProbe], every number of every replayed line).
    No proofs in this file. *)
From Acra Require Import Lib.Bytes.
Local Open Scope Z_scope.

(** * decimal digits *)
Definition digit_byte (d : Z) : byte := n2b (Z.to_N (48 + d)).

Fixpoint digits_fuel (fuel : nat) (n : Z) (acc : bytes) : bytes :=
  match fuel with
  | O => acc
  | S f => if n <? 10 then digit_byte n :: acc else digits_fuel f (n / 10) (digit_byte (n mod 10) :: acc)
  end.
(** decimal digits of [n >= 0] ("0" for 0) *)
Definition digits_of (n : Z) : bytes := digits_fuel (S (Z.to_nat (Z.log2 n))) n [].

Definition is_digit (b : byte) : bool := let n := b2n b in ((48 <=? n) && (n <=? 57))%N.
Definition digit_val (b : byte) : Z := Z.of_N (b2n b) - 48.

(** * powers (square-and-multiply / shifts: [Z.pow] multiplies e times) *)
Fixpoint pow_sq (b : Z) (e : positive) : Z :=
  match e with
  | xH => b
  | xO e' => let h := pow_sq b e' in h * h
  | xI e' => let h := pow_sq b e' in b * (h * h)
  end.
Definition pow5 (e : Z) : Z := match e with Zpos p => pow_sq 5 p | _ => 1 end.
Definition pow2 (e : Z) : Z := match e with Zpos _ => Z.shiftl 1 e | _ => 1 end.
Definition pow10 (e : Z) : Z := match e with Zpos _ => Z.shiftl (pow5 e) e | _ => 1 end.

(** * IEEE-754 binary64 *)
Definition F_SIGN : Z := 2 ^ 63.
Definition F_HIDDEN : Z := 2 ^ 52.
Definition f_sign (bits : Z) : bool := F_SIGN <=? bits.
Definition f_abs (bits : Z) : Z := bits mod F_SIGN.
Definition f_ebits (bits : Z) : Z := (f_abs bits) / F_HIDDEN.
Definition f_frac (bits : Z) : Z := bits mod F_HIDDEN.
Definition f_finite (bits : Z) : bool := f_ebits bits <? 2047.

(** * strconv.ParseFloat on a JSON number literal *)

(** leading run of digits: (value, count, rest) *)
Fixpoint take_digits (s : bytes) (acc : Z) (cnt : Z) : Z * Z * bytes :=
  match s with
  | b :: r => if is_digit b then take_digits r (10 * acc + digit_val b) (cnt + 1) else (acc, cnt, s)
  | [] => (acc, cnt, [])
  end.

(** [-]digits[.digits][(e|E)[+|-]digits] -> (negative, all digits as one integer, decimal exponent);
    [None] if the text is not of that shape (cannot come out of the JSON scanner) *)
Definition scan_number (lit : bytes) : option (bool * Z * Z) :=
  let '(neg, s0) := match lit with x2d :: r => (true, r) | _ => (false, lit) end in
  let '(ip, ic, s1) := take_digits s0 0 0 in
  if ic =? 0 then None else
  let '(m, fc, s2) :=
    match s1 with
    | x2e :: r => let '(m, c, r') := take_digits r ip 0 in (m, c, r')
    | _ => (ip, -1, s1)
    end in
  if fc =? 0 then None else
  let fl := Z.max fc 0 in
  match s2 with
  | [] => Some (neg, m, - fl)
  | e :: r =>
      if byte_eqb e x65 || byte_eqb e x45 then
        let '(eneg, r1) := match r with x2d :: t => (true, t) | x2b :: t => (false, t) | _ => (false, r) end in
        let '(ev, ec, r2) := take_digits r1 0 0 in
        if ec =? 0 then None else
        match r2 with
        | [] => Some (neg, m, (if eneg then - ev else ev) - fl)
        | _ => None
        end
      else None
  end.

(** nearest binary64 of num/den (> 0) with the unit 2^e2: quotient rounded half to even *)
Definition div_round (num den : Z) (e2 : Z) : Z :=
  let n := if e2 <? 0 then num * pow2 (- e2) else num in
  let d := if e2 <? 0 then den else den * pow2 e2 in
  let q := n / d in
  let r := n mod d in
  if 2 * r <? d then q else if d <? 2 * r then q + 1 else if Z.even q then q else q + 1.
Definition div_floor (num den : Z) (e2 : Z) : Z :=
  (if e2 <? 0 then num * pow2 (- e2) else num) / (if e2 <? 0 then den else den * pow2 e2).

Definition F_MIN_E2 : Z := -1074.

(** bits of the float nearest to num/den > 0; [None] on overflow *)
Definition nearest_bits (num den : Z) : option Z :=
  let lb := Z.log2 num - Z.log2 den in            (* 2^(lb-1) < num/den < 2^(lb+1) *)
  let e0 := lb - 52 in
  (* the unit for which the TRUNCATED quotient has 53 bits (or the subnormal unit) *)
  let e2 := if div_floor num den e0 <? F_HIDDEN then e0 - 1 else e0 in
  let e2 := Z.max e2 F_MIN_E2 in
  let q := div_round num den e2 in
  (* rounding may carry into 2^53 *)
  let '(q, e2) := if q =? 2 * F_HIDDEN then (F_HIDDEN, e2 + 1) else (q, e2) in
  if q <? F_HIDDEN then Some q                                   (* subnormal (e2 = -1074) or zero *)
  else
    let eb := e2 + 1075 in
    if 2047 <=? eb then None else Some (eb * F_HIDDEN + (q - F_HIDDEN)).

Definition parse_float (lit : bytes) : option N :=
  match scan_number lit with
  | None => None
  | Some (neg, m, e10) =>
      let sgn := if neg then F_SIGN else 0 in
      if m =? 0 then Some (Z.to_N sgn) else
      (* decimal magnitude: 10^(mag-1) <= value < 10^(mag+1) *)
      let mag := (Z.log2 m * 30103) / 100000 + e10 in
      if 311 <? mag then None                        (* > 1e310: out of range *)
      else if mag <? -345 then Some (Z.to_N sgn)     (* < 1e-343: rounds to zero *)
      else
        let r := if e10 <? 0 then nearest_bits m (pow10 (- e10)) else nearest_bits (m * pow10 e10) 1 in
        match r with
        | Some b => Some (Z.to_N (sgn + b))
        | None => None
        end
  end.

(** * strconv.AppendFloat(f, fmt, -1, 64): shortest digits *)

(** Rounding interval of v: (v - dl, v + du), the ends count when [incl] (even mantissa).
    State of the search at 10^j = p:  q = v / p,  r = v mod p.  The candidates are the multiples of p
    next to v:  v - r (fits iff r < dl, or r = dl when [incl]) and v - r + p (fits iff p - r < du …). *)
Definition fits_dn (dl r : Z) (incl : bool) : bool := (r <? dl) || (incl && (r =? dl)).
Definition fits_up (du p r : Z) (incl : bool) : bool := (p - r <? du) || (incl && (p - r =? du)).

(** largest j such that a multiple of 10^j fits (searched upwards: the predicate is antitone in j;
    j = 0 always fits since r = 0) *)
Fixpoint shortest_pow (fuel : nat) (dl du : Z) (incl : bool) (j p q r : Z) : Z * Z * Z * Z :=
  match fuel with
  | O => (j, p, q, r)
  | S f =>
      let r' := r + (q mod 10) * p in
      let p' := 10 * p in
      if fits_dn dl r' incl || fits_up du p' r' incl
      then shortest_pow f dl du incl (j + 1) p' (q / 10) r'
      else (j, p, q, r)
  end.

(** (digits D, decimal exponent x): the shortest decimal D * 10^x in the interval, nearest to v.
    v = 4 * mant * sc with sc = 5^k (value scaled by 10^k, k = 2 - e2 > 0) or sc = 2^(e2-2).
    Every 10^j <= dl fits (r < 10^j <= dl), so the search starts at j0 just below dl; v / 10^j0 and
    v mod 10^j0 are taken without a long division: 10^j0 = 2^j0 * 5^j0 and one factor divides sc. *)
Definition shortest_decimal (mant e2 : Z) (narrow : bool) : Z * Z :=
  let e4 := e2 - 2 in
  let neg := e4 <? 0 in
  let k := if neg then - e4 else 0 in
  let l2 := if neg then (k * 232193) / 100000 else e4 in        (* floor (log2 sc) *)
  let j0 := Z.max 0 ((l2 * 30103) / 100000 - 1) in             (* 10^j0 <= sc <= dl *)
  let f5 := pow5 j0 in
  let rest := if neg then pow5 (k - j0) else pow2 (e4 - j0) in
  let sc := if neg then f5 * rest else pow2 e4 in
  let du := 2 * sc in
  let dl := if narrow then sc else 2 * sc in
  let incl := Z.even mant in
  let x := 4 * mant * rest in                                   (* v = x * (5^j0 resp. 2^j0) *)
  let q0 := if neg then Z.shiftr x j0 else x / f5 in
  let r0 := if neg then Z.land x (pow2 j0 - 1) * f5 else Z.shiftl (x mod f5) j0 in
  let '(j, p, q, r) := shortest_pow 40 dl du incl j0 (Z.shiftl f5 j0) q0 r0 in
  let okd := fits_dn dl r incl in
  let oku := fits_up du p r incl in
  let d :=
    if okd && oku then
      (if 2 * r <? p then q else if p <? 2 * r then q + 1 else if Z.even q then q else q + 1)
    else if okd then q else q + 1 in
  (d, j - k).

Definition zeros (n : Z) : bytes := repeat_bytes x30 (Z.to_nat n).

(** %e with the shortest digits: d[.ddd]e(+|-)xx (at least two exponent digits) *)
Definition fmt_e (ds : bytes) (dp : Z) : bytes :=
  let ex := dp - 1 in
  let ed := digits_of (Z.abs ex) in
  match ds with
  | [] => []
  | d :: rest =>
      d :: (match rest with [] => [] | _ => x2e :: rest end)
        ++ [x65; if ex <? 0 then x2d else x2b] ++ (if Z.abs ex <? 10 then x30 :: ed else ed)
  end.

(** %f with the shortest digits *)
Definition fmt_f (ds : bytes) (dp : Z) : bytes :=
  let nd := Z.of_nat (length ds) in
  let ip := if 0 <? dp then firstn (Z.to_nat dp) ds ++ zeros (dp - nd) else [x30] in
  let fr := if dp <? nd then
              (if dp <? 0 then zeros (- dp) ++ ds else skipn (Z.to_nat dp) ds)
            else [] in
  match fr with [] => ip | _ => ip ++ x2e :: fr end.

(** encoding/json: "e-07" -> "e-7" (n >= 4 && b[n-4]=='e' && b[n-3]=='-' && b[n-2]=='0') *)
Definition json_clean_exp (s : bytes) : bytes :=
  match rev s with
  | d :: x30 :: x2d :: x65 :: r => rev r ++ [x65; x2d; d]
  | _ => s
  end.

Definition bits_of_lit (lit : bytes) : Z := match parse_float lit with Some b => Z.of_N b | None => 0 end.
(** thresholds of encoding/json's floatEncoder: abs < 1e-6 || abs >= 1e21 selects the 'e' layout *)
Definition F_1E_6 : Z := Eval vm_compute in bits_of_lit [x31; x65; x2d; x36].
Definition F_1E21 : Z := Eval vm_compute in bits_of_lit [x31; x65; x32; x31].

(** json.Marshal(float64) for a finite float; "NaN"-like values are an error in Go ([None]) *)
Definition render_float (bits : N) : option bytes :=
  let b := Z.of_N bits in
  if negb (f_finite b) then None else
  let a := f_abs b in
  let sg := if f_sign b then [x2d] else [] in
  if a =? 0 then Some (sg ++ [x30]) else
  let eb := f_ebits b in
  let fr := f_frac b in
  let mant := if eb =? 0 then fr else F_HIDDEN + fr in
  let e2 := if eb =? 0 then F_MIN_E2 else eb - 1075 in
  let narrow := (fr =? 0) && (1 <? eb) in
  let '(d, x) := shortest_decimal mant e2 narrow in
  let ds := digits_of d in
  let dp := Z.of_nat (length ds) + x in
  if (a <? F_1E_6) || (F_1E21 <=? a) then Some (sg ++ json_clean_exp (fmt_e ds dp))
  else Some (sg ++ fmt_f ds dp).
