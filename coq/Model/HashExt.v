(** CHECKED model of the searchable-hash extractor and of every slicing that depends on it (hmac/hash.go,
    hmac/dataProcessor.go), for ANY registry of hash functions (property C14, work package x14log):

      ExtractHash, ExtractHashAndData                       -> [hx_extract_hash], [hx_extract_hash_and_data]
      hashFuncMap lookup                                    -> [hx_lookup] over [HX_REGISTRY] (Gen/ParsersConsts.v: the
                                                               registry probed from the real ExtractHash for all 256 tags)
      Processor.OnColumn                                    -> [hx_on_column]
      NewHashProcessor, DecryptRotatedSearchableAcraStruct, DecryptRotatedSearchableAcraBlock
                                                            -> [hx_strip_then] (all three: ExtractHash, then
                                                               [data[hash.Length():]] handed to the decrypting step)
    Slices are modelled with cap = len (Lib/GoSlice.v): a value copied out of a packet has exactly that shape, and
    it is where a wrong length check panics first; with spare capacity the same mistake reads past the value and
    the caller's [data[hash.Length():]] panics instead (the harness feeds both shapes).
    [extract_hash_checked] of Model/EnvelopeChecked.v is the instance for the one-entry registry. No proofs here. *)
From Acra Require Import Lib.Bytes Lib.Outcome Lib.GoSlice Gen.ParsersConsts.
From Coq Require Import ZifyN ZifyNat ZifyBool.
Local Open Scope Z_scope.

(** hashFuncMap[funcNumber(tag)]: the digest size of the registered function *)
Fixpoint hx_lookup (reg : list (N * Z)) (tag : byte) : option Z :=
  match reg with
  | [] => None
  | (t, size) :: r => if (t =? b2n tag)%N then Some size else hx_lookup r tag
  end.

Section Registry.
Variable reg : list (N * Z).

(** ExtractHash: [Some] = HashData.data *)
Definition hx_extract_hash (data : bytes) : res (option bytes) :=
  if len data =? 0 then Ok None else
  do tag <- gindex 0 data;
  match hx_lookup reg tag with
  | None => Ok None
  | Some size =>
      do t <- gslice_from 1 data;                 (* len(data[1:]) < size *)
      if len t <? size then Ok None
      else do h <- gslice_to (size + 1) data; Ok (Some h)
  end.

(** the seeded mistake m58 ([len(data) < size]), kept to state what the length check is for *)
Definition hx_extract_hash_m58 (data : bytes) : res (option bytes) :=
  if len data =? 0 then Ok None else
  do tag <- gindex 0 data;
  match hx_lookup reg tag with
  | None => Ok None
  | Some size =>
      if len data <? size then Ok None
      else do h <- gslice_to (size + 1) data; Ok (Some h)
  end.

(** ExtractHashAndData: [container[hashData.Length():]] *)
Definition hx_extract_hash_and_data (container : bytes) : res (option (bytes * bytes)) :=
  do h <- hx_extract_hash container;
  match h with
  | None => Ok None
  | Some hd => do r <- gslice_from (len hd) container; Ok (Some (hd, r))
  end.

(** Processor.OnColumn: (data passed on, Some (hashData, rawData) kept for the verifier) *)
Definition hx_on_column (matcher : bytes -> bool) (data : bytes) : res (bytes * option (bytes * bytes)) :=
  do mh <- hx_extract_hash data;
  match mh with
  | None => Ok (data, None)
  | Some hd =>
      do rest <- gslice_from (len hd) data;       (* data[matchedHash.Length():] *)
      if negb (matcher rest) then Ok (data, None)
      else
        let raw := gcopy (repeat x00 (length data)) data in   (* make + copy *)
        do mh2 <- hx_extract_hash raw;
        match mh2 with
        | None => Panic                            (* p.matchedHash.Length() on a nil Hash *)
        | Some hd2 =>
            do hashData <- gslice_to (len hd2) raw;
            do out <- gslice_from (len hd2) data;
            Ok (out, Some (hashData, raw))
        end
  end.

(** NewHashProcessor / DecryptRotatedSearchable*: what the inner step receives and the hash to compare with *)
Definition hx_strip_then {A} (inner : bytes -> res A) (data : bytes) : res (A * option bytes) :=
  do h <- hx_extract_hash data;
  match h with
  | None => do x <- inner data; Ok (x, None)
  | Some hd => do rest <- gslice_from (len hd) data; do x <- inner rest; Ok (x, Some hd)
  end.
End Registry.
