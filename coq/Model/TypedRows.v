(** C19, row level — executable model of the part of the PostgreSQL proxy that decides, for every column of a
    data row, in WHICH result format the cell is processed:
      decryptor/postgresql/utils.go   GetParameterFormatByIndex, BindPacket.GetResultFormats
      decryptor/postgresql/packet_handler.go   parseColumns (the per-column format look-up; the byte splitting
                                               of the packet is property C12's)
      decryptor/postgresql/pg_decryptor.go     handleQueryDataPacket (column loop) + onColumnDecryption
    composed with the per-cell model of the type-aware subscribers (Model/Typed.v [pg_cell]).
    NO proofs here. *)
From Acra Require Import Lib.Bytes Lib.Outcome Gen.TypedConsts Gen.TypedRowsConsts Model.Typed.
Local Open Scope N_scope.

Definition E_NOT_ENOUGH_FORMATS : N := 21.   (* ErrNotEnoughFormats *)
Definition E_UNKNOWN_FORMAT : N := 22.       (* ErrUnknownFormat *)

(** GetParameterFormatByIndex(i, params): the value is a base.BoundValueFormat.
    no codes => text; ONE code => that code for every index; otherwise the code at the index, an index
    beyond the list is an error; a code that is neither bindFormatText nor bindFormatBinary is an error. *)
Definition format_by_index (i : nat) (codes : list N) : res N :=
  match codes with
  | [] => Ok BOUND_TEXT
  | c0 :: rest =>
      do code <- match rest with
                 | [] => Ok c0
                 | _ => match nth_error codes i with
                        | Some c => Ok c
                        | None => Err E_NOT_ENOUGH_FORMATS
                        end
                 end;
      if code =? BIND_FORMAT_TEXT then Ok BOUND_TEXT
      else if code =? BIND_FORMAT_BINARY then Ok BOUND_BINARY
      else Err E_UNKNOWN_FORMAT
  end.

(** BindPacket.GetResultFormats: every code of the packet converted, first error wins; same length *)
Fixpoint result_formats_from (i : nat) (todo codes : list N) : res (list N) :=
  match todo with
  | [] => Ok []
  | _ :: r =>
      do f <- format_by_index i codes;
      do fs <- result_formats_from (S i) r codes;
      Ok (f :: fs)
  end.
Definition get_result_formats (codes : list N) : res (list N) := result_formats_from 0 codes codes.

(** one column of a data row: the setting the statement analysis found for the position (None = no setting)
    and the cell as the database sent it (None = NULL, length -1) *)
Record column := mk_col { col_setting : option setting; col_cell : option bytes }.

(** the setting the subscribers work with when the position has none: &config.BasicColumnEncryptionSetting{} *)
Definition empty_setting : setting := mk_setting 0 PEmpty None EMPTY_SETTING_BINOP EMPTY_SETTING_TYPE_AWARE.
Definition setting_or_empty (o : option setting) : setting :=
  match o with Some s => s | None => empty_setting end.

(** parseColumns: GetParameterFormatByIndex(i, columnFormats) for every column (NULL ones too), on the
    CONVERTED list *)
Fixpoint parse_formats (i : nat) (cols : list column) (column_formats : list N) : res unit :=
  match cols with
  | [] => Ok tt
  | _ :: r => do _ <- format_by_index i column_formats; parse_formats (S i) r column_formats
  end.

(** the column loop of handleQueryDataPacket.  [fmts] = the result-format codes of the Bind packet as sent
    (None = simple protocol: no Bind packet, text).  [reveal i] = the reveal step of column [i] (any
    function of the decoded bytes).  The first error ends the row: nothing of it is delivered. *)
Fixpoint row_cells (fmts : option (list N)) (reveal : nat -> bytes -> option bytes) (i : nat) (cols : list column)
  : res (list (option bytes)) :=
  match cols with
  | [] => Ok []
  | c :: rest =>
      match col_cell c with
      | None => do tl <- row_cells fmts reveal (S i) rest; Ok (None :: tl)
      | Some data =>
          do f <- match fmts with
                  | Some codes => format_by_index i codes
                  | None => Ok DATA_FORMAT_TEXT
                  end;
          do v <- pg_cell (setting_or_empty (col_setting c)) (f =? DATA_FORMAT_BINARY) (reveal i) data;
          do tl <- row_cells fmts reveal (S i) rest;
          Ok (Some v :: tl)
      end
  end.

(** handleQueryDataPacket for one DataRow of the pending statement *)
Definition handle_data_row (fmts : option (list N)) (reveal : nat -> bytes -> option bytes) (cols : list column)
  : res (list (option bytes)) :=
  do column_formats <- match fmts with
                       | Some codes => get_result_formats codes
                       | None => Ok [BOUND_TEXT]
                       end;
  do _ <- parse_formats 0 cols column_formats;
  row_cells fmts reveal 0 cols.
